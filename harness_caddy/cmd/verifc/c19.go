package main

import (
	"context"
	"crypto/rsa"
	"encoding/json"
	"fmt"
	"net/http"
	"net/http/httptest"
	"net/url"
	"os"
	"path/filepath"
	"regexp"
	"strings"
	"time"

	"github.com/caddyserver/caddy/v2"
	"github.com/caddyserver/caddy/v2/caddyconfig/caddyfile"
	"github.com/caddyserver/caddy/v2/modules/caddyhttp"
	"github.com/dunglas/mercure"
	mc "github.com/dunglas/mercure/caddy"
	"github.com/golang-jwt/jwt/v5"
	"github.com/spf13/viper"

	ce "verifh/coqemit"
	"verifh/hx"
)

const (
	k1 = "key-one-aaaaaaaaaaaaaaaa"
	k2 = "key-two-bbbbbbbbbbbbbbbb"
	k3 = "key-never-configured-cccc"
	k4 = "key{2024}-with-braces-dddd" // not a known placeholder: used verbatim
)

type cand struct {
	key, alg string
	method   jwt.SigningMethod
	signKey  any
}

var rsaPriv *rsa.PrivateKey

func cands() []cand {
	if rsaPriv == nil {
		k, err := jwt.ParseRSAPrivateKeyFromPEM([]byte(rsaPrivPEM))
		if err != nil {
			panic(err)
		}
		rsaPriv = k
	}
	hs := []jwt.SigningMethod{jwt.SigningMethodHS256, jwt.SigningMethodHS384, jwt.SigningMethodHS512}
	var l []cand
	for _, k := range []string{k1, k2, rsaPubPEM, k4} {
		for _, m := range hs {
			l = append(l, cand{k, m.Alg(), m, []byte(k)})
		}
	}
	return append(l, cand{rsaPubPEM, "RS256", jwt.SigningMethodRS256, rsaPriv}, cand{k3, "HS256", jwt.SigningMethodHS256, []byte(k3)})
}

var (
	keyUniverse    = []string{k1, k2, rsaPubPEM, k4, ""}
	algUniverse    = []string{"HS256", "HS384", "HS512", "RS256", "ES256", "XX", "none"}
	originUniverse = []string{"http://a.example", "https://b.example:8443", "*", "null", "a.example", "http://a.example/path", "http://u@a.example", "http://a.example?x=1", "http://c.example"}
	probeOrigins   = []string{"http://a.example", "https://b.example:8443", "http://c.example", "http://z.example"}
	nameUniverse   = []string{"c1", "myCookie", ""}
	probeNames     = []string{"mercureAuthorization", "c1", "myCookie", "other"}
	durUniverse    = []string{"5s", "1m", "250ms", "90s", "0"} // an explicit zero disables the timer: it is not "unset"
)

// independent of the hub: which algorithm / key pairs are usable, which origins are well-formed
func keyOK(alg, key string) bool {
	switch alg {
	case "HS256", "HS384", "HS512":
		return true
	case "RS256":
		return key == rsaPubPEM
	}
	return false
}

var originRe = regexp.MustCompile(`^[a-z][a-z0-9+.-]*://[a-z0-9.-]+(:[0-9]+)?$`)

func originOK(o string) bool { return o == "*" || o == "null" || originRe.MatchString(o) }

// ---- inputs ----
type directive struct {
	Kind string   `json:"k"`
	Args []string `json:"a,omitempty"`
}

type legacy struct {
	JwtKey, JwtAlg, PubKey, PubAlg, SubKey, SubAlg string
	Anonymous, Subscriptions                       bool
	PublishOrigins, CorsOrigins                    []string
}

type jsonFields struct {
	Anonymous, Subscriptions bool
	Pub, Sub                 *[2]string // key, alg
	PublishOrigins, Cors     []string
	Cookie                   string
	Compat                   int
	WT, DT, HB               *int64
	Transport                string // "", "bolt", "local"
}

type input struct {
	Form   string      `json:"form"`
	Style  string      `json:"style,omitempty"` // transport rendering for the Caddyfile form: module | url
	Env    string      `json:"env,omitempty"`   // MERCURE_TRANSPORT_URL: "", bolt, local
	Ds     []directive `json:"ds,omitempty"`
	JSON   *jsonFields `json:"json,omitempty"`
	Legacy *legacy     `json:"legacy,omitempty"`
}

func pickOrigins(r *hx.Rng) []string {
	n := 1 + r.Intn(3)
	var l []string
	for i := 0; i < n; i++ {
		if r.Chance(0.8) {
			l = append(l, originUniverse[r.Intn(4)])
		} else {
			l = append(l, originUniverse[r.Intn(len(originUniverse))])
		}
	}
	return l
}

func pickKey(r *hx.Rng) string {
	if r.Chance(0.06) {
		return ""
	}
	return keyUniverse[r.Intn(4)]
}

func pickAlg(r *hx.Rng, key string) []string {
	if r.Chance(0.4) {
		return nil
	}
	if key == rsaPubPEM && r.Chance(0.6) {
		return []string{"RS256"}
	}
	if r.Chance(0.8) {
		return []string{algUniverse[r.Intn(3)]}
	}
	if r.Chance(0.2) {
		return []string{""}
	}
	return []string{algUniverse[r.Intn(len(algUniverse))]}
}

func genDirectives(r *hx.Rng) []directive {
	var ds []directive
	add := func(k string, a ...string) { ds = append(ds, directive{k, a}) }
	jwt := func(kind string) {
		k := pickKey(r)
		add(kind, append([]string{k}, pickAlg(r, k)...)...)
	}
	if r.Chance(0.88) {
		jwt("publisher_jwt")
		if r.Chance(0.15) {
			jwt("publisher_jwt")
		}
	}
	if r.Chance(0.7) {
		jwt("subscriber_jwt")
		if r.Chance(0.15) {
			jwt("subscriber_jwt")
		}
	}
	if r.Chance(0.4) {
		add("anonymous")
	}
	if r.Chance(0.3) {
		add("subscriptions")
	}
	for i := 0; i < 2; i++ {
		if r.Chance(0.3) {
			add("publish_origins", pickOrigins(r)...)
		}
		if r.Chance(0.3) {
			add("cors_origins", pickOrigins(r)...)
		}
		if r.Chance(0.25) {
			add("cookie_name", r.Pick(nameUniverse))
		}
		if r.Chance(0.12) {
			add("write_timeout", r.Pick(durUniverse))
		}
		if r.Chance(0.12) {
			add("dispatch_timeout", r.Pick(durUniverse))
		}
		if r.Chance(0.12) {
			add("heartbeat", r.Pick(durUniverse))
		}
		if r.Chance(0.3) {
			add("transport", r.Pick([]string{"bolt", "local"}))
		}
	}
	if r.Chance(0.2) {
		if r.Chance(0.75) {
			add("protocol_version_compatibility", "7")
		} else {
			add("protocol_version_compatibility", r.Pick([]string{"6", "8", "0"}))
		}
	}
	r.Shuffle(len(ds), func(i, j int) { ds[i], ds[j] = ds[j], ds[i] })
	return ds
}

func genJSON(r *hx.Rng) *jsonFields {
	f := &jsonFields{}
	if r.Chance(0.9) {
		k := pickKey(r)
		a := pickAlg(r, k)
		p := [2]string{k, ""}
		if a != nil {
			p[1] = a[0]
		}
		f.Pub = &p
	}
	if r.Chance(0.7) {
		k := pickKey(r)
		a := pickAlg(r, k)
		p := [2]string{k, ""}
		if a != nil {
			p[1] = a[0]
		}
		f.Sub = &p
	}
	f.Anonymous = r.Chance(0.4)
	f.Subscriptions = r.Chance(0.3)
	if r.Chance(0.35) {
		f.PublishOrigins = pickOrigins(r)
	}
	if r.Chance(0.35) {
		f.Cors = pickOrigins(r)
	}
	if r.Chance(0.3) {
		f.Cookie = r.Pick(nameUniverse)
	}
	if r.Chance(0.25) {
		f.Compat = []int{7, 7, 7, 8, 6, -1}[r.Intn(6)]
	}
	dur := func() *int64 {
		if r.Chance(0.15) {
			d, _ := time.ParseDuration(r.Pick(durUniverse))
			v := int64(d)
			return &v
		}
		return nil
	}
	f.WT, f.DT, f.HB = dur(), dur(), dur()
	f.Transport = r.Pick([]string{"", "", "bolt", "local"})
	return f
}

func genLegacy(r *hx.Rng) *legacy {
	l := &legacy{}
	hsKey := func() string {
		if r.Chance(0.5) {
			return ""
		}
		return r.Pick([]string{k1, k2})
	}
	hsAlg := func() string {
		if r.Chance(0.5) {
			return ""
		}
		if r.Chance(0.85) {
			return algUniverse[r.Intn(3)]
		}
		return r.Pick([]string{"XX", "none", "RS256"})
	}
	l.JwtKey, l.PubKey, l.SubKey = hsKey(), hsKey(), hsKey()
	if r.Chance(0.4) {
		l.JwtKey = ""
	}
	l.JwtAlg, l.PubAlg, l.SubAlg = hsAlg(), hsAlg(), hsAlg()
	l.Anonymous = r.Chance(0.4)
	l.Subscriptions = r.Chance(0.3)
	if r.Chance(0.35) {
		l.PublishOrigins = pickOrigins(r)
	}
	if r.Chance(0.35) {
		l.CorsOrigins = pickOrigins(r)
	}
	return l
}

// keyArg: one key argument in three is written as an environment placeholder that expands to the key (an unset variable
// for the empty key): the module must judge the expanded value
func keyArg(idx, pos int, k string) string {
	if (idx+pos)%3 != 0 || k == k4 {
		return k
	}
	for i, u := range keyUniverse {
		if u == k {
			return fmt.Sprintf("{env.VERIF_C19_K%d}", i)
		}
	}
	return k
}

func setKeyEnv() {
	for i, u := range keyUniverse {
		if u == "" {
			os.Unsetenv(fmt.Sprintf("VERIF_C19_K%d", i))
		} else {
			os.Setenv(fmt.Sprintf("VERIF_C19_K%d", i), u)
		}
	}
}

func quote(s string) string { return `"` + strings.ReplaceAll(s, `"`, `\"`) + `"` }

func renderCaddyfile(in *input, work string, idx int) string {
	var b strings.Builder
	b.WriteString("mercure {\n")
	nb := 0
	for _, d := range in.Ds {
		if d.Kind == "transport" {
			nb++
			path := filepath.Join(work, fmt.Sprintf("c%d_%d.db", idx, nb))
			switch {
			case in.Style == "url" && d.Args[0] == "bolt":
				fmt.Fprintf(&b, "  transport_url bolt://%s\n", path)
			case in.Style == "url":
				b.WriteString("  transport_url local://local\n")
			case d.Args[0] == "bolt":
				fmt.Fprintf(&b, "  transport bolt {\n    path %s\n  }\n", path)
			default:
				b.WriteString("  transport local\n")
			}
			continue
		}
		b.WriteString("  " + d.Kind)
		for ai, a := range d.Args {
			if ai == 0 && (d.Kind == "publisher_jwt" || d.Kind == "subscriber_jwt") {
				a = keyArg(idx, len(b.String()), a)
			}
			b.WriteString(" " + quote(a))
		}
		b.WriteString("\n")
	}
	b.WriteString("}\n")
	return b.String()
}

// ---- provisioning ----
type provisioned struct {
	handler http.Handler
	hub     *mercure.Hub
	cleanup func()
}

func provisionCaddy(m *mc.Mercure) (p *provisioned, err error) {
	ctx, cancel := caddy.NewContext(caddy.Context{Context: context.Background()})
	if err := m.Provision(ctx); err != nil {
		_ = m.Cleanup()
		cancel()
		return nil, err
	}
	next := caddyhttp.HandlerFunc(func(w http.ResponseWriter, r *http.Request) error { w.WriteHeader(404); return nil })
	h := http.HandlerFunc(func(w http.ResponseWriter, r *http.Request) { _ = m.ServeHTTP(w, r, next) })
	return &provisioned{h, mc.VerifHub(m), func() { _ = m.Cleanup(); cancel() }}, nil
}

func provision(in *input, work string, idx int) (p *provisioned, err error) {
	defer func() {
		if rec := recover(); rec != nil {
			p, err = nil, fmt.Errorf("panic: %v", rec)
		}
	}()
	os.Unsetenv("MERCURE_TRANSPORT_URL")
	switch in.Env {
	case "bolt":
		os.Setenv("MERCURE_TRANSPORT_URL", "bolt://"+filepath.Join(work, fmt.Sprintf("env%d.db", idx)))
	case "local":
		os.Setenv("MERCURE_TRANSPORT_URL", "local://local")
	}
	defer os.Unsetenv("MERCURE_TRANSPORT_URL")
	switch in.Form {
	case "caddyfile":
		m := new(mc.Mercure)
		if err := m.UnmarshalCaddyfile(caddyfile.NewTestDispenser(renderCaddyfile(in, work, idx))); err != nil {
			return nil, err
		}
		return provisionCaddy(m)
	case "json":
		f := in.JSON
		o := map[string]any{}
		if f.Anonymous {
			o["anonymous"] = true
		}
		if f.Subscriptions {
			o["subscriptions"] = true
		}
		if f.Pub != nil {
			o["publisher_jwt"] = map[string]string{"key": keyArg(idx, 0, f.Pub[0]), "alg": f.Pub[1]}
		}
		if f.Sub != nil {
			o["subscriber_jwt"] = map[string]string{"key": keyArg(idx, 1, f.Sub[0]), "alg": f.Sub[1]}
		}
		if f.PublishOrigins != nil {
			o["publish_origins"] = f.PublishOrigins
		}
		if f.Cors != nil {
			o["cors_origins"] = f.Cors
		}
		if f.Cookie != "" {
			o["cookie_name"] = f.Cookie
		}
		if f.Compat != 0 {
			o["protocol_version_compatibility"] = f.Compat
		}
		if f.WT != nil {
			o["write_timeout"] = *f.WT
		}
		if f.DT != nil {
			o["dispatch_timeout"] = *f.DT
		}
		if f.HB != nil {
			o["heartbeat"] = *f.HB
		}
		switch f.Transport {
		case "bolt":
			o["transport"] = map[string]any{"name": "bolt", "path": filepath.Join(work, fmt.Sprintf("c%d.db", idx))}
		case "local":
			o["transport"] = map[string]any{"name": "local"}
		}
		raw, _ := json.Marshal(o)
		m := new(mc.Mercure)
		if err := caddy.StrictUnmarshalJSON(raw, m); err != nil {
			return nil, err
		}
		return provisionCaddy(m)
	default:
		l := in.Legacy
		v := viper.New()
		mercure.SetConfigDefaults(v)
		v.Set("transport_url", "bolt://"+filepath.Join(work, fmt.Sprintf("c%d.db", idx)))
		set := func(k, val string) {
			if val != "" {
				v.Set(k, val)
			}
		}
		set("jwt_key", l.JwtKey)
		set("jwt_algorithm", l.JwtAlg)
		set("publisher_jwt_key", l.PubKey)
		set("publisher_jwt_algorithm", l.PubAlg)
		set("subscriber_jwt_key", l.SubKey)
		set("subscriber_jwt_algorithm", l.SubAlg)
		v.Set("allow_anonymous", l.Anonymous)
		v.Set("subscriptions", l.Subscriptions)
		if l.PublishOrigins != nil {
			v.Set("publish_allowed_origins", l.PublishOrigins)
		}
		if l.CorsOrigins != nil {
			v.Set("cors_allowed_origins", l.CorsOrigins)
		}
		h, err := mercure.NewHubFromViper(v)
		if err != nil {
			return nil, err
		}
		return &provisioned{h, h, func() { _ = h.Stop() }}, nil
	}
}

// ---- probes ----
const hubPath = "http://example.com/.well-known/mercure"

func status(h http.Handler, r *http.Request) (int, http.Header) {
	s := hx.SubscribeReq(h, r, hx.NewWriter())
	deadline := time.Now().Add(3 * time.Second)
	for !s.Finished(0) && s.W.NumWrites() == 0 && time.Now().Before(deadline) {
		time.Sleep(200 * time.Microsecond)
	}
	s.Close()
	if s.Panic != nil {
		return 599, nil
	}
	st := s.W.Status
	if st == 0 {
		st = 200
	}
	hdr := s.W.Sent
	if hdr == nil {
		hdr = s.W.Header()
	}
	return st, hdr
}

func token(c cand, claim map[string]any) string {
	s, err := jwt.NewWithClaims(c.method, jwt.MapClaims{"mercure": claim}).SignedString(c.signKey)
	if err != nil {
		panic(err)
	}
	return s
}

func publishReq(topic string, private bool) *http.Request {
	form := url.Values{"topic": {topic}, "data": {"x"}}
	if private {
		form.Set("private", "on")
	}
	r := httptest.NewRequest(http.MethodPost, hubPath, strings.NewReader(form.Encode()))
	r.Header.Set("Content-Type", "application/x-www-form-urlencoded")
	return r
}

type observation struct {
	Opts                                                         mercure.VerifOpts
	PubAccept, SubAccept, CookieValid, CookieInvalid, Cors, PubO []bool
	AnonOK, SubsAPI, CompatPub                                   bool
}

func observe(p *provisioned) observation {
	var o observation
	o.Opts = mercure.VerifOptions(p.hub)
	cs := cands()
	all := map[string]any{"publish": []string{"*"}, "subscribe": []string{"*"}}
	validPub, validSub := -1, -1
	for i, c := range cs {
		r := publishReq("https://example.com/t", false)
		r.Header.Set("Authorization", "Bearer "+token(c, all))
		st, _ := status(p.handler, r)
		o.PubAccept = append(o.PubAccept, st == 200)
		if st == 200 && validPub < 0 {
			validPub = i
		}
	}
	allSub := true
	for i, c := range cs {
		r := httptest.NewRequest(http.MethodGet, hubPath+"?topic=t", nil)
		r.Header.Set("Authorization", "Bearer "+token(c, all))
		st, _ := status(p.handler, r)
		o.SubAccept = append(o.SubAccept, st == 200)
		if st == 200 && validSub < 0 {
			validSub = i
		}
		if st != 200 {
			allSub = false
		}
	}
	st, _ := status(p.handler, httptest.NewRequest(http.MethodGet, hubPath+"?topic=t", nil))
	o.AnonOK = st == 200
	st, _ = status(p.handler, httptest.NewRequest(http.MethodGet, hubPath+"/subscriptions", nil))
	o.SubsAPI = st != 404
	if validSub >= 0 && !allSub {
		good := token(cs[validSub], all)
		for _, n := range probeNames {
			r := httptest.NewRequest(http.MethodGet, hubPath+"?topic=t", nil)
			r.AddCookie(&http.Cookie{Name: n, Value: good})
			st, _ := status(p.handler, r)
			o.CookieValid = append(o.CookieValid, st == 200)
			r = httptest.NewRequest(http.MethodGet, hubPath+"?topic=t", nil)
			r.AddCookie(&http.Cookie{Name: n, Value: good[:len(good)-6] + "AAAAAA"})
			st, _ = status(p.handler, r)
			o.CookieInvalid = append(o.CookieInvalid, st == 200)
		}
	}
	for _, or := range probeOrigins {
		r := httptest.NewRequest(http.MethodGet, hubPath, nil) // no topic: answered at once, CORS headers included
		r.Header.Set("Origin", or)
		_, hdr := status(p.handler, r)
		o.Cors = append(o.Cors, hdr.Get("Access-Control-Allow-Origin") != "")
		ok := false
		if validPub >= 0 {
			r = publishReq("https://example.com/t", false)
			r.AddCookie(&http.Cookie{Name: o.Opts.CookieName, Value: token(cs[validPub], all)})
			r.Header.Set("Origin", or)
			st, _ := status(p.handler, r)
			ok = st == 200
		}
		o.PubO = append(o.PubO, ok)
	}
	if validPub >= 0 {
		r := publishReq("https://example.com/outside", false)
		r.Header.Set("Authorization", "Bearer "+token(cs[validPub], map[string]any{"publish": []string{"https://example.com/only"}}))
		st, _ := status(p.handler, r)
		o.CompatPub = st == 200
	}
	return o
}

// ---- emission ----
// the PEM key is emitted once per shard (prelude) and referred to by name
func str(s string) string {
	if s == rsaPubPEM {
		return "PEM"
	}
	return ce.Str(s)
}

func strs(l []string) string {
	parts := make([]string, len(l))
	for i, s := range l {
		parts[i] = str(s)
	}
	return ce.List(parts)
}

func optAlg(a []string) string {
	if len(a) < 2 {
		return "None"
	}
	return ce.Some(str(a[1]))
}

func durZ(s string) string {
	d, err := time.ParseDuration(s)
	if err != nil {
		panic(err)
	}
	return fmt.Sprintf("%d%%Z", int64(d))
}

func emitDirective(d directive) string {
	switch d.Kind {
	case "anonymous":
		return "DAnonymous"
	case "subscriptions":
		return "DSubscriptions"
	case "publisher_jwt":
		return ce.App("DPublisherJWT", str(d.Args[0]), optAlg(d.Args))
	case "subscriber_jwt":
		return ce.App("DSubscriberJWT", str(d.Args[0]), optAlg(d.Args))
	case "publish_origins":
		return ce.App("DPublishOrigins", strs(d.Args))
	case "cors_origins":
		return ce.App("DCorsOrigins", strs(d.Args))
	case "cookie_name":
		return ce.App("DCookieName", str(d.Args[0]))
	case "protocol_version_compatibility":
		return ce.App("DCompat", "("+d.Args[0]+")%Z")
	case "write_timeout":
		return ce.App("DWriteTimeout", durZ(d.Args[0]))
	case "dispatch_timeout":
		return ce.App("DDispatchTimeout", durZ(d.Args[0]))
	case "heartbeat":
		return ce.App("DHeartbeat", durZ(d.Args[0]))
	case "transport":
		if d.Args[0] == "bolt" {
			return "(DTransport TBolt)"
		}
		return "(DTransport TLocal)"
	}
	panic(d.Kind)
}

func optPair(p *[2]string) string {
	if p == nil {
		return "None"
	}
	a := "None"
	if p[1] != "" {
		a = ce.Some(str(p[1]))
	}
	return ce.Some(ce.Pair(str(p[0]), a))
}

func optZ(p *int64) string {
	if p == nil {
		return "None"
	}
	return fmt.Sprintf("(Some %d%%Z)", *p)
}

func emitInput(in *input) string {
	switch in.Form {
	case "caddyfile":
		parts := make([]string, len(in.Ds))
		for i, d := range in.Ds {
			parts[i] = emitDirective(d)
		}
		return ce.App("CICaddyfile", ce.List(parts))
	case "json":
		f := in.JSON
		tr := "None"
		switch f.Transport {
		case "bolt":
			tr = "(Some TBolt)"
		case "local":
			tr = "(Some TLocal)"
		}
		return ce.App("CIJson", fmt.Sprintf("{| f_anonymous := %s; f_subscriptions := %s; f_pub := %s; f_sub := %s; f_publish_origins := %s; f_cors_origins := %s; f_cookie := %s; f_compat := (%d)%%Z; f_write_timeout := %s; f_dispatch_timeout := %s; f_heartbeat := %s; f_transport := %s |}",
			ce.Bool(f.Anonymous), ce.Bool(f.Subscriptions), optPair(f.Pub), optPair(f.Sub), strs(f.PublishOrigins), strs(f.Cors), str(f.Cookie), f.Compat, optZ(f.WT), optZ(f.DT), optZ(f.HB), tr))
	default:
		l := in.Legacy
		return ce.App("CILegacy", fmt.Sprintf("{| l_jwt_key := %s; l_jwt_alg := %s; l_pub_key := %s; l_pub_alg := %s; l_sub_key := %s; l_sub_alg := %s; l_anonymous := %s; l_subscriptions := %s; l_publish_origins := %s; l_cors_origins := %s |}",
			str(l.JwtKey), str(l.JwtAlg), str(l.PubKey), str(l.PubAlg), str(l.SubKey), str(l.SubAlg), ce.Bool(l.Anonymous), ce.Bool(l.Subscriptions), strs(l.PublishOrigins), strs(l.CorsOrigins)))
	}
}

func bools(l []bool) string {
	parts := make([]string, len(l))
	for i, b := range l {
		parts[i] = ce.Bool(b)
	}
	return ce.List(parts)
}

func emitObs(o *observation) string {
	if o == nil {
		return "None"
	}
	tr := "TLocal"
	if o.Opts.Transport == "bolt" {
		tr = "TBolt"
	}
	return ce.Some(fmt.Sprintf("{| o_anonymous := %s; o_subscriptions := %s; o_has_sub := %s; o_publish_origins := %s; o_cors_origins := %s; o_cookie := %s; o_compat7 := %s; o_wt := %d%%Z; o_dt := %d%%Z; o_hb := %d%%Z; o_transport := %s; o_pub_accept := %s; o_sub_accept := %s; o_anon_ok := %s; o_subs_api := %s; o_cookie_valid := %s; o_cookie_invalid := %s; o_cors := %s; o_pubo := %s; o_compat_pub := %s |}",
		ce.Bool(o.Opts.Anonymous), ce.Bool(o.Opts.Subscriptions), ce.Bool(o.Opts.HasSub), strs(o.Opts.PublishOrigins), strs(o.Opts.CORSOrigins), str(o.Opts.CookieName),
		ce.Bool(o.Opts.Compat == 7), int64(o.Opts.WriteTimeout), int64(o.Opts.DispatchTimeout), int64(o.Opts.Heartbeat), tr,
		bools(o.PubAccept), bools(o.SubAccept), ce.Bool(o.AnonOK), ce.Bool(o.SubsAPI), bools(o.CookieValid), bools(o.CookieInvalid), bools(o.Cors), bools(o.PubO), ce.Bool(o.CompatPub)))
}

func runC19(a args) error {
	work, err := os.MkdirTemp("", "verifc")
	if err != nil {
		return err
	}
	defer os.RemoveAll(work)
	if err := os.Chdir(work); err != nil { // the default bolt transport opens a relative path
		return err
	}
	os.Unsetenv("MERCURE_TRANSPORT_URL")
	setKeyEnv()
	devnull, _ := os.OpenFile(os.DevNull, os.O_WRONLY, 0)
	realStderr := os.Stderr
	os.Stderr = devnull // caddy's and zap's default loggers
	defer func() { os.Stderr = realStderr }()

	// the oracle tables
	var keytab, origtab []string
	for _, al := range append(append([]string{}, algUniverse...), "") {
		for _, k := range keyUniverse {
			keytab = append(keytab, fmt.Sprintf("(%s, %s, %s)", str(al), str(k), ce.Bool(keyOK(al, k))))
		}
	}
	for _, o := range originUniverse {
		origtab = append(origtab, ce.Pair(str(o), ce.Bool(originOK(o))))
	}
	var candTerms []string
	for _, c := range cands() {
		candTerms = append(candTerms, ce.Pair(str(c.key), str(c.alg)))
	}
	prelude := fmt.Sprintf("Definition PEM : str := %s.\nDefinition KT := %s.\nDefinition OT := %s.\nDefinition CANDS := %s.\nDefinition NAMES := %s.\nDefinition ORIGINS := %s.\n",
		ce.Str(rsaPubPEM), ce.List(keytab), ce.List(origtab), ce.List(candTerms), strs(probeNames), strs(probeOrigins))
	fixed := "cc_keytab := KT; cc_origtab := OT; cc_cands := CANDS; cc_names := NAMES; cc_origins := ORIGINS"

	out := hx.NewOut(a.out, "ConfigCases", "cfg_case", "cfg_agree", "cfg_spec_ok")
	out.ShardSize = 40
	out.Prelude = prelude
	rng := hx.NewRng(a.seed)
	for i := 0; i < a.n; i++ {
		r := hx.NewRng(rng.Int63())
		in := &input{}
		switch x := r.Float64(); {
		case x < 0.6:
			in.Form = "caddyfile"
			in.Style = "module"
			if r.Chance(0.25) {
				in.Style = "url"
			}
			in.Ds = genDirectives(r)
		case x < 0.8:
			in.Form = "json"
			in.JSON = genJSON(r)
		default:
			in.Form = "legacy"
			in.Legacy = genLegacy(r)
		}
		if in.Form != "legacy" && r.Chance(0.2) {
			in.Env = r.Pick([]string{"bolt", "local"})
		}
		if a.only >= 0 && i != a.only {
			continue
		}
		p, perr := provision(in, work, i)
		var obs *observation
		if perr == nil {
			o := observe(p)
			obs = &o
			p.cleanup()
		}
		_ = os.Remove(filepath.Join(work, "bolt.db"))
		envT := "None"
		switch in.Env {
		case "bolt":
			envT = "(Some TBolt)"
		case "local":
			envT = "(Some TLocal)"
		}
		term := fmt.Sprintf("{| cc_input := %s; %s; cc_env := %s; cc_obs := %s |}", emitInput(in), fixed, envT, emitObs(obs))
		tag := in.Form + ":accepted"
		desc := map[string]any{"input": in}
		if perr != nil {
			tag = in.Form + ":refused"
			desc["error"] = perr.Error()
		} else {
			desc["observed"] = obs
		}
		if in.Form == "caddyfile" {
			desc["caddyfile"] = renderCaddyfile(in, "<work>", i)
		}
		out.Add(term, desc, perr == nil, tag)
	}
	return out.Flush()
}
