package main

import (
	"fmt"
	"io"
	"log"
	"net/http"
	"net/http/httptest"
	"net/url"
	"os"
	"path/filepath"
	"strings"
	"time"

	"github.com/caddyserver/caddy/v2/caddyconfig/caddyfile"
	"github.com/golang-jwt/jwt/v5"
	mc "github.com/dunglas/mercure/caddy"

	"verifh/hx"
)

// runC19Path: two mercure blocks of one process whose Bolt transports name the same file with different retention
// sizes and bucket names. Either the second block is refused at start-up (the file is locked), or its own settings are
// the ones in effect for it: it must never silently run with the first block's transport.
func runC19Path(a args) error {
	work, err := os.MkdirTemp("", "verifcp")
	if err != nil {
		return err
	}
	defer os.RemoveAll(work)
	devnull, _ := os.OpenFile(os.DevNull, os.O_WRONLY, 0)
	realStderr := os.Stderr
	os.Stderr = devnull
	defer func() { os.Stderr = realStderr }()
	log.SetOutput(io.Discard)
	os.Unsetenv("MERCURE_TRANSPORT_URL")
	out := hx.NewOut(a.out, "ConfigCases", "path_case", "path_ok", "path_ok")
	r := hx.NewRng(a.seed)
	tok, _ := jwt.NewWithClaims(jwt.SigningMethodHS256, jwt.MapClaims{"mercure": map[string]any{"publish": []string{"*"}}}).SignedString([]byte(k1))
	for i := 0; i < a.n; i++ {
		sizeA, sizeB := 1+r.Intn(3), []int{0, 1, 2, 5}[r.Intn(4)]
		if sizeA == sizeB {
			sizeB = 0
		}
		path := filepath.Join(work, fmt.Sprintf("shared-%d.db", i))
		block := func(size int, bucket string) string {
			return fmt.Sprintf("mercure {\n publisher_jwt %q\n anonymous\n transport bolt {\n  path %s\n  size %d\n  cleanup_frequency 1\n  bucket_name %s\n }\n}\n", k1, path, size, bucket)
		}
		ma := new(mc.Mercure)
		if err := ma.UnmarshalCaddyfile(caddyfile.NewTestDispenser(block(sizeA, "first"))); err != nil {
			return err
		}
		pa, err := provisionCaddy(ma)
		if err != nil {
			return fmt.Errorf("first block refused: %w", err)
		}
		mb := new(mc.Mercure)
		if err := mb.UnmarshalCaddyfile(caddyfile.NewTestDispenser(block(sizeB, "second"))); err != nil {
			return err
		}
		pb, errB := provisionCaddy(mb)
		published, retained := 4, 0
		if errB == nil {
			for k := 0; k < published; k++ {
				rq := httptest.NewRequest(http.MethodPost, hubPath, strings.NewReader(url.Values{"topic": {"t"}, "data": {fmt.Sprint(k)}}.Encode()))
				rq.Header.Set("Content-Type", "application/x-www-form-urlencoded")
				rq.Header.Set("Authorization", "Bearer "+tok)
				w := httptest.NewRecorder()
				pb.handler.ServeHTTP(w, rq)
				if w.Code != 200 {
					return fmt.Errorf("publish through the second block: %d", w.Code)
				}
			}
			rq := httptest.NewRequest(http.MethodGet, hubPath+"?topic=t", nil)
			rq.Header.Set("Last-Event-ID", "earliest")
			s := hx.SubscribeReq(pb.handler, rq, hx.NewWriter())
			deadline := time.Now().Add(500 * time.Millisecond)
			for time.Now().Before(deadline) {
				s.W.WaitWrites(s.W.NumWrites()+1, 50*time.Millisecond)
			}
			retained = strings.Count(s.W.Body(), "\ndata: ")
			s.Close()
			pb.cleanup()
		}
		pa.cleanup()
		term := fmt.Sprintf("{| pc_size_b := %d; pc_published := %d; pc_b_refused := %v; pc_b_retained := %d |}", sizeB, published, errB != nil, retained)
		out.Add(term, map[string]any{"size_first": sizeA, "size_second": sizeB, "second_refused": errB != nil, "retained_through_second": retained}, true, fmt.Sprintf("second-refused:%v", errB != nil))
	}
	return out.Flush()
}
