// verifc provisions the Caddy module and the legacy viper hub in-process for the C19 correspondence check.
// usage: verifc C19 -seed N -n K -out DIR [-only IDX]
package main

import (
	"flag"
	"fmt"
	"os"
)

type args struct {
	seed int64
	n    int
	out  string
	tier string
	only int
}

func main() {
	if len(os.Args) < 2 || (os.Args[1] != "C19" && os.Args[1] != "C19PATH") {
		fmt.Fprintln(os.Stderr, "usage: verifc C19|C19PATH [flags]")
		os.Exit(2)
	}
	fs := flag.NewFlagSet(os.Args[1], flag.ExitOnError)
	var a args
	fs.Int64Var(&a.seed, "seed", 1, "PRNG seed")
	fs.IntVar(&a.n, "n", 100, "number of generated cases")
	fs.StringVar(&a.out, "out", "", "output directory")
	fs.StringVar(&a.tier, "tier", "quick", "quick|thorough")
	fs.IntVar(&a.only, "only", -1, "emit only this case index (replay)")
	_ = fs.Parse(os.Args[2:])
	run := runC19
	if os.Args[1] == "C19PATH" {
		run = runC19Path
	}
	if err := run(a); err != nil {
		fmt.Fprintln(os.Stderr, "driver error:", err)
		os.Exit(3)
	}
}
