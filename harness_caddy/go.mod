module verifc

go 1.23.0

require (
	github.com/caddyserver/caddy/v2 v2.9.1
	github.com/dunglas/mercure v0.18.4
	github.com/dunglas/mercure/caddy v0.0.0
	github.com/golang-jwt/jwt/v5 v5.2.1
	github.com/spf13/viper v1.19.0
	verifh v0.0.0
)

require (
	cel.dev/expr v0.20.0 // indirect
	dario.cat/mergo v1.0.1 // indirect
	filippo.io/edwards25519 v1.1.0 // indirect
	github.com/AndreasBriese/bbloom v0.0.0-20190825152654-46b345b51c96 // indirect
	github.com/Masterminds/goutils v1.1.1 // indirect
	github.com/Masterminds/semver/v3 v3.3.1 // indirect
	github.com/Masterminds/sprig/v3 v3.3.0 // indirect
	github.com/MauriceGit/skiplist v0.0.0-20211105230623-77f5c8d3e145 // indirect
	github.com/MicahParks/jwkset v0.8.0 // indirect
	github.com/MicahParks/keyfunc/v3 v3.3.10 // indirect
	github.com/RoaringBitmap/roaring v1.9.4 // indirect
	github.com/antlr4-go/antlr/v4 v4.13.1 // indirect
	github.com/aryann/difflib v0.0.0-20210328193216-ff5ff6dc229b // indirect
	github.com/beorn7/perks v1.0.1 // indirect
	github.com/bits-and-blooms/bitset v1.20.0 // indirect
	github.com/caddyserver/certmagic v0.21.7 // indirect
	github.com/caddyserver/zerossl v0.1.3 // indirect
	github.com/cespare/xxhash v1.1.0 // indirect
	github.com/cespare/xxhash/v2 v2.3.0 // indirect
	github.com/chzyer/readline v1.5.1 // indirect
	github.com/coreos/go-oidc/v3 v3.12.0 // indirect
	github.com/cpuguy83/go-md2man/v2 v2.0.6 // indirect
	github.com/dgraph-io/badger v1.6.2 // indirect
	github.com/dgraph-io/badger/v2 v2.2007.4 // indirect
	github.com/dgraph-io/ristretto v0.2.0 // indirect
	github.com/dgryski/go-farm v0.0.0-20240924180020-3414d57e47da // indirect
	github.com/dustin/go-humanize v1.0.1 // indirect
	github.com/felixge/httpsnoop v1.0.4 // indirect
	github.com/francoispqt/gojay v1.2.13 // indirect
	github.com/fsnotify/fsnotify v1.8.0 // indirect
	github.com/go-jose/go-jose/v3 v3.0.3 // indirect
	github.com/go-jose/go-jose/v4 v4.0.4 // indirect
	github.com/go-sql-driver/mysql v1.8.1 // indirect
	github.com/gofrs/uuid v4.4.0+incompatible // indirect
	github.com/golang/protobuf v1.5.4 // indirect
	github.com/golang/snappy v0.0.4 // indirect
	github.com/google/cel-go v0.23.2 // indirect
	github.com/google/uuid v1.6.0 // indirect
	github.com/gorilla/handlers v1.5.2 // indirect
	github.com/gorilla/mux v1.8.1 // indirect
	github.com/hashicorp/golang-lru v1.0.2 // indirect
	github.com/hashicorp/hcl v1.0.0 // indirect
	github.com/huandu/xstrings v1.5.0 // indirect
	github.com/jackc/pgpassfile v1.0.0 // indirect
	github.com/jackc/pgservicefile v0.0.0-20240606120523-5a60cdf6a761 // indirect
	github.com/jackc/pgx/v5 v5.7.2 // indirect
	github.com/jackc/puddle/v2 v2.2.2 // indirect
	github.com/kevburnsjr/skipfilter v0.0.1 // indirect
	github.com/klauspost/compress v1.17.11 // indirect
	github.com/klauspost/cpuid/v2 v2.2.9 // indirect
	github.com/libdns/libdns v0.2.3 // indirect
	github.com/magiconair/properties v1.8.9 // indirect
	github.com/manifoldco/promptui v0.9.0 // indirect
	github.com/mattn/go-colorable v0.1.14 // indirect
	github.com/mattn/go-isatty v0.0.20 // indirect
	github.com/mgutz/ansi v0.0.0-20200706080929-d51e80ef957d // indirect
	github.com/mholt/acmez/v3 v3.0.1 // indirect
	github.com/miekg/dns v1.1.63 // indirect
	github.com/mitchellh/copystructure v1.2.0 // indirect
	github.com/mitchellh/go-ps v1.0.0 // indirect
	github.com/mitchellh/mapstructure v1.5.0 // indirect
	github.com/mitchellh/reflectwalk v1.0.2 // indirect
	github.com/munnerz/goautoneg v0.0.0-20191010083416-a7dc8b61c822 // indirect
	github.com/pelletier/go-toml/v2 v2.2.3 // indirect
	github.com/pkg/errors v0.9.1 // indirect
	github.com/prometheus/client_golang v1.20.5 // indirect
	github.com/prometheus/client_model v0.6.1 // indirect
	github.com/prometheus/common v0.62.0 // indirect
	github.com/prometheus/procfs v0.15.1 // indirect
	github.com/quic-go/qpack v0.5.1 // indirect
	github.com/quic-go/quic-go v0.49.0 // indirect
	github.com/rs/xid v1.6.0 // indirect
	github.com/russross/blackfriday/v2 v2.1.0 // indirect
	github.com/sagikazarmark/slog-shim v0.1.0 // indirect
	github.com/shopspring/decimal v1.4.0 // indirect
	github.com/shurcooL/sanitized_anchor_name v1.0.0 // indirect
	github.com/slackhq/nebula v1.9.4 // indirect
	github.com/smallstep/certificates v0.28.1 // indirect
	github.com/smallstep/cli-utils v0.10.0 // indirect
	github.com/smallstep/nosql v0.7.0 // indirect
	github.com/smallstep/pkcs7 v0.2.1 // indirect
	github.com/smallstep/scep v0.0.0-20241223071629-a37a330173bc // indirect
	github.com/smallstep/truststore v0.13.0 // indirect
	github.com/spf13/afero v1.12.0 // indirect
	github.com/spf13/cast v1.7.1 // indirect
	github.com/spf13/cobra v1.9.1 // indirect
	github.com/spf13/pflag v1.0.6 // indirect
	github.com/stoewer/go-strcase v1.3.0 // indirect
	github.com/subosito/gotenv v1.6.0 // indirect
	github.com/tailscale/tscert v0.0.0-20240608151842-d3f834017e53 // indirect
	github.com/unrolled/secure v1.17.0 // indirect
	github.com/urfave/cli v1.22.16 // indirect
	github.com/yosida95/uritemplate/v3 v3.0.2 // indirect
	github.com/zeebo/blake3 v0.2.4 // indirect
	go.etcd.io/bbolt v1.4.0 // indirect
	go.step.sm/crypto v0.57.1 // indirect
	go.step.sm/linkedca v0.22.2 // indirect
	go.uber.org/automaxprocs v1.6.0 // indirect
	go.uber.org/multierr v1.11.0 // indirect
	go.uber.org/zap v1.27.0 // indirect
	go.uber.org/zap/exp v0.3.0 // indirect
	golang.org/x/crypto v0.33.0 // indirect
	golang.org/x/crypto/x509roots/fallback v0.0.0-20250214233241-911360c8a4f4 // indirect
	golang.org/x/exp v0.0.0-20250215185904-eff6e970281f // indirect
	golang.org/x/net v0.35.0 // indirect
	golang.org/x/oauth2 v0.26.0 // indirect
	golang.org/x/sync v0.11.0 // indirect
	golang.org/x/sys v0.30.0 // indirect
	golang.org/x/term v0.29.0 // indirect
	golang.org/x/text v0.22.0 // indirect
	golang.org/x/time v0.10.0 // indirect
	google.golang.org/genproto/googleapis/api v0.0.0-20250212204824-5a70512c5d8b // indirect
	google.golang.org/genproto/googleapis/rpc v0.0.0-20250212204824-5a70512c5d8b // indirect
	google.golang.org/grpc v1.70.0 // indirect
	google.golang.org/protobuf v1.36.5 // indirect
	gopkg.in/ini.v1 v1.67.0 // indirect
	gopkg.in/yaml.v3 v3.0.1 // indirect
)

replace github.com/dunglas/mercure => /repo

replace github.com/dunglas/mercure/caddy => /repo/caddy

replace verifh => /verif/harness
