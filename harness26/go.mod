module verif26

go 1.26

require (
	github.com/dunglas/mercure v0.0.0
	github.com/golang-jwt/jwt/v5 v5.2.1
	verifh v0.0.0
)

require (
	github.com/MauriceGit/skiplist v0.0.0-20211105230623-77f5c8d3e145 // indirect
	github.com/RoaringBitmap/roaring v1.9.4 // indirect
	github.com/beorn7/perks v1.0.1 // indirect
	github.com/bits-and-blooms/bitset v1.20.0 // indirect
	github.com/cespare/xxhash/v2 v2.3.0 // indirect
	github.com/felixge/httpsnoop v1.0.4 // indirect
	github.com/fsnotify/fsnotify v1.8.0 // indirect
	github.com/gofrs/uuid v4.4.0+incompatible // indirect
	github.com/gorilla/handlers v1.5.2 // indirect
	github.com/gorilla/mux v1.8.1 // indirect
	github.com/hashicorp/golang-lru v1.0.2 // indirect
	github.com/hashicorp/hcl v1.0.0 // indirect
	github.com/kevburnsjr/skipfilter v0.0.1 // indirect
	github.com/klauspost/compress v1.17.11 // indirect
	github.com/magiconair/properties v1.8.9 // indirect
	github.com/mitchellh/mapstructure v1.5.0 // indirect
	github.com/munnerz/goautoneg v0.0.0-20191010083416-a7dc8b61c822 // indirect
	github.com/pelletier/go-toml/v2 v2.2.3 // indirect
	github.com/prometheus/client_golang v1.20.5 // indirect
	github.com/prometheus/client_model v0.6.1 // indirect
	github.com/prometheus/common v0.62.0 // indirect
	github.com/prometheus/procfs v0.15.1 // indirect
	github.com/sagikazarmark/slog-shim v0.1.0 // indirect
	github.com/spf13/afero v1.12.0 // indirect
	github.com/spf13/cast v1.7.1 // indirect
	github.com/spf13/pflag v1.0.6 // indirect
	github.com/spf13/viper v1.19.0 // indirect
	github.com/subosito/gotenv v1.6.0 // indirect
	github.com/unrolled/secure v1.17.0 // indirect
	github.com/yosida95/uritemplate/v3 v3.0.2 // indirect
	go.etcd.io/bbolt v1.4.0 // indirect
	go.uber.org/multierr v1.11.0 // indirect
	go.uber.org/zap v1.27.0 // indirect
	golang.org/x/crypto v0.33.0 // indirect
	golang.org/x/net v0.35.0 // indirect
	golang.org/x/sys v0.30.0 // indirect
	golang.org/x/text v0.22.0 // indirect
	google.golang.org/protobuf v1.36.5 // indirect
	gopkg.in/ini.v1 v1.67.0 // indirect
	gopkg.in/yaml.v3 v3.0.1 // indirect
)

replace github.com/dunglas/mercure => /repo

replace verifh => ../harness
