// C16 under a virtual clock (testing/synctest, Go 1.26): the subscribe handler's timers.
package verif26

import (
	"context"
	"fmt"
	"net/http"
	"net/http/httptest"
	"net/url"
	"os"
	"strconv"
	"strings"
	"sync"
	"testing"
	"testing/synctest"
	"time"

	"github.com/dunglas/mercure"
	"github.com/golang-jwt/jwt/v5"

	ce "verifh/coqemit"
	"verifh/hx"
)

// clockWriter enforces write deadlines against the (virtual) clock, as net/http does.
type clockWriter struct {
	mu       sync.Mutex
	hdr      http.Header
	status   int
	deadline time.Time
	writes   []time.Time // successful writes
	failed   []time.Time
}

func (w *clockWriter) Header() http.Header { return w.hdr }
func (w *clockWriter) WriteHeader(c int)   { w.status = c }
func (w *clockWriter) Write(b []byte) (int, error) {
	w.mu.Lock()
	defer w.mu.Unlock()
	now := time.Now()
	if !w.deadline.IsZero() && now.After(w.deadline) {
		w.failed = append(w.failed, now)
		return 0, os.ErrDeadlineExceeded
	}
	if w.status == 0 {
		w.status = 200
	}
	w.writes = append(w.writes, now)
	return len(b), nil
}
func (w *clockWriter) FlushError() error { return nil }
func (w *clockWriter) SetWriteDeadline(t time.Time) error {
	w.mu.Lock()
	w.deadline = t
	w.mu.Unlock()
	return nil
}

type c16Case struct {
	WT, DT, HB int   // milliseconds, 0 = disabled
	Exp        int   // milliseconds, 0 = no expiry claim
	Arrivals   []int // milliseconds
	Horizon    int
}

func runC16Case(t *testing.T, c c16Case) (writes []int, end int, status int) {
	end = -1
	synctest.Test(t, func(t *testing.T) {
		start := time.Now()
		opts := []mercure.Option{
			mercure.WithLogger(hx.Logger), mercure.WithAnonymous(),
			mercure.WithPublisherJWT([]byte(hx.HSKey), "HS256"), mercure.WithSubscriberJWT([]byte(hx.HSKey), "HS256"),
			mercure.WithWriteTimeout(time.Duration(c.WT) * time.Millisecond),
			mercure.WithDispatchTimeout(time.Duration(c.DT) * time.Millisecond),
			mercure.WithHeartbeat(time.Duration(c.HB) * time.Millisecond),
		}
		hub, err := mercure.NewHub(opts...)
		if err != nil {
			t.Fatal(err)
		}
		ctx, cancel := context.WithCancel(context.Background())
		r := httptest.NewRequest(http.MethodGet, "/.well-known/mercure?topic=t", nil).WithContext(ctx)
		if c.Exp != 0 {
			tok := hx.Token([]byte(hx.HSKey), jwt.SigningMethodHS256, map[string]any{"subscribe": []string{"*"}},
				map[string]any{"exp": jwt.NewNumericDate(start.Add(time.Duration(c.Exp) * time.Millisecond))})
			r.Header.Set("Authorization", "Bearer "+tok)
		}
		w := &clockWriter{hdr: http.Header{}}
		done := make(chan struct{})
		var endAt time.Time
		go func() {
			defer close(done)
			hub.ServeHTTP(w, r)
			endAt = time.Now()
		}()
		pub := hx.HSToken(map[string]any{"publish": []string{"*"}})
		go func() {
			for _, a := range c.Arrivals {
				time.Sleep(time.Until(start.Add(time.Duration(a) * time.Millisecond)))
				pr := httptest.NewRequest(http.MethodPost, "/.well-known/mercure", strings.NewReader(url.Values{"topic": {"t"}, "data": {"d"}}.Encode()))
				pr.Header.Set("Content-Type", "application/x-www-form-urlencoded")
				pr.Header.Set("Authorization", "Bearer "+pub)
				hub.ServeHTTP(httptest.NewRecorder(), pr)
			}
		}()
		time.Sleep(time.Duration(c.Horizon) * time.Millisecond)
		synctest.Wait()
		select {
		case <-done:
			end = int(endAt.Sub(start) / time.Millisecond)
		default:
		}
		cancel()
		<-done
		_ = hub.Stop()
		status = w.status
		w.mu.Lock()
		for i, wt := range w.writes {
			if i == 0 {
				continue // the initial comment that flushes the headers
			}
			if ms := int(wt.Sub(start) / time.Millisecond); ms <= c.Horizon {
				writes = append(writes, ms)
			}
		}
		w.mu.Unlock()
	})
	return
}

func TestC16(t *testing.T) {
	outDir := os.Getenv("VERIF_OUT")
	if outDir == "" {
		t.Skip("VERIF_OUT not set")
	}
	seed, _ := strconv.ParseInt(os.Getenv("VERIF_SEED"), 10, 64)
	n, _ := strconv.Atoi(os.Getenv("VERIF_N"))
	r := hx.NewRng(seed)
	out := hx.NewOut(outDir, "Timers", "timer_case", "timer_agree", "timer_ok")
	out.ShardSize = 100
	vals := []int{0, 3000, 20000}
	var cases []c16Case
	// every ordering of {write timeout, dispatch timeout, heartbeat} over {0, small, large}, expiry before / after / absent
	for _, wt := range vals {
		for _, dt := range []int{0, 1000, 7000} {
			for _, hb := range []int{0, 1700, 30000} { // no heartbeat is due at a disconnection instant: select would pick either
				for _, exp := range []int{0, 5000, 10000, 40000} { // 5 s: less than the 7 s dispatch timeout, the disconnection instant is already past
					for k := 0; k < n; k++ {
						c := c16Case{WT: wt, DT: dt, HB: hb, Exp: exp}
						at := 0
						for j := 0; j < r.Intn(5); j++ {
							at += 100 * (1 + r.Intn(120))
							c.Arrivals = append(c.Arrivals, at+j*7+3)
						}
						c.Horizon = 60000
						cases = append(cases, c)
					}
				}
			}
		}
	}
	for _, c := range cases {
		writes, end, status := runC16Case(t, c)
		if status != 200 {
			t.Fatalf("subscription refused: %d (%+v)", status, c)
		}
		z := func(l []int) string {
			s := make([]string, len(l))
			for i, x := range l {
				s[i] = fmt.Sprintf("%d%%Z", x)
			}
			return "[" + strings.Join(s, ";") + "]"
		}
		expT := "None"
		if c.Exp != 0 {
			expT = fmt.Sprintf("(Some %d%%Z)", c.Exp)
		}
		endT := "None"
		if end >= 0 {
			endT = fmt.Sprintf("(Some %d%%Z)", end)
		}
		term := fmt.Sprintf("{| tc_cfg := {| write_timeout := %d%%Z; dispatch_timeout := %d%%Z; heartbeat := %d%%Z; token_exp := %s |}; tc_arrivals := %s; tc_horizon := %d%%Z; tc_writes := %s; tc_end := %s |}",
			c.WT, c.DT, c.HB, expT, z(c.Arrivals), c.Horizon, z(writes), endT)
		out.Add(term, map[string]any{"case": c, "writes_ms": writes, "end_ms": end}, len(writes) > 0 && end >= 0,
			fmt.Sprintf("wt:%d", c.WT), fmt.Sprintf("dt:%d", c.DT), fmt.Sprintf("hb:%d", c.HB), fmt.Sprintf("exp:%d", c.Exp), ce.Bool(end >= 0))
	}
	if err := out.Flush(); err != nil {
		t.Fatal(err)
	}
}
