(* C10 — history retention keeps a contiguous most-recent window of the configured size.
   Statements only; proofs in Proofs/BoltHistProofs.v. *)
From Mercure Require Import Base BoltHist BoltHistProofs BoltHistProofs2.

(* For every size, every outcome of the probabilistic cleanup trigger at each publication, every number of
   publications, with the file closed and reopened anywhere: the retained sequence numbers are exactly
   lo..n (no update is discarded while an older one is kept); they are never fewer than min(n, size);
   exactly that many when cleanup runs on every publication; everything when size = 0 or cleanup never runs. *)
Theorem C10_window : forall (A : Type) (size : N) (ops : list (hop A)),
  let d := run_hist A size ops in
  d_seq A d = N.of_nat (length (pubs A ops)) /\
  window_ok size (forallb (fun r => r) (pubs A ops)) (forallb negb (pubs A ops)) (d_seq A d) (seqs A d).
Proof. exact window. Qed.
Print Assumptions C10_window.

(* Consequently a replay from any retained entry is complete. *)
Theorem C10_replay_complete : forall (A : Type) (size : N) (ops : list (hop A)) (s : N),
  let d := run_hist A size ops in
  In s (seqs A d) -> forall s', s < s' <= d_seq A d -> In s' (seqs A d).
Proof. exact replay_complete. Qed.
Print Assumptions C10_replay_complete.

(* non-vacuity: size 3, cleanup skipped twice then run: several keys are deleted in one cleanup *)
Example C10_nonvacuous :
  seqs unit (run_hist unit 3 [Pub unit true tt; Pub unit false tt; Pub unit false tt; Pub unit false tt; Reopen unit;
                              Pub unit false tt; Pub unit true tt]) = [4; 5; 6].
Proof. vm_compute. reflexivity. Qed.

(* ---- when the retention size changes at restarts (an operator edits the configuration) ---- *)
(* whatever sizes were in force and wherever the restarts fall, the retained sequence numbers are lo..n: contiguous up to
   the newest *)
Theorem C10_reconfigured_contiguous : forall (A : Type) (size0 : N) (ops : list (rop A)),
  let d := fst (rrun A size0 ops) in contiguous (d_seq A d) (seqs A d).
Proof. exact reconf_contiguous. Qed.
Print Assumptions C10_reconfigured_contiguous.

(* so a replay from any retained entry is still complete *)
Theorem C10_reconfigured_replay_complete : forall (A : Type) (size0 : N) (ops : list (rop A)) (s : N),
  let d := fst (rrun A size0 ops) in
  In s (seqs A d) -> forall s', s < s' <= d_seq A d -> In s' (seqs A d).
Proof. exact reconf_replay_complete. Qed.
Print Assumptions C10_reconfigured_replay_complete.

(* one publication under the size in force: nothing that has fewer than size newer updates is discarded (nothing at
   all when size = 0); nothing appears from nowhere; a cleanup that runs leaves nothing older; without one nothing goes *)
Theorem C10_publication_keeps_recent : forall (A : Type) (size : N) (d : db A) (run : bool) (x : A) (s : N),
  In s (seqs A d ++ [d_seq A d + 1]) -> size = 0 \/ d_seq A d + 1 - size < s -> In s (seqs A (persist A size d (run, x))).
Proof. exact persist_keeps_recent. Qed.
Print Assumptions C10_publication_keeps_recent.

Theorem C10_publication_only_known : forall (A : Type) (size : N) (d : db A) (rx : bool * A) (s : N),
  In s (seqs A (persist A size d rx)) -> In s (seqs A d ++ [d_seq A d + 1]).
Proof. exact persist_only_known. Qed.
Print Assumptions C10_publication_only_known.

Theorem C10_cleanup_drops_old : forall (A : Type) (size : N) (d : db A) (x : A) (s : N),
  contiguous (d_seq A d) (seqs A d) -> size <> 0 ->
  In s (seqs A (persist A size d (true, x))) -> d_seq A d + 1 - size < s.
Proof. exact persist_drops_old. Qed.
Print Assumptions C10_cleanup_drops_old.

(* non-vacuity: size 5 then 10 (nothing is lost to the larger window), then 2 with cleanup on every publication *)
Example C10_reconfigured_nonvacuous :
  let ops := repeat (RPub unit true tt) 7 ++ [RReopen unit (Some 10)] ++ repeat (RPub unit true tt) 2 ++
             [RReopen unit (Some 2)] ++ [RPub unit true tt] in
  seqs unit (fst (rrun unit 5 (firstn 10 ops))) = [3; 4; 5; 6; 7; 8; 9] /\ seqs unit (fst (rrun unit 5 ops)) = [9; 10].
Proof. vm_compute. split; reflexivity. Qed.
