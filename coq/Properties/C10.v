(* C10 — history retention keeps a contiguous most-recent window of the configured size.
   Statements only; proofs in Proofs/BoltHistProofs.v. *)
From Mercure Require Import Base BoltHist BoltHistProofs.

(* For every size, every outcome of the probabilistic cleanup trigger at each publication, every number of
   publications, with the file closed and reopened anywhere: the retained sequence numbers are exactly
   lo..n (no update is discarded while an older one is kept); they are never fewer than min(n, size);
   exactly that many when cleanup runs on every publication; everything when size = 0 or cleanup never runs. *)
Theorem C10_window : forall (A : Type) (size : N) (ops : list (hop A)),
  let d := run_hist A size ops in
  d_seq A d = N.of_nat (length (pubs A ops)) /\
  window_ok size (forallb (fun r => r) (pubs A ops)) (forallb negb (pubs A ops)) (d_seq A d) (seqs A d).
Proof. exact window. Qed.
Print Assumptions C10_window.

(* Consequently a replay from any retained entry is complete. *)
Theorem C10_replay_complete : forall (A : Type) (size : N) (ops : list (hop A)) (s : N),
  let d := run_hist A size ops in
  In s (seqs A d) -> forall s', s < s' <= d_seq A d -> In s' (seqs A d).
Proof. exact replay_complete. Qed.
Print Assumptions C10_replay_complete.

(* non-vacuity: size 3, cleanup skipped twice then run: several keys are deleted in one cleanup *)
Example C10_nonvacuous :
  seqs unit (run_hist unit 3 [Pub unit true tt; Pub unit false tt; Pub unit false tt; Pub unit false tt; Reopen unit;
                              Pub unit false tt; Pub unit true tt]) = [4; 5; 6].
Proof. vm_compute. reflexivity. Qed.
