(* C15 — closing the hub ends every stream and rejects later operations. Statements only; proofs in
   Proofs/HubProofs3.v over the hub transition system (every schedule, both transports). *)
From Mercure Require Import Base Hub HubProofs3 HubProofs7 HubProofs10.

(* from the moment Close has run its critical section, and for ever after, every indexed subscriber's
   channel is closed: its handler observes the end of the stream after what was buffered *)
Theorem C15_streams_end :
  forall mt cap tracking persistent size reqs pubs sched,
  ClosedOk (w_st (wrun mt cap tracking (winit persistent size reqs pubs) sched)).
Proof. exact streams_end. Qed.
Print Assumptions C15_streams_end.

(* a publish attempted after Close began is refused and changes nothing *)
Theorem C15_publish_rejected : forall mt cap tracking w t p u todo,
  h_closed (w_st w) = true -> nth_error (w_pubs w) t = Some p -> pb_todo p = u :: todo -> pb_checked p = false ->
  w_st (wstep mt cap tracking w (APubCheck t)) = w_st w /\
  exists p', nth_error (w_pubs (wstep mt cap tracking w (APubCheck t))) t = Some p' /\ pb_results p' = pb_results p ++ [(u, false)].
Proof. exact publish_rejected_after_close. Qed.
Print Assumptions C15_publish_rejected.

(* ... and a subscriber is refused without being indexed *)
Theorem C15_subscribe_rejected : forall mt cap tracking st i s c st',
  h_closed st = true -> nth_error (h_subs st) i = Some s -> hs_phase s = PAnnounced ->
  sub_step mt cap tracking st i s c = Some st' ->
  h_index st' = h_index st /\ exists s', nth_error (h_subs st') i = Some s' /\ hs_phase s' = PRefused.
Proof. exact subscribe_rejected_after_close. Qed.
Print Assumptions C15_subscribe_rejected.

(* closing twice is harmless *)
Theorem C15_idempotent : forall st, h_close st = 3%nat -> close_step st = None.
Proof. exact close_idempotent. Qed.
Print Assumptions C15_idempotent.

(* disconnected and "channel closed" coincide for every subscriber in every reachable state *)
Theorem C15_flags : forall mt cap tracking persistent size reqs pubs sched,
  FlagsEq (w_st (wrun mt cap tracking (winit persistent size reqs pubs) sched)).
Proof. exact flags_reachable. Qed.
Print Assumptions C15_flags.

Example C15_nonvacuous :
  let w := wrun (fun _ _ => true) 2 false (winit true 0 [NoReq; Earliest] [[1]])
             [ASub 0 true; ASub 0 true; ASub 0 true; ASub 0 true; ASub 0 true; ASub 1 true; ASub 1 true;
              AClose; AClose; AClose; AClose] in
  h_close (w_st w) = 3%nat /\ map hs_closed (h_subs (w_st w)) = [true; true] /\ h_index (w_st w) = [0; 1]%nat.
Proof. vm_compute. repeat split. Qed.

(* "the history file can immediately be reopened and contains every acknowledged update": with no retention limit,
   in every reachable state - in particular once Close has returned - and with crashes anywhere, the file holds the
   committed history in commit order, hence every acknowledged update; and reopening after Close finds the same file *)
Theorem C15_file_holds_every_acknowledged_update :
  forall mt cap tracking reqs pubs sched,
  let st := w_st (wrun mt cap tracking (winit true 0 reqs pubs) sched) in
  map snd (h_db st) = h_committed st /\ Forall (fun u => In u (map snd (h_db st))) (h_acked st).
Proof. exact file_holds_acknowledged. Qed.
Print Assumptions C15_file_holds_every_acknowledged_update.

Theorem C15_reopen_after_close :
  forall st, h_persistent st = true -> h_close st = 3%nat -> h_db (crash st) = h_db st.
Proof. exact reopen_after_close. Qed.
Print Assumptions C15_reopen_after_close.

Example C15_file_nonvacuous :
  let w := wrun (fun _ _ => true) 2 false (winit true 0 [NoReq] [[1; 2]; [3]])
             [APubCheck 0; APublish 0 true; APubCheck 1; APublish 1 true; AClose; AClose; AClose; APubCheck 0; ACrash] in
  map snd (h_db (w_st w)) = [1; 3] /\ h_acked (w_st w) = [1; 3] /\ h_close (w_st w) = 0%nat.
Proof. vm_compute. repeat split; reflexivity. Qed.
