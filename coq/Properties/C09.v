(* C09 — acknowledged and delivered updates are durable and atomic across crashes (model level).
   Statements only; proofs in Proofs/HubProofs4.v. bbolt's write transaction is one atomic, durable step of the
   model (its contract - trusted, exercised by the kill-point runs of the harness); everything else interleaves. *)
From Mercure Require Import Base Hub HubProofs4 HubProofs7 HubProofs10.

(* in every reachable state, with crashes anywhere in the schedule: every acknowledged update is committed; every
   database entry is the committed update of that sequence number (same position for ever); the newest committed
   update is in the database *)
Theorem C09_durable :
  forall mt cap tracking persistent size reqs pubs sched,
  I09 (w_st (wrun mt cap tracking (winit persistent size reqs pubs) sched)).
Proof. exact durable_reachable. Qed.
Print Assumptions C09_durable.

(* a publish is acknowledged only once its update is in the database, at its sequence number *)
Theorem C09_ack_implies_stored : forall mt cap tracking w t coin p u todo,
  I09 (w_st w) -> h_persistent (w_st w) = true ->
  nth_error (w_pubs w) t = Some p -> pb_todo p = u :: todo -> pb_checked p = true ->
  let w' := wstep mt cap tracking w (APublish t coin) in
  h_acked (w_st w') = h_acked (w_st w) ++ [u] -> In (h_seq (w_st w'), u) (h_db (w_st w')).
Proof. exact ack_implies_stored. Qed.
Print Assumptions C09_ack_implies_stored.

(* a crash loses nothing that was committed: database, bucket sequence and committed history survive unchanged *)
Theorem C09_crash_keeps_history : forall st,
  h_persistent st = true -> h_db (crash st) = h_db st /\ h_seq (crash st) = h_seq st /\ h_committed (crash st) = h_committed st.
Proof. exact crash_keeps_history. Qed.
Print Assumptions C09_crash_keeps_history.

(* each step only appends to the committed history *)
Theorem C09_committed_grows : forall mt cap tracking w a,
  I09 (w_st w) -> grows (w_st w) (w_st (wstep mt cap tracking w a)).
Proof. intros mt cap tracking w a H. exact (proj2 (i09_wstep mt cap tracking w a H)). Qed.
Print Assumptions C09_committed_grows.

Example C09_nonvacuous :
  let w := wrun (fun _ _ => true) 2 false (winit true 2 [] [[1; 2; 3]])
             [APubCheck 0; APublish 0 true; APubCheck 0; APublish 0 false; ACrash; APubCheck 0; APublish 0 true] in
  h_db (w_st w) = [(2, 2); (3, 3)] /\ h_acked (w_st w) = [1; 2; 3] /\ h_lastseq (w_st w) = 3.
Proof. vm_compute. repeat split. Qed.

(* what the file holds, in every reachable state with crashes anywhere and any retention size: a contiguous suffix of
   the committed history, in commit order, under consecutive sequence numbers starting right after what retention
   dropped ("at the same position"), and never empty once something was committed (the newest update is there) *)
Theorem C09_file_is_committed_suffix :
  forall mt cap tracking size reqs pubs sched,
  let st := w_st (wrun mt cap tracking (winit true size reqs pubs) sched) in
  map snd (h_db st) = skipn (dropped st) (h_committed st) /\
  map fst (h_db st) = map (fun k => N.of_nat (dropped st) + 1 + N.of_nat k) (seq 0 (length (h_db st))) /\
  (h_committed st <> [] -> h_db st <> []).
Proof. exact file_content. Qed.
Print Assumptions C09_file_is_committed_suffix.

Example C09_file_nonvacuous :
  let w := wrun (fun _ _ => true) 2 false (winit true 2 [] [[1; 2; 3]])
             [APubCheck 0; APublish 0 true; APubCheck 0; APublish 0 true; ACrash; APubCheck 0; APublish 0 true] in
  dropped (w_st w) = 1%nat /\ map snd (h_db (w_st w)) = [2; 3] /\ map fst (h_db (w_st w)) = [2; 3].
Proof. vm_compute. repeat split; reflexivity. Qed.
