(* C11 — selector matching follows the protocol and caching never changes an answer.
   Statements only; proofs in Proofs/MatchProofs.v. The URI-template library is a parameter. *)
From Mercure Require Import Base Match MatchProofs UriTemplate UriTemplateProofs.

(* The rule: "*", or equal character for character, or a valid template the topic matches. *)
Theorem C11_spec : forall tmatch topic sel,
  match_spec tmatch topic sel = true <->
  sel = star \/ topic = sel \/ exists f, tmatch sel = Some f /\ f topic = true.
Proof. exact spec_iff. Qed.
Print Assumptions C11_spec.

Theorem C11_invalid_template_matches_only_itself : forall tmatch topic sel,
  tmatch sel = None -> (match_spec tmatch topic sel = true <-> sel = star \/ topic = sel).
Proof. exact invalid_template_matches_only_itself. Qed.
Print Assumptions C11_invalid_template_matches_only_itself.

(* What the code evaluates without a cache (with its "{" shortcut) is the rule. *)
Theorem C11_code_follows_rule : forall tmatch,
  (forall sel f topic, has_brace sel = false -> tmatch sel = Some f -> f topic = true -> topic = sel) ->
  forall topic sel, match_raw tmatch topic sel = match_spec tmatch topic sel.
Proof. exact match_raw_spec. Qed.
Print Assumptions C11_code_follows_rule.

(* Any sequence of lookups, from any truthful cache state (hence after any evictions), returns the uncached answers. *)
Theorem C11_cache_transparent : forall tmatch qs c,
  truthful tmatch c ->
  run_lookups tmatch c qs = map (fun q => match_raw tmatch (fst q) (snd q)) qs.
Proof. exact run_lookups_transparent. Qed.
Print Assumptions C11_cache_transparent.

(* Under every interleaving of the cache Get/Set steps of any number of concurrent evaluations, with
   evictions anywhere, every answer is the protocol's. *)
Theorem C11_concurrent_transparent : forall tmatch,
  (forall sel f topic, has_brace sel = false -> tmatch sel = Some f -> f topic = true -> topic = sel) ->
  forall sched c qss,
  truthful tmatch c ->
  Forall (fun th => Forall (fun d => snd d = match_spec tmatch (fst (fst d)) (snd (fst d))) (ct_done th))
         (snd (crun tmatch (c, map start_thread qss) sched)).
Proof. intros tmatch H sched c qss Hc. exact (concurrent_transparent tmatch H sched c qss Hc). Qed.
Print Assumptions C11_concurrent_transparent.

(* ---- layer B: the template library as the hub uses it (Model/UriTemplate.v) ---- *)

(* The executable matcher is exactly the language of the regular expression the library generates
   (literals, and per expression  (?:first( C1* (?:sep C2* ){0,max} ))?  ), anchored at both ends. *)
Theorem C11_template_matcher_decides_language : forall ps s,
  rx_match ps s = true <-> PartsL ps s.
Proof. exact rx_match_spec. Qed.
Print Assumptions C11_template_matcher_decides_language.

(* ... where the language of one expression body is literally  C1* (?:sep C2* ){0,k} : a run of class characters and
   pct-triplets, then at most k (any number when k = None) groups of a separator and a run. *)
Theorem C11_language_is_the_regular_expression : forall cls1 cls2 sep k s,
  BodyL cls1 cls2 sep k s <-> exists u r, s = u ++ r /\ UnitsL cls1 u /\ SepsL cls2 sep k r.
Proof. exact BodyL_is_the_expression. Qed.
Print Assumptions C11_language_is_the_regular_expression.

(* "...a valid URI template of which the topic is an expansion" (if): every RFC 6570 expansion - any
   operator, prefix and explode modifiers, any number of variables, each undefined, a string or a list of strings
   of any characters - of a selector the hub treats as a template is answered true, whatever the cache did before.
   (Associative-array values are not modelled; for them the property fails in one known corner, DESIGN.md section 6.) *)
Theorem C11_expansions_match : forall sel ps env f,
  ut_parse sel = Some ps -> ut_tmatch sel = Some f ->
  f (ut_expand ps env) = true /\ match_spec ut_tmatch (ut_expand ps env) sel = true.
Proof.
  intros sel ps env f Hp Hf. split; [exact (expansion_matches_hub sel ps env f Hp Hf)|].
  apply spec_iff. right. right. exists f. split; [exact Hf | exact (expansion_matches_hub sel ps env f Hp Hf)].
Qed.
Print Assumptions C11_expansions_match.

(* With the modelled library in the place of the parameter, the hypothesis of C11_code_follows_rule and
   C11_concurrent_transparent (a selector without "{" matches only itself) is a theorem, and both hold outright:
   what the hub evaluates - uncached, cached after any history and evictions, or concurrently under every
   interleaving of the cache operations - is the rule "*, or equal, or a template the topic matches". *)
Theorem C11_brace_free_template_is_a_literal : forall sel f topic,
  has_brace sel = false -> ut_tmatch sel = Some f -> f topic = true -> topic = sel.
Proof. exact brace_free_matches_itself. Qed.
Print Assumptions C11_brace_free_template_is_a_literal.

Theorem C11_hub_follows_rule_modelled_library : forall topic sel,
  match_raw ut_tmatch topic sel = match_spec ut_tmatch topic sel.
Proof. exact (match_raw_spec ut_tmatch brace_free_matches_itself). Qed.
Print Assumptions C11_hub_follows_rule_modelled_library.

Theorem C11_concurrent_transparent_modelled_library : forall sched c qss,
  truthful ut_tmatch c ->
  Forall (fun th => Forall (fun d => snd d = match_spec ut_tmatch (fst (fst d)) (snd (fst d))) (ct_done th))
         (snd (crun ut_tmatch (c, map start_thread qss) sched)).
Proof. exact (concurrent_transparent ut_tmatch brace_free_matches_itself). Qed.
Print Assumptions C11_concurrent_transparent_modelled_library.

(* (only if) is false of the code: the generated expression ignores variable names and prefix lengths.
   Recorded as known findings c11-regexp-ignores-variable-name / c11-regexp-ignores-prefix-length. *)
Theorem C11_only_expansions_match_refuted_name :
  exists ps f, ut_parse w_sel1 = Some ps /\ ut_tmatch w_sel1 = Some f /\ f w_topic1 = true /\
               forall env, ut_expand ps env <> w_topic1.
Proof. exact match_without_expansion_name. Qed.
Print Assumptions C11_only_expansions_match_refuted_name.

Theorem C11_only_expansions_match_refuted_prefix :
  exists ps f, ut_parse w_sel2 = Some ps /\ ut_tmatch w_sel2 = Some f /\ f w_topic2 = true /\
               forall env, (forall n v, env n = Some (VStr v) -> Forall (fun c => c <> []) v) -> ut_expand ps env <> w_topic2.
Proof. exact match_without_expansion_prefix. Qed.
Print Assumptions C11_only_expansions_match_refuted_prefix.

(* non-vacuity: "/a{?x:3,y*}b" parses, compiles, and its expansion for x = y = "a bc" is "/a?x=a%20b&y=a%20bcb" *)
Example C11_template_nonvacuous :
  let sel := [47;97;123;63;120;58;51;44;121;42;125;98] in
  exists ps f, ut_parse sel = Some ps /\ ut_tmatch sel = Some f /\
    ut_expand ps (fun _ => Some (VStr [[97];[32];[98];[99]])) =
      [47;97;63;120;61;97;37;50;48;98;38;121;61;97;37;50;48;98;99;98] /\
    (* x undefined, y the list ("a", "", "b c"): "/a?y=a&y=&y=b%20cb" *)
    ut_expand ps (fun n => if str_eqb n [121] then Some (VList [[[97]]; []; [[98];[32];[99]]]) else None) =
      [47;97;63;121;61;97;38;121;61;38;121;61;98;37;50;48;99;98] /\
    f [47;97;63;121;61;97;38;121;61;38;121;61;98;37;50;48;99;98] = true /\
    f [47;97;63;120;61;97;37;50;48;98;38;121;61;97;37;50;48;98;99;98] = true /\ f [47;97;47;98] = false.
Proof. eexists. eexists. vm_compute. repeat split; reflexivity. Qed.

(* non-vacuity: two pairs sharing the cache key "m_{x}_y_z" are answered independently *)
Example C11_nonvacuous :
  let tbl := [([123;120;125], [[121;95;122]]); ([123;120;125;95;121], [])] in
  let q1 := ([121;95;122], [123;120;125]) in      (* topic "y_z", selector "{x}" *)
  let q2 := ([122], [123;120;125;95;121]) in      (* topic "z",   selector "{x}_y" *)
  key_m (snd q1) (fst q1) = key_m (snd q2) (fst q2) /\
  run_lookups (tmatch_of tbl) [] [q1; q2; q1] = [true; false; true].
Proof. vm_compute. split; reflexivity. Qed.
