(* C11 — selector matching follows the protocol and caching never changes an answer.
   Statements only; proofs in Proofs/MatchProofs.v. The URI-template library is a parameter. *)
From Mercure Require Import Base Match MatchProofs.

(* The rule: "*", or equal character for character, or a valid template the topic matches. *)
Theorem C11_spec : forall tmatch topic sel,
  match_spec tmatch topic sel = true <->
  sel = star \/ topic = sel \/ exists f, tmatch sel = Some f /\ f topic = true.
Proof. exact spec_iff. Qed.
Print Assumptions C11_spec.

Theorem C11_invalid_template_matches_only_itself : forall tmatch topic sel,
  tmatch sel = None -> (match_spec tmatch topic sel = true <-> sel = star \/ topic = sel).
Proof. exact invalid_template_matches_only_itself. Qed.
Print Assumptions C11_invalid_template_matches_only_itself.

(* What the code evaluates without a cache (with its "{" shortcut) is the rule. *)
Theorem C11_code_follows_rule : forall tmatch,
  (forall sel f topic, has_brace sel = false -> tmatch sel = Some f -> f topic = true -> topic = sel) ->
  forall topic sel, match_raw tmatch topic sel = match_spec tmatch topic sel.
Proof. exact match_raw_spec. Qed.
Print Assumptions C11_code_follows_rule.

(* Any sequence of lookups, from any truthful cache state (hence after any evictions), returns the uncached answers. *)
Theorem C11_cache_transparent : forall tmatch qs c,
  truthful tmatch c ->
  run_lookups tmatch c qs = map (fun q => match_raw tmatch (fst q) (snd q)) qs.
Proof. exact run_lookups_transparent. Qed.
Print Assumptions C11_cache_transparent.

(* Under every interleaving of the cache Get/Set steps of any number of concurrent evaluations, with
   evictions anywhere, every answer is the protocol's. *)
Theorem C11_concurrent_transparent : forall tmatch,
  (forall sel f topic, has_brace sel = false -> tmatch sel = Some f -> f topic = true -> topic = sel) ->
  forall sched c qss,
  truthful tmatch c ->
  Forall (fun th => Forall (fun d => snd d = match_spec tmatch (fst (fst d)) (snd (fst d))) (ct_done th))
         (snd (crun tmatch (c, map start_thread qss) sched)).
Proof. intros tmatch H sched c qss Hc. exact (concurrent_transparent tmatch H sched c qss Hc). Qed.
Print Assumptions C11_concurrent_transparent.

(* non-vacuity: two pairs sharing the cache key "m_{x}_y_z" are answered independently *)
Example C11_nonvacuous :
  let tbl := [([123;120;125], [[121;95;122]]); ([123;120;125;95;121], [])] in
  let q1 := ([121;95;122], [123;120;125]) in      (* topic "y_z", selector "{x}" *)
  let q2 := ([122], [123;120;125;95;121]) in      (* topic "z",   selector "{x}_y" *)
  key_m (snd q1) (fst q1) = key_m (snd q2) (fst q2) /\
  run_lookups (tmatch_of tbl) [] [q1; q2; q1] = [true; false; true].
Proof. vm_compute. split; reflexivity. Qed.
