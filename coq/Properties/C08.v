(* C08 — Last-Event-ID negotiation tells the subscriber truthfully whether it lost data.
   Statements only; proofs in Proofs/HandlerProofs.v. *)
From Mercure Require Import Base Handler LastEventID HandlerProofs.

(* header, else lastEventID, else - only in version-7 compatibility mode - the first legacy value *)
Theorem C08_carrier_precedence : forall hdr qry legacy compat7,
  retrieve_last_event_id hdr qry legacy compat7 =
  match hdr with
  | _ :: _ => hdr
  | [] => match qry with
          | _ :: _ => qry
          | [] => if compat7 then match legacy with Some (v :: _) => v | _ => [] end else []
          end
  end.
Proof. exact carrier_precedence. Qed.
Print Assumptions C08_carrier_precedence.

(* the response carries a Last-Event-ID header exactly when one was requested *)
Theorem C08_header_iff_requested : forall persistent h req,
  fst (negotiate persistent h req) = None <-> req = [].
Proof. exact header_iff_requested. Qed.
Print Assumptions C08_header_iff_requested.

(* for every retained history h (ids in order) and every requested id: the reported id equals the requested one
   exactly when it is "earliest" or occurs in h; then the replay is everything, resp. everything after its first
   occurrence; otherwise nothing is replayed and the reported id is the newest retained one ("earliest" if none) *)
Theorem C08_truthful : forall h req,
  let '(rho, rep) := history_scan h req in
  (rho = req <-> req = s_earliest \/ In req h) /\
  (req = s_earliest -> rho = s_earliest /\ rep = h) /\
  (req <> s_earliest -> In req h -> rep = after_first req h) /\
  (req <> s_earliest -> ~ In req h -> rep = [] /\ rho = last h s_earliest).
Proof. exact truthful. Qed.
Print Assumptions C08_truthful.

(* the spec predicate of the correspondence check holds of the model, on both transports *)
Theorem C08_spec_holds_of_model : forall compat7 persistent h hdr qry legacy,
  let req := retrieve_last_event_id hdr qry legacy compat7 in
  c08_ok {| c8_compat7 := compat7; c8_persistent := persistent; c8_history := h;
            c8_hdr := hdr; c8_qry := qry; c8_legacy := legacy;
            c8_resp := fst (negotiate persistent h req); c8_replayed := snd (negotiate persistent h req) |} = true.
Proof. exact c08_ok_model. Qed.
Print Assumptions C08_spec_holds_of_model.

Example C08_nonvacuous :
  history_scan [[98]; [97]; [99]; [97]; [100]] [97] = ([97], [[99]; [97]; [100]]) /\
  history_scan [[98]; [97]] [122] = ([97], []) /\ history_scan [] [122] = (s_earliest, []).
Proof. vm_compute. repeat split. Qed.
