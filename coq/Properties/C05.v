(* C05 — each update is handed to exactly the connected subscribers that match it.
   Statements only; proofs in Proofs/SubIndexProofs.v. *)
From Mercure Require Import Base Match SubIndex SubIndexProofs.

(* For every URI-template oracle (whose brace-free templates match only themselves), every history of
   Add / Remove / Dispatch operations and arbitrary forgetting by the memo cache (Evict, any subset,
   anywhere), in which topic lists are non-empty and no subscriber is added twice: every Dispatch reports
   exactly the subscribers connected at that point for which some topic matches one of their selectors
   (and which are authorized when the update is private), as computed naively from the history. *)
Theorem C05_recipients_exact :
  forall (tmatch : str -> option (str -> bool)),
  (forall sel f topic, has_brace sel = false -> tmatch sel = Some f -> f topic = true -> topic = sel) ->
  forall ops : list op,
  ops_ok [] ops = true ->
  snd (ix_run tmatch ix_empty ops) = spec_run tmatch [] ops.
Proof. exact recipients_exact. Qed.
Print Assumptions C05_recipients_exact.

(* The filter key round-trips: topic strings containing the delimiter/escape bytes, empty strings and
   duplicates included. *)
Theorem C05_decode_encode : forall (ts : list str) (p : bool),
  ts <> [] -> decode (encode ts p) = (sort_strs ts, p).
Proof. exact decode_encode. Qed.
Print Assumptions C05_decode_encode.

Theorem C05_encode_injective : forall ts p ts' p',
  ts <> [] -> ts' <> [] -> encode ts p = encode ts' p' -> sort_strs ts = sort_strs ts' /\ p = p'.
Proof. exact encode_injective. Qed.
Print Assumptions C05_encode_injective.

(* MatchTopics does not depend on the order of the update's topics. *)
Theorem C05_match_topics_perm : forall m sub al ts ts' p,
  Permutation.Permutation ts ts' ->
  match_topics_with m sub al ts p = match_topics_with m sub al ts' p.
Proof. intros. rewrite !match_topics_with_spec. apply match_topics_spec_perm. assumption. Qed.
Print Assumptions C05_match_topics_perm.

(* non-vacuity: a history with the delimiter bytes in topics, a removal and a late subscriber *)
Example C05_nonvacuous :
  let s1 := {| s_label := 1; s_topics := [[0;1]]; s_allowed := [] |} in
  let s2 := {| s_label := 2; s_topics := [[42]]; s_allowed := [] |} in
  let ops := [Add s1; Dispatch [[0;1]; []] false; Add s2; Dispatch [[0;1]] false; Remove 1; Evict [false]; Dispatch [[0;1]] false] in
  ops_ok [] ops = true /\
  snd (ix_run (fun _ => None) ix_empty ops) = [None; Some [1]; None; Some [1; 2]; None; None; Some [2]].
Proof. vm_compute. split; reflexivity. Qed.
