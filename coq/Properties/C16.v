(* C16 — connections respect heartbeat cadence, maximum duration and token expiry.
   Statements only; proofs in Proofs/TimersProofs.v over the timed automaton of Model/Timers.v
   (every configuration, token expiry and arrival times; the handler is eager, writes take no time). *)
From Mercure Require Import Base Timers TimersProofs.
Open Scope Z_scope.

(* the write deadline is the earlier of "opening + write timeout" and the token's expiry, absent terms dropped *)
Theorem C16_deadlines : forall c,
  match write_deadline c with
  | None => write_timeout c = 0 /\ token_exp c = None
  | Some d =>
      (write_timeout c <> 0 -> d <= write_timeout c) /\ (forall e, token_exp c = Some e -> d <= e) /\
      ((write_timeout c <> 0 /\ d = write_timeout c) \/ token_exp c = Some d)
  end.
Proof. exact deadlines. Qed.
Print Assumptions C16_deadlines.

(* the disconnection timer is armed exactly when a write timeout is configured: one dispatch timeout before the deadline *)
Theorem C16_disconnect_due : forall c x,
  disconnect_due c = Some x <->
  write_timeout c <> 0 /\ exists d, write_deadline c = Some d /\ x = d - dispatch_timeout c.
Proof. exact disconnect_due_spec. Qed.
Print Assumptions C16_disconnect_due.

(* on an open stream, whatever the select loop chooses, the next write comes no later than one heartbeat interval after the previous one *)
Theorem C16_heartbeat_gap : forall fuel c prev arr,
  0 < heartbeat c ->
  gaps_le (heartbeat c) prev (ok_writes (thandler fuel c (Some (prev + heartbeat c)) arr)) = true.
Proof. exact heartbeat_gap. Qed.
Print Assumptions C16_heartbeat_gap.

(* nothing is written successfully after the deadline *)
Theorem C16_no_write_after : forall fuel c hb arr t,
  In t (ok_writes (thandler fuel c hb arr)) -> write_ok c t = true.
Proof. exact no_write_after. Qed.
Print Assumptions C16_no_write_after.

(* (an instant that is already past when the connection opens - a dispatch timeout beyond the write timeout or beyond the
   token's remaining life - is negative on this time line: the timer fires at once, before anything else) *)
(* with a maximum duration the hub ends the connection itself, exactly at the disconnection instant - no write fails before
   and it does not end earlier; without one, the handler ends only on a write attempted after the deadline *)
Theorem C16_end_exact : forall fuel c hb arr t b,
  0 <= dispatch_timeout c ->
  In (TEnd t b) (thandler fuel c hb arr) ->
  match disconnect_due c with
  | Some d => b = true /\ t = d
  | None => b = false /\ write_ok c t = false
  end.
Proof. exact end_exact. Qed.
Print Assumptions C16_end_exact.

Example C16_nonvacuous :
  trun 100 {| write_timeout := 100; dispatch_timeout := 7; heartbeat := 30; token_exp := Some 80 |} [10; 45] =
  [TWrite 10 WUpdate true; TWrite 40 WHeartbeat true; TWrite 45 WUpdate true; TEnd 73 true].
Proof. vm_compute. reflexivity. Qed.
