(* C07 — reconnection replays exactly the missed updates, then continues live seamlessly.
   Statements only; proofs in Proofs/HubProofs7.v. The system is the hub transition system of Model/Hub.v with full
   retention, for either transport (persistent = true: Bolt; false: the local transport, which keeps no history, so
   that whatever is requested nothing is replayed): any number of publishers and subscriber handlers, Close, and
   crashes (ACrash: the process dies and the hub reopens the same history file), under every schedule. A schedule
   places every publish anywhere relative to the registration (index + cut-off), the history scan (one entry per
   step) and the go-live flush (one queued update per step) of every subscriber. *)
From Mercure Require Import Base Hub HubProofs7 BoltHist BoltPersist BoltPersistProofs.

(* In every reachable state, for every subscriber: with target := the ideal sequence
     (matching stored updates after the requested id, up to the cut-off read at registration)
     ++ (matching updates committed after the cut-off),
   what it has been sent is a prefix of target, what its handler has written to the client is a prefix of target,
   the handler writes in FIFO order what was sent, and while it is live and has not been cut off it has been sent
   exactly target: nothing lost, duplicated or reordered at the junction. A subscriber the hub cannot serve
   (buffer overflow, Close) is cut off: it keeps a gap-free prefix. *)
Theorem C07_replay_then_live :
  forall (mt : nat -> N -> bool) (cap : nat) (tracking persistent : bool) reqs pubs sched i s,
  let st := w_st (wrun mt cap tracking (winit persistent 0 reqs pubs) sched) in
  nth_error (h_subs st) i = Some s ->
  let target := ideal mt i (h_committed st) (hs_cut s) (eff_req persistent (hs_req s)) in
  (N.to_nat (hs_cut s) <= length (h_committed st))%nat /\
  prefix (hs_sent s) target /\ prefix (hs_recvd s) target /\ hs_sent s = hs_recvd s ++ hs_out s /\
  (forall left, hs_phase s = PLive left -> hs_disc s = false -> hs_sent s = target).
Proof. exact replay_then_live. Qed.
Print Assumptions C07_replay_then_live.

(* any retention size. k0 is the number of entries retention had dropped from the front of the stored history when the
   subscriber's scan read it (at most what has been dropped by now): the replay covers the retained entries that follow
   the requested id up to the cut-off ("earliest": all retained entries up to the cut-off; an id that was already
   dropped is unknown). With retention off k0 = 0 and this is the statement above. *)
Theorem C07_replay_then_live_with_retention :
  forall (mt : nat -> N -> bool) (cap : nat) (tracking persistent : bool) size reqs pubs sched i s,
  let st := w_st (wrun mt cap tracking (winit persistent size reqs pubs) sched) in
  nth_error (h_subs st) i = Some s ->
  exists k0, (k0 <= dropped st)%nat /\
  let target := ideal_k mt i (h_committed st) k0 (hs_cut s) (eff_req persistent (hs_req s)) in
  (N.to_nat (hs_cut s) <= length (h_committed st))%nat /\
  prefix (hs_sent s) target /\ prefix (hs_recvd s) target /\ hs_sent s = hs_recvd s ++ hs_out s /\
  (forall left, hs_phase s = PLive left -> hs_disc s = false -> hs_sent s = target).
Proof. exact replay_then_live_retention. Qed.
Print Assumptions C07_replay_then_live_with_retention.

(* ... and that target is again the matching part of the commit order from one point k on: the first retained entry for
   "earliest", just after the requested id when it is among the retained entries up to the cut-off, the registration
   point otherwise *)
Theorem C07_ideal_with_retention :
  forall (mt : nat -> N -> bool) i C k0 cut rq,
  (N.to_nat cut <= length C)%nat ->
  exists k, ideal_k mt i C k0 cut rq = filter (mt i) (skipn k C) /\ (k <= N.to_nat cut)%nat /\
    ((k0 <= N.to_nat cut)%nat -> (k0 <= k)%nat) /\
    (rq = Earliest -> (k0 <= N.to_nat cut)%nat -> k = k0) /\ (rq = NoReq -> k = N.to_nat cut) /\
    (forall r, rq = ReqId r ->
       (In r (hseg C k0 cut) -> skipn k C = after r (skipn k0 C)) /\ (~ In r (hseg C k0 cut) -> k = N.to_nat cut)).
Proof. intros mt. exact (ideal_k_is_suffix mt 0%nat). Qed.
Print Assumptions C07_ideal_with_retention.

(* eff_req true rq = rq (Bolt: the request is honoured); eff_req false rq = NoReq (local transport: no history) *)
Theorem C07_effective_request : forall rq, eff_req true rq = rq /\ eff_req false rq = NoReq.
Proof. intros rq. split; reflexivity. Qed.
Print Assumptions C07_effective_request.

(* target is what the subscriber would have received had it stayed connected: the matching part of the single
   committed order from one point k on - the beginning for "earliest", just after the requested id when it is stored
   (at or before the cut-off), the registration point otherwise (no id, unknown id) *)
Theorem C07_ideal_is_what_follows_the_requested_id :
  forall (mt : nat -> N -> bool) i C cut rq,
  (N.to_nat cut <= length C)%nat ->
  exists k, (k <= N.to_nat cut)%nat /\ ideal mt i C cut rq = filter (mt i) (skipn k C) /\
    (rq = Earliest -> k = 0%nat) /\ (rq = NoReq -> k = N.to_nat cut) /\
    (forall r, rq = ReqId r ->
       (In r (firstn (N.to_nat cut) C) -> skipn k C = after r C) /\
       (~ In r (firstn (N.to_nat cut) C) -> k = N.to_nat cut)).
Proof. intros mt. exact (ideal_is_suffix mt 0%nat). Qed.
Print Assumptions C07_ideal_is_what_follows_the_requested_id.

(* the scan of the whole stored history sends exactly the history part (the snapshot may already contain updates
   stored after the registration: the scan stops at the cut-off and they arrive through the live queue) *)
Theorem C07_scan_stops_at_cutoff :
  forall (mt : nat -> N -> bool) i cut rq C,
  rq <> NoReq ->
  scan_rest mt i cut rq (entries_from 1 C) (match rq with Earliest => true | _ => false end) = hist_part mt i C cut rq.
Proof. exact scan_whole. Qed.
Print Assumptions C07_scan_stops_at_cutoff.

Example C07_nonvacuous_retention :
  (* retention size 2, cleanup on every publish: 1..4 published (1 and 2 dropped), then a subscriber asking for everything
     and one asking for what follows the dropped id 1: the first gets 3 4, the second nothing from history; 5 goes to both *)
  let mt := fun (i : nat) (u : N) => true in
  let w := wrun mt 5 false (winit true 2 [Earliest; ReqId 1] [[1; 2; 3; 4; 5]])
   ([APubCheck 0; APublish 0 true; APubCheck 0; APublish 0 true; APubCheck 0; APublish 0 true; APubCheck 0; APublish 0 true] ++
    repeat (ASub 0 true) 9 ++ repeat (ASub 1 true) 9 ++ [APubCheck 0; APublish 0 true]) in
  h_committed (w_st w) = [1; 2; 3; 4; 5] /\ map snd (h_db (w_st w)) = [4; 5] /\ dropped (w_st w) = 3%nat /\
  map (fun s => (hs_sent s, hs_cut s, hs_disc s)) (h_subs (w_st w)) = [([3; 4; 5], 4, false); ([5], 4, false)].
Proof. vm_compute. repeat split; reflexivity. Qed.

Example C07_nonvacuous :
  (* 6 and 7 published, crash and restart, 50 (matching nobody) published, subscriber 1 asks for what follows 7 and 8 is
     published between its registration and its history scan; subscriber 2 asks for everything; 9 is published live *)
  let mt := fun (i : nat) (u : N) => negb (N.eqb u 50) in
  let w := wrun mt 5 false (winit true 0 [NoReq; ReqId 7; Earliest] [[6; 7; 50; 8; 9]])
   [APubCheck 0; APublish 0 true; APubCheck 0; APublish 0 true; ACrash; APubCheck 0; APublish 0 true;
    ASub 1 true; ASub 1 true; APubCheck 0; APublish 0 true; ASub 1 true; ASub 1 true; ASub 1 true; ASub 1 true; ASub 1 true;
    ASub 1 true; ASub 1 true; ASub 1 true; ASub 1 true;
    ASub 2 true; ASub 2 true; ASub 2 true; ASub 2 true; ASub 2 true; ASub 2 true; ASub 2 true; ASub 2 true; ASub 2 true;
    ASub 2 true; ASub 2 true; APubCheck 0; APublish 0 true; ARecv 1] in
  h_committed (w_st w) = [6; 7; 50; 8; 9] /\
  map (fun s => (hs_sent s, hs_recvd s, hs_cut s, hs_disc s)) (h_subs (w_st w)) =
  [([], [], 0, false); ([8; 9], [8], 3, false); ([6; 7; 8; 9], [], 4, false)].
Proof. vm_compute. split; reflexivity. Qed.

(* ---- failed write transactions (Model/BoltPersist.v) ---- *)
(* The hub transition system above has no failing write; this smaller model of persist() has: a transaction commits or
   fails as a whole, any number of times, in any order. The cut-off a subscriber reads when it registers (lastSeq)
   separates exactly the keys present at that moment from those stored later, whatever fails before or after:
   replaying the keys <= cut-off and receiving the rest live neither loses nor doubles an update. *)
Theorem C07_cutoff_separates_history_from_live_with_failed_writes :
  forall (A : Type) size (t0 : tstate A) l1 l2, Inv A t0 ->
    let t1 := run A size t0 l1 in
    let t2 := run A size t1 l2 in
    forall e, In e (d_entries A (t_db A t2)) ->
      (fst e <= t_last_seq A t1 -> In e (d_entries A (t_db A t1))) /\
      (In e (d_entries A (t_db A t1)) -> fst e <= t_last_seq A t1).
Proof. exact cutoff_separates. Qed.
Print Assumptions C07_cutoff_separates_history_from_live_with_failed_writes.

(* ... and the hub's last event id is the id of the last update whose transaction committed (C09, C18) *)
Theorem C07_last_event_id_is_last_committed : forall (A : Type) size l (t : tstate A),
  t_last_id A (run A size t l) = match rev (committed A l) with x :: _ => Some x | [] => t_last_id A t end.
Proof. exact last_id_is_last_committed. Qed.
Print Assumptions C07_last_event_id_is_last_committed.

(* The code before 3127a7e (fields assigned inside the transaction, before the Put) did not have the property:
   commit 1, a failed write of 99, a subscriber reads the cut-off, commit 2 - update 2 is stored at or below the cut-off. *)
Theorem C07_cutoff_before_3127a7e_refuted :
  let t0 := {| t_db := db_empty N; t_last_seq := 0; t_last_id := None |} in
  let t1 := run_old N 0 t0 [Commit N false 1; Fail N 99] in
  let t2 := run_old N 0 t1 [Commit N false 2] in
  t_last_id N t1 = Some 99 /\
  exists e, In e (d_entries N (t_db N t2)) /\ ~ In e (d_entries N (t_db N t1)) /\ fst e <= t_last_seq N t1.
Proof. exact old_code_refuted. Qed.
Print Assumptions C07_cutoff_before_3127a7e_refuted.

(* non-vacuity: from the empty database, commit 1, failed 99, commit 2 (cleanup ran), failed 98: the invariant holds, the
   last id is 2, the sequence 2 *)
Example C07_failed_writes_nonvacuous :
  let t0 := {| t_db := db_empty N; t_last_seq := 0; t_last_id := None |} in
  let t := run N 5 t0 [Commit N true 1; Fail N 99; Commit N true 2; Fail N 98] in
  Inv N t0 /\ t_last_id N t = Some 2 /\ t_last_seq N t = 2 /\ d_entries N (t_db N t) = [(1, 1); (2, 2)].
Proof. split; [split; [reflexivity | constructor]|]. vm_compute. repeat split; reflexivity. Qed.
