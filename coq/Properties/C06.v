(* C06 — live delivery is exactly-once and in one consistent order.
   Statements only; proofs in Proofs/HubProofs7.v and Proofs/HubProofs4.v, over the hub transition system of
   Model/Hub.v under every schedule of publishers, subscriber handlers, Close and crashes, for both transports
   (persistent = true: Bolt; false: local; eff_req false _ = NoReq: the local transport replays nothing), with full
   retention. For the local transport the "commit order" is the order of the fan-out critical sections and hs_cut
   the (ghost) position in it at which the subscriber was indexed. *)
From Mercure Require Import Base Hub SubLts HubProofs4 HubProofs7 HubProofs8 SubOrderProofs.

(* while a subscriber is live and has not been cut off, it has been sent - after its replay - exactly the matching
   updates committed after its registration, each once, in commit order *)
Theorem C06_live_exactly_the_matching_suffix :
  forall (mt : nat -> N -> bool) (cap : nat) (tracking persistent : bool) reqs pubs sched i s left,
  let st := w_st (wrun mt cap tracking (winit persistent 0 reqs pubs) sched) in
  nth_error (h_subs st) i = Some s -> hs_phase s = PLive left -> hs_disc s = false ->
  hs_sent s = hist_part mt i (h_committed st) (hs_cut s) (eff_req persistent (hs_req s)) ++
              filter (mt i) (skipn (N.to_nat (hs_cut s)) (h_committed st)).
Proof. exact live_exactly_the_matching_suffix. Qed.
Print Assumptions C06_live_exactly_the_matching_suffix.

(* exactly once: distinct update ids are never sent, nor written to the client, twice *)
Theorem C06_exactly_once :
  forall (mt : nat -> N -> bool) (cap : nat) (tracking persistent : bool) reqs pubs sched i s,
  let st := w_st (wrun mt cap tracking (winit persistent 0 reqs pubs) sched) in
  nth_error (h_subs st) i = Some s -> NoDup (h_committed st) -> NoDup (hs_sent s) /\ NoDup (hs_recvd s).
Proof. exact exactly_once. Qed.
Print Assumptions C06_exactly_once.

(* ... and the committed ids are distinct whenever the published ids are (EVB = 2^40 is where the model's ids of
   subscription events start; each subscriber's active=true / active=false event is dispatched at most once, crashes
   included), so that exactly-once follows from the inputs alone *)
Theorem C06_committed_distinct :
  forall (mt : nat -> N -> bool) (cap : nat) (tracking persistent : bool) size reqs pubs sched,
  NoDup (concat pubs) -> (forall u, In u (concat pubs) -> u < EVB) ->
  NoDup (h_committed (w_st (wrun mt cap tracking (winit persistent size reqs pubs) sched))).
Proof. exact committed_distinct. Qed.
Print Assumptions C06_committed_distinct.

Theorem C06_exactly_once_distinct_ids :
  forall (mt : nat -> N -> bool) (cap : nat) (tracking persistent : bool) size reqs pubs sched i s,
  NoDup (concat pubs) -> (forall u, In u (concat pubs) -> u < EVB) ->
  nth_error (h_subs (w_st (wrun mt cap tracking (winit persistent size reqs pubs) sched))) i = Some s ->
  NoDup (hs_sent s) /\ NoDup (hs_recvd s).
Proof. exact exactly_once_distinct. Qed.
Print Assumptions C06_exactly_once_distinct_ids.

(* the handler writes to the client, in order, what was placed in the subscriber's buffer (both transports) *)
Theorem C06_fifo :
  forall (mt : nat -> N -> bool) (cap : nat) (tracking persistent : bool) size reqs pubs sched i s,
  nth_error (h_subs (w_st (wrun mt cap tracking (winit persistent size reqs pubs) sched))) i = Some s ->
  hs_sent s = hs_recvd s ++ hs_out s.
Proof. intros mt cap tracking persistent size reqs pubs sched i s H. exact (fifo_reachable mt cap tracking persistent size reqs pubs sched i s H). Qed.
Print Assumptions C06_fifo.

(* one total order: the stored history is the committed order, entry k at sequence number k; every subscriber's
   stream is a filter of a suffix of it (C07_ideal_is_what_follows_the_requested_id) *)
Theorem C06_stored_order_is_commit_order :
  forall (mt : nat -> N -> bool) (cap : nat) (tracking : bool) reqs pubs sched,
  let st := w_st (wrun mt cap tracking (winit true 0 reqs pubs) sched) in
  h_db st = entries_from 1 (h_committed st) /\ h_seq st = N.of_nat (length (h_committed st)).
Proof. exact stored_order_is_commit_order. Qed.
Print Assumptions C06_stored_order_is_commit_order.

(* with bounded retention the stored history is the retained suffix of the commit order (dropped st entries have been
   removed from its front), entry k still at sequence number k, and it always contains the newest update *)
Theorem C06_stored_order_with_retention :
  forall (mt : nat -> N -> bool) (cap : nat) (tracking : bool) size reqs pubs sched,
  let st := w_st (wrun mt cap tracking (winit true size reqs pubs) sched) in
  h_db st = entries_from (N.of_nat (dropped st) + 1) (skipn (dropped st) (h_committed st)) /\
  h_seq st = N.of_nat (length (h_committed st)) /\ (h_committed st <> [] -> (dropped st < length (h_committed st))%nat).
Proof. exact stored_order_is_commit_order_retention. Qed.
Print Assumptions C06_stored_order_with_retention.

(* the order is append-only and respects real time: an update whose publish was acknowledged before another one
   was committed precedes it, in every later state (both transports, any retention) *)
Theorem C06_commit_order_respects_real_time :
  forall (mt : nat -> N -> bool) (cap : nat) (tracking persistent : bool) size reqs pubs sched1 sched2 u v,
  let w := wrun mt cap tracking (winit persistent size reqs pubs) sched1 in
  let w' := wrun mt cap tracking w sched2 in
  In u (h_acked (w_st w)) -> ~ In v (h_committed (w_st w)) -> In v (h_committed (w_st w')) ->
  exists l1 l2 l3, h_committed (w_st w') = l1 ++ u :: l2 ++ v :: l3.
Proof. exact commit_order_respects_real_time. Qed.
Print Assumptions C06_commit_order_respects_real_time.

(* The same at the granularity of single lock, atomic and channel operations of localsubscriber.go (Model/SubLts.v), under
   the hub's usage pattern (usage): thread ip dispatches the live updates ids one after the other, thread ir replays the
   history hs and then calls Ready (wr) once, every other thread only disconnects or consumes; any schedule.
   L is the sequence of live updates placed so far - queued, being flushed by Ready, or sent: it is always a prefix of
   ids (dispatch order, nothing twice); and once Ready has completed, unless the subscriber was cut off, everything
   dispatched except the update in flight has been sent (SP: the publisher's updates in the sent sequence). *)
Theorem C06_fine_grained_order_and_no_loss :
  forall (ids : list N) (ip ir capacity : nat) progs hs wr sched,
  usage ids ip ir progs hs wr ->
  let s := run (init capacity progs) sched in
  (exists rest, ids = L ids ir s ++ rest) /\
  (forall thp, nth_error (threads s) ip = Some thp -> ready s = true -> disc s = false -> t_pc thp <> F1 ->
     ids = SP ids s ++ unplaced (t_pc thp) ++ live_ids (t_todo thp)) /\
  (forall thp, nth_error (threads s) ip = Some thp -> ready s = true -> disc s = false -> t_pc thp = Idle -> t_todo thp = [] ->
     SP ids s = ids).
Proof. exact order_and_no_loss. Qed.
Print Assumptions C06_fine_grained_order_and_no_loss.

Example C06_nonvacuous_fine_grained :
  (* publisher, registering thread (two history updates, then Ready) and a consumer, round-robin *)
  let progs := [[ODispatch 1 false; ODispatch 2 false; ODispatch 3 false]; [ODispatch 101 true; ODispatch 102 true; OReady]; [ORecv; ORecv]] in
  usage [1; 2; 3] 0 1 progs [101; 102] true /\
  let s := run (init 10 progs) (concat (repeat [0; 1; 2]%nat 60)) in
  ready s = true /\ disc s = false /\ SP [1; 2; 3] s = [1; 2; 3] /\ sent s = [101; 102; 1; 2; 3] /\ recvd s = [101; 102].
Proof.
  split.
  - unfold usage. repeat split; try reflexivity; try discriminate.
    + repeat constructor; cbn; intuition discriminate.
    + intros u [<-|[<-|[]]]; reflexivity.
    + intros j prog Hj Hp Hr. destruct j as [|[|[|j]]]; try contradiction; cbn in Hj; [inversion Hj; reflexivity|destruct j; discriminate].
  - vm_compute. repeat split; reflexivity.
Qed.

Example C06_nonvacuous_local :
  (* the local transport: a subscriber asking for "earliest" gets only what is dispatched after its registration *)
  let mt := fun (i : nat) (u : N) => true in
  let w := wrun mt 5 false (winit false 0 [Earliest] [[1; 2; 3]])
   [APubCheck 0; APublish 0 true; ASub 0 true; ASub 0 true; APubCheck 0; APublish 0 true; ASub 0 true; ASub 0 true; ASub 0 true; ASub 0 true;
    APubCheck 0; APublish 0 true; ARecv 0] in
  h_committed (w_st w) = [1; 2; 3] /\
  map (fun s => (hs_sent s, hs_recvd s, hs_cut s, hs_disc s)) (h_subs (w_st w)) = [([2; 3], [2], 1, false)].
Proof. vm_compute. split; reflexivity. Qed.

Example C06_nonvacuous :
  (* two publishers interleaved with two subscribers, one of which matches only even ids *)
  let mt := fun (i : nat) (u : N) => Nat.eqb i 0 || N.even u in
  let w := wrun mt 5 false (winit true 0 [NoReq; NoReq] [[1; 2]; [3; 4]])
   [ASub 0 true; ASub 0 true; ASub 0 true; ASub 0 true; ASub 0 true;
    APubCheck 0; APubCheck 1; APublish 1 true; ASub 1 true; ASub 1 true; APublish 0 true; ASub 1 true; ASub 1 true; ASub 1 true; ASub 1 true;
    APubCheck 1; APublish 1 true; APubCheck 0; APublish 0 true; ARecv 0; ARecv 0] in
  h_committed (w_st w) = [3; 1; 4; 2] /\
  map (fun s => (hs_sent s, hs_recvd s, hs_disc s)) (h_subs (w_st w)) = [([3; 1; 4; 2], [3; 1], false); ([4; 2], [], false)].
Proof. vm_compute. split; reflexivity. Qed.
