(* C20 — metrics equal what actually happened. Statements only; proofs in Proofs/HubProofs2.v
   over the hub transition system (every schedule, both transports, crashes). *)
From Mercure Require Import Base Hub HubProofs2.

(* the connected-subscribers gauge is, in every reachable state, the number of handlers between the end of a
   successful registration and the end of shutdown (refused or failed requests count for nothing) *)
Theorem C20_gauge :
  forall mt cap tracking persistent size reqs pubs sched,
  GaugeOk (w_st (wrun mt cap tracking (winit persistent size reqs pubs) sched)).
Proof. exact gauge_reachable. Qed.
Print Assumptions C20_gauge.

(* the counters move only with what they count: at each step updates_total grows by exactly the number of publishes
   acknowledged in that step, subscribers_total by one exactly when the gauge gains a registered handler *)
Theorem C20_counters_step :
  forall mt cap tracking w a, a <> ACrash ->
  let st := w_st w in let st' := w_st (wstep mt cap tracking w a) in
  (h_updates_total st' - h_updates_total st = N.of_nat (length (h_acked st') - length (h_acked st)) /\
   h_updates_total st <= h_updates_total st' /\ (length (h_acked st) <= length (h_acked st'))%nat) /\
  (h_subs_total st' = h_subs_total st \/
   (h_subs_total st' = h_subs_total st + 1 /\ h_gauge st' = (h_gauge st + 1)%Z)).
Proof. exact counters_step. Qed.
Print Assumptions C20_counters_step.

Example C20_nonvacuous :
  let w := wrun (fun _ _ => true) 2 false (winit false 0 [NoReq; NoReq] [[1; 2]])
             [ASub 0 true; ASub 0 true; ASub 0 true; ASub 0 true; ASub 0 true; APubCheck 0; APublish 0 true;
              ARecv 0; ALeave 0; ASub 0 true; APubCheck 0; APublish 0 true; AClose; ASub 1 true; ASub 1 true] in
  (h_gauge (w_st w), h_subs_total (w_st w), h_updates_total (w_st w)) = (1%Z, 1, 2).
Proof. vm_compute. reflexivity. Qed.
