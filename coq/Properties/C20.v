(* C20 — metrics equal what actually happened. Statements only; proofs in Proofs/HubProofs2.v
   and Proofs/HubProofs9.v over the hub transition system (every schedule, both transports, crashes). *)
From Mercure Require Import Base Hub HubProofs2 HubProofs9.

(* the connected-subscribers gauge is, in every reachable state, the number of handlers between the end of a
   successful registration and the end of shutdown (refused or failed requests count for nothing) *)
Theorem C20_gauge :
  forall mt cap tracking persistent size reqs pubs sched,
  GaugeOk (w_st (wrun mt cap tracking (winit persistent size reqs pubs) sched)).
Proof. exact gauge_reachable. Qed.
Print Assumptions C20_gauge.

(* the counters move only with what they count: at each step updates_total grows by exactly the number of publishes
   acknowledged in that step, subscribers_total by one exactly when the gauge gains a registered handler *)
Theorem C20_counters_step :
  forall mt cap tracking w a, a <> ACrash ->
  let st := w_st w in let st' := w_st (wstep mt cap tracking w a) in
  (h_updates_total st' - h_updates_total st = N.of_nat (length (h_acked st') - length (h_acked st)) /\
   h_updates_total st <= h_updates_total st' /\ (length (h_acked st) <= length (h_acked st'))%nat) /\
  (h_subs_total st' = h_subs_total st \/
   (h_subs_total st' = h_subs_total st + 1 /\ h_gauge st' = (h_gauge st + 1)%Z)).
Proof. exact counters_step. Qed.
Print Assumptions C20_counters_step.

(* Globally, between two restarts (the counters are per process): from ANY state - the start of the process, or the
   state just after a restart - and along any restart-free schedule, subscribers_total grows by exactly the number of
   streams accepted meanwhile (handlers that completed registration, whatever became of them since; a refused
   registration is not one) and updates_total by exactly the number of publishes acknowledged meanwhile. *)
Theorem C20_counters_between_restarts :
  forall mt cap tracking w sched, ~ In ACrash sched ->
  let st := w_st w in let st' := w_st (wrun mt cap tracking w sched) in
  (Z.of_N (h_subs_total st') - Z.of_N (h_subs_total st) = atotal (phases st') - atotal (phases st))%Z /\
  (Z.of_N (h_updates_total st') - Z.of_N (h_updates_total st) =
   Z.of_nat (length (h_acked st')) - Z.of_nat (length (h_acked st)))%Z.
Proof. exact counters_since. Qed.
Print Assumptions C20_counters_between_restarts.

(* from the start of the process the counters ARE those numbers ... *)
Theorem C20_counters_global :
  forall mt cap tracking persistent size reqs pubs sched, ~ In ACrash sched ->
  let st := w_st (wrun mt cap tracking (winit persistent size reqs pubs) sched) in
  Z.of_N (h_subs_total st) = atotal (phases st) /\ h_updates_total st = N.of_nat (length (h_acked st)).
Proof. exact counters_global. Qed.
Print Assumptions C20_counters_global.

(* ... every open stream is an accepted one ... *)
Theorem C20_gauge_le_total :
  forall mt cap tracking persistent size reqs pubs sched, ~ In ACrash sched ->
  let st := w_st (wrun mt cap tracking (winit persistent size reqs pubs) sched) in
  (0 <= h_gauge st <= Z.of_N (h_subs_total st))%Z.
Proof. exact gauge_le_total. Qed.
Print Assumptions C20_gauge_le_total.

(* ... and a restart sets all three to zero *)
Theorem C20_restart_resets :
  forall mt cap tracking w,
  let st := w_st (wstep mt cap tracking w ACrash) in h_subs_total st = 0 /\ h_updates_total st = 0 /\ h_gauge st = 0%Z.
Proof. exact counters_restart. Qed.
Print Assumptions C20_restart_resets.

Example C20_nonvacuous :
  let w := wrun (fun _ _ => true) 2 false (winit false 0 [NoReq; NoReq] [[1; 2]])
             [ASub 0 true; ASub 0 true; ASub 0 true; ASub 0 true; ASub 0 true; APubCheck 0; APublish 0 true;
              ARecv 0; ALeave 0; ASub 0 true; APubCheck 0; APublish 0 true; AClose; ASub 1 true; ASub 1 true] in
  (h_gauge (w_st w), h_subs_total (w_st w), h_updates_total (w_st w)) = (1%Z, 1, 2).
Proof. vm_compute. reflexivity. Qed.

(* the global statement on a history with a refused registration (subscriber 1 arrives after Close) and a refused publish *)
Example C20_global_nonvacuous :
  let w := wrun (fun _ _ => true) 2 false (winit false 0 [NoReq; NoReq] [[1; 2]])
             [ASub 0 true; ASub 0 true; ASub 0 true; ASub 0 true; ASub 0 true; APubCheck 0; APublish 0 true;
              ASub 1 true; AClose; AClose; AClose; ASub 1 true; APubCheck 0] in
  (atotal (phases (w_st w)), h_subs_total (w_st w), length (h_acked (w_st w)), h_updates_total (w_st w),
   map hs_phase (h_subs (w_st w))) = (1%Z, 1, 1%nat, 1, [PLive 0; PRefused]).
Proof. vm_compute. reflexivity. Qed.
