(* C02 — updates are dispatched only for publishers authorized for every topic.
   Statements only; proofs in Proofs/HandlerProofs.v. validate / referer_origin / tmatch are oracles. *)
From Mercure Require Import Base Match Auth Handler HandlerProofs.

(* An update is handed to the transport (and answered 200) only if the credential verified, its publish
   claim is defined and, for every topic, contains "*" or a matching selector - or the version-7
   compatibility mode is on and the update is not private. *)
Theorem C02_dispatch_only_if_authorized :
  forall validate referer_origin tmatch cfg r f st u,
  publish_decision validate referer_origin tmatch cfg r f = (st, Some u) ->
  st = 200 /\ u_topics u <> [] /\
  exists c sels, authorize validate referer_origin (cfg_publish_origins cfg) r = AuthOk c /\ c_publish c = Some sels /\
    (can_dispatch_spec tmatch (u_topics u) sels = true \/ (cfg_compat7 cfg = true /\ u_private u = false)).
Proof. exact dispatch_only_if_authorized. Qed.
Print Assumptions C02_dispatch_only_if_authorized.

(* Any other request is refused with 400 or 401 ... *)
Theorem C02_refusal_is_4xx :
  forall validate referer_origin tmatch cfg r f st,
  publish_decision validate referer_origin tmatch cfg r f = (st, None) -> st = 400 \/ st = 401.
Proof. exact refusal_is_4xx. Qed.
Print Assumptions C02_refusal_is_4xx.

(* ... and leaves the history untouched. *)
Theorem C02_refusal_no_effect :
  forall validate referer_origin tmatch cfg r f st hist,
  publish_decision validate referer_origin tmatch cfg r f = (st, None) ->
  apply_publish hist (publish_decision validate referer_origin tmatch cfg r f) = hist.
Proof. exact refusal_no_effect. Qed.
Print Assumptions C02_refusal_no_effect.

(* canDispatch's loop, with its early return on "*", is "every topic has a selector that is * or matches":
   in particular independent of where "*" stands in the list. *)
Theorem C02_can_dispatch_spec :
  forall tmatch topics sels, can_dispatch tmatch topics sels = can_dispatch_spec tmatch topics sels.
Proof. exact can_dispatch_eq. Qed.
Print Assumptions C02_can_dispatch_spec.

(* C01 companion: the update is private iff the form has the key "private", whatever its values. *)
Theorem C02_private_flag :
  forall validate referer_origin tmatch cfg r f st u fm,
  f = Some fm -> publish_decision validate referer_origin tmatch cfg r f = (st, Some u) -> u_private u = f_private fm.
Proof. exact private_flag. Qed.
Print Assumptions C02_private_flag.

Example C02_nonvacuous :
  let tok := repeat 65 60 in
  let r := {| r_post := true; r_auth_hdr := Some [s_bearer ++ tok]; r_auth_qry := None; r_cookie := None; r_origin := []; r_referer := [] |} in
  let v t := if str_eqb t tok then Some {| c_publish := Some [[47;120]; star]; c_subscribe := None |} else None in
  let f := {| f_topics := [[47;97]; [47;98]]; f_retry := [49;48]; f_private := true; f_data := []; f_id := []; f_type := [] |} in
  fst (publish_decision v (fun _ => None) (fun _ => None)
         {| cfg_anonymous := false; cfg_compat7 := false; cfg_publish_origins := []; cfg_subscriber_keyed := true |} r (Some f)) = 200.
Proof. vm_compute. reflexivity. Qed.
