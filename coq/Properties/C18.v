(* C18 — the subscription API lists exactly the connected subscribers, authorized only.
   Statements only; proofs in Proofs/HubProofs6.v (which subscribers the transport lists, every schedule),
   Proofs/SubApiProofs.v (documents, filtering, dereferencing, ETag, authorization) and Proofs/UrlEscProofs.v. *)
From Mercure Require Import Base Match Auth Handler Hub HubProofs6 UrlEsc UrlEscProofs SubApi SubApiProofs.

(* while the hub is open, for every schedule without a crash: each subscriber is listed at most once, and exactly those
   whose handler is between indexing and removal - at a quiescent point, one entry per open stream and none for the others *)
Theorem C18_listed_exactly :
  forall mt cap tracking persistent size reqs pubs sched,
  Forall (fun a => a <> ACrash) sched ->
  IdxOk (w_st (wrun mt cap tracking (winit persistent size reqs pubs) sched)).
Proof. exact listed_exactly. Qed.
Print Assumptions C18_listed_exactly.

(* one document per (listed subscriber, selector); the per-topic collection is the collection restricted to that selector *)
Theorem C18_listing_filter : forall subs t,
  listing subs (Some t) = filter (fun d => str_eqb (fst d) t) (listing subs None).
Proof. exact listing_filter. Qed.
Print Assumptions C18_listing_filter.

(* every listed id, used as a URL, routes back to the subscription it names and finds it; unknown pairs give 404 *)
Theorem C18_deref : forall subs only d,
  In d (listing subs only) -> bytes (fst d) -> bytes (snd d) -> fst d <> [] -> snd d <> [] ->
  route_sub_url (doc_id d) = Some d /\ deref subs (fst d) (snd d) = true.
Proof. exact listed_dereferences. Qed.
Print Assumptions C18_deref.

Theorem C18_found_iff_listed : forall subs sel sid, deref subs sel sid = true <-> In (sel, sid) (listing subs None).
Proof. exact deref_iff_listed. Qed.
Print Assumptions C18_found_iff_listed.

(* conditional requests: 304 exactly when If-None-Match is the hub's last event id (which is also the ETag and lastEventID) *)
Theorem C18_etag : forall last inm, api_status last inm = 304 <-> inm = last.
Proof. exact etag_304. Qed.
Print Assumptions C18_etag.

(* with subscriber keys configured every endpoint refuses callers whose verified subscribe selectors do not match the URL *)
Theorem C18_authz : forall validate referer_origin tmatch cfg r url,
  cfg_subscriber_keyed cfg = true ->
  subscription_api_allowed validate referer_origin tmatch cfg r url = true ->
  exists c sels, authorize validate referer_origin [] r = AuthOk c /\ c_subscribe c = Some sels /\
                 can_receive tmatch [url] sels = true.
Proof. exact api_authz. Qed.
Print Assumptions C18_authz.

Example C18_nonvacuous :
  let subs := [([117], [[97; 32; 98]; [47]]); ([118], [[47]])] in
  map doc_id (listing subs (Some [47])) =
    [subs_prefix ++ [37; 50; 70] ++ [47] ++ [117]; subs_prefix ++ [37; 50; 70] ++ [47] ++ [118]] /\
  route_sub_url (sub_url [97; 32; 98] [117]) = Some ([97; 32; 98], [117]) /\ deref subs [47] [119] = false.
Proof. vm_compute. repeat split. Qed.
