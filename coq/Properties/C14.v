(* C14 — no interleaving of hub operations panics, deadlocks or races (subscriber level).
   Statements only; proofs in Proofs/SubLtsProofs.v. The model is the LocalSubscriber transition system of
   Model/SubLts.v: every lock operation, atomic access and channel operation is one step; any number of
   threads each run any sequence of Dispatch (live / from history), Ready, Disconnect and channel receives;
   a schedule is any list of thread ids. *)
From Mercure Require Import Base SubLts SubLtsProofs.

(* no close of a closed channel, no send on a closed channel, no unlock of a mutex the thread does not hold *)
Theorem C14_no_panic : forall capacity progs sched,
  panicked (run (init capacity progs) sched) = false.
Proof. exact no_panic. Qed.
Print Assumptions C14_no_panic.

(* the critical sections exclude each other: the plain accesses to liveQueue and ready (under liveMutex) and the
   channel sends / close (under outMutex) are never concurrent - all other shared accesses are atomic *)
Theorem C14_mutual_exclusion : forall capacity progs sched j k tj tk,
  let s := run (init capacity progs) sched in
  nth_error (threads s) j = Some tj -> nth_error (threads s) k = Some tk ->
  (holds_live_b (t_pc tj) = true -> holds_live_b (t_pc tk) = true -> j = k) /\
  (holds_out_b (t_pc tj) = true -> holds_out_b (t_pc tk) = true -> j = k).
Proof. exact mutex. Qed.
Print Assumptions C14_mutual_exclusion.

(* no deadlock: whenever a thread has work left other than waiting for data on the open channel, some thread can step *)
Theorem C14_no_deadlock : forall capacity progs sched i th,
  let s := run (init capacity progs) sched in
  nth_error (threads s) i = Some th ->
  why_blocked s th <> Some Finished -> why_blocked s th <> Some EmptyChannel ->
  exists j, step s j <> None.
Proof. exact no_deadlock. Qed.
Print Assumptions C14_no_deadlock.

(* a thread is only ever blocked by a mutex held by another thread, or by the empty open channel it consumes *)
Theorem C14_blocked_only_on : forall s i th,
  nth_error (threads s) i = Some th -> (step s i = None <-> why_blocked s th <> None).
Proof. exact blocked_only_on. Qed.
Print Assumptions C14_blocked_only_on.

Example C14_nonvacuous :
  (* two publishers' updates, a registration going live, two racing Disconnect calls and a consumer, round-robin *)
  let s := run (init 1 [[ODispatch 1 false; ODispatch 2 false]; [OReady; ODisconnect]; [ODisconnect]; [ORecv]])
               (concat (repeat [0;1;2;3]%nat 40)) in
  closed s = true /\ panicked s = false /\ ended s = true /\ map t_rets (threads s) = [[false; true]; []; []; []].
Proof. vm_compute. repeat split. Qed.
