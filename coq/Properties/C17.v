(* C17 — subscription events announce each subscription's start and end exactly once.
   Statements only; proofs in Proofs/HubProofs5.v (hub transition system, every schedule) and Proofs/UrlEscProofs.v. *)
From Mercure Require Import Base Hub HubProofs5 UrlEsc UrlEscProofs.

(* With tracking enabled, for every schedule without a crash and as long as the hub has not been closed: a subscriber whose
   handler has not started has no event; between its announcement (dispatched before it is indexed, hence before it can
   receive anything) and the end of its shutdown it has exactly [active=true]; once gone - also when its registration
   failed half-way - exactly [true; false]. Events are private updates dispatched through the transport like any other. *)
Theorem C17_balanced :
  forall mt cap persistent size reqs pubs sched,
  Forall (fun a => a <> ACrash) sched ->
  EvOk (w_st (wrun mt cap true (winit persistent size reqs pubs) sched)).
Proof. exact events_balanced. Qed.
Print Assumptions C17_balanced.

(* none when tracking is disabled *)
Theorem C17_none_when_disabled :
  forall mt cap persistent size reqs pubs sched,
  h_events (w_st (wrun mt cap false (winit persistent size reqs pubs) sched)) = [].
Proof. exact no_events_when_disabled. Qed.
Print Assumptions C17_none_when_disabled.

(* the event's topic and id: /.well-known/mercure/subscriptions/<escaped selector>/<escaped subscriber id>; the escaping
   round-trips and the URL routes back to exactly (selector, subscriber), for all byte strings *)
Theorem C17_document_url : forall sel sid,
  bytes sel -> bytes sid -> sel <> [] -> sid <> [] -> route_sub_url (sub_url sel sid) = Some (sel, sid).
Proof. exact route_sub_url_spec. Qed.
Print Assumptions C17_document_url.

Theorem C17_escape_roundtrip : forall s, bytes s -> query_unescape (query_escape s) = Some s.
Proof. exact unescape_escape. Qed.
Print Assumptions C17_escape_roundtrip.

Example C17_nonvacuous :
  let w := wrun (fun _ _ => false) 2 true (winit true 0 [NoReq; NoReq] [])
             [ASub 0 true; ASub 0 true; ASub 0 true; ASub 0 true; ASub 0 true; ASub 1 true; ALeave 0; ASub 0 true; ASub 0 true] in
  h_events (w_st w) = [(0, true); (1, true); (0, false)]%nat /\
  query_escape [97; 32; 47; 195] = [97; 43; 37; 50; 70; 37; 67; 51].
Proof. vm_compute. split; reflexivity. Qed.
