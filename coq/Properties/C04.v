(* C04 — credential source precedence and the cookie CSRF rule. Statements only; proofs in Proofs/HandlerProofs.v. *)
From Mercure Require Import Base Match Auth Handler HandlerProofs.

(* The Authorization header, when present, is the only credential considered: the outcome is a function of
   its values alone, never anonymous, and grants only for exactly one value of >= 48 bytes starting with
   "Bearer " whose token validates. *)
Theorem C04_header_only :
  forall validate referer_origin origins r vs,
  r_auth_hdr r = Some vs ->
  (forall r', r_auth_hdr r' = Some vs -> authorize validate referer_origin origins r' = authorize validate referer_origin origins r) /\
  authorize validate referer_origin origins r <> AuthAnon /\
  (forall c, authorize validate referer_origin origins r = AuthOk c ->
     exists v, vs = [v] /\ header_ok v = true /\ validate (skipn 7 v) = Some c).
Proof. exact header_only. Qed.
Print Assumptions C04_header_only.

Theorem C04_query_when_no_header :
  forall validate referer_origin origins r vs,
  r_auth_hdr r = None -> r_auth_qry r = Some vs ->
  (forall r', r_auth_hdr r' = None -> r_auth_qry r' = Some vs ->
     authorize validate referer_origin origins r' = authorize validate referer_origin origins r) /\
  authorize validate referer_origin origins r <> AuthAnon /\
  (forall c, authorize validate referer_origin origins r = AuthOk c ->
     exists v, vs = [v] /\ Nat.leb 41 (length v) = true /\ validate v = Some c).
Proof. exact query_when_no_header. Qed.
Print Assumptions C04_query_when_no_header.

(* The cookie counts only when both are absent; it is never a fall-through to anonymous; on a POST it is
   honoured only if Origin - or, Origin empty, the origin of a parsable Referer - is an allowed publish origin. *)
Theorem C04_cookie_rule :
  forall validate referer_origin origins r ck,
  r_auth_hdr r = None -> r_auth_qry r = None -> r_cookie r = Some ck ->
  authorize validate referer_origin origins r <> AuthAnon /\
  (r_post r = false -> authorize validate referer_origin origins r = of_validate validate ck) /\
  (r_post r = true ->
     forall c, authorize validate referer_origin origins r = AuthOk c ->
       validate ck = Some c /\ exists o, effective_origin referer_origin r = Some o /\ origin_allowed origins o = true).
Proof. exact cookie_rule. Qed.
Print Assumptions C04_cookie_rule.

(* No credential = anonymous: never publishes; subscribes only if the hub allows anonymous subscribers. *)
Theorem C04_anonymous :
  forall validate referer_origin tmatch cfg r f topics,
  r_auth_hdr r = None -> r_auth_qry r = None -> r_cookie r = None ->
  publish_decision validate referer_origin tmatch cfg r f = (401, None) /\
  (cfg_subscriber_keyed cfg = true ->
   subscribe_decision validate referer_origin cfg r topics =
     if cfg_anonymous cfg then match topics with [] => (400, None) | _ => (200, Some None) end else (401, None)).
Proof.
  intros validate referer_origin tmatch cfg r f topics H1 H2 H3. split.
  - apply anonymous_cannot_publish. apply no_credential_is_anonymous; assumption.
  - intros Hk. apply anonymous_subscribe; [assumption|]. apply no_credential_is_anonymous; assumption.
Qed.
Print Assumptions C04_anonymous.

(* A present but invalid credential is an error on every endpoint (also with anonymous mode on). *)
Theorem C04_invalid_never_downgraded :
  forall validate referer_origin tmatch cfg r f topics,
  (authorize validate referer_origin (cfg_publish_origins cfg) r = AuthErr ->
     publish_decision validate referer_origin tmatch cfg r f = (401, None)) /\
  (cfg_subscriber_keyed cfg = true -> authorize validate referer_origin [] r = AuthErr ->
     subscribe_decision validate referer_origin cfg r topics = (401, None)).
Proof. exact invalid_credential_never_downgraded. Qed.
Print Assumptions C04_invalid_never_downgraded.

Example C04_nonvacuous :
  (* header invalid, query valid: the header decides *)
  let tok := repeat 65 60 in
  let v t := if str_eqb t tok then Some {| c_publish := Some [star]; c_subscribe := None |} else None in
  authorize v (fun _ => None) []
    {| r_post := true; r_auth_hdr := Some [s_bearer ++ repeat 66 60]; r_auth_qry := Some [tok]; r_cookie := Some tok; r_origin := []; r_referer := [] |} = AuthErr.
Proof. vm_compute. reflexivity. Qed.
