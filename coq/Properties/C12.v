(* C12 — every update is written as exactly one SSE event decoding to what was published.
   This file holds only statements; proofs are in Proofs/SseProofs.v. *)
From Mercure Require Import Base Sse SseProofs.

(* For any data payload and any id/type free of line breaks (and id free of U+0000, see
   C12_roundtrip_refuted_nul), the bytes of Event.String() are exactly one event that the WHATWG
   interpretation algorithm decodes to the published id, type (default "message"), retry and data
   with line ends normalised to LF. *)
Theorem C12_roundtrip : forall e : event,
  wf_event e = true -> id_nul_free e = true ->
  sse_parse (serialize e) = [expected e].
Proof. exact roundtrip. Qed.
Print Assumptions C12_roundtrip.

(* A whole stream — the initial ':' comment followed by any interleaving of serialised events and
   ':' heartbeats — decodes to exactly those events, in order. *)
Theorem C12_stream : forall items : list item,
  forallb item_wf items = true ->
  sse_parse ([COLON; LF] ++ concat (map item_bytes items)) = map expected (events_of items).
Proof. exact stream. Qed.
Print Assumptions C12_stream.

(* The spec predicate the correspondence check evaluates on the implementation's bytes holds of the model. *)
Theorem C12_spec_holds_of_model : forall e : event,
  id_nul_free e = true -> c12_ok e (serialize e) = true.
Proof. exact roundtrip_ok. Qed.
Print Assumptions C12_spec_holds_of_model.

(* The property as literally stated is false of the pinned code: recorded finding c12-nul-in-id. *)
Theorem C12_roundtrip_refuted_nul :
  exists e, wf_event e = true /\ c12_ok e (serialize e) = false.
Proof. exact roundtrip_refuted_nul. Qed.
Print Assumptions C12_roundtrip_refuted_nul.

(* non-vacuity: a concrete multi-line event with type and retry meets the hypotheses *)
Example C12_nonvacuous :
  let e := {| e_data := [97;13;10;98;13;99;10]; e_id := [117;114;110;58;49]; e_type := [116]; e_retry := 1500 |} in
  wf_event e = true /\ id_nul_free e = true /\ length (sse_parse (serialize e)) = 1%nat.
Proof. vm_compute. repeat split. Qed.
