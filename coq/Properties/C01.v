(* C01 — private updates reach only subscribers authorized for one of their topics.
   Statements only; proofs in Proofs/HubProofs.v (the hub transition system of Model/Hub.v, every schedule of
   publishers, subscriber handlers, Close and crashes, both transports) and Proofs/SubIndexProofs.v. *)
From Mercure Require Import Base Match SubIndex Hub HubProofs SubIndexProofs.

(* For every matching predicate mt (who may receive what), in every reachable state, everything a subscriber
   has been sent - by live fan-out, from the queue filled while its connection was being set up, by history replay -
   and everything still queued for it, matches it. Subscription events are updates like the others. *)
Theorem C01_only_matching_is_sent :
  forall (mt : nat -> N -> bool) (cap : nat) (tracking persistent : bool) (size : N)
         (reqs : list req) (pubs : list (list N)) (sched : list action),
  Safe mt (w_st (wrun mt cap tracking (winit persistent size reqs pubs) sched)).
Proof. exact safe_reachable. Qed.
Print Assumptions C01_only_matching_is_sent.

(* "matches", for a private update, means: the subscriber's verified mercure.subscribe selectors match one of
   the update's topics (canonical or alternate) ... *)
Theorem C01_private_needs_claim : forall m sub al ts,
  match_topics_with m sub al ts true = true -> exists t s, In t ts /\ In s al /\ m t s = true.
Proof. exact private_needs_claim. Qed.
Print Assumptions C01_private_needs_claim.

(* ... so a subscriber without verified claims never matches a private update *)
Theorem C01_anonymous_never_private : forall m sub ts, match_topics_with m sub [] ts true = false.
Proof. exact anonymous_never_private. Qed.
Print Assumptions C01_anonymous_never_private.

Example C01_nonvacuous :
  (* a publish between "indexed" and "go live" is queued and flushed; the non-matching subscriber gets nothing *)
  let mt := fun (i : nat) (u : N) => Nat.eqb i 0 in
  let w := wrun mt 2 false (winit true 0 [NoReq; NoReq] [[7]])
             [ASub 0 true; ASub 0 true; ASub 1 true; ASub 1 true; APubCheck 0; APublish 0 true;
              ASub 0 true; ASub 0 true; ASub 0 true; ASub 0 true; ASub 1 true; ASub 1 true; ASub 1 true] in
  map hs_sent (h_subs (w_st w)) = [[7]; []].
Proof. vm_compute. reflexivity. Qed.
