(* C19 — configuration is applied faithfully and fails closed.
   Statements only; proofs in Proofs/ConfigProofs.v. key_ok (the algorithm is supported and the key parses for it) and
   origin_ok (validateOrigins on one origin) are parameters, supplied as tables by the correspondence check. *)
From Mercure Require Import Base Config ConfigProofs.
From Coq Require Import ZArith.

(* whatever is accepted has a usable publisher key, a usable subscriber key unless anonymous mode was asked for, and only
   valid origins: Caddyfile form, JSON form, legacy options *)
Theorem C19_accepted_is_sound :
  forall key_ok origin_ok,
  (forall ds e, provision key_ok origin_ok ds = Ok e -> sound key_ok origin_ok e) /\
  (forall f e, provision_fields key_ok origin_ok f = Ok e -> sound key_ok origin_ok e) /\
  (forall l e, provision_legacy key_ok origin_ok l = Ok e -> sound key_ok origin_ok e).
Proof. intros k o. split; [|split]. exact (accepted_is_sound k o). exact (json_accepted_is_sound k o). exact (legacy_fails_closed k o). Qed.
Print Assumptions C19_accepted_is_sound.

Theorem C19_no_publisher_key_fails :
  forall key_ok origin_ok ds, (forall k a, ~ In (DPublisherJWT k a) ds) -> provision key_ok origin_ok ds = Err.
Proof. exact no_publisher_key_fails. Qed.
Print Assumptions C19_no_publisher_key_fails.

Theorem C19_no_subscriber_key_without_anonymous_fails :
  forall key_ok origin_ok ds, (forall k a, ~ In (DSubscriberJWT k a) ds) -> ~ In DAnonymous ds -> provision key_ok origin_ok ds = Err.
Proof. exact no_subscriber_key_without_anonymous_fails. Qed.
Print Assumptions C19_no_subscriber_key_without_anonymous_fails.

Theorem C19_unsupported_protocol_version_fails :
  forall key_ok origin_ok,
  (forall ds v, In (DCompat v) ds -> v <> 7%Z -> provision key_ok origin_ok ds = Err) /\
  (forall f, f_compat f <> 0%Z -> f_compat f <> 7%Z -> provision_fields key_ok origin_ok f = Err).
Proof. intros k o. split. exact (unsupported_compatibility_fails k o). exact (json_unsupported_compatibility_fails k o). Qed.
Print Assumptions C19_unsupported_protocol_version_fails.

(* omitted options take the restrictive defaults *)
Theorem C19_defaults_restrictive :
  forall key_ok origin_ok ds e,
  provision key_ok origin_ok ds = Ok e ->
  (~ In DAnonymous ds -> e_anonymous e = false) /\
  (~ In DSubscriptions ds -> e_subscriptions e = false) /\
  ((forall l, ~ In (DPublishOrigins l) ds) -> e_publish_origins e = []) /\
  ((forall l, ~ In (DCorsOrigins l) ds) -> e_cors_origins e = []) /\
  ((forall n, ~ In (DCookieName n) ds) -> e_cookie e = s_default_cookie) /\
  ((forall v, ~ In (DCompat v) ds) -> e_compat7 e = false) /\
  ((forall k, ~ In (DTransport k) ds) -> e_transport e = TBolt) /\
  ((forall z, ~ In (DWriteTimeout z) ds) -> e_write_timeout e = 600000000000%Z) /\
  ((forall z, ~ In (DDispatchTimeout z) ds) -> e_dispatch_timeout e = 5000000000%Z) /\
  ((forall z, ~ In (DHeartbeat z) ds) -> e_heartbeat e = 40000000000%Z).
Proof. exact defaults_restrictive. Qed.
Print Assumptions C19_defaults_restrictive.

(* what is written is what is in effect: flags as soon as they occur, valued directives by their last occurrence,
   and directives of different kinds never interfere *)
Theorem C19_flags_in_effect :
  forall key_ok origin_ok ds e,
  provision key_ok origin_ok ds = Ok e ->
  (In DAnonymous ds -> e_anonymous e = true) /\ (In DSubscriptions ds -> e_subscriptions e = true) /\
  ((exists v, In (DCompat v) ds) -> e_compat7 e = true).
Proof. exact flags_in_effect. Qed.
Print Assumptions C19_flags_in_effect.

Theorem C19_last_occurrence_wins :
  forall key_ok origin_ok ds d e,
  provision key_ok origin_ok (ds ++ [d]) = Ok e ->
  match d with
  | DCookieName n => e_cookie e = match n with [] => s_default_cookie | _ => n end
  | DPublishOrigins l => e_publish_origins e = l
  | DCorsOrigins l => e_cors_origins e = l
  | DWriteTimeout z => e_write_timeout e = z
  | DDispatchTimeout z => e_dispatch_timeout e = z
  | DHeartbeat z => e_heartbeat e = z
  | DTransport k => e_transport e = k
  | DPublisherJWT k a => e_pub_key e = k /\ (forall x, a = Some x -> x <> [] -> e_pub_alg e = x)
  | DSubscriberJWT k a => k <> [] -> exists sa, e_sub e = Some (k, sa) /\ (forall x, a = Some x -> x <> [] -> sa = x)
  | _ => True
  end.
Proof. exact last_occurrence_wins. Qed.
Print Assumptions C19_last_occurrence_wins.

Theorem C19_order_of_kinds_irrelevant :
  forall key_ok origin_ok ds1 a b ds2,
  same_kind a b = false -> provision key_ok origin_ok (ds1 ++ a :: b :: ds2) = provision key_ok origin_ok (ds1 ++ b :: a :: ds2).
Proof. exact order_of_kinds_irrelevant. Qed.
Print Assumptions C19_order_of_kinds_irrelevant.

Theorem C19_legacy_faithful :
  forall key_ok origin_ok l e,
  provision_legacy key_ok origin_ok l = Ok e ->
  e_anonymous e = l_anonymous l /\ e_subscriptions e = l_subscriptions l /\
  e_publish_origins e = l_publish_origins l /\ e_cors_origins e = l_cors_origins l /\
  e_pub_key e = first_nonempty (l_pub_key l) (l_jwt_key l) /\
  e_pub_alg e = first_nonempty (l_pub_alg l) (first_nonempty (l_jwt_alg l) s_hs256) /\
  e_sub e = match first_nonempty (l_sub_key l) (l_jwt_key l) with [] => None
            | sk => Some (sk, first_nonempty (l_sub_alg l) (first_nonempty (l_jwt_alg l) s_hs256)) end.
Proof. exact legacy_faithful. Qed.
Print Assumptions C19_legacy_faithful.

Example C19_nonvacuous :
  let ko := fun (a k : str) => str_eqb a s_hs256 in
  let oo := fun (o : str) => true in
  (exists e, provision ko oo [DPublisherJWT [107] None; DAnonymous; DCookieName [99]; DSubscriberJWT [108] (Some s_hs256)] = Ok e /\
             e_anonymous e = true /\ e_cookie e = [99] /\ e_sub e = Some ([108], s_hs256) /\ e_subscriptions e = false) /\
  provision ko oo [DPublisherJWT [107] None] = Err /\
  provision ko oo [DSubscriberJWT [107] None; DAnonymous] = Err /\
  provision ko oo [DPublisherJWT [107] (Some [88])] = Err.
Proof. vm_compute. split; [eexists; repeat split|repeat split]. Qed.
