(* C13 — a slow or dead subscriber never blocks the hub and is cut off, not starved (subscriber level).
   Statements only; proofs in Proofs/SubLtsProofs.v, over the transition system of Model/SubLts.v. *)
From Mercure Require Import Base SubLts SubLtsProofs.

(* No step of Dispatch, Ready or Disconnect waits for the consumer: the only blocking steps are mutex
   acquisitions (and the consumer's own receive). A thread inside a critical section can always step, so a
   publisher's wait is bounded by the critical sections of the other threads, whether or not anybody reads. *)
Theorem C13_no_blocking_send : forall s i th,
  nth_error (threads s) i = Some th -> (step s i = None <-> why_blocked s th <> None).
Proof. exact blocked_only_on. Qed.
Print Assumptions C13_no_blocking_send.

Theorem C13_critical_sections_never_block : forall s k th,
  nth_error (threads s) k = Some th -> holds_out_b (t_pc th) = true -> step s k <> None.
Proof. exact out_holder_steps. Qed.
Print Assumptions C13_critical_sections_never_block.

(* the buffer never holds more than its capacity; the consumer sees exactly what was sent, in order *)
Theorem C13_buffer : forall capacity progs sched,
  let s := run (init capacity progs) sched in
  (length (out s) <= cap s)%nat /\ sent s = recvd s ++ out s.
Proof. exact buffer_bounded. Qed.
Print Assumptions C13_buffer.

(* cut off: once the subscriber is marked disconnected (overflow live, during replay, while flushing the
   queue, or Disconnect) nothing is ever appended to what it is sent ... *)
Theorem C13_nothing_after_disconnect : forall capacity progs sched i s',
  let s := run (init capacity progs) sched in
  disc s = true -> step s i = Some s' -> sent s' = sent s /\ disc s' = true.
Proof. intros capacity progs sched i s' s. apply nothing_after_disconnect. apply reachable_inv. Qed.
Print Assumptions C13_nothing_after_disconnect.

(* ... and the hub itself ends the stream: while it is disconnected but the channel still open, the thread
   that disconnected it holds outMutex, is enabled, and its step closes the channel *)
Theorem C13_cut_off_completes : forall capacity progs sched,
  let s := run (init capacity progs) sched in
  disc s = true -> closed s = false ->
  exists k th s', nth_error (threads s) k = Some th /\ preclose_b (t_pc th) = true /\
                  step s k = Some s' /\ closed s' = true.
Proof. exact cut_off_completes. Qed.
Print Assumptions C13_cut_off_completes.

(* once closed and drained, the consumer's next receive observes the end of the stream (the handler then runs shutdown) *)
Theorem C13_consumer_sees_end : forall s i th todo,
  nth_error (threads s) i = Some th -> t_pc th = Idle -> t_todo th = ORecv :: todo ->
  closed s = true -> out s = [] -> exists s', step s i = Some s' /\ ended s' = true.
Proof. exact consumer_sees_end. Qed.
Print Assumptions C13_consumer_sees_end.

Example C13_nonvacuous :
  (* capacity 1: the second live dispatch overflows; the channel is closed by the publisher itself *)
  let s := run (init 1 [[OReady; ODispatch 1 false; ODispatch 2 false; ODispatch 3 false]]) (repeat 0%nat 60) in
  disc s = true /\ closed s = true /\ sent s = [1] /\ panicked s = false.
Proof. vm_compute. repeat split. Qed.

(* ---- hub level (Model/Hub.v; proofs in Proofs/HubProofs11.v) ---- *)
From Mercure Require Hub HubProofs11.

(* "after which it is no longer listed as a subscriber": in every reachable state of the hub (every schedule, both
   transports, crashes anywhere), a subscriber whose handler has run its shutdown - it was cut off by an overflow,
   its connection failed, the client left - is not in the index as long as the hub is not closed (a closed transport
   refuses the removal); a subscriber that has not registered yet is never listed *)
Theorem C13_not_listed_after_shutdown :
  forall mt cap tracking persistent size reqs pubs sched i s,
  let st := Hub.w_st (Hub.wrun mt cap tracking (Hub.winit persistent size reqs pubs) sched) in
  nth_error (Hub.h_subs st) i = Some s ->
  (Hub.hs_phase s = Hub.PRemoved \/ Hub.hs_phase s = Hub.PGone -> Hub.h_closed st = false -> ~ In i (Hub.h_index st)) /\
  (Hub.hs_phase s = Hub.PNew \/ Hub.hs_phase s = Hub.PAnnounced -> ~ In i (Hub.h_index st)).
Proof. exact HubProofs11.not_listed_after_shutdown. Qed.
Print Assumptions C13_not_listed_after_shutdown.

(* "other subscribers are unaffected": what a publish does to subscriber j is a function of subscriber j's own state -
   two hubs that agree on j (and on the index) still agree on j after the same publish, whatever the other
   subscribers are: slow, with a full buffer, cut off, or not there at all *)
Theorem C13_others_unaffected :
  forall mt cap st1 st2 u coin st1' st2' j,
  Hub.h_index st1 = Hub.h_index st2 -> nth_error (Hub.h_subs st1) j = nth_error (Hub.h_subs st2) j ->
  Hub.publish mt cap st1 u coin = (st1', Hub.PubOk) -> Hub.publish mt cap st2 u coin = (st2', Hub.PubOk) ->
  nth_error (Hub.h_subs st1') j = nth_error (Hub.h_subs st2') j.
Proof. exact HubProofs11.publish_local. Qed.
Print Assumptions C13_others_unaffected.

Example C13_hub_nonvacuous :
  (* capacity 1, two subscribers; subscriber 0 never reads: the second publish cuts it off, its handler shuts down and it
     leaves the index; subscriber 1 reads and gets both updates *)
  let w := Hub.wrun (fun _ _ => true) 1 false (Hub.winit false 0 [Hub.NoReq; Hub.NoReq] [[1; 2]])
             [Hub.ASub 0 true; Hub.ASub 0 true; Hub.ASub 0 true; Hub.ASub 0 true; Hub.ASub 0 true;
              Hub.ASub 1 true; Hub.ASub 1 true; Hub.ASub 1 true; Hub.ASub 1 true; Hub.ASub 1 true;
              Hub.APubCheck 0; Hub.APublish 0 true; Hub.ARecv 1; Hub.APubCheck 0; Hub.APublish 0 true; Hub.ARecv 1;
              Hub.ARecv 0; Hub.ARecv 0; Hub.ASub 0 true; Hub.ASub 0 true] in
  Hub.h_index (Hub.w_st w) = [1%nat] /\ map Hub.hs_recvd (Hub.h_subs (Hub.w_st w)) = [[1]; [1; 2]] /\
  map Hub.hs_phase (Hub.h_subs (Hub.w_st w)) = [Hub.PGone; Hub.PLive 0].
Proof. vm_compute. repeat split; reflexivity. Qed.
