(* C03 — only tokens verifiable with the configured key and algorithm grant rights.
   Statements only; proofs in Proofs/JwtProofs.v. The primitives (base64, JSON, the signature check under the configured
   key) are parameters: these theorems are about which checks gate a grant, not about the strength of HMAC/RSA/ECDSA/EdDSA. *)
From Mercure Require Import Base Match Auth Handler Jwt JwtProofs.

(* a token grants its claims only if it has exactly three segments that decode, its header names exactly the configured
   algorithm, the signature verifies under the configured key with that algorithm, and exp / nbf hold now *)
Theorem C03_grant_only_if_verified :
  forall b64 header_alg parse_claims known_alg sig_ok cfg_alg now tok c,
  validate_jwt b64 header_alg parse_claims known_alg sig_ok cfg_alg now tok = Some c ->
  exists h p s hj pj sg jc,
    split_dot tok = [h; p; s] /\ b64 h = Some hj /\ header_alg hj = Some cfg_alg /\ known_alg cfg_alg = true /\
    b64 p = Some pj /\ parse_claims pj = Some jc /\ jc_claims jc = c /\
    b64 s = Some sg /\ sig_ok cfg_alg (h ++ [DOT] ++ p) sg = true /\ time_ok now jc = true.
Proof. exact grant_only_if_verified. Qed.
Print Assumptions C03_grant_only_if_verified.

(* "none", another family (an HMAC keyed with the public key included), a case variant: refused whatever the signature bytes *)
Theorem C03_other_algorithm_refused :
  forall b64 header_alg parse_claims known_alg sig_ok cfg_alg now tok h p s hj alg,
  split_dot tok = [h; p; s] -> b64 h = Some hj -> header_alg hj = Some alg -> alg <> cfg_alg ->
  validate_jwt b64 header_alg parse_claims known_alg sig_ok cfg_alg now tok = None.
Proof. exact other_algorithm_refused. Qed.
Print Assumptions C03_other_algorithm_refused.

Theorem C03_expired_refused :
  forall b64 header_alg parse_claims known_alg sig_ok cfg_alg now tok c,
  validate_jwt b64 header_alg parse_claims known_alg sig_ok cfg_alg now tok = Some c ->
  forall h p s pj jc, split_dot tok = [h; p; s] -> b64 p = Some pj -> parse_claims pj = Some jc ->
  (forall e, jc_exp jc = Some e -> (now < e)%Z) /\ (forall n, jc_nbf jc = Some n -> (n <= now)%Z).
Proof. exact expired_refused. Qed.
Print Assumptions C03_expired_refused.

(* a presented token that does not validate is answered 401 on the publish, subscribe and subscription-API endpoints,
   whether or not anonymous subscribers are allowed: never downgraded to anonymous access *)
Theorem C03_never_downgraded :
  forall b64 header_alg parse_claims known_alg sig_ok cfg_alg now referer_origin tmatch cfg r f topics tok,
  let validate := validate_jwt b64 header_alg parse_claims known_alg sig_ok cfg_alg now in
  r_auth_hdr r = Some [s_bearer ++ tok] -> (48 <= length (s_bearer ++ tok))%nat -> validate tok = None ->
  publish_decision validate referer_origin tmatch cfg r f = (401, None) /\
  (cfg_subscriber_keyed cfg = true -> subscribe_decision validate referer_origin cfg r topics = (401, None)) /\
  (cfg_subscriber_keyed cfg = true -> forall url, subscription_api_allowed validate referer_origin tmatch cfg r url = false).
Proof. exact never_downgraded. Qed.
Print Assumptions C03_never_downgraded.

Example C03_nonvacuous :
  (* toy primitives: identity base64, the header is its own alg, signature "ok" verifies *)
  let v := validate_jwt (fun s => Some s) (fun h => Some h) (fun _ => Some {| jc_claims := {| c_publish := Some [star]; c_subscribe := None |}; jc_exp := Some 10%Z; jc_nbf := None |})
                        (fun _ => true) (fun _ _ sg => str_eqb sg [111; 107]) [72; 83] in
  v 5%Z [72; 83; 46; 112; 46; 111; 107] <> None /\ v 10%Z [72; 83; 46; 112; 46; 111; 107] = None /\
  v 5%Z [110; 111; 110; 101; 46; 112; 46; 111; 107] = None /\ v 5%Z [72; 83; 46; 112; 46; 120] = None.
Proof. vm_compute. repeat split; discriminate. Qed.
