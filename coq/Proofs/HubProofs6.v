(* HubProofs6.v — C18 (hub level): the transport lists exactly the subscribers whose handler is between
   indexing and removal; at a quiescent point, exactly the open streams. *)
From Mercure Require Import Base Hub HubProofs HubProofs2 HubProofs3 HubProofs5.
From Coq Require Import Lia.

Lemma NoDup_app_one {A} (l : list A) x : NoDup l -> ~ In x l -> NoDup (l ++ [x]).
Proof.
  induction 1 as [|y l Hy Hl IH]; intros Hx; cbn; [constructor; [intros []|constructor]|].
  constructor.
  - intros Hin. apply in_app_or in Hin. destruct Hin as [Hin|[->|[]]]; [auto|apply Hx; left; reflexivity].
  - apply IH. intros Hin. apply Hx. right. assumption.
Qed.

Section P.
  Variable mt : nat -> N -> bool.
  Variable cap : nat.
  Variable tracking : bool.

  Notation sub_step := (sub_step mt cap tracking).
  Notation publish := (publish mt cap).
  Notation add_event := (add_event mt cap tracking).

  Definition listed_phase (p : phase) : bool :=
    match p with PIndexed | PScan _ _ _ | PHistDone | PFlush _ | PLive _ | PLeaving => true | _ => false end.

  Definition IdxOk (st : hstate) : Prop :=
    h_close st = 0%nat ->
    NoDup (h_index st) /\
    forall i s, nth_error (h_subs st) i = Some s -> (In i (h_index st) <-> listed_phase (hs_phase s) = true).

  (* a step that keeps the index, and changes at most the phase of subscriber i within its class *)
  Lemma idx_same st st' i s :
    IdxOk st -> nth_error (h_subs st) i = Some s ->
    h_close st' = h_close st -> h_index st' = h_index st ->
    (forall j sj', nth_error (h_subs st') j = Some sj' ->
       exists sj, nth_error (h_subs st) j = Some sj /\ (j <> i -> hs_phase sj' = hs_phase sj) /\
                  (j = i -> listed_phase (hs_phase sj') = listed_phase (hs_phase sj))) ->
    IdxOk st'.
  Proof.
    intros H Hs Hc Hi Hsub Hc'. rewrite Hc in Hc'. destruct (H Hc') as [ND Hiff]. rewrite Hi.
    split; [assumption|]. intros j sj' Hj. destruct (Hsub _ _ Hj) as (sj & Ej & Hne & Heq).
    rewrite (Hiff _ _ Ej). destruct (Nat.eq_dec j i) as [->|Hn].
    - rewrite (Heq eq_refl). tauto.
    - rewrite (Hne Hn). tauto.
  Qed.

  Lemma upd_sub_rel st i s s' :
    nth_error (h_subs st) i = Some s ->
    forall j sj', nth_error (upd_nth i s' (h_subs st)) j = Some sj' ->
      exists sj, nth_error (h_subs st) j = Some sj /\ (j <> i -> hs_phase sj' = hs_phase sj) /\ (j = i -> sj' = s' /\ sj = s).
  Proof.
    intros Hs j sj' Hj. apply nth_upd_cases in Hj. destruct Hj as [(-> & -> & _)|(Hne & Hj)].
    - exists s. split; [assumption|]. split; [congruence|auto].
    - exists sj'. split; [assumption|]. split; [reflexivity|intros ->; congruence].
  Qed.

  Lemma idx_event st i s a c st1 p :
    IdxOk st -> nth_error (h_subs st) i = Some s -> add_event st i a c = Some st1 ->
    listed_phase p = listed_phase (hs_phase s) -> IdxOk (set_phase st1 i p).
  Proof.
    intros H Hs Eev Hp.
    destruct (add_event_frame _ _ _ _ _ _ _ _ Eev) as (A & _ & _ & _ & F & G & _).
    destruct (phases_nth _ _ _ _ A Hs) as (s1 & E1 & P1).
    destruct (set_phase_frame st1 i p) as [X Y].
    eapply idx_same; [exact H|exact Hs|congruence|congruence|].
    intros j sj' Hj. unfold set_phase in Hj. rewrite E1 in Hj. unfold set_sub, set_subs in Hj. cbn [h_subs] in Hj.
    destruct (upd_sub_rel st1 i s1 _ E1 j sj' Hj) as (sj1 & Ej1 & Hne & Heq).
    symmetry in A. destruct (phases_nth _ _ _ _ A Ej1) as (sj & Ej & Pj).
    exists sj. split; [assumption|]. split.
    - intros Hn. rewrite (Hne Hn). congruence.
    - intros ->. destruct (Heq eq_refl) as [-> ->]. cbn [with_phase hs_phase].
      rewrite Hs in Ej. inversion Ej; subst. exact Hp.
  Qed.

  Lemma idx_metrics st dg dt : IdxOk st -> IdxOk (metrics st dg dt).
  Proof. intros H. exact H. Qed.

  Lemma idx_sub_step st i s c st' :
    IdxOk st -> nth_error (h_subs st) i = Some s -> sub_step st i s c = Some st' -> IdxOk st'.
  Proof.
    intros H Hs Hstep.
    destruct (sub_step_frame mt cap tracking _ _ _ _ _ Hstep) as (Fc & _).
    intros Hc'. assert (Hc : h_close st = 0%nat) by congruence. revert Hc'.
    change (IdxOk st'). unfold Hub.sub_step in Hstep.
    destruct (hs_phase s) eqn:Ep.
    all: repeat match type of Hstep with
         | context [match ?x with _ => _ end] =>
             lazymatch x with
             | Hub.add_event _ _ _ _ _ _ _ => fail
             | context [match _ with _ => _ end] => fail
             | _ => destruct x eqn:?; try discriminate
             end
         | context [if ?x then _ else _] => destruct x eqn:?; try discriminate
         end.
    all: try (match type of Hstep with
              | option_map _ (Hub.add_event _ _ _ ?st0 ?i0 ?a0 ?c0) = Some _ =>
                  destruct (add_event st0 i0 a0 c0) as [st1|] eqn:Eev; [|discriminate];
                  cbn in Hstep; inversion Hstep; subst st'; clear Hstep
              end).
    all: try (match goal with Hx : h_closed ?xx = true |- _ => unfold h_closed in Hx; rewrite Hc in Hx; discriminate end).
    all: try (match goal with Hx : h_closed_done ?xx = true |- _ => unfold h_closed_done in Hx; rewrite Hc in Hx; discriminate end).
    all: try (try apply idx_metrics; eapply idx_event; try eassumption; rewrite Ep; reflexivity).
    all: inversion Hstep; subst st'; clear Hstep.
    all: try apply idx_metrics.
    (* steps that keep the index *)
    all: try (eapply idx_same; [exact H|exact Hs|reflexivity|reflexivity|];
              intros j sj' Hj; unfold set_sub, set_subs in Hj; cbn [h_subs] in Hj;
              destruct (upd_sub_rel st i s _ Hs j sj' Hj) as (sj & Ej & Hne & Heq);
              exists sj; split; [assumption|]; split; [assumption|];
              intros ->; destruct (Heq eq_refl) as [-> ->]; rewrite Ep;
              cbn [hs_phase with_phase s_set_ready s_cutoff s_send];
              try (match goal with Hd : s_dispatch _ _ _ _ = (?h, _) |- _ =>
                     let Hx := fresh in pose proof (dispatch_phase cap s _ true) as Hx; rewrite Hd in Hx; cbn in Hx end);
              cbn; reflexivity).
    - (* indexing *)
      intros _. destruct (H Hc) as [ND Hiff]. unfold set_sub, set_subs, set_index. cbn [h_index h_subs]. split.
      + apply NoDup_app_one; [assumption|]. intros Hin. apply (Hiff _ _ Hs) in Hin. rewrite Ep in Hin. discriminate.
      + intros j sj' Hj. destruct (upd_sub_rel st i s _ Hs j sj' Hj) as (sj & Ej & Hne & Heq).
        rewrite in_app_iff. destruct (Nat.eq_dec j i) as [->|Hn].
        * destruct (Heq eq_refl) as [-> _]. cbn. split; [reflexivity|auto].
        * rewrite (Hne Hn), <- (Hiff _ _ Ej). cbn. split; [intros [A|[A|[]]]; [assumption|congruence]|auto].
    - (* removal *)
      intros _. destruct (H Hc) as [ND Hiff]. unfold set_sub, set_subs, set_index. cbn [h_index h_subs]. split.
      + apply NoDup_filter. assumption.
      + intros j sj' Hj. destruct (upd_sub_rel st i s _ Hs j sj' Hj) as (sj & Ej & Hne & Heq).
        rewrite filter_In. destruct (Nat.eq_dec j i) as [->|Hn].
        * destruct (Heq eq_refl) as [-> _]. cbn. rewrite Nat.eqb_refl. cbn. split; [intros [_ A]; discriminate|discriminate].
        * rewrite (Hne Hn), <- (Hiff _ _ Ej). apply Nat.eqb_neq in Hn. rewrite Hn. cbn. tauto.
  Qed.

  Lemma idx_phases_same st st' :
    IdxOk st -> h_close st' = h_close st -> h_index st' = h_index st -> phases st' = phases st -> IdxOk st'.
  Proof.
    intros H Hc Hi Hp Hc'. rewrite Hc in Hc'. destruct (H Hc') as [ND Hiff]. rewrite Hi. split; [assumption|].
    intros j sj' Hj. symmetry in Hp. destruct (phases_nth _ _ _ _ Hp Hj) as (sj & Ej & Pj).
    rewrite (Hiff _ _ Ej), Pj. tauto.
  Qed.

  Theorem idx_wstep w a : a <> ACrash -> IdxOk (w_st w) -> IdxOk (w_st (wstep mt cap tracking w a)).
  Proof.
    intros Hna H. destruct a as [t|t coin|i coin|i|i| |]; cbn [Hub.wstep]; try congruence.
    - destruct (nth_error (w_pubs w) t) as [p|]; [|exact H].
      destruct (pb_todo p); [exact H|]. destruct (pb_checked p); [exact H|]. destruct (h_closed (w_st w)); exact H.
    - destruct (nth_error (w_pubs w) t) as [p|]; [|exact H].
      destruct (pb_todo p) as [|u todo]; [exact H|]. destruct (pb_checked p); [|exact H].
      destruct (publish (w_st w) u coin) as [st' []] eqn:Ep; cbn [set_pub w_st]; try exact H.
      destruct (publish_frame _ _ _ _ _ _ _ Ep) as (A & _ & _ & _ & F & G & _).
      eapply idx_phases_same; [exact H| | |]; unfold ack, phases in *; cbn; assumption.
    - destruct (nth_error (h_subs (w_st w)) i) as [s|] eqn:E; [|exact H].
      destruct (sub_step (w_st w) i s coin) as [st'|] eqn:Es; [|exact H]. eapply idx_sub_step; eassumption.
    - destruct (nth_error (h_subs (w_st w)) i) as [s|] eqn:E; [|exact H].
      destruct (recv_step (w_st w) i s) as [st'|] eqn:Es; [|exact H]. cbn [w_st].
      unfold recv_step in Es. destruct (hs_phase s) eqn:Ep; try discriminate.
      destruct (hs_out s); [destruct (hs_closed s); [|discriminate]|]; inversion Es; subst;
        (eapply idx_same; [exact H|exact E|reflexivity|reflexivity|];
         intros j sj' Hj; unfold set_sub, set_subs in Hj; cbn [h_subs] in Hj;
         destruct (upd_sub_rel (w_st w) i s _ E j sj' Hj) as (sj & Ej & Hne & Heq);
         exists sj; split; [assumption|]; split; [assumption|];
         intros ->; destruct (Heq eq_refl) as [-> ->]; rewrite Ep; reflexivity).
    - destruct (nth_error (h_subs (w_st w)) i) as [s|] eqn:E; [|exact H].
      destruct (leave_step (w_st w) i s) as [st'|] eqn:Es; [|exact H]. cbn [w_st].
      unfold leave_step in Es. destruct (hs_phase s) eqn:Ep; try discriminate. inversion Es; subst.
      eapply idx_same; [exact H|exact E|reflexivity|reflexivity|].
      intros j sj' Hj; unfold set_sub, set_subs in Hj; cbn [h_subs] in Hj.
      destruct (upd_sub_rel (w_st w) i s _ E j sj' Hj) as (sj & Ej & Hne & Heq).
      exists sj; split; [assumption|]; split; [assumption|].
      intros ->; destruct (Heq eq_refl) as [-> ->]; rewrite Ep; reflexivity.
    - destruct (close_step (w_st w)) as [st'|] eqn:Es; [|exact H]. cbn [w_st].
      unfold close_step in Es. destruct (h_close (w_st w)) as [|[|[|]]] eqn:Ec; try discriminate.
      + inversion Es; subst. intros Hc. cbn in Hc. discriminate.
      + destruct (existsb _ _); [discriminate|]. inversion Es; subst. intros Hc. cbn in Hc. discriminate.
      + destruct (h_persistent _ && _); [discriminate|]. inversion Es; subst. intros Hc. cbn in Hc. discriminate.
  Qed.

  (* C18: for every schedule without a crash, while the hub is open, the transport lists each subscriber at most once,
     and exactly those whose handler is between indexing and removal: at a quiescent point, the open streams *)
  Theorem listed_exactly persistent size reqs pubs sched :
    Forall (fun a => a <> ACrash) sched ->
    IdxOk (w_st (wrun mt cap tracking (winit persistent size reqs pubs) sched)).
  Proof.
    unfold Hub.wrun. intros Hs.
    assert (H0 : IdxOk (w_st (winit persistent size reqs pubs))).
    { intros _. split; [constructor|]. intros i s Hi. cbn in Hi. rewrite nth_error_map in Hi.
      destruct (nth_error reqs i); [|discriminate]. inversion Hi; subst. cbn. split; [intros []|discriminate]. }
    revert H0. generalize (winit persistent size reqs pubs).
    induction Hs as [|a sched Ha Hs IH]; intros w H0; [exact H0|]. cbn. apply IH. apply idx_wstep; assumption.
  Qed.
End P.
