(* ConfigProofs.v — C19: configuration is applied faithfully and fails closed. *)
From Mercure Require Import Base Config.
From Coq Require Import ZArith Lia.

(* each field after UnmarshalCaddyfile, as a fold over the directives: the last occurrence wins, flags accumulate *)
Definition anon_of (ds : list directive) (old : bool) : bool := fold_left (fun a d => match d with DAnonymous => true | _ => a end) ds old.
Definition subs_of (ds : list directive) (old : bool) : bool := fold_left (fun a d => match d with DSubscriptions => true | _ => a end) ds old.
Definition po_of (ds : list directive) (old : list str) := fold_left (fun a d => match d with DPublishOrigins l => l | _ => a end) ds old.
Definition co_of (ds : list directive) (old : list str) := fold_left (fun a d => match d with DCorsOrigins l => l | _ => a end) ds old.
Definition cookie_of (ds : list directive) (old : str) := fold_left (fun a d => match d with DCookieName n => n | _ => a end) ds old.
Definition compat_of (ds : list directive) (old : Z) := fold_left (fun a d => match d with DCompat _ => 7%Z | _ => a end) ds old.
Definition wt_of (ds : list directive) (old : option Z) := fold_left (fun a d => match d with DWriteTimeout z => Some z | _ => a end) ds old.
Definition dt_of (ds : list directive) (old : option Z) := fold_left (fun a d => match d with DDispatchTimeout z => Some z | _ => a end) ds old.
Definition hb_of (ds : list directive) (old : option Z) := fold_left (fun a d => match d with DHeartbeat z => Some z | _ => a end) ds old.
Definition tr_of (ds : list directive) (old : option transport_kind) := fold_left (fun a d => match d with DTransport k => Some k | _ => a end) ds old.
Definition pub_of (ds : list directive) (old : option (str * option str)) :=
  fold_left (fun a d => match d with
                        | DPublisherJWT k al => Some (k, match al with Some x => Some x | None => match a with Some (_, o) => o | None => None end end)
                        | _ => a end) ds old.
Definition sub_of (ds : list directive) (old : option (str * option str)) :=
  fold_left (fun a d => match d with
                        | DSubscriberJWT k al => Some (k, match al with Some x => Some x | None => match a with Some (_, o) => o | None => None end end)
                        | _ => a end) ds old.

Lemma unmarshal_fields ds : forall f f',
  unmarshal f ds = Ok f' ->
  f_anonymous f' = anon_of ds (f_anonymous f) /\ f_subscriptions f' = subs_of ds (f_subscriptions f) /\
  f_publish_origins f' = po_of ds (f_publish_origins f) /\ f_cors_origins f' = co_of ds (f_cors_origins f) /\
  f_cookie f' = cookie_of ds (f_cookie f) /\ f_compat f' = compat_of ds (f_compat f) /\
  f_write_timeout f' = wt_of ds (f_write_timeout f) /\ f_dispatch_timeout f' = dt_of ds (f_dispatch_timeout f) /\
  f_heartbeat f' = hb_of ds (f_heartbeat f) /\ f_transport f' = tr_of ds (f_transport f) /\
  f_pub f' = pub_of ds (f_pub f) /\ f_sub f' = sub_of ds (f_sub f).
Proof.
  induction ds as [|d ds IH]; intros f f' H.
  - inversion H; subst. repeat split.
  - cbn [unmarshal] in H. destruct (apply_directive f d) as [f1|] eqn:E; [|discriminate].
    specialize (IH _ _ H).
    unfold anon_of, subs_of, po_of, co_of, cookie_of, compat_of, wt_of, dt_of, hb_of, tr_of, pub_of, sub_of in *. cbn [fold_left].
    destruct d; cbn in E;
      try (destruct l; [discriminate|]);
      try (destruct (Z.eqb v 7); [|discriminate]);
      inversion E; subst f1; clear E; cbn in IH; exact IH.
Qed.

Lemma compat_must_be_7 ds : forall f v, In (DCompat v) ds -> v <> 7%Z -> unmarshal f ds = Err.
Proof.
  induction ds as [|d ds IH]; intros f v Hin Hv; [destruct Hin|].
  cbn [unmarshal]. destruct Hin as [->|Hin].
  - cbn. destruct (Z.eqb_spec v 7); [contradiction|reflexivity].
  - destruct (apply_directive f d); [eapply IH; eassumption|reflexivity].
Qed.

Lemma fold_last {A} (g : A -> directive -> A) ds d a : fold_left g (ds ++ [d]) a = g (fold_left g ds a) d.
Proof. rewrite fold_left_app. reflexivity. Qed.

Lemma fold_unchanged {A} (g : A -> directive -> A) ds a :
  (forall x d, In d ds -> g x d = x) -> fold_left g ds a = a.
Proof.
  revert a. induction ds as [|d ds IH]; intros a H; [reflexivity|].
  cbn. rewrite H by (left; reflexivity). apply IH. intros x d' Hd. apply H. right. assumption.
Qed.

Lemma anon_true ds : fold_left (fun a d => match d with DAnonymous => true | _ => a end) ds true = true.
Proof. induction ds as [|d ds IH]; [reflexivity|]. cbn. destruct d; exact IH. Qed.
Lemma anon_sticky ds : In DAnonymous ds -> forall b, fold_left (fun a d => match d with DAnonymous => true | _ => a end) ds b = true.
Proof.
  induction ds as [|d ds IH]; intros Hin b; [destruct Hin|]. cbn. destruct Hin as [->|Hin]; [apply anon_true|]. apply IH. assumption.
Qed.
Lemma subs_true ds : fold_left (fun a d => match d with DSubscriptions => true | _ => a end) ds true = true.
Proof. induction ds as [|d ds IH]; [reflexivity|]. cbn. destruct d; exact IH. Qed.
Lemma subs_sticky ds : In DSubscriptions ds -> forall b, fold_left (fun a d => match d with DSubscriptions => true | _ => a end) ds b = true.
Proof.
  induction ds as [|d ds IH]; intros Hin b; [destruct Hin|]. cbn. destruct Hin as [->|Hin]; [apply subs_true|]. apply IH. assumption.
Qed.
Lemma compat_7 ds : fold_left (fun a d => match d with DCompat _ => 7%Z | _ => a end) ds 7%Z = 7%Z.
Proof. induction ds as [|d ds IH]; [reflexivity|]. cbn. destruct d; exact IH. Qed.
Lemma compat_sticky ds v : In (DCompat v) ds -> forall z, fold_left (fun a d => match d with DCompat _ => 7%Z | _ => a end) ds z = 7%Z.
Proof.
  induction ds as [|d ds IH]; intros Hin z; [destruct Hin|]. cbn. destruct Hin as [->|Hin]; [apply compat_7|]. apply IH. assumption.
Qed.

Section P.
  Variable key_ok : str -> str -> bool.
  Variable origin_ok : str -> bool.
  Notation provision := (provision key_ok origin_ok).
  Notation provision_fields := (provision_fields key_ok origin_ok).
  Notation provision_legacy := (provision_legacy key_ok origin_ok).

  (* what an accepted configuration guarantees: keys and algorithms usable, origins valid, and a missing subscriber key
     only together with anonymous mode *)
  Definition sound (e : effective) : Prop :=
    e_pub_key e <> [] /\ key_ok (e_pub_alg e) (e_pub_key e) = true /\
    (forall sk sa, e_sub e = Some (sk, sa) -> sk <> [] /\ key_ok sa sk = true) /\
    (e_sub e = None -> e_anonymous e = true) /\
    forallb origin_ok (e_publish_origins e) = true /\ forallb origin_ok (e_cors_origins e) = true.

  Theorem json_accepted_is_sound f e : provision_fields f = Ok e -> sound e.
  Proof.
    unfold sound.
    unfold Config.provision_fields. destruct (negb (Z.eqb (f_compat f) 0 || Z.eqb (f_compat f) 7)); [discriminate|].
    destruct (f_pub f) as [[[|c pk] pa]|]; try discriminate.
    destruct (key_ok (alg_of pa) (c :: pk)) eqn:Ek; [|discriminate]. cbn [negb].
    set (sub := match f_sub f with Some ((_ :: _) as sk, sa) => Some (sk, alg_of sa) | _ => None end).
    assert (Hsub : forall sk sa, sub = Some (sk, sa) -> sk <> []).
    { unfold sub. intros sk sa. destruct (f_sub f) as [[[|c2 sk2] sa2]|]; cbn; try discriminate. intros H; inversion H; subst; intro; discriminate. }
    destruct sub as [[sk sa]|] eqn:Es.
    - destruct (key_ok sa sk) eqn:Eks; [|destruct (f_anonymous f); discriminate]. cbn [negb].
      destruct (forallb origin_ok (f_publish_origins f) && forallb origin_ok (f_cors_origins f)) eqn:Eo; [|destruct (f_anonymous f); discriminate].
      apply andb_true_iff in Eo. destruct Eo as [Eo1 Eo2].
      destruct (f_anonymous f); intros H; inversion H; subst; cbn;
        (split; [discriminate|]; split; [assumption|]; split; [intros sk' sa' E'; inversion E'; subst; split; [eapply Hsub; reflexivity|assumption]|];
         split; [discriminate|]; split; assumption).
    - destruct (f_anonymous f) eqn:Ea; [|discriminate]. cbn [negb].
      destruct (forallb origin_ok (f_publish_origins f) && forallb origin_ok (f_cors_origins f)) eqn:Eo; [|discriminate].
      apply andb_true_iff in Eo. destruct Eo as [Eo1 Eo2].
      intros H; inversion H; subst; cbn.
      split; [discriminate|]. split; [assumption|]. split; [intros sk' sa' E'; discriminate|]. split; [auto|]. split; assumption.
  Qed.

  Theorem accepted_is_sound ds e : provision ds = Ok e -> sound e.
  Proof. unfold Config.provision. destruct (unmarshal f_init ds) as [f|]; [|discriminate]. apply json_accepted_is_sound. Qed.

  (* fail closed *)
  Theorem no_publisher_key_fails ds :
    (forall k a, ~ In (DPublisherJWT k a) ds) -> provision ds = Err.
  Proof.
    intros H. unfold Config.provision. destruct (unmarshal f_init ds) as [f|] eqn:E; [|reflexivity].
    destruct (unmarshal_fields _ _ _ E) as (_ & _ & _ & _ & _ & _ & _ & _ & _ & _ & Hp & _).
    unfold Config.provision_fields. destruct (negb (Z.eqb (f_compat f) 0 || Z.eqb (f_compat f) 7)); [reflexivity|]. rewrite Hp. unfold pub_of.
    rewrite fold_unchanged; [reflexivity|]. intros x d Hd. destruct d; try reflexivity. exfalso. eapply H. eassumption.
  Qed.

  Theorem no_subscriber_key_without_anonymous_fails ds :
    (forall k a, ~ In (DSubscriberJWT k a) ds) -> ~ In DAnonymous ds -> provision ds = Err.
  Proof.
    intros Hs Ha. unfold Config.provision. destruct (unmarshal f_init ds) as [f|] eqn:E; [|reflexivity].
    destruct (unmarshal_fields _ _ _ E) as (Han & _ & _ & _ & _ & _ & _ & _ & _ & _ & _ & Hsu).
    assert (E1 : f_sub f = None).
    { rewrite Hsu. unfold sub_of. apply fold_unchanged. intros x d Hd. destruct d; try reflexivity. exfalso. eapply Hs. eassumption. }
    assert (E2 : f_anonymous f = false).
    { rewrite Han. unfold anon_of. apply fold_unchanged. intros x d Hd. destruct d; try reflexivity. contradiction. }
    unfold Config.provision_fields. destruct (negb (Z.eqb (f_compat f) 0 || Z.eqb (f_compat f) 7)); [reflexivity|]. rewrite E1, E2.
    destruct (f_pub f) as [[[|c pk] pa]|]; try reflexivity. destruct (key_ok _ _); reflexivity.
  Qed.

  Theorem unsupported_compatibility_fails ds v : In (DCompat v) ds -> v <> 7%Z -> provision ds = Err.
  Proof. intros H Hv. unfold Config.provision. rewrite (compat_must_be_7 ds f_init v H Hv). reflexivity. Qed.

  Lemma provision_fields_ok f e :
    provision_fields f = Ok e ->
    e_anonymous e = f_anonymous f /\ e_subscriptions e = f_subscriptions f /\
    e_publish_origins e = f_publish_origins f /\ e_cors_origins e = f_cors_origins f /\
    e_cookie e = match f_cookie f with [] => s_default_cookie | n => n end /\
    e_compat7 e = Z.eqb (f_compat f) 7 /\
    e_write_timeout e = match f_write_timeout f with Some z => z | None => 600000000000%Z end /\
    e_dispatch_timeout e = match f_dispatch_timeout f with Some z => z | None => 5000000000%Z end /\
    e_heartbeat e = match f_heartbeat f with Some z => z | None => 40000000000%Z end /\
    e_transport e = match f_transport f with Some k => k | None => TBolt end /\
    (exists pa, f_pub f = Some (e_pub_key e, pa) /\ e_pub_alg e = alg_of pa) /\
    e_sub e = match f_sub f with Some ((_ :: _) as sk, sa) => Some (sk, alg_of sa) | _ => None end.
  Proof.
    unfold Config.provision_fields. destruct (negb (Z.eqb (f_compat f) 0 || Z.eqb (f_compat f) 7)); [discriminate|].
    destruct (f_pub f) as [[[|c pk] pa]|]; try discriminate.
    destruct (key_ok _ _); [|discriminate]. cbn [negb].
    destruct (match f_sub f with Some ((_ :: _) as sk, sa) => Some (sk, alg_of sa) | _ => None end) as [[sk sa]|];
      destruct (f_anonymous f) eqn:Ea; try discriminate;
      try (destruct (key_ok sa sk); [|discriminate]); cbn [negb];
      (destruct (forallb origin_ok (f_publish_origins f) && forallb origin_ok (f_cors_origins f)); [|discriminate]);
      intros H; inversion H; subst; cbn; repeat split; eexists; split; reflexivity.
  Qed.

  Ltac unchanged H := rewrite fold_unchanged; [reflexivity|]; intros ? d ?; destruct d; try reflexivity; exfalso; first [contradiction | eapply H; eassumption].

  Theorem json_unsupported_compatibility_fails f : f_compat f <> 0%Z -> f_compat f <> 7%Z -> provision_fields f = Err.
  Proof.
    intros H0 H7. unfold Config.provision_fields.
    destruct (Z.eqb_spec (f_compat f) 0); [contradiction|]. destruct (Z.eqb_spec (f_compat f) 7); [contradiction|]. reflexivity.
  Qed.

  (* omitted security options take their restrictive defaults *)
  Theorem defaults_restrictive ds e :
    provision ds = Ok e ->
    (~ In DAnonymous ds -> e_anonymous e = false) /\
    (~ In DSubscriptions ds -> e_subscriptions e = false) /\
    ((forall l, ~ In (DPublishOrigins l) ds) -> e_publish_origins e = []) /\
    ((forall l, ~ In (DCorsOrigins l) ds) -> e_cors_origins e = []) /\
    ((forall n, ~ In (DCookieName n) ds) -> e_cookie e = s_default_cookie) /\
    ((forall v, ~ In (DCompat v) ds) -> e_compat7 e = false) /\
    ((forall k, ~ In (DTransport k) ds) -> e_transport e = TBolt) /\
    ((forall z, ~ In (DWriteTimeout z) ds) -> e_write_timeout e = 600000000000%Z) /\
    ((forall z, ~ In (DDispatchTimeout z) ds) -> e_dispatch_timeout e = 5000000000%Z) /\
    ((forall z, ~ In (DHeartbeat z) ds) -> e_heartbeat e = 40000000000%Z).
  Proof.
    unfold Config.provision. destruct (unmarshal f_init ds) as [f|] eqn:E; [|discriminate].
    destruct (unmarshal_fields _ _ _ E) as (Han & Hsb & Hpo & Hco & Hck & Hcp & Hwt & Hdt & Hhb & Htr & _ & _).
    intros H. destruct (provision_fields_ok _ _ H) as (Ean & Esb & Epo & Eco & Eck & Ecp & Ewt & Edt & Ehb & Etr & _ & _).
    rewrite Ean, Esb, Epo, Eco, Eck, Ecp, Ewt, Edt, Ehb, Etr, Han, Hsb, Hpo, Hco, Hck, Hcp, Hwt, Hdt, Hhb, Htr.
    unfold anon_of, subs_of, po_of, co_of, cookie_of, compat_of, wt_of, dt_of, hb_of, tr_of.
    repeat split; intros Hn.
    all: rewrite fold_unchanged; [reflexivity|]; intros ? d ?; destruct d; try reflexivity; exfalso; first [contradiction | eapply Hn; eassumption].
  Qed.

  (* the last occurrence of a directive is the one in effect; flags are in effect as soon as they occur *)
  Theorem flags_in_effect ds e :
    provision ds = Ok e ->
    (In DAnonymous ds -> e_anonymous e = true) /\ (In DSubscriptions ds -> e_subscriptions e = true) /\
    ((exists v, In (DCompat v) ds) -> e_compat7 e = true).
  Proof.
    unfold Config.provision. destruct (unmarshal f_init ds) as [f|] eqn:E; [|discriminate].
    destruct (unmarshal_fields _ _ _ E) as (Han & Hsb & _ & _ & _ & Hcp & _).
    intros H. destruct (provision_fields_ok _ _ H) as (Ean & Esb & _ & _ & _ & Ecp & _).
    rewrite Ean, Esb, Ecp, Han, Hsb, Hcp. unfold anon_of, subs_of, compat_of. cbn [f_init f_anonymous f_subscriptions f_compat].
    clear. split; [|split]; intros Hin.
    - apply anon_sticky; assumption.
    - apply subs_sticky; assumption.
    - apply Z.eqb_eq. destruct Hin as [v Hv]. eapply compat_sticky; eassumption.
  Qed.

  Theorem last_occurrence_wins ds d e :
    provision (ds ++ [d]) = Ok e ->
    match d with
    | DCookieName n => e_cookie e = match n with [] => s_default_cookie | _ => n end
    | DPublishOrigins l => e_publish_origins e = l
    | DCorsOrigins l => e_cors_origins e = l
    | DWriteTimeout z => e_write_timeout e = z
    | DDispatchTimeout z => e_dispatch_timeout e = z
    | DHeartbeat z => e_heartbeat e = z
    | DTransport k => e_transport e = k
    | DPublisherJWT k a => e_pub_key e = k /\ (forall x, a = Some x -> x <> [] -> e_pub_alg e = x)
    | DSubscriberJWT k a => k <> [] -> exists sa, e_sub e = Some (k, sa) /\ (forall x, a = Some x -> x <> [] -> sa = x)
    | _ => True
    end.
  Proof.
    unfold Config.provision. destruct (unmarshal f_init (ds ++ [d])) as [f|] eqn:E; [|discriminate].
    destruct (unmarshal_fields _ _ _ E) as (_ & _ & Hpo & Hco & Hck & _ & Hwt & Hdt & Hhb & Htr & Hpu & Hsu).
    intros H. destruct (provision_fields_ok _ _ H) as (_ & _ & Epo & Eco & Eck & _ & Ewt & Edt & Ehb & Etr & (pa & Epu & Epa) & Esu).
    unfold po_of, co_of, cookie_of, wt_of, dt_of, hb_of, tr_of, pub_of, sub_of in *.
    destruct d; auto.
    - rewrite fold_last in Hpu. rewrite Epu in Hpu. inversion Hpu; subst. split; [reflexivity|]. intros x -> Hx. rewrite Epa. destruct x; [contradiction|reflexivity].
    - intros Hk. rewrite Esu, Hsu, fold_last. destruct key as [|c k]; [contradiction|]. eexists. split; [reflexivity|]. intros x -> Hx. destruct x; [contradiction|reflexivity].
    - rewrite Epo, Hpo, fold_last. reflexivity.
    - rewrite Eco, Hco, fold_last. reflexivity.
    - rewrite Eck, Hck, fold_last. destruct n; reflexivity.
    - rewrite Ewt, Hwt, fold_last. reflexivity.
    - rewrite Edt, Hdt, fold_last. reflexivity.
    - rewrite Ehb, Hhb, fold_last. reflexivity.
    - rewrite Etr, Htr, fold_last. reflexivity.
  Qed.

  (* directives of different kinds do not interfere: the outcome is the same in whatever order the kinds are written,
     as long as the relative order within each kind is kept.  Stated for adjacent swaps. *)
  Definition same_kind (a b : directive) : bool :=
    match a, b with
    | DAnonymous, DAnonymous | DSubscriptions, DSubscriptions | DPublisherJWT _ _, DPublisherJWT _ _ | DSubscriberJWT _ _, DSubscriberJWT _ _
    | DPublishOrigins _, DPublishOrigins _ | DCorsOrigins _, DCorsOrigins _ | DCookieName _, DCookieName _ | DCompat _, DCompat _
    | DWriteTimeout _, DWriteTimeout _ | DDispatchTimeout _, DDispatchTimeout _ | DHeartbeat _, DHeartbeat _ | DTransport _, DTransport _ => true
    | _, _ => false
    end.

  Lemma apply_swap f a b : same_kind a b = false ->
    match apply_directive f a with Ok f1 => apply_directive f1 b | Err => Err end =
    match apply_directive f b with Ok f1 => apply_directive f1 a | Err => Err end.
  Proof.
    destruct a, b; cbn; intros H; try discriminate H; try reflexivity;
      repeat match goal with |- context [match ?l with [] => _ | _ :: _ => _ end] => destruct l end;
      repeat match goal with |- context [Z.eqb ?v 7] => destruct (Z.eqb v 7) end; cbn; reflexivity.
  Qed.

  Theorem order_of_kinds_irrelevant ds1 a b ds2 :
    same_kind a b = false -> provision (ds1 ++ a :: b :: ds2) = provision (ds1 ++ b :: a :: ds2).
  Proof.
    intros H. unfold Config.provision.
    assert (G : forall f, unmarshal f (ds1 ++ a :: b :: ds2) = unmarshal f (ds1 ++ b :: a :: ds2)).
    { induction ds1 as [|d ds1 IH]; intros f.
      - cbn [app unmarshal]. pose proof (apply_swap f a b H) as S.
        destruct (apply_directive f a) as [fa|], (apply_directive f b) as [fb|]; cbn in *.
        + rewrite S. reflexivity.
        + rewrite S. reflexivity.
        + rewrite <- S. reflexivity.
        + reflexivity.
      - cbn [app unmarshal]. destruct (apply_directive f d); [apply IH|reflexivity]. }
    rewrite G. reflexivity.
  Qed.

  (* ---- legacy options ---- *)
  Theorem legacy_fails_closed l e : provision_legacy l = Ok e -> sound e.
  Proof.
    unfold sound, Config.provision_legacy.
    destruct (first_nonempty (l_pub_key l) (l_jwt_key l)) as [|c pk] eqn:Epk; [discriminate|].
    destruct (first_nonempty (l_sub_key l) (l_jwt_key l)) as [|c2 sk] eqn:Esk; destruct (l_anonymous l) eqn:Ea; try discriminate.
    all: destruct (key_ok _ (c :: pk)) eqn:Ek; [|discriminate]; cbn [negb].
    all: try (destruct (key_ok _ (c2 :: sk)) eqn:Ek2; [|discriminate]); cbn [negb].
    all: destruct (forallb origin_ok (l_publish_origins l) && forallb origin_ok (l_cors_origins l)) eqn:Eo; [|discriminate].
    all: apply andb_true_iff in Eo; destruct Eo as [Eo1 Eo2].
    all: intros H; inversion H; subst; cbn.
    all: split; [discriminate|]; split; [assumption|]; split; [|split; [|split; assumption]].
    all: try (intros sk' sa' E'; inversion E'; subst; split; [discriminate|assumption]).
    all: try (intros sk' sa' E'; discriminate).
    all: try discriminate; auto.
  Qed.

  Theorem legacy_faithful l e :
    provision_legacy l = Ok e ->
    e_anonymous e = l_anonymous l /\ e_subscriptions e = l_subscriptions l /\
    e_publish_origins e = l_publish_origins l /\ e_cors_origins e = l_cors_origins l /\
    e_pub_key e = first_nonempty (l_pub_key l) (l_jwt_key l) /\
    e_pub_alg e = first_nonempty (l_pub_alg l) (first_nonempty (l_jwt_alg l) s_hs256) /\
    e_sub e = match first_nonempty (l_sub_key l) (l_jwt_key l) with [] => None
              | sk => Some (sk, first_nonempty (l_sub_alg l) (first_nonempty (l_jwt_alg l) s_hs256)) end.
  Proof.
    unfold Config.provision_legacy.
    destruct (first_nonempty (l_pub_key l) (l_jwt_key l)) as [|c pk] eqn:Epk; [discriminate|].
    destruct (first_nonempty (l_sub_key l) (l_jwt_key l)) as [|c2 sk] eqn:Esk; destruct (l_anonymous l) eqn:Ea; try discriminate.
    all: destruct (key_ok _ (c :: pk)) eqn:Ek; [|discriminate]; cbn [negb].
    all: try (destruct (key_ok _ (c2 :: sk)) eqn:Ek2; [|discriminate]); cbn [negb].
    all: destruct (forallb origin_ok (l_publish_origins l) && forallb origin_ok (l_cors_origins l)) eqn:Eo; [|discriminate].
    all: intros H; inversion H; subst; cbn; repeat split.
  Qed.
End P.
