(* HubProofs10.v — what the history file holds, in every reachable state (crashes anywhere): a contiguous suffix of
   the committed history, numbered consecutively; with size 0 the whole committed history, hence every acknowledged
   update (C09, C15: "the history file can immediately be reopened and contains every acknowledged update"). *)
From Mercure Require Import Base Hub HubProofs HubProofs2 HubProofs4 HubProofs7.
From Coq Require Import Lia ZArith.

Lemma map_snd_entries s l : map snd (entries_from s l) = l.
Proof. revert s. induction l as [|x t IH]; intros s; cbn; [reflexivity|]. rewrite IH. reflexivity. Qed.

Lemma map_fst_entries s l : map fst (entries_from s l) = map (fun k => s + N.of_nat k) (seq 0 (length l)).
Proof.
  revert s. induction l as [|x t IH]; intros s; cbn; [reflexivity|]. rewrite IH. f_equal; [lia|].
  rewrite <- seq_shift, map_map. apply map_ext. intros k. lia.
Qed.

Section P.
  Variable mt : nat -> N -> bool.
  Variable cap : nat.
  Variable tracking : bool.
  Notation wrun := (wrun mt cap tracking).

  Theorem file_content size reqs pubs sched :
    let st := w_st (wrun (winit true size reqs pubs) sched) in
    map snd (h_db st) = skipn (dropped st) (h_committed st) /\
    map fst (h_db st) = map (fun k => N.of_nat (dropped st) + 1 + N.of_nat k) (seq 0 (length (h_db st))) /\
    (h_committed st <> [] -> h_db st <> []).
  Proof.
    intros st. destruct (inv_reachable mt cap tracking true size reqs pubs sched) as (A & _). fold st in A.
    destruct (A (persistent_reachable mt cap tracking true size reqs pubs sched)) as (E & _ & Hne & _).
    split; [|split].
    - rewrite E at 1. apply map_snd_entries.
    - assert (L : length (h_db st) = length (skipn (dropped st) (h_committed st))) by (rewrite E at 1; apply entries_from_length).
      rewrite L. rewrite E at 1. apply map_fst_entries.
    - intros Hc Hd. specialize (Hne Hc). unfold dropped in Hne. rewrite Hd in Hne. cbn in Hne. lia.
  Qed.

  Theorem file_holds_acknowledged reqs pubs sched :
    let st := w_st (wrun (winit true 0 reqs pubs) sched) in
    map snd (h_db st) = h_committed st /\ Forall (fun u => In u (map snd (h_db st))) (h_acked st).
  Proof.
    intros st. destruct (file_content 0 reqs pubs sched) as (E & _). fold st in E.
    pose proof (dropped_zero mt cap tracking true reqs pubs sched eq_refl) as Z. fold st in Z. rewrite Z in E. cbn [skipn] in E.
    split; [exact E|]. rewrite E. apply (i_acked _ (durable_reachable mt cap tracking true 0 reqs pubs sched)).
  Qed.

  (* Close returned, the process ends, the file is reopened: it is the same file *)
  Theorem reopen_after_close st : h_persistent st = true -> h_close st = 3%nat -> h_db (crash st) = h_db st.
  Proof. intros Hp _. unfold crash. cbn. rewrite Hp. reflexivity. Qed.
End P.
