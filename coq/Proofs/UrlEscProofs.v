(* UrlEscProofs.v — escaping round-trips, so every subscription id dereferences to itself (C17, C18). *)
From Mercure Require Import Base UrlEsc.
From Coq Require Import ZifyN ZifyNat ZifyBool.
Ltac Zify.zify_post_hook ::= Z.div_mod_to_equations.

Definition bytes (s : str) : Prop := Forall (fun c => c < 256) s.

Lemma unhex_hexdigit d : d < 16 -> unhex (hexdigit d) = Some d.
Proof.
  intros H. unfold hexdigit, unhex. destruct (N.ltb_spec d 10).
  - replace (N.leb 48 (48 + d) && N.leb (48 + d) 57) with true by lia. f_equal. lia.
  - replace (N.leb 48 (55 + d) && N.leb (55 + d) 57) with false by lia.
    replace (N.leb 65 (55 + d) && N.leb (55 + d) 70) with true by lia. f_equal. lia.
Qed.

Lemma escape_length s : (length s <= length (query_escape s))%nat.
Proof.
  induction s as [|c s IH]; cbn [query_escape length]; [lia|].
  destruct (unreserved c); [cbn; lia|]. destruct (N.eqb c 32); cbn; lia.
Qed.

Lemma unescape_more_fuel f : forall s r, query_unescape_fuel f s = Some r -> forall f', (f <= f')%nat -> query_unescape_fuel f' s = Some r.
Proof.
  induction f as [|f IH]; intros s r H f' Hf.
  - destruct s; [|discriminate]. inversion H. destruct f'; reflexivity.
  - destruct f' as [|f']; [lia|]. cbn [query_unescape_fuel] in *.
    destruct s as [|c s]; [assumption|].
    destruct (N.eqb c 37).
    + destruct s as [|h [|l s]]; try discriminate.
      destruct (unhex h); [|discriminate]. destruct (unhex l); [|discriminate].
      destruct (query_unescape_fuel f s) as [r0|] eqn:E; [|discriminate].
      rewrite (IH _ _ E f') by lia. assumption.
    + destruct (N.eqb c 43).
      * destruct (query_unescape_fuel f s) as [r0|] eqn:E; [|discriminate]. rewrite (IH _ _ E f') by lia. assumption.
      * destruct (query_unescape_fuel f s) as [r0|] eqn:E; [|discriminate]. rewrite (IH _ _ E f') by lia. assumption.
Qed.

Lemma unescape_pct f h l s :
  query_unescape_fuel (S f) (37 :: h :: l :: s) =
  match unhex h, unhex l, query_unescape_fuel f s with
  | Some a, Some b, Some r => Some ((16 * a + b) :: r)
  | _, _, _ => None
  end.
Proof. reflexivity. Qed.

Lemma unreserved_not_special c : unreserved c = true -> N.eqb c 37 = false /\ N.eqb c 43 = false /\ N.eqb c SLASH = false.
Proof. unfold unreserved, is_alnum, SLASH. intros H. lia. Qed.

Lemma unescape_escape_fuel s : bytes s -> query_unescape_fuel (length (query_escape s)) (query_escape s) = Some s.
Proof.
  induction 1 as [|c s Hc Hs IH]; [reflexivity|].
  cbn [query_escape]. destruct (unreserved c) eqn:Eu.
  - destruct (unreserved_not_special c Eu) as (A & B & _).
    cbn [length query_unescape_fuel]. rewrite A, B, IH. reflexivity.
  - destruct (N.eqb_spec c 32) as [->|Hsp].
    + cbn [length query_unescape_fuel]. cbn [N.eqb Pos.eqb]. rewrite IH. reflexivity.
    + cbn [length]. rewrite unescape_pct.
      rewrite !unhex_hexdigit by lia.
      rewrite (unescape_more_fuel _ _ _ IH) by lia.
      f_equal. f_equal. lia.
Qed.

(* QueryUnescape(QueryEscape(s)) = s for every byte string *)
Theorem unescape_escape s : bytes s -> query_unescape (query_escape s) = Some s.
Proof. intros H. unfold query_unescape. apply unescape_escape_fuel. assumption. Qed.

Lemma hexdigit_not_slash d : d < 16 -> hexdigit d <> SLASH.
Proof. unfold hexdigit, SLASH. intros. destruct (N.ltb d 10) eqn:E; lia. Qed.

Lemma mem_N_cons x a l : mem_N x (a :: l) = N.eqb x a || mem_N x l.
Proof. reflexivity. Qed.

(* an escaped string contains no '/' ... *)
Theorem escape_no_slash s : bytes s -> mem_N SLASH (query_escape s) = false.
Proof.
  induction 1 as [|c s Hc Hs IH]; [reflexivity|].
  cbn [query_escape]. destruct (unreserved c) eqn:Eu.
  - destruct (unreserved_not_special c Eu) as (_ & _ & C). rewrite mem_N_cons, N.eqb_sym, C. exact IH.
  - destruct (N.eqb c 32); rewrite !mem_N_cons, IH.
    + reflexivity.
    + pose proof (hexdigit_not_slash (c / 16)) as H1. pose proof (hexdigit_not_slash (c mod 16)) as H2.
      assert (E1 : N.eqb SLASH (hexdigit (c / 16)) = false) by (apply N.eqb_neq; intros E; apply H1; [lia|congruence]).
      assert (E2 : N.eqb SLASH (hexdigit (c mod 16)) = false) by (apply N.eqb_neq; intros E; apply H2; [lia|congruence]).
      rewrite E1, E2. reflexivity.
Qed.

(* ... and is empty only for the empty string *)
Lemma escape_nonempty s : s <> [] -> query_escape s <> [].
Proof. destruct s as [|c s]; [congruence|]. intros _. cbn. destruct (unreserved c); [discriminate|]. destruct (N.eqb c 32); discriminate. Qed.

Lemma strip_prefix_app p s : strip_prefix p (p ++ s) = Some s.
Proof. induction p as [|x p IH]; [reflexivity|]. cbn [app strip_prefix]. rewrite N.eqb_refl. exact IH. Qed.

Lemma split_slash_app a b : mem_N SLASH a = false -> split_slash (a ++ SLASH :: b) = (a, Some b).
Proof.
  induction a as [|c a IH]; intros H; cbn [app split_slash].
  - rewrite N.eqb_refl. reflexivity.
  - rewrite mem_N_cons in H. apply orb_false_iff in H. destruct H as [H1 H2].
    rewrite N.eqb_sym, H1. rewrite (IH H2). reflexivity.
Qed.

(* every subscription id routes back to the selector and the subscriber it was built from *)
Theorem route_sub_url_spec sel sid :
  bytes sel -> bytes sid -> sel <> [] -> sid <> [] -> route_sub_url (sub_url sel sid) = Some (sel, sid).
Proof.
  intros Bs Bi Ns Ni. unfold route_sub_url, sub_url.
  rewrite strip_prefix_app. cbn [app].
  rewrite split_slash_app by (apply escape_no_slash; assumption).
  pose proof (escape_nonempty sel Ns) as E1. pose proof (escape_nonempty sid Ni) as E2.
  destruct (query_escape sel) as [|c1 r1] eqn:Q1; [congruence|].
  destruct (query_escape sid) as [|c2 r2] eqn:Q2; [congruence|].
  rewrite <- Q1, <- Q2. rewrite (escape_no_slash sid Bi).
  rewrite !unescape_escape by assumption. reflexivity.
Qed.
