(* BoltHistProofs.v — C10: retention keeps a contiguous most-recent window. *)
From Mercure Require Import Base BoltHist.
From Coq Require Import ZifyN ZifyNat ZifyBool.

Lemma nrange_snoc len : forall lo, nrange lo len ++ [lo + N.of_nat len] = nrange lo (S len).
Proof.
  induction len as [|k IH]; intros lo.
  - cbn. f_equal. lia.
  - change (nrange lo (S (S k))) with (lo :: nrange (lo + 1) (S k)).
    change (nrange lo (S k)) with (lo :: nrange (lo + 1) k).
    cbn [app]. f_equal. rewrite <- IH. f_equal. f_equal. lia.
Qed.

Lemma filter_nrange thr len : forall lo,
  filter (N.ltb thr) (nrange lo len) =
  nrange (N.max lo (thr + 1)) (len - N.to_nat (N.max lo (thr + 1) - lo)).
Proof.
  induction len as [|k IH]; intros lo; cbn [nrange filter]; [reflexivity|].
  destruct (N.ltb_spec thr lo) as [Hlt|Hge].
  - rewrite IH.
    replace (N.max lo (thr + 1)) with lo by lia.
    replace (N.max (lo + 1) (thr + 1)) with (lo + 1) by lia.
    replace (S k - N.to_nat (lo - lo))%nat with (S k) by lia.
    replace (k - N.to_nat (lo + 1 - (lo + 1)))%nat with k by lia.
    reflexivity.
  - rewrite IH.
    replace (N.max (lo + 1) (thr + 1)) with (N.max lo (thr + 1)) by lia.
    f_equal. lia.
Qed.

Section B.
  Variable A : Type.

  Inductive hop := Pub (run : bool) (x : A) | Reopen.

  Definition hstep (size : N) (d : db A) (o : hop) : db A :=
    match o with Pub run x => persist A size d (run, x) | Reopen => reopen A d end.

  Definition run_hist (size : N) (ops : list hop) : db A := fold_left (hstep size) ops (db_empty A).

  Definition pubs (ops : list hop) : list bool :=
    flat_map (fun o => match o with Pub r _ => [r] | Reopen => [] end) ops.

  (* retained sequence numbers after n publications *)
  Definition window_ok (size : N) (allrun norun : bool) (n : N) (l : list N) : Prop :=
    exists lo len,
      l = nrange lo len /\ lo + N.of_nat len = n + 1 /\ 1 <= lo /\
      (size = 0 -> lo = 1) /\
      (size <> 0 -> N.min n size <= N.of_nat len) /\
      (allrun = true -> size <> 0 -> N.of_nat len = N.min n size) /\
      (norun = true -> lo = 1).

  Lemma map_fst_filter (P : N -> bool) (es : list (N * A)) :
    map fst (filter (fun e => P (fst e)) es) = filter P (map fst es).
  Proof. induction es as [|[s x] es IH]; cbn; [reflexivity|]. destruct (P s); cbn; rewrite IH; reflexivity. Qed.

  Lemma persist_window size d run x allrun norun :
    window_ok size allrun norun (d_seq A d) (seqs A d) ->
    window_ok size (allrun && run) (norun && negb run) (d_seq A (persist A size d (run, x))) (seqs A (persist A size d (run, x))).
  Proof.
    intros (lo & len & Hl & Hsum & Hlo & Hz & Hmin & Hall & Hno).
    unfold persist, seqs in *. cbn [d_seq d_entries fst snd].
    set (n := d_seq A d) in *.
    assert (Happ : map fst (d_entries A d ++ [(n + 1, x)]) = nrange lo (S len)).
    { rewrite map_app, Hl. cbn [map fst]. rewrite <- nrange_snoc. f_equal. f_equal. lia. }
    unfold cleanup.
    destruct (N.eqb_spec size 0) as [Hs0|Hs0].
    { cbn [orb]. exists lo, (S len). rewrite Happ. repeat split; try lia; auto. }
    destruct run; cbn [negb orb].
    - destruct (N.leb_spec (n + 1) size) as [Hle|Hgt].
      + exists lo, (S len). rewrite Happ.
        split; [reflexivity|]. split; [lia|]. split; [lia|]. split; [lia|]. split; [lia|]. split.
        * intros Ha _. rewrite andb_true_r in Ha. specialize (Hall Ha Hs0). lia.
        * intros Hn. rewrite andb_false_r in Hn. discriminate.
      + rewrite (map_fst_filter (N.ltb (n + 1 - size))), Happ, filter_nrange.
        eexists. eexists. split; [reflexivity|].
        split; [lia|]. split; [lia|]. split; [lia|]. split; [lia|]. split.
        * intros Ha _. rewrite andb_true_r in Ha. specialize (Hall Ha Hs0). lia.
        * intros Hn. rewrite andb_false_r in Hn. discriminate.
    - exists lo, (S len). rewrite Happ.
      split; [reflexivity|]. split; [lia|]. split; [lia|]. split; [lia|]. split; [lia|]. split.
      + intros Ha. rewrite andb_false_r in Ha. discriminate.
      + intros Hn. rewrite andb_true_r in Hn. auto.
  Qed.

  Theorem window size ops :
    let d := run_hist size ops in
    d_seq A d = N.of_nat (length (pubs ops)) /\
    window_ok size (forallb (fun r => r) (pubs ops)) (forallb negb (pubs ops)) (d_seq A d) (seqs A d).
  Proof.
    unfold run_hist. induction ops as [|o ops IH] using rev_ind.
    - cbn. split; [reflexivity|]. exists 1, 0%nat. cbn. repeat split; try lia.
    - rewrite fold_left_app. cbn [fold_left]. destruct IH as [Hseq Hw].
      unfold pubs in *. rewrite flat_map_app, app_length, !forallb_app. cbn [flat_map].
      destruct o as [run x|]; cbn [hstep].
      + split.
        * unfold persist. cbn [d_seq]. rewrite Hseq. cbn [app length]. lia.
        * cbn [app forallb]. rewrite !andb_true_r.
          apply persist_window. assumption.
      + unfold reopen. cbn [app length forallb]. rewrite !andb_true_r, Nat.add_0_r. split; assumption.
  Qed.

  (* consequence used by C07/C08: a replay from any retained entry returns every later publication *)
  Corollary replay_complete size ops s :
    let d := run_hist size ops in
    In s (seqs A d) -> forall s', s < s' <= d_seq A d -> In s' (seqs A d).
  Proof.
    intros d Hin s' Hs'. destruct (window size ops) as [_ (lo & len & Hl & Hsum & _)].
    fold d in Hl, Hsum. rewrite Hl in *.
    assert (G : forall len lo x, In x (nrange lo len) <-> lo <= x < lo + N.of_nat len).
    { clear. induction len as [|k IH]; intros lo x; cbn [nrange In].
      - lia.
      - rewrite IH. lia. }
    apply G. apply G in Hin. lia.
  Qed.
End B.
