(* SubOrderProofs.v — C06 / C07 at the granularity of Model/SubLts.v (every lock operation, atomic access and channel
   operation its own step): under the hub's usage pattern - one thread dispatching live updates one after the other
   (the transport lock serialises fan-out), one thread replaying history and then calling Ready once (AddSubscriber),
   any number of threads disconnecting or consuming - the live updates are placed (queued, flushed by Ready, or sent
   directly) in dispatch order, each once, and once Ready has completed and the subscriber has not been cut off
   everything dispatched except the update in flight has been sent. This is the lock-level counterpart of the
   "Ready flushes the queue atomically with respect to Dispatch" step of Model/Hub.v. *)
From Mercure Require Import Base SubLts SubLtsProofs.
From Coq Require Import Lia.

(* roles: thread p dispatches live updates one after the other (the transport lock serialises fan-out); thread r replays
   history and then calls Ready once (AddSubscriber); every other thread only disconnects or consumes *)
Definition live_ids (todo : list sop) : list N :=
  concat (map (fun o => match o with ODispatch u false => [u] | _ => [] end) todo).

Definition unplaced (p : pc) : list N :=
  match p with
  | D0 u false | D1 u false | D2 u false | D3 u false | D4 u false | D5 u false | D6 u false | D7 u false => [u]
  | _ => []
  end.

Definition flush_of (p : pc) : option (list N) := match p with R2 rest => Some rest | R3 => Some [] | _ => None end.

Section O.
  Variable ids : list N.
  Variable ip ir : nat.       (* the publisher thread and the registering thread *)

  Definition SP (s : sstate) : list N := filter (fun u => mem_N u ids) (sent s).

  Definition flush_rest (s : sstate) : option (list N) :=
    match nth_error (threads s) ir with Some th => flush_of (t_pc th) | None => None end.

  (* the live updates placed so far, in placement order *)
  Definition L (s : sstate) : list N :=
    if ready s then SP s else match flush_rest s with Some rest => SP s ++ rest | None => liveq s end.
End O.


Definition sop_other (o : sop) : bool := match o with ODisconnect | ORecv => true | _ => false end.
Definition pc_other (p : pc) : bool := match p with Idle | X1 | X2 | X3 | X4 | X5 | X2u => true | _ => false end.
Definition is_live (o : sop) : bool := match o with ODispatch _ false => true | _ => false end.
Definition is_hist (o : sop) : bool := match o with ODispatch _ true => true | _ => false end.
Definition pc_pub (p : pc) : bool :=
  match p with
  | Idle | D0 _ false | D1 _ false | D2 _ false | D3 _ false | D4q _ false | D4 _ false | D5 _ false | D6 _ false | D6u | D7 _ false | D8
  | F1 | F2 | F3 => true
  | _ => false
  end.
Definition pc_hist (p : pc) : bool :=
  match p with Idle | D0 _ true | D5 _ true | D6 _ true | D6u | D7 _ true | D8 | F1 | F2 | F3 => true | _ => false end.
Definition pc_rdy (p : pc) : bool :=
  match p with Idle | R0 | R1 | Rc | Rx1 | Rx2 | R2 _ | R3 | R4 | R5 | G1 | G2 | G3 | G4 => true | _ => false end.
Definition pc_hist_id (p : pc) : list N := match p with D0 u true | D5 u true | D6 u true | D7 u true => [u] | _ => [] end.
Definition hist_ids (todo : list sop) : list N := concat (map (fun o => match o with ODispatch u true => [u] | _ => [] end) todo).
Definition early (p : pc) : bool := match p with D1 _ false | D2 _ false | D3 _ false => true | _ => false end.
Definition late (p : pc) : bool := match p with D4 _ false | D5 _ false | D6 _ false | D7 _ false => true | _ => false end.
Definition after_ready (p : pc) : bool := match p with R4 | R5 | Idle => true | _ => false end.

Section K.
  Variable ids : list N.
  Variable ip ir : nat.

  Notation SP := (SP ids).
  Notation L := (L ids ir).
  Notation flush_rest := (flush_rest ir).

  Record K (s : sstate) : Prop := {
    k_ne : ip <> ir;
    k_nodup : NoDup ids;
    k_others : forall j th, nth_error (threads s) j = Some th -> j <> ip -> j <> ir ->
                 forallb sop_other (t_todo th) = true /\ pc_other (t_pc th) = true;
    k_p : exists thp, nth_error (threads s) ip = Some thp /\ forallb is_live (t_todo thp) = true /\ pc_pub (t_pc thp) = true /\
            (late (t_pc thp) = true -> ready s = true) /\
            exists rej, ids = L s ++ rej ++ unplaced (t_pc thp) ++ live_ids (t_todo thp) /\
                        (rej <> [] -> disc s = true \/ t_pc thp = F1) /\ (early (t_pc thp) = true -> rej = []);
    k_r : exists thr, nth_error (threads s) ir = Some thr /\
            ((exists hs tl, t_todo thr = hs ++ tl /\ forallb is_hist hs = true /\ (tl = [] \/ tl = [OReady]) /\ pc_hist (t_pc thr) = true)
             \/ (t_todo thr = [] /\ pc_rdy (t_pc thr) = true)) /\
            (forall u, In u (pc_hist_id (t_pc thr) ++ hist_ids (t_todo thr)) -> mem_N u ids = false) /\
            (ready s = true -> t_todo thr = [] /\ after_ready (t_pc thr) = true) /\
            (ready s = false -> flush_of (t_pc thr) = None -> SP s = [] \/ disc s = true \/ t_pc thr = G1) /\
            (forall rest, flush_of (t_pc thr) = Some rest -> SP s ++ rest = liveq s)
  }.
End K.

Section KP.
  Variable ids : list N.
  Variable ip ir : nat.
  Notation SPP := (SP ids).
  Notation LL := (L ids ir).
  Notation KK := (K ids ip ir).

  Lemma L_frame s s' :
    ready s' = ready s -> sent s' = sent s -> liveq s' = liveq s -> nth_error (threads s') ir = nth_error (threads s) ir -> LL s' = LL s.
  Proof. intros A B C D. unfold L, SP, flush_rest. rewrite A, B, C, D. reflexivity. Qed.

  Ltac inv_ets Ets :=
    repeat match type of Ets with
           | context [match ?x with _ => _ end] => destruct x eqn:?; try discriminate
           end;
    inversion Ets; subst; clear Ets.

  (* a step of a thread that is neither the publisher nor the registering thread *)
  Lemma K_step_other s i th s1 th1 :
    KK s -> i <> ip -> i <> ir -> nth_error (threads s) i = Some th -> thread_step s i th = Some (s1, th1) -> KK (set_thread s1 i th1).
  Proof.
    intros [Hne Hnd Hoth (thp & Ep & Pl & Pp & Plate & rej & Esplit & Hrej & Hearly) (thr & Er & Rshape & Rh & Rrdy & Rs0 & Rfl)] Hip Hir Eth Ets.
    destruct (Hoth i th Eth Hip Hir) as [Otodo Opc].
    destruct th as [p todo rets]. cbn [t_pc t_todo t_rets] in *.
    assert (Hkeep : ready s1 = ready s /\ sent s1 = sent s /\ liveq s1 = liveq s /\ (disc s = true -> disc s1 = true) /\
                    forallb sop_other (t_todo th1) = true /\ pc_other (t_pc th1) = true).
    { unfold thread_step in Ets. cbn [t_pc t_todo t_rets] in Ets.
      destruct p; try discriminate Opc; inv_ets Ets;
        unfold unlock_outM, unlock_liveM, w_recv, goto, ret, done in *; cbn [t_pc t_todo t_rets] in *;
        repeat match goal with |- context [if ?c then _ else _] => destruct c end;
        repeat match goal with |- context [match ?c with _ => _ end] => destruct c end;
        cbn in *; try (apply andb_true_iff in Otodo; destruct Otodo as [O1 O2]); repeat split; auto; try discriminate. }
    destruct Hkeep as (Kr & Ks & Kq & Kd & Kt & Kp).
    assert (Np : nth_error (threads (set_thread s1 i th1)) ip = nth_error (threads s1) ip) by (unfold set_thread; cbn [threads]; apply (nth_upd_neq (threads s1) i ip th1 Hip)).
    assert (Nr : nth_error (threads (set_thread s1 i th1)) ir = nth_error (threads s1) ir) by (unfold set_thread; cbn [threads]; apply (nth_upd_neq (threads s1) i ir th1 Hir)).
    assert (Ts : threads s1 = threads s).
    { unfold thread_step in Ets. cbn [t_pc t_todo t_rets] in Ets.
      destruct p; try discriminate Opc; inv_ets Ets; unfold unlock_outM, unlock_liveM, w_recv in *;
        repeat match goal with |- context [if ?c then _ else _] => destruct c end;
        repeat match goal with |- context [match ?c with _ => _ end] => destruct c end; reflexivity. }
    assert (EL : LL (set_thread s1 i th1) = LL s).
    { apply L_frame; unfold set_thread; cbn [ready sent liveq threads]; auto. rewrite (nth_upd_neq (threads s1) i ir th1 Hir). rewrite Ts. reflexivity. }
    assert (ES : SPP (set_thread s1 i th1) = SPP s) by (unfold SP, set_thread; cbn [sent]; rewrite Ks; reflexivity).
    constructor; try assumption.
    - intros j thj Hj Hjp Hjr. unfold set_thread in Hj. cbn [threads] in Hj. destruct (Nat.eq_dec i j) as [<-|Hn].
      + rewrite Ts, (nth_upd_eq _ _ _ _ Eth) in Hj. inversion Hj; subst. auto.
      + rewrite (nth_upd_neq (threads s1) i j th1 Hn) in Hj. rewrite Ts in Hj. apply (Hoth j); assumption.
    - exists thp. rewrite Np, Ts. split; [assumption|]. split; [assumption|]. split; [assumption|].
      split; [intros X; change (ready (set_thread s1 i th1)) with (ready s1); rewrite Kr; auto|].
      exists rej. rewrite EL. split; [assumption|]. split; [|assumption].
      intros X. destruct (Hrej X) as [Y|Y]; [left; change (disc (set_thread s1 i th1)) with (disc s1); auto|right; assumption].
    - exists thr. rewrite Nr, Ts. split; [assumption|]. split; [assumption|]. split; [assumption|].
      change (ready (set_thread s1 i th1)) with (ready s1). change (disc (set_thread s1 i th1)) with (disc s1).
      change (liveq (set_thread s1 i th1)) with (liveq s1). rewrite ES, Kr, Kq.
      split; [assumption|]. split; [|assumption].
      intros A B. destruct (Rs0 A B) as [X|[X|X]]; auto.
  Qed.

  Lemma mem_N_In u l : mem_N u l = true <-> In u l.
  Proof.
    unfold mem_N. rewrite existsb_exists. split.
    - intros (x & Hx & E). apply N.eqb_eq in E. subst. assumption.
    - intros H. exists u. split; [assumption|apply N.eqb_refl].
  Qed.

  Lemma SP_send_in s u : mem_N u ids = true -> SPP (w_send s u) = SPP s ++ [u].
  Proof. intros H. unfold SP, w_send. cbn [sent]. rewrite filter_app. cbn [filter]. rewrite H. reflexivity. Qed.
  Lemma SP_send_out s u : mem_N u ids = false -> SPP (w_send s u) = SPP s.
  Proof. intros H. unfold SP, w_send. cbn [sent]. rewrite filter_app. cbn [filter]. rewrite H. apply app_nil_r. Qed.

  (* the registering thread is not flushing while somebody else holds liveMutex *)
  Lemma no_flush_when_live_held s thp thr :
    Inv s -> ip <> ir -> nth_error (threads s) ip = Some thp -> nth_error (threads s) ir = Some thr ->
    holds_live_b (t_pc thp) = true -> flush_of (t_pc thr) = None.
  Proof.
    intros HI Hne Ep Er Hp. destruct (flush_of (t_pc thr)) eqn:Ef; [|reflexivity]. exfalso.
    assert (Hr : holds_live_b (t_pc thr) = true) by (destruct (t_pc thr); cbn in Ef; try discriminate; reflexivity).
    destruct (i_threads _ HI ip thp Ep) as (A & _). destruct (i_threads _ HI ir thr Er) as (B & _).
    specialize (A Hp). specialize (B Hr). congruence.
  Qed.

  Lemma L_set_thread s i th : i <> ir -> LL (set_thread s i th) = LL s.
  Proof.
    intros H. apply L_frame; try reflexivity. unfold set_thread. cbn [threads]. apply nth_upd_neq. assumption.
  Qed.

  (* rebuild the invariant after a step of the publisher: the pieces that depend on what the step did *)
  Lemma K_rebuild_p s s1 thp th1 thr :
    KK s -> nth_error (threads s) ip = Some thp -> nth_error (threads s) ir = Some thr ->
    threads s1 = threads s -> ready s1 = ready s ->
    (ready s1 = false -> flush_of (t_pc thr) = None -> SPP s1 = [] \/ disc s1 = true \/ t_pc thr = G1) ->
    (forall rest, flush_of (t_pc thr) = Some rest -> SPP s1 ++ rest = liveq s1) ->
    forallb is_live (t_todo th1) = true -> pc_pub (t_pc th1) = true -> (late (t_pc th1) = true -> ready s1 = true) ->
    (exists rej, ids = LL s1 ++ rej ++ unplaced (t_pc th1) ++ live_ids (t_todo th1) /\
                 (rej <> [] -> disc s1 = true \/ t_pc th1 = F1) /\ (early (t_pc th1) = true -> rej = [])) ->
    KK (set_thread s1 ip th1).
  Proof.
    intros [Hne Hnd Hoth _ (thr' & Er' & Rshape & Rh & Rrdy & _ & _)] Ep Er Ts Kr Rs0 Rfl Pl Pp Plate Psplit.
    rewrite Er in Er'. inversion Er'; subst thr'. clear Er'.
    constructor; try assumption.
    - intros j thj Hj Hjp Hjr. unfold set_thread in Hj. cbn [threads] in Hj.
      rewrite (nth_upd_neq (threads s1) ip j th1 (fun E => Hjp (eq_sym E))) in Hj. rewrite Ts in Hj. apply (Hoth j); assumption.
    - exists th1. split; [unfold set_thread; cbn [threads]; rewrite Ts; apply (nth_upd_eq _ _ _ _ Ep)|].
      split; [assumption|]. split; [assumption|]. split; [exact Plate|].
      rewrite (L_set_thread s1 ip th1 Hne). exact Psplit.
    - exists thr. split; [unfold set_thread; cbn [threads]; rewrite (nth_upd_neq (threads s1) ip ir th1 Hne), Ts; assumption|].
      split; [assumption|]. split; [assumption|].
      change (ready (set_thread s1 ip th1)) with (ready s1). change (disc (set_thread s1 ip th1)) with (disc s1).
      change (liveq (set_thread s1 ip th1)) with (liveq s1).
      change (SPP (set_thread s1 ip th1)) with (SPP s1).
      split; [rewrite Kr; assumption|]. split; assumption.
  Qed.

  Ltac unl := unfold unlock_liveM, unlock_outM, goto, ret, done in *;
              repeat match goal with |- context [if holds ?a ?b then _ else _] => destruct (holds a b) end.

  (* the fields the order argument looks at are untouched *)
  Definition same_core (s s1 : sstate) : Prop :=
    threads s1 = threads s /\ ready s1 = ready s /\ sent s1 = sent s /\ liveq s1 = liveq s /\ (disc s = true -> disc s1 = true).

  Lemma same_core_L s s1 : same_core s s1 -> LL s1 = LL s.
  Proof. intros (A & B & C & D & _). apply L_frame; auto. rewrite A. reflexivity. Qed.

  Ltac gen_simple :=
    match goal with G : forall s1' th1', same_core ?s0 s1' -> _ |- _ =>
      apply G; [ unl; repeat split; auto | cbn [goto ret done t_todo]; assumption | reflexivity
               | first [ discriminate | intros _; assumption | auto ] | ] end.

  Lemma K_step_p s thp s1 th1 :
    Inv s -> KK s -> nth_error (threads s) ip = Some thp -> thread_step s ip thp = Some (s1, th1) -> KK (set_thread s1 ip th1).
  Proof.
    intros HI HK Ep Ets. pose proof HK as [Hne Hnd Hoth (thp' & Ep' & Pl & Pp & Plate & rej & Esplit & Hrej & Hearly) (thr & Er & Rshape & Rh & Rrdy & Rs0 & Rfl)].
    rewrite Ep in Ep'. inversion Ep'; subst thp'. clear Ep'.
    pose proof (i_threads _ HI ip thp Ep) as (TL & TO & TF & TP).
    (* generic pieces for steps that leave the core alone *)
    assert (Gen : forall s1' th1', same_core s s1' ->
              forallb is_live (t_todo th1') = true -> pc_pub (t_pc th1') = true -> (late (t_pc th1') = true -> ready s = true) ->
              (exists rej', ids = LL s ++ rej' ++ unplaced (t_pc th1') ++ live_ids (t_todo th1') /\
                            (rej' <> [] -> disc s1' = true \/ t_pc th1' = F1) /\ (early (t_pc th1') = true -> rej' = [])) ->
              KK (set_thread s1' ip th1')).
    { intros s1' th1' SC A B C D. pose proof (same_core_L _ _ SC) as EL. destruct SC as (S1 & S2 & S3 & S4 & S5).
      eapply (K_rebuild_p s s1' thp th1' thr HK Ep Er); try assumption.
      - intros X Y. rewrite S2 in X. unfold SP. rewrite S3. fold (SPP s). destruct (Rs0 X Y) as [Z|[Z|Z]]; auto.
      - intros rest Y. unfold SP. rewrite S3, S4. apply Rfl. assumption.
      - intros X. rewrite S2. auto.
      - rewrite EL. exact D. }
    destruct thp as [p todo rets]. cbn [t_pc t_todo t_rets] in *. unfold thread_step in Ets. cbn [t_pc t_todo t_rets] in Ets.
    destruct p; try discriminate Pp.
    - (* Idle: take the next dispatch *)
      destruct todo as [|o todo']; [discriminate|]. cbn [forallb] in Pl. apply andb_true_iff in Pl. destruct Pl as [Po Pl].
      destruct o as [u h| | |]; try discriminate Po. destruct h; [discriminate Po|]. injection Ets as <- <-.
      gen_simple.
      exists rej. cbn [goto t_pc t_todo unplaced live_ids map concat app] in *. split; [exact Esplit|]. split; [|discriminate].
      intros X. destruct (Hrej X) as [Y|Y]; [left; assumption|discriminate].
    - (* D0 *)
      destruct h; [discriminate Pp|]. injection Ets as <- <-. destruct (disc s) eqn:Ed.
      + gen_simple.
        exists (rej ++ [u]). cbn [ret t_pc t_todo unplaced app] in *. split; [etransitivity; [exact Esplit|]; rewrite <- ?app_assoc; cbn [app]; reflexivity|]. split; [auto|discriminate].
      + gen_simple.
        exists rej. cbn [goto t_pc t_todo unplaced] in *. split; [exact Esplit|]. split; [intros X; destruct (Hrej X) as [Y|Y]; [congruence|discriminate]|].
        intros _. destruct rej as [|x rej']; [reflexivity|]. destruct (Hrej ltac:(discriminate)) as [Y|Y]; [congruence|discriminate].
    - (* D1 *)
      destruct h; [discriminate Pp|]. injection Ets as <- <-. specialize (Hearly eq_refl). subst rej. destruct (ready s) eqn:Erd.
      + gen_simple.
        exists []. cbn [goto t_pc t_todo unplaced] in *. split; [exact Esplit|]. split; [intros X; contradiction|discriminate].
      + gen_simple.
        exists []. cbn [goto t_pc t_todo unplaced] in *. split; [exact Esplit|]. split; [intros X; contradiction|reflexivity].
    - (* D2 *)
      destruct h; [discriminate Pp|]. destruct (liveM s); [discriminate|]. injection Ets as <- <-. specialize (Hearly eq_refl). subst rej.
      gen_simple.
      exists []. cbn [goto t_pc t_todo unplaced] in *. split; [exact Esplit|]. split; [intros X; contradiction|reflexivity].
    - (* D3 *)
      destruct h; [discriminate Pp|]. specialize (Hearly eq_refl). subst rej.
      pose proof (no_flush_when_live_held s _ thr HI Hne Ep Er eq_refl) as Hnf.
      destruct (ready s) eqn:Erd; injection Ets as <- <-.
      + gen_simple.
        exists []. cbn [goto t_pc t_todo unplaced] in *. split; [exact Esplit|]. split; [intros X; contradiction|discriminate].
      + (* the update is queued *)
        assert (EL0 : LL s = liveq s) by (unfold L, flush_rest; rewrite Erd, Er, Hnf; reflexivity).
        assert (EL1 : LL (w_queue s u) = liveq s ++ [u]) by (unfold L, flush_rest, w_queue; cbn [ready threads liveq]; rewrite Erd, Er, Hnf; reflexivity).
        eapply (K_rebuild_p s (w_queue s u) _ _ thr HK Ep Er); try reflexivity; try assumption.
        * intros X Y. destruct (Rs0 eq_refl Y) as [Z|[Z|Z]]; auto.
        * intros rest Y. congruence.
        * discriminate.
        * exists []. cbn [goto t_pc t_todo unplaced app] in *. rewrite EL1. rewrite EL0 in Esplit.
          split; [etransitivity; [exact Esplit|]; rewrite <- ?app_assoc; cbn [app]; reflexivity|]. split; [intros X; contradiction|discriminate].
    - (* D4q *)
      destruct h; [discriminate Pp|]. injection Ets as <- <-.
      gen_simple.
      exists rej. cbn [ret t_pc t_todo unplaced] in *. split; [exact Esplit|]. split; [|discriminate].
      intros X. destruct (Hrej X) as [Y|Y]; [left; unl; assumption|discriminate].
    - (* D4 *)
      destruct h; [discriminate Pp|]. injection Ets as <- <-. specialize (Plate eq_refl).
      gen_simple.
      exists rej. cbn [goto t_pc t_todo unplaced] in *. split; [exact Esplit|]. split; [|discriminate].
      intros X. destruct (Hrej X) as [Y|Y]; [left; unl; assumption|discriminate].
    - (* D5 *)
      destruct h; [discriminate Pp|]. destruct (outM s); [discriminate|]. injection Ets as <- <-. specialize (Plate eq_refl).
      gen_simple.
      exists rej. cbn [goto t_pc t_todo unplaced] in *. split; [exact Esplit|]. split; [|discriminate].
      intros X. destruct (Hrej X) as [Y|Y]; [left; assumption|discriminate].
    - (* D6 *)
      destruct h; [discriminate Pp|]. injection Ets as <- <-. specialize (Plate eq_refl). destruct (disc s) eqn:Ed.
      + gen_simple.
        exists (rej ++ [u]). cbn [goto t_pc t_todo unplaced app] in *. split; [etransitivity; [exact Esplit|]; rewrite <- ?app_assoc; cbn [app]; reflexivity|]. split; [auto|discriminate].
      + gen_simple.
        exists rej. cbn [goto t_pc t_todo unplaced] in *. split; [exact Esplit|]. split; [|discriminate].
        intros X. destruct (Hrej X) as [Y|Y]; [congruence|discriminate].
    - (* D6u *)
      injection Ets as <- <-.
      gen_simple.
      exists rej. cbn [ret t_pc t_todo unplaced] in *. split; [exact Esplit|]. split; [|discriminate].
      intros X. destruct (Hrej X) as [Y|Y]; [left; unl; assumption|discriminate].
    - (* D7 *)
      destruct h; [discriminate Pp|]. specialize (Plate eq_refl). destruct (TF eq_refl) as [Hd Hc].
      assert (Hrej0 : rej = []).
      { destruct rej as [|x rej']; [reflexivity|]. destruct (Hrej ltac:(discriminate)) as [Y|Y]; [congruence|discriminate]. }
      subst rej. cbn [unplaced app] in Esplit.
      assert (Hu : mem_N u ids = true) by (apply mem_N_In; rewrite Esplit; apply in_or_app; right; left; reflexivity).
      destruct (Rrdy Plate) as [Rt Ra].
      assert (Hnf : flush_of (t_pc thr) = None) by (destruct (t_pc thr); try discriminate Ra; reflexivity).
      destruct (Nat.ltb (length (out s)) (cap s)); injection Ets as <- <-.
      + assert (EL0 : LL s = SPP s) by (unfold L; rewrite Plate; reflexivity).
        assert (EL1 : LL (w_send s u) = SPP s ++ [u]) by (unfold L, w_send; cbn [ready]; rewrite Plate; apply (SP_send_in s u Hu)).
        eapply (K_rebuild_p s (w_send s u) _ _ thr HK Ep Er); try reflexivity; try assumption.
        * intros X. cbn in X. congruence.
        * intros rest Y. congruence.
        * discriminate.
        * exists []. cbn [goto t_pc t_todo unplaced app] in *. rewrite EL1. rewrite EL0 in Esplit.
          split; [etransitivity; [exact Esplit|]; rewrite <- ?app_assoc; cbn [app]; reflexivity|]. split; [intros X; contradiction|discriminate].
      + gen_simple.
        exists [u]. cbn [goto t_pc t_todo unplaced app] in *. split; [exact Esplit|]. split; [intros _; right; reflexivity|discriminate].
    - (* D8 *)
      injection Ets as <- <-.
      gen_simple.
      exists rej. cbn [ret t_pc t_todo unplaced] in *. split; [exact Esplit|]. split; [|discriminate].
      intros X. destruct (Hrej X) as [Y|Y]; [left; unl; assumption|discriminate].
    - (* F1 *)
      injection Ets as <- <-.
      gen_simple.
      exists rej. cbn [goto t_pc t_todo unplaced] in *. split; [exact Esplit|]. split; [intros _; left; reflexivity|discriminate].
    - (* F2 *)
      injection Ets as <- <-.
      gen_simple.
      exists rej. cbn [goto t_pc t_todo unplaced] in *. split; [exact Esplit|]. split; [|discriminate].
      intros X. destruct (Hrej X) as [Y|Y]; [left; assumption|discriminate].
    - (* F3 *)
      injection Ets as <- <-.
      gen_simple.
      exists rej. cbn [ret t_pc t_todo unplaced] in *. split; [exact Esplit|]. split; [|discriminate].
      intros X. destruct (Hrej X) as [Y|Y]; [left; unl; assumption|discriminate].
  Qed.

  (* rebuild the invariant after a step of the registering thread *)
  Lemma K_rebuild_r s s1 thr th1 :
    KK s -> nth_error (threads s) ir = Some thr ->
    threads s1 = threads s -> LL (set_thread s1 ir th1) = LL s ->
    (ready s = true -> ready s1 = true) -> (disc s = true -> disc s1 = true) ->
    ((exists hs tl, t_todo th1 = hs ++ tl /\ forallb is_hist hs = true /\ (tl = [] \/ tl = [OReady]) /\ pc_hist (t_pc th1) = true)
     \/ (t_todo th1 = [] /\ pc_rdy (t_pc th1) = true)) ->
    (forall u, In u (pc_hist_id (t_pc th1) ++ hist_ids (t_todo th1)) -> mem_N u ids = false) ->
    (ready s1 = true -> t_todo th1 = [] /\ after_ready (t_pc th1) = true) ->
    (ready s1 = false -> flush_of (t_pc th1) = None -> SPP s1 = [] \/ disc s1 = true \/ t_pc th1 = G1) ->
    (forall rest, flush_of (t_pc th1) = Some rest -> SPP s1 ++ rest = liveq s1) ->
    KK (set_thread s1 ir th1).
  Proof.
    intros [Hne Hnd Hoth (thp & Ep & Pl & Pp & Plate & rej & Esplit & Hrej & Hearly) _] Er Ts EL Kr Kd Rshape Rh Rrdy Rs0 Rfl.
    constructor; try assumption.
    - intros j thj Hj Hjp Hjr. unfold set_thread in Hj. cbn [threads] in Hj.
      rewrite (nth_upd_neq (threads s1) ir j th1 (fun E => Hjr (eq_sym E))) in Hj. rewrite Ts in Hj. apply (Hoth j); assumption.
    - exists thp. split; [unfold set_thread; cbn [threads]; rewrite (nth_upd_neq (threads s1) ir ip th1 (fun E => Hne (eq_sym E))), Ts; assumption|].
      split; [assumption|]. split; [assumption|].
      change (ready (set_thread s1 ir th1)) with (ready s1). change (disc (set_thread s1 ir th1)) with (disc s1).
      split; [auto|]. exists rej. rewrite EL. split; [assumption|]. split; [|assumption].
      intros X. destruct (Hrej X) as [Y|Y]; auto.
    - exists th1. split; [unfold set_thread; cbn [threads]; rewrite Ts; apply (nth_upd_eq _ _ _ _ Er)|].
      split; [assumption|]. split; [assumption|].
      change (ready (set_thread s1 ir th1)) with (ready s1). change (disc (set_thread s1 ir th1)) with (disc s1).
      change (liveq (set_thread s1 ir th1)) with (liveq s1). change (SPP (set_thread s1 ir th1)) with (SPP s1).
      split; [assumption|]. split; assumption.
  Qed.

  (* L after a step of the registering thread, computed from the new pc *)
  Lemma L_after_r s1 th1 thr0 : nth_error (threads s1) ir = Some thr0 ->
    LL (set_thread s1 ir th1) = if ready s1 then SPP s1 else match flush_of (t_pc th1) with Some rest => SPP s1 ++ rest | None => liveq s1 end.
  Proof.
    intros E. unfold L, flush_rest, set_thread. cbn [ready threads liveq]. rewrite (nth_upd_eq _ _ _ _ E). reflexivity.
  Qed.

  Lemma L_r_same s s1 thr th1 :
    nth_error (threads s) ir = Some thr -> threads s1 = threads s ->
    ready s1 = ready s -> SPP s1 = SPP s -> liveq s1 = liveq s -> flush_of (t_pc th1) = flush_of (t_pc thr) ->
    LL (set_thread s1 ir th1) = LL s.
  Proof.
    intros Er Ts A B C D. rewrite (L_after_r s1 th1 thr) by (rewrite Ts; assumption).
    unfold L, flush_rest. rewrite Er, A, B, C, D. reflexivity.
  Qed.

  Lemma in_hist_tail u o todo : In u (hist_ids todo) -> In u (hist_ids (o :: todo)).
  Proof. intros H. unfold hist_ids in *. cbn [map concat]. apply in_or_app. right. assumption. Qed.

  Ltac hist_simple Gen Rshape Rh :=
      apply Gen; try reflexivity;
      try (unl; repeat split; auto; fail); try (left; discriminate); try (intros ?; congruence); try discriminate;
      try (solve [ let hs := fresh "hs" in let tl := fresh "tl" in let Et := fresh "Et" in let Hh := fresh "Hh" in let Htl := fresh "Htl" in let Bad := fresh "Bad" in
                   destruct Rshape as [(hs & tl & Et & Hh & Htl & _)|(Et & Bad)]; [|discriminate Bad]; left; exists hs, tl; cbn; auto ]);
      try (solve [ let v := fresh "v" in let Hv := fresh "Hv" in intros v Hv; apply Rh; first [exact Hv | right; assumption] ]).

  Ltac rdy_simple Gen :=
      apply Gen; try reflexivity;
      try (unl; repeat split; auto; fail); try (left; discriminate); try (intros ?; congruence); try discriminate;
      try (solve [right; split; reflexivity]); try (solve [intros ? Hv; cbn in Hv; contradiction]);
      try (solve [intros _; split; reflexivity]).

  Lemma K_step_r s thr s1 th1 :
    Inv s -> KK s -> nth_error (threads s) ir = Some thr -> thread_step s ir thr = Some (s1, th1) -> KK (set_thread s1 ir th1).
  Proof.
    intros HI HK Er Ets. pose proof HK as [Hne Hnd Hoth (thp & Ep & Pl & Pp & Plate & rej & Esplit & Hrej & Hearly) (thr' & Er' & Rshape & Rh & Rrdy & Rs0 & Rfl)].
    rewrite Er in Er'. inversion Er'; subst thr'. clear Er'.
    pose proof (i_threads _ HI ir thr Er) as (TL & TO & TF & TP).
    (* steps that leave the core alone and are not part of a flush *)
    assert (Gen : forall s1' th1', same_core s s1' -> flush_of (t_pc thr) = None -> flush_of (t_pc th1') = None -> t_pc th1' <> G1 \/ disc s1' = true ->
              ((exists hs tl, t_todo th1' = hs ++ tl /\ forallb is_hist hs = true /\ (tl = [] \/ tl = [OReady]) /\ pc_hist (t_pc th1') = true)
               \/ (t_todo th1' = [] /\ pc_rdy (t_pc th1') = true)) ->
              (forall u, In u (pc_hist_id (t_pc th1') ++ hist_ids (t_todo th1')) -> mem_N u ids = false) ->
              (ready s = true -> t_todo th1' = [] /\ after_ready (t_pc th1') = true) ->
              (t_pc thr = G1 -> disc s1' = true) ->
              KK (set_thread s1' ir th1')).
    { intros s1' th1' (S1 & S2 & S3 & S4 & S5) F0 F1' G A B C D.
      assert (ESP : SPP s1' = SPP s) by (unfold SP; rewrite S3; reflexivity).
      eapply (K_rebuild_r s s1' thr th1' HK Er); try assumption.
      - apply (L_r_same s s1' thr th1'); try assumption. congruence.
      - intros X. congruence.
      - intros X. rewrite S2 in X. auto.
      - intros X Y. rewrite S2 in X. rewrite ESP. destruct (Rs0 X F0) as [Z|[Z|Z]]; auto.
      - intros rest Y. congruence. }
    destruct thr as [p todo rets]. cbn [t_pc t_todo t_rets] in *. unfold thread_step in Ets. cbn [t_pc t_todo t_rets] in Ets.
    assert (Hrf : ready s = true -> after_ready p = true /\ todo = []) by (intros X; destruct (Rrdy X); auto).
    destruct p.
    all: try (destruct Rshape as [(hs & tl & _ & _ & _ & Bad)|(_ & Bad)]; discriminate Bad).
    - (* Idle *)
      destruct todo as [|o todo']; [discriminate|].
      assert (Hnr : ready s = false) by (destruct (ready s) eqn:E; [destruct (Hrf eq_refl); discriminate|reflexivity]).
      destruct Rshape as [(hs & tl & Et & Hh & Htl & _)|(Et & _)]; [|discriminate].
      destruct o as [u h| | |].
      + (* a history dispatch *)
        destruct hs as [|o' hs']; [cbn in Et; destruct Htl as [->| ->]; discriminate Et|].
        cbn [app] in Et. inversion Et; subst o' todo'. cbn [forallb] in Hh. apply andb_true_iff in Hh. destruct Hh as [Ho Hh].
        destruct h; [|discriminate Ho]. injection Ets as <- <-.
        apply Gen; try reflexivity; [repeat split; auto|left; discriminate| | |intros X; congruence|discriminate].
        * left. exists hs', tl. cbn. auto.
        * intros v Hv. apply Rh. cbn [pc_hist_id app] in *. cbn [goto t_pc t_todo pc_hist_id app In] in Hv.
          destruct Hv as [<-|Hv]; [unfold hist_ids; cbn; left; reflexivity|apply in_hist_tail; assumption].
      + (* Ready *)
        destruct hs as [|o' hs']; [|cbn [app] in Et; inversion Et; subst; cbn in Hh; discriminate].
        cbn [app] in Et. destruct Htl as [->| ->]; [discriminate|]. inversion Et; subst todo'. injection Ets as <- <-.
        apply Gen; try reflexivity; [repeat split; auto|left; discriminate| | |intros X; congruence|discriminate].
        * right. cbn. auto.
        * intros v Hv. cbn in Hv. contradiction.
      + destruct hs as [|o' hs']; [cbn in Et; destruct Htl as [->| ->]; discriminate Et|cbn [app] in Et; inversion Et; subst; cbn in Hh; discriminate].
      + destruct hs as [|o' hs']; [cbn in Et; destruct Htl as [->| ->]; discriminate Et|cbn [app] in Et; inversion Et; subst; cbn in Hh; discriminate].
    - (* D0 (history) *)
      destruct h; [|destruct Rshape as [(hs & tl & _ & _ & _ & Bad)|(_ & Bad)]; discriminate Bad].
      assert (Hnr : ready s = false) by (destruct (ready s) eqn:E; [destruct (Hrf eq_refl); discriminate|reflexivity]).
      injection Ets as <- <-. destruct (disc s) eqn:Ed; hist_simple Gen Rshape Rh.
    - (* D5 *)
      destruct h; [|destruct Rshape as [(hs & tl & _ & _ & _ & Bad)|(_ & Bad)]; discriminate Bad].
      assert (Hnr : ready s = false) by (destruct (ready s) eqn:E; [destruct (Hrf eq_refl); discriminate|reflexivity]).
      destruct (outM s); [discriminate|]. injection Ets as <- <-. hist_simple Gen Rshape Rh.
    - (* D6 *)
      destruct h; [|destruct Rshape as [(hs & tl & _ & _ & _ & Bad)|(_ & Bad)]; discriminate Bad].
      assert (Hnr : ready s = false) by (destruct (ready s) eqn:E; [destruct (Hrf eq_refl); discriminate|reflexivity]).
      injection Ets as <- <-. destruct (disc s) eqn:Ed; hist_simple Gen Rshape Rh.
    - (* D6u *)
      assert (Hnr : ready s = false) by (destruct (ready s) eqn:E; [destruct (Hrf eq_refl); discriminate|reflexivity]).
      injection Ets as <- <-. hist_simple Gen Rshape Rh.
    - (* D7 (history): a send of an id that is not the publisher's, or an overflow *)
      destruct h; [|destruct Rshape as [(hs & tl & _ & _ & _ & Bad)|(_ & Bad)]; discriminate Bad].
      assert (Hnr : ready s = false) by (destruct (ready s) eqn:E; [destruct (Hrf eq_refl); discriminate|reflexivity]).
      assert (Hu : mem_N u ids = false) by (apply Rh; left; reflexivity).
      destruct (Nat.ltb (length (out s)) (cap s)); injection Ets as <- <-.
      + assert (ESP : SPP (w_send s u) = SPP s) by (apply SP_send_out; assumption).
        eapply (K_rebuild_r s (w_send s u) _ _ HK Er); try reflexivity; try assumption.
        * apply (L_r_same s (w_send s u) _ _ Er); try reflexivity; assumption.
        * auto.
        * auto.
        * intros v Hv. apply Rh. cbn [goto t_pc t_todo pc_hist_id app] in *. right. assumption.
        * intros X Y. rewrite ESP. destruct (Rs0 Hnr eq_refl) as [Z|[Z|Z]]; auto. discriminate Z.
        * intros rest Y. discriminate Y.
      + hist_simple Gen Rshape Rh.
    - (* D8 *)
      assert (Hnr : ready s = false) by (destruct (ready s) eqn:E; [destruct (Hrf eq_refl); discriminate|reflexivity]).
      injection Ets as <- <-. hist_simple Gen Rshape Rh.
    - (* F1 *)
      assert (Hnr : ready s = false) by (destruct (ready s) eqn:E; [destruct (Hrf eq_refl); discriminate|reflexivity]).
      injection Ets as <- <-. hist_simple Gen Rshape Rh.
    - (* F2 *)
      assert (Hnr : ready s = false) by (destruct (ready s) eqn:E; [destruct (Hrf eq_refl); discriminate|reflexivity]).
      injection Ets as <- <-. hist_simple Gen Rshape Rh.
    - (* F3 *)
      assert (Hnr : ready s = false) by (destruct (ready s) eqn:E; [destruct (Hrf eq_refl); discriminate|reflexivity]).
      injection Ets as <- <-. hist_simple Gen Rshape Rh.
    - (* R0 *)
      assert (Hnr : ready s = false) by (destruct (ready s) eqn:E; [destruct (Hrf eq_refl); discriminate|reflexivity]).
      destruct Rshape as [(hs & tl & _ & _ & _ & Bad)|(Et & _)]; [discriminate Bad|]. subst todo.
      destruct (liveM s); [discriminate|]. injection Ets as <- <-. rdy_simple Gen.
    - (* R1 *)
      assert (Hnr : ready s = false) by (destruct (ready s) eqn:E; [destruct (Hrf eq_refl); discriminate|reflexivity]).
      destruct Rshape as [(hs & tl & _ & _ & _ & Bad)|(Et & _)]; [discriminate Bad|]. subst todo.
      destruct (outM s); [discriminate|]. injection Ets as <- <-. rdy_simple Gen.
    - (* Rc: the flush starts, unless the subscriber was already cut off *)
      assert (Hnr : ready s = false) by (destruct (ready s) eqn:E; [destruct (Hrf eq_refl); discriminate|reflexivity]).
      destruct Rshape as [(hs & tl & _ & _ & _ & Bad)|(Et & _)]; [discriminate Bad|]. subst todo.
      injection Ets as <- <-. destruct (disc s) eqn:Ed; [rdy_simple Gen|].
      assert (Hsp : SPP s = []) by (destruct (Rs0 Hnr eq_refl) as [Z|[Z|Z]]; [assumption|discriminate|discriminate]).
      eapply (K_rebuild_r s s _ _ HK Er); try reflexivity; try assumption; try (intros ?; congruence).
      all: try (solve [right; split; reflexivity]); try (solve [intros v Hv; cbn in Hv; contradiction]); try (solve [intros X Y; discriminate Y]).
      all: try (solve [rewrite (L_after_r s _ _ Er); unfold L, flush_rest; rewrite Er, Hnr, Hsp; reflexivity]).
      all: try (solve [intros rest Y; cbn in Y; inversion Y; subst; rewrite Hsp; reflexivity]).
    - (* Rx1 *)
      assert (Hnr : ready s = false) by (destruct (ready s) eqn:E; [destruct (Hrf eq_refl); discriminate|reflexivity]).
      destruct Rshape as [(hs & tl & _ & _ & _ & Bad)|(Et & _)]; [discriminate Bad|]. subst todo.
      injection Ets as <- <-. rdy_simple Gen.
    - (* Rx2 *)
      assert (Hnr : ready s = false) by (destruct (ready s) eqn:E; [destruct (Hrf eq_refl); discriminate|reflexivity]).
      destruct Rshape as [(hs & tl & _ & _ & _ & Bad)|(Et & _)]; [discriminate Bad|]. subst todo.
      injection Ets as <- <-. rdy_simple Gen.
    - (* R2: one step of the flush *)
      assert (Hnr : ready s = false) by (destruct (ready s) eqn:E; [destruct (Hrf eq_refl); discriminate|reflexivity]).
      destruct Rshape as [(hs & tl & _ & _ & _ & Bad)|(Et & _)]; [discriminate Bad|]. subst todo.
      pose proof (Rfl rest eq_refl) as Hq.
      assert (EL0 : LL s = SPP s ++ rest) by (unfold L, flush_rest; rewrite Er, Hnr; reflexivity).
      destruct rest as [|u rest'].
      + injection Ets as <- <-.
        eapply (K_rebuild_r s s _ _ HK Er); try reflexivity; try assumption; try (intros ?; congruence).
        all: try (solve [right; split; reflexivity]); try (solve [intros v Hv; cbn in Hv; contradiction]); try (solve [intros X Y; discriminate Y]).
        all: try (solve [apply (L_r_same s s _ _ Er); reflexivity]).
        all: try (solve [intros rest Y; cbn in Y; inversion Y; subst; exact Hq]).
      + assert (Hu : mem_N u ids = true).
        { apply mem_N_In. rewrite Esplit, EL0. apply in_or_app. left. apply in_or_app. right. left. reflexivity. }
        destruct (Nat.ltb (length (out s)) (cap s)); injection Ets as <- <-.
        * assert (ESP : SPP (w_send s u) = SPP s ++ [u]) by (apply SP_send_in; assumption).
          eapply (K_rebuild_r s (w_send s u) _ _ HK Er); try reflexivity; try assumption; try (intros ?; assumption).
          all: try (solve [right; split; reflexivity]); try (solve [intros v Hv; cbn in Hv; contradiction]); try (solve [intros X Y; discriminate Y]).
          all: try (solve [intros X; cbn in X; congruence]).
          all: try (solve [intros rest Y; cbn in Y; inversion Y; subst; rewrite ESP, <- app_assoc; exact Hq]).
          rewrite (L_after_r (w_send s u) _ _ Er). cbn [ready w_send goto t_pc flush_of]. rewrite Hnr, EL0.
          change (SP ids {| disc := disc s; ready := ready s; closed := closed s; out := out s ++ [u]; liveq := liveq s; liveM := liveM s; outM := outM s;
                            cap := cap s; sent := sent s ++ [u]; recvd := recvd s; ended := ended s; panicked := panicked s || closed s; threads := threads s |})
            with (SPP (w_send s u)).
          rewrite ESP, <- app_assoc. reflexivity.
        * eapply (K_rebuild_r s s _ _ HK Er); try reflexivity; try assumption; try (intros ?; congruence).
          all: try (solve [right; split; reflexivity]); try (solve [intros v Hv; cbn in Hv; contradiction]); try (solve [intros rest Y; discriminate Y]).
          all: try (solve [intros X Y; right; right; reflexivity]).
          rewrite (L_after_r s _ _ Er). cbn [goto t_pc flush_of]. rewrite Hnr, EL0. symmetry. exact Hq.
    - (* R3: the flush is complete *)
      assert (Hnr : ready s = false) by (destruct (ready s) eqn:E; [destruct (Hrf eq_refl); discriminate|reflexivity]).
      destruct Rshape as [(hs & tl & _ & _ & _ & Bad)|(Et & _)]; [discriminate Bad|]. subst todo.
      injection Ets as <- <-.
      eapply (K_rebuild_r s (w_ready s) _ _ HK Er); try reflexivity; try assumption; try (intros ?; reflexivity); try (intros ?; assumption).
      all: try (solve [right; split; reflexivity]); try (solve [intros v Hv; cbn in Hv; contradiction]); try (solve [intros rest Y; discriminate Y]).
      all: try (solve [intros _; split; reflexivity]); try (solve [intros X; discriminate X]).
      rewrite (L_after_r (w_ready s) _ _ Er). cbn [ready w_ready]. unfold L, flush_rest. rewrite Er, Hnr. cbn [t_pc flush_of].
      rewrite app_nil_r. reflexivity.
    - (* R4 *)
      destruct Rshape as [(hs & tl & _ & _ & _ & Bad)|(Et & _)]; [discriminate Bad|]. subst todo.
      injection Ets as <- <-. rdy_simple Gen.
    - (* R5 *)
      destruct Rshape as [(hs & tl & _ & _ & _ & Bad)|(Et & _)]; [discriminate Bad|]. subst todo.
      injection Ets as <- <-. rdy_simple Gen.
    - (* G1 *)
      assert (Hnr : ready s = false) by (destruct (ready s) eqn:E; [destruct (Hrf eq_refl); discriminate|reflexivity]).
      destruct Rshape as [(hs & tl & _ & _ & _ & Bad)|(Et & _)]; [discriminate Bad|]. subst todo.
      injection Ets as <- <-. rdy_simple Gen.
    - (* G2 *)
      assert (Hnr : ready s = false) by (destruct (ready s) eqn:E; [destruct (Hrf eq_refl); discriminate|reflexivity]).
      destruct Rshape as [(hs & tl & _ & _ & _ & Bad)|(Et & _)]; [discriminate Bad|]. subst todo.
      injection Ets as <- <-. rdy_simple Gen.
    - (* G3 *)
      assert (Hnr : ready s = false) by (destruct (ready s) eqn:E; [destruct (Hrf eq_refl); discriminate|reflexivity]).
      destruct Rshape as [(hs & tl & _ & _ & _ & Bad)|(Et & _)]; [discriminate Bad|]. subst todo.
      injection Ets as <- <-. rdy_simple Gen.
    - (* G4 *)
      assert (Hnr : ready s = false) by (destruct (ready s) eqn:E; [destruct (Hrf eq_refl); discriminate|reflexivity]).
      destruct Rshape as [(hs & tl & _ & _ & _ & Bad)|(Et & _)]; [discriminate Bad|]. subst todo.
      injection Ets as <- <-. rdy_simple Gen.
  Qed.

  Theorem K_step s i s' : Inv s -> KK s -> step s i = Some s' -> KK s'.
  Proof.
    intros HI HK Hs. unfold step in Hs.
    destruct (nth_error (threads s) i) as [th|] eqn:Eth; [|discriminate].
    destruct (thread_step s i th) as [[s1 th1]|] eqn:Ets; [|discriminate]. inversion Hs; subst s'; clear Hs.
    destruct (Nat.eq_dec i ip) as [->|Hip]; [eapply K_step_p; eassumption|].
    destruct (Nat.eq_dec i ir) as [->|Hir]; [eapply K_step_r; eassumption|].
    eapply K_step_other; eassumption.
  Qed.

  Lemma K_run sched : forall s, Inv s -> KK s -> KK (run s sched).
  Proof.
    induction sched as [|i sched IH]; intros s HI HK; [assumption|]. cbn [run fold_left]. apply IH.
    - apply step_or_stay_inv. assumption.
    - unfold step_or_stay. destruct (step s i) eqn:E; [eapply K_step; eassumption|assumption].
  Qed.

  (* the programs of the hub's usage pattern *)
  Definition usage (progs : list (list sop)) (hs : list N) (with_ready : bool) : Prop :=
    ip <> ir /\ NoDup ids /\
    nth_error progs ip = Some (map (fun u => ODispatch u false) ids) /\
    nth_error progs ir = Some (map (fun u => ODispatch u true) hs ++ (if with_ready then [OReady] else [])) /\
    (forall u, In u hs -> mem_N u ids = false) /\
    (forall j prog, nth_error progs j = Some prog -> j <> ip -> j <> ir -> forallb sop_other prog = true).

  Lemma live_ids_map l : live_ids (map (fun u => ODispatch u false) l) = l.
  Proof. induction l as [|x l IH]; [reflexivity|]. unfold live_ids in *. cbn. rewrite IH. reflexivity. Qed.
  Lemma hist_ids_app a b : hist_ids (a ++ b) = hist_ids a ++ hist_ids b.
  Proof. unfold hist_ids. rewrite map_app, concat_app. reflexivity. Qed.
  Lemma hist_ids_map l : hist_ids (map (fun u => ODispatch u true) l) = l.
  Proof. induction l as [|x l IH]; [reflexivity|]. unfold hist_ids in *. cbn. rewrite IH. reflexivity. Qed.

  Lemma K_init capacity progs hs wr : usage progs hs wr -> KK (init capacity progs).
  Proof.
    intros (Hne & Hnd & Pp & Pr & Hh & Hoth).
    constructor; try assumption.
    - intros j th Hj Hjp Hjr. unfold init in Hj. cbn [threads] in Hj. rewrite nth_error_map in Hj.
      destruct (nth_error progs j) as [prog|] eqn:E; [|discriminate]. inversion Hj; subst. cbn. split; [eapply Hoth; eassumption|reflexivity].
    - eexists. unfold init. cbn [threads]. rewrite nth_error_map, Pp. cbn [option_map]. split; [reflexivity|]. cbn [t_pc t_todo].
      split; [clear; induction ids; cbn; auto|]. split; [reflexivity|]. split; [discriminate|].
      exists []. unfold L, SP, flush_rest. cbn [ready sent liveq threads]. rewrite nth_error_map, Pr. cbn. rewrite live_ids_map.
      split; [reflexivity|]. split; [intros X; contradiction|discriminate].
    - eexists. unfold init. cbn [threads]. rewrite nth_error_map, Pr. cbn [option_map]. split; [reflexivity|]. cbn [t_pc t_todo ready disc liveq].
      split; [left; eexists; eexists; split; [reflexivity|]; split; [clear; induction hs; cbn; auto|]; split; [destruct wr; auto|reflexivity]|].
      split; [intros u Hu; cbn [pc_hist_id app] in Hu; rewrite hist_ids_app, hist_ids_map in Hu; apply in_app_or in Hu;
              destruct Hu as [Hu|Hu]; [auto|destruct wr; cbn in Hu; contradiction]|].
      split; [discriminate|]. split; [intros _ _; left; reflexivity|discriminate].
  Qed.

  (* C06 / C07 at the level of single lock, atomic and channel operations: under the hub's usage pattern the live updates
     are placed - queued, flushed by Ready, or sent directly - in the order the publisher dispatched them, each once;
     once Ready has completed and the subscriber has not been cut off, everything dispatched so far except the update
     still in flight has been sent *)
  Theorem order_and_no_loss capacity progs hs wr sched :
    usage progs hs wr ->
    let s := run (init capacity progs) sched in
    (exists rest, ids = LL s ++ rest) /\
    (forall thp, nth_error (threads s) ip = Some thp -> ready s = true -> disc s = false -> t_pc thp <> F1 ->
       ids = SPP s ++ unplaced (t_pc thp) ++ live_ids (t_todo thp)) /\
    (forall thp, nth_error (threads s) ip = Some thp -> ready s = true -> disc s = false -> t_pc thp = Idle -> t_todo thp = [] -> SPP s = ids).
  Proof.
    intros U s. assert (HK : KK s) by (apply K_run; [apply init_inv|eapply K_init; eassumption]).
    destruct HK as [_ _ _ (thp & Ep & _ & _ & _ & rej & Esplit & Hrej & _) _].
    split; [eexists; exact Esplit|].
    assert (G : forall thp', nth_error (threads s) ip = Some thp' -> ready s = true -> disc s = false -> t_pc thp' <> F1 ->
                ids = SPP s ++ unplaced (t_pc thp') ++ live_ids (t_todo thp')).
    { intros thp' E' Hr Hd Hf. rewrite Ep in E'. inversion E'; subst thp'.
      assert (rej = []) by (destruct rej; [reflexivity|]; destruct (Hrej ltac:(discriminate)); congruence). subst rej.
      unfold L in Esplit. rewrite Hr in Esplit. exact Esplit. }
    split; [exact G|]. intros thp' E' Hr Hd Hi Ht. pose proof (G thp' E' Hr Hd ltac:(rewrite Hi; discriminate)) as X.
    rewrite Hi, Ht in X. cbn in X. rewrite app_nil_r in X. auto.
  Qed.
End KP.
