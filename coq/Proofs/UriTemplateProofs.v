(* UriTemplateProofs.v — the matcher of Model/UriTemplate.v decides the language of the generated
   regular expression; every RFC 6570 expansion (string values) of a parsed template is in that language;
   the converse fails (witnesses). *)
From Mercure Require Import Base Match UriTemplate MatchProofs.
From Coq Require Import Lia.

Lemma mem_str_In x l : mem_str x l = true <-> In x l.
Proof.
  unfold mem_str. rewrite existsb_exists. split.
  - intros [y [Hy He]]. apply str_eqb_eq in He. subst. exact Hy.
  - intros H. exists x. split; [exact H | apply str_eqb_refl].
Qed.

Lemma In_dedup x l : In x (dedup l) <-> In x l.
Proof.
  induction l as [|y l IH]; cbn [dedup]; [tauto|].
  destruct (mem_str y l) eqn:E.
  - rewrite IH. split; [intros H; right; exact H|]. intros [H|H]; [subst; apply mem_str_In; exact E | exact H].
  - cbn [In]. rewrite IH. tauto.
Qed.

Lemma strong_list_ind {A} (P : list A -> Prop) :
  (forall l, (forall l', (length l' < length l)%nat -> P l') -> P l) -> forall l, P l.
Proof.
  intros H l. assert (G : forall n l, (length l < n)%nat -> P l).
  { induction n as [|n IHn]; intros l0 Hl; [lia|]. apply H. intros l' Hl'. apply IHn. lia. }
  apply (G (S (length l))). lia.
Qed.

(* ---- m_tail decides TailL ---- *)
Lemma m_tail_sound cls sep : forall s k r, In r (m_tail cls sep k s) -> exists p, s = p ++ r /\ TailL cls sep k p.
Proof.
  intros s. induction s as [s IH] using strong_list_ind. intros k r Hin.
  destruct s as [|c s']; cbn [m_tail] in Hin.
  - destruct Hin as [<-|[]]. exists []. split; [reflexivity | constructor].
  - destruct Hin as [<-|Hin]; [exists []; split; [reflexivity | constructor]|].
    apply (proj1 (In_dedup _ _)) in Hin. rewrite !in_app_iff in Hin. destruct Hin as [Hin|[Hin|Hin]].
    + destruct (cls c) eqn:Ec; [|destruct Hin].
      apply IH in Hin; [|cbn; lia]. destruct Hin as [p [-> Hp]].
      exists (c :: p). split; [reflexivity | constructor; assumption].
    + destruct (N.eqb c 37) eqn:E37; [|destruct Hin]. apply N.eqb_eq in E37. subst c.
      destruct s' as [|h1 [|h2 s3]]; try destruct Hin.
      destruct (is_hex h1 && is_hex h2) eqn:Eh; [|destruct Hin]. apply andb_true_iff in Eh. destruct Eh as [Eh1 Eh2].
      apply IH in Hin; [|cbn; lia]. destruct Hin as [p [-> Hp]].
      exists (37 :: h1 :: h2 :: p). split; [reflexivity | constructor; assumption].
    + destruct (N.eqb c sep) eqn:Es; [|destruct Hin]. apply N.eqb_eq in Es. subst c.
      destruct k as [[|k']|].
      * destruct Hin.
      * apply IH in Hin; [|cbn; lia]. destruct Hin as [p [-> Hp]].
        exists (sep :: p). split; [reflexivity | constructor; assumption].
      * apply IH in Hin; [|cbn; lia]. destruct Hin as [p [-> Hp]].
        exists (sep :: p). split; [reflexivity | constructor; assumption].
Qed.

Lemma m_tail_complete cls sep : forall k p, TailL cls sep k p -> forall r, In r (m_tail cls sep k (p ++ r)).
Proof.
  intros k p H. induction H as [k|k c s Hc H IH|k h1 h2 s Hh1 Hh2 H IH|s H IH|k s H IH]; intros r.
  - cbn [app]. destruct r; cbn [m_tail]; left; reflexivity.
  - cbn [app m_tail]. right. apply (proj2 (In_dedup _ _)). rewrite Hc. apply in_or_app. left. apply IH.
  - cbn [app m_tail]. right. apply (proj2 (In_dedup _ _)). apply in_or_app. right. apply in_or_app. left.
    cbn [N.eqb Pos.eqb]. rewrite Hh1, Hh2. cbn [andb]. apply IH.
  - cbn [app m_tail]. right. apply (proj2 (In_dedup _ _)). apply in_or_app. right. apply in_or_app. right.
    rewrite N.eqb_refl. apply IH.
  - cbn [app m_tail]. right. apply (proj2 (In_dedup _ _)). apply in_or_app. right. apply in_or_app. right.
    rewrite N.eqb_refl. apply IH.
Qed.

(* ---- m_body decides BodyL ---- *)
Lemma m_body_sound cls1 cls2 sep : forall s k r, In r (m_body cls1 cls2 sep k s) -> exists p, s = p ++ r /\ BodyL cls1 cls2 sep k p.
Proof.
  intros s. induction s as [s IH] using strong_list_ind. intros k r Hin.
  destruct s as [|c s']; cbn [m_body] in Hin.
  - destruct Hin as [<-|[]]. exists []. split; [reflexivity | constructor].
  - destruct Hin as [<-|Hin]; [exists []; split; [reflexivity | constructor]|].
    apply (proj1 (In_dedup _ _)) in Hin. rewrite !in_app_iff in Hin. destruct Hin as [Hin|[Hin|Hin]].
    + destruct (cls1 c) eqn:Ec; [|destruct Hin].
      apply IH in Hin; [|cbn; lia]. destruct Hin as [p [-> Hp]].
      exists (c :: p). split; [reflexivity | constructor; assumption].
    + destruct (N.eqb c 37) eqn:E37; [|destruct Hin]. apply N.eqb_eq in E37. subst c.
      destruct s' as [|h1 [|h2 s3]]; try destruct Hin.
      destruct (is_hex h1 && is_hex h2) eqn:Eh; [|destruct Hin]. apply andb_true_iff in Eh. destruct Eh as [Eh1 Eh2].
      apply IH in Hin; [|cbn; lia]. destruct Hin as [p [-> Hp]].
      exists (37 :: h1 :: h2 :: p). split; [reflexivity | constructor; assumption].
    + destruct (N.eqb c sep) eqn:Es; [|destruct Hin]. apply N.eqb_eq in Es. subst c.
      destruct k as [[|k']|].
      * destruct Hin.
      * apply m_tail_sound in Hin. destruct Hin as [p [-> Hp]].
        exists (sep :: p). split; [reflexivity | constructor; assumption].
      * apply m_tail_sound in Hin. destruct Hin as [p [-> Hp]].
        exists (sep :: p). split; [reflexivity | constructor; assumption].
Qed.

Lemma m_body_complete cls1 cls2 sep : forall k p, BodyL cls1 cls2 sep k p -> forall r, In r (m_body cls1 cls2 sep k (p ++ r)).
Proof.
  intros k p H. induction H as [k|k c s Hc H IH|k h1 h2 s Hh1 Hh2 H IH|s H|k s H]; intros r.
  - cbn [app]. destruct r; cbn [m_body]; left; reflexivity.
  - cbn [app m_body]. right. apply (proj2 (In_dedup _ _)). rewrite Hc. apply in_or_app. left. apply IH.
  - cbn [app m_body]. right. apply (proj2 (In_dedup _ _)). apply in_or_app. right. apply in_or_app. left.
    cbn [N.eqb Pos.eqb]. rewrite Hh1, Hh2. cbn [andb]. apply IH.
  - cbn [app m_body]. right. apply (proj2 (In_dedup _ _)). apply in_or_app. right. apply in_or_app. right.
    rewrite N.eqb_refl. apply m_tail_complete. exact H.
  - cbn [app m_body]. right. apply (proj2 (In_dedup _ _)). apply in_or_app. right. apply in_or_app. right.
    rewrite N.eqb_refl. apply m_tail_complete. exact H.
Qed.

(* ---- expressions, parts, templates ---- *)
Lemma m_expr_spec e s r : In r (m_expr e s) <-> exists p, s = p ++ r /\ ExprL e p.
Proof.
  unfold m_expr, ExprL. split.
  - intros [<-|Hin]; [exists []; split; [reflexivity | left; reflexivity]|].
    destruct (rx_first e) as [f|].
    + destruct s as [|c s']; [destruct Hin|]. destruct (N.eqb c f) eqn:E; [|destruct Hin].
      apply N.eqb_eq in E. subst c. apply m_body_sound in Hin. destruct Hin as [p [-> Hp]].
      exists (f :: p). split; [reflexivity|]. right. exists p. split; [reflexivity | exact Hp].
    + apply m_body_sound in Hin. destruct Hin as [p [-> Hp]]. exists p. split; [reflexivity | right; exact Hp].
  - intros [p [-> [->|H]]]; [left; reflexivity|]. right.
    destruct (rx_first e) as [f|].
    + destruct H as [b [-> Hb]]. cbn [app]. rewrite N.eqb_refl. apply m_body_complete. exact Hb.
    + apply m_body_complete. exact H.
Qed.

Lemma is_prefix_app l s : is_prefix l s = true <-> exists r, s = l ++ r.
Proof.
  revert s. induction l as [|x l IH]; intros s; cbn [is_prefix].
  - split; [intros _; exists s; reflexivity | reflexivity].
  - destruct s as [|y s].
    + split; [discriminate | intros [r Hr]; discriminate].
    + rewrite andb_true_iff, N.eqb_eq, IH. split.
      * intros [-> [r ->]]. exists r. reflexivity.
      * intros [r Hr]. cbn [app] in Hr. injection Hr as -> ->. split; [reflexivity | exists r; reflexivity].
Qed.

Lemma skipn_app_len {A} (l r : list A) : skipn (length l) (l ++ r) = r.
Proof. induction l as [|x l IH]; [reflexivity | exact IH]. Qed.

Lemma m_part_spec p s r : In r (m_part p s) <-> exists q, s = q ++ r /\ PartL p q.
Proof.
  destruct p as [l|e]; cbn [m_part PartL]; [|apply m_expr_spec].
  destruct (is_prefix l s) eqn:E.
  - apply (proj1 (is_prefix_app _ _)) in E. destruct E as [r0 ->]. rewrite skipn_app_len. cbn [In]. split.
    + intros [<-|[]]. exists l. split; reflexivity.
    + intros [q [Hq ->]]. apply app_inv_head in Hq. left. exact Hq.
  - cbn [In]. split; [tauto|]. intros [q [-> ->]].
    assert (is_prefix l (l ++ r) = true) by (apply is_prefix_app; exists r; reflexivity). congruence.
Qed.

Lemma m_parts_spec ps : forall sufs r,
  In r (m_parts ps sufs) <-> exists s q, In s sufs /\ s = q ++ r /\ PartsL ps q.
Proof.
  induction ps as [|p ps IH]; intros sufs r; cbn [m_parts].
  - split.
    + intros H. exists r, []. split; [exact H | split; [reflexivity | constructor]].
    + intros [s [q [Hs [-> Hq]]]]. inversion Hq. subst. exact Hs.
  - rewrite IH. split.
    + intros [s [q [Hs [-> Hq]]]]. apply (proj1 (In_dedup _ _)) in Hs. apply in_flat_map in Hs.
      destruct Hs as [s0 [Hs0 Hin]]. apply (proj1 (m_part_spec _ _ _)) in Hin. destruct Hin as [q1 [-> Hq1]].
      exists (q1 ++ q ++ r), (q1 ++ q). split; [exact Hs0|]. split; [rewrite app_assoc; reflexivity|].
      constructor; assumption.
    + intros [s [q [Hs [-> Hq]]]]. inversion Hq as [|p0 ps0 s1 s2 H1 H2]. subst.
      exists (s2 ++ r), s2. split; [|split; [reflexivity | exact H2]].
      apply (proj2 (In_dedup _ _)). apply in_flat_map. exists ((s1 ++ s2) ++ r). split; [exact Hs|].
      apply m_part_spec. exists s1. split; [rewrite app_assoc; reflexivity | exact H1].
Qed.

(* the matcher decides the language of the anchored expression *)
Theorem rx_match_spec ps s : rx_match ps s = true <-> PartsL ps s.
Proof.
  unfold rx_match. rewrite existsb_exists. split.
  - intros [r [Hin Hn]]. destruct r; [|discriminate]. apply (proj1 (m_parts_spec _ _ _)) in Hin.
    destruct Hin as [s0 [q [[<-|[]] [-> Hq]]]]. rewrite app_nil_r. exact Hq.
  - intros H. exists []. split; [|reflexivity]. apply m_parts_spec. exists s, s.
    split; [left; reflexivity | split; [rewrite app_nil_r; reflexivity | exact H]].
Qed.

(* ---- every expansion is in the language ---- *)
(* strings made of class characters and pct-triplets *)
Inductive Units (cls : N -> bool) : str -> Prop :=
| UNil : Units cls []
| UChr : forall c s, cls c = true -> Units cls s -> Units cls (c :: s)
| UPct : forall h1 h2 s, is_hex h1 = true -> is_hex h2 = true -> Units cls s -> Units cls (37 :: h1 :: h2 :: s).

Lemma Units_app cls a b : Units cls a -> Units cls b -> Units cls (a ++ b).
Proof. intros Ha Hb. induction Ha; cbn [app]; [exact Hb | constructor; assumption | constructor; assumption]. Qed.

Lemma Units_mono (c1 c2 : N -> bool) s : (forall c, c1 c = true -> c2 c = true) -> Units c1 s -> Units c2 s.
Proof. intros Hc H. induction H as [|c s Hcs H IH|h1 h2 s A B H IH]; [constructor | apply UChr; auto | apply UPct; auto]. Qed.

Lemma Units_Tail cls sep k a b : Units cls a -> TailL cls sep k b -> TailL cls sep k (a ++ b).
Proof. intros Ha Hb. induction Ha; cbn [app]; [exact Hb | constructor; assumption | constructor; assumption]. Qed.

Lemma Units_Body cls1 cls2 sep k a b : Units cls1 a -> BodyL cls1 cls2 sep k b -> BodyL cls1 cls2 sep k (a ++ b).
Proof. intros Ha Hb. induction Ha; cbn [app]; [exact Hb | constructor; assumption | constructor; assumption]. Qed.

Lemma hexd_hex n : n < 16 -> is_hex (hexd n) = true.
Proof.
  intros H. unfold hexd, is_hex, is_digit, in_range.
  destruct (N.ltb_spec n 10) as [L|L].
  - replace (48 <=? 48 + n) with true by (symmetry; apply N.leb_le; lia).
    replace (48 + n <=? 57) with true by (symmetry; apply N.leb_le; lia). reflexivity.
  - replace (65 <=? 55 + n) with true by (symmetry; apply N.leb_le; lia).
    replace (55 + n <=? 70) with true by (symmetry; apply N.leb_le; lia).
    cbn [andb]. rewrite orb_true_r. reflexivity.
Qed.

Lemma pct_units cls b : Units cls (pct b).
Proof.
  unfold pct. apply UPct; [| |constructor]; apply hexd_hex; apply N.mod_lt; discriminate.
Qed.

Lemma flat_pct_units cls c : Units cls (flat_map pct c).
Proof. induction c as [|b c IH]; cbn [flat_map]; [constructor | apply Units_app; [apply pct_units | exact IH]]. Qed.

Lemma esc_u_units cls v : (forall c, unreserved c = true -> cls c = true) -> Units cls (esc_u v).
Proof.
  intros Hc. unfold esc_u. induction v as [|c v IH]; cbn [flat_map]; [constructor|].
  apply Units_app; [|exact IH]. unfold esc_u_char. destruct c as [|b [|b2 c']].
  - constructor.
  - destruct (unreserved b) eqn:E; [constructor; [apply Hc; exact E | constructor] | apply pct_units].
  - apply flat_pct_units.
Qed.

Lemma esc_ur_units cls : (forall c, unreserved c || reserved c = true -> cls c = true) -> forall v, Units cls (esc_ur v).
Proof.
  intros Hc v. induction v as [v IH] using strong_list_ind.
  destruct v as [|c v']; cbn [esc_ur]; [constructor|].
  assert (IH' : Units cls (esc_ur v')) by (apply IH; cbn; lia).
  destruct c as [|b [|b2 c']].
  - cbn [flat_map app]. exact IH'.
  - destruct (unreserved b || reserved b) eqn:E; [constructor; [apply Hc; exact E | exact IH']|].
    destruct (N.eqb b 37) eqn:E37; [|apply Units_app; [apply pct_units | exact IH']].
    destruct v' as [|[|h1 [|? ?]] v'']; try (apply Units_app; [apply pct_units | exact IH']).
    destruct v'' as [|[|h2 [|? ?]] v3]; try (apply Units_app; [apply pct_units | exact IH']).
    destruct (is_hex h1 && is_hex h2) eqn:Eh; [|apply Units_app; [apply pct_units | exact IH']].
    apply andb_true_iff in Eh. destruct Eh as [Eh1 Eh2].
    apply UPct; [exact Eh1 | exact Eh2 | apply IH; cbn; lia].
  - apply Units_app; [apply flat_pct_units | exact IH'].
Qed.

(* the class every item of an expression is made of, whichever variable it comes from *)
Definition item_class (o : top) : N -> bool := rx_class (op_allow_r o) (op_named o).

Lemma esc_for_units o v : Units (item_class o) (esc_for o v).
Proof.
  unfold esc_for, item_class, rx_class. destruct (op_allow_r o).
  - apply esc_ur_units. intros c H. exact H.
  - apply esc_u_units. intros c H. rewrite H. rewrite !orb_true_r. reflexivity.
Qed.

Lemma name_units cls n :
  (forall c, unreserved c = true -> cls c = true) -> name_chars_ok n = true -> Units cls n.
Proof.
  intros Hc. induction n as [n IH] using strong_list_ind. intros H.
  destruct n as [|c n']; [constructor|]. cbn [name_chars_ok] in H.
  destruct (N.eqb c 37) eqn:E37.
  - apply N.eqb_eq in E37. subst c. destruct n' as [|h1 [|h2 n3]]; try discriminate.
    apply andb_true_iff in H. destruct H as [H H3]. apply andb_true_iff in H. destruct H as [H1 H2].
    apply UPct; [exact H1 | exact H2 | apply IH; [cbn; lia | exact H3]].
  - apply andb_true_iff in H. destruct H as [H1 H2]. constructor; [|apply IH; [cbn; lia | exact H2]].
    apply Hc. unfold unreserved. unfold is_varchar in H1.
    destruct (is_alpha c); [reflexivity|]. destruct (is_digit c); [reflexivity|]. cbn [orb] in *.
    apply orb_true_iff in H1. destruct H1 as [H1|H1]; rewrite H1; rewrite ?orb_true_r; reflexivity.
Qed.

Lemma unreserved_item_class o c : unreserved c = true -> item_class o c = true.
Proof.
  intros H. unfold item_class, rx_class. destruct (op_allow_r o); rewrite H; rewrite ?orb_true_r; reflexivity.
Qed.

Lemma named_eq_item_class o : op_named o = true -> item_class o 61 = true.
Proof. intros H. unfold item_class, rx_class. rewrite H. destruct (op_allow_r o); reflexivity. Qed.

Lemma expand_var_units o vs v : name_chars_ok (vs_name vs) = true -> Units (item_class o) (expand_var o vs v).
Proof.
  intros Hn. unfold expand_var. destruct (op_named o) eqn:En; [|apply esc_for_units].
  assert (Hname : Units (item_class o) (vs_name vs)) by (apply name_units; [apply unreserved_item_class | exact Hn]).
  destruct v as [|c v'].
  - apply Units_app; [exact Hname|]. destruct o; try discriminate En; cbn [op_ifemp];
      [apply UNil | apply UChr; [reflexivity | apply UNil] | apply UChr; [reflexivity | apply UNil]].
  - apply Units_app; [exact Hname|]. cbn [app]. apply UChr; [apply named_eq_item_class; exact En | apply esc_for_units].
Qed.

Lemma item_class_sub o vars c :
  item_class o c = true ->
  rx_cls1 (rx_of_expr o vars) c = true /\ rx_cls2 (rx_of_expr o vars) c = true.
Proof.
  unfold item_class, rx_of_expr, rx_class. cbn [rx_cls1 rx_cls2].
  destruct (op_allow_r o); [tauto|]. destruct (op_named o); cbn [orb andb]; [tauto|].
  intros H. destruct (N.eqb c 44); [split; reflexivity|]. cbn [orb] in *.
  rewrite H. rewrite !orb_true_r. split; reflexivity.
Qed.

(* items joined by the separator, with a budget of separators *)
Lemma join_tail cls sep : forall items k,
  Forall (Units cls) items -> (length items <= S k)%nat -> TailL cls sep (Some k) (join_sep sep items).
Proof.
  induction items as [|x items IH]; intros k HF Hl; [constructor|].
  inversion HF as [|? ? Hx HF']. subst. destruct items as [|y items'].
  - cbn [join_sep]. rewrite <- (app_nil_r x). apply Units_Tail; [exact Hx | constructor].
  - change (join_sep sep (x :: y :: items')) with (x ++ sep :: join_sep sep (y :: items')).
    apply Units_Tail; [exact Hx|]. destruct k as [|k']; [cbn in Hl; lia|].
    apply TSepS. apply IH; [exact HF' | cbn in *; lia].
Qed.

Lemma join_tail_unbounded cls sep : forall items,
  Forall (Units cls) items -> TailL cls sep None (join_sep sep items).
Proof.
  induction items as [|x items IH]; intros HF; [constructor|].
  inversion HF as [|? ? Hx HF']. subst. destruct items as [|y items'].
  - cbn [join_sep]. rewrite <- (app_nil_r x). apply Units_Tail; [exact Hx | constructor].
  - change (join_sep sep (x :: y :: items')) with (x ++ sep :: join_sep sep (y :: items')).
    apply Units_Tail; [exact Hx|]. apply TSepN. apply IH. exact HF'.
Qed.

Lemma ifemp_units o : op_named o = true -> Units (item_class o) (op_ifemp o).
Proof.
  intros En. destruct o; try discriminate En; cbn [op_ifemp];
    [apply UNil | apply UChr; [reflexivity | apply UNil] | apply UChr; [reflexivity | apply UNil]].
Qed.

Lemma comma_item_class o : item_class o 44 = true.
Proof. unfold item_class, rx_class. destruct (op_allow_r o); reflexivity. Qed.

Lemma join_comma_units o l : Units (item_class o) (join_sep 44 (map (esc_for o) l)).
Proof.
  induction l as [|m l IH]; [constructor|]. cbn [map]. destruct l as [|m2 l'].
  - cbn [map join_sep]. apply esc_for_units.
  - change (join_sep 44 (esc_for o m :: map (esc_for o) (m2 :: l')))
      with (esc_for o m ++ 44 :: join_sep 44 (map (esc_for o) (m2 :: l'))).
    apply Units_app; [apply esc_for_units|]. apply UChr; [apply comma_item_class | exact IH].
Qed.

Lemma named_item_units o vs body :
  op_named o = true -> name_chars_ok (vs_name vs) = true -> Units (item_class o) body ->
  Units (item_class o) (match body with [] => vs_name vs ++ op_ifemp o | _ => vs_name vs ++ [61] ++ body end).
Proof.
  intros En Hn Hb.
  assert (Hname : Units (item_class o) (vs_name vs)) by (apply name_units; [apply unreserved_item_class | exact Hn]).
  destruct body as [|c body'].
  - apply Units_app; [exact Hname | apply ifemp_units; exact En].
  - apply Units_app; [exact Hname|]. cbn [app]. apply UChr; [apply named_eq_item_class; exact En | exact Hb].
Qed.

Lemma var_items_units o vs val :
  name_chars_ok (vs_name vs) = true -> Forall (Units (item_class o)) (var_items o vs val).
Proof.
  intros Hn. unfold var_items. destruct val as [[v|l]|]; [| |constructor].
  - constructor; [apply expand_var_units; exact Hn | constructor].
  - destruct l as [|m l]; [constructor|]. destruct (negb (N.eqb (vs_maxlen vs) 0)); [constructor|].
    destruct (vs_explode vs).
    + apply Forall_forall. intros x Hx. apply in_map_iff in Hx. destruct Hx as [m0 [<- _]].
      destruct (op_named o) eqn:En; [|apply esc_for_units].
      assert (Hname : Units (item_class o) (vs_name vs)) by (apply name_units; [apply unreserved_item_class | exact Hn]).
      destruct m0 as [|c m0'].
      * apply Units_app; [exact Hname | apply ifemp_units; exact En].
      * apply Units_app; [exact Hname|]. cbn [app]. apply UChr; [apply named_eq_item_class; exact En | apply esc_for_units].
    + constructor; [|constructor]. cbv zeta.
      destruct (op_named o) eqn:En; [|apply join_comma_units].
      apply named_item_units; [exact En | exact Hn | apply join_comma_units].
Qed.

Lemma var_items_length o vs val : vs_explode vs = false -> (length (var_items o vs val) <= 1)%nat.
Proof.
  intros He. unfold var_items. destruct val as [[v|l]|]; cbn [length]; try lia.
  destruct l as [|m l]; cbn [length]; [lia|]. destruct (negb (N.eqb (vs_maxlen vs) 0)); cbn [length]; [lia|].
  rewrite He. cbn [length]. lia.
Qed.

Lemma defined_items_length o vars env :
  any_explode vars = false -> (length (defined_items o vars env) <= length vars)%nat.
Proof.
  unfold defined_items, any_explode. induction vars as [|v vars IH]; cbn [flat_map length existsb]; intros H; [lia|].
  apply orb_false_iff in H. destruct H as [Hv H]. rewrite app_length.
  pose proof (var_items_length o v (env (vs_name v)) Hv). specialize (IH H). lia.
Qed.

Lemma defined_items_units o vars env :
  forallb (fun v => name_chars_ok (vs_name v)) vars = true ->
  Forall (Units (item_class o)) (defined_items o vars env).
Proof.
  unfold defined_items. induction vars as [|v vars IH]; cbn [flat_map forallb]; intros H; [constructor|].
  apply andb_true_iff in H. destruct H as [Hv H]. apply Forall_app. split; [|apply IH; exact H].
  apply var_items_units. exact Hv.
Qed.

(* an exploded variable at the head is what puts the group in the expression when there is a single variable *)
Lemma join_body o vars items :
  Forall (Units (item_class o)) items -> items <> [] ->
  (any_explode vars = false -> (length items <= length vars)%nat) ->
  ((1 < length items)%nat -> (1 < length vars)%nat \/ head_explode vars = true) ->
  let e := rx_of_expr o vars in
  BodyL (rx_cls1 e) (rx_cls2 e) (rx_sep e) (rx_max e) (join_sep (op_sep o) items).
Proof.
  intros HF Hne Hl Hg e. destruct items as [|x items]; [congruence|].
  inversion HF as [|? ? Hx HF']. subst.
  assert (Hx1 : Units (rx_cls1 e) x) by (eapply Units_mono; [|exact Hx]; intros c Hc; apply (item_class_sub o vars c Hc)).
  assert (HF2 : Forall (Units (rx_cls2 e)) items).
  { eapply Forall_impl; [|exact HF']. intros s Hs. eapply Units_mono; [|exact Hs]. intros c Hc. apply (item_class_sub o vars c Hc). }
  destruct items as [|y items'].
  - cbn [join_sep]. rewrite <- (app_nil_r x). apply Units_Body; [exact Hx1 | constructor].
  - change (join_sep (op_sep o) (x :: y :: items')) with (x ++ op_sep o :: join_sep (op_sep o) (y :: items')).
    apply Units_Body; [exact Hx1|]. subst e. unfold rx_of_expr in HF2 |- *. cbn [rx_sep rx_max rx_cls1 rx_cls2] in HF2 |- *.
    assert (Hgrp : (Nat.ltb 1 (length vars) || head_explode vars) = true).
    { destruct Hg as [Hg|Hg]; [cbn [length]; lia | apply Nat.ltb_lt in Hg; rewrite Hg; reflexivity | rewrite Hg; apply orb_true_r]. }
    rewrite Hgrp.
    destruct (any_explode vars) eqn:Ea.
    + apply BSepN. apply join_tail_unbounded. exact HF2.
    + specialize (Hl eq_refl). destruct (length vars) as [|[|n]] eqn:El; [cbn [length] in Hl; lia | cbn [length] in Hl; lia|].
      cbn [Nat.sub]. rewrite ?Nat.sub_0_r. apply BSepS. apply join_tail; [exact HF2 | cbn [length] in *; lia].
Qed.

Lemma head_explode_any vars : head_explode vars = true -> any_explode vars = true.
Proof. destruct vars as [|v vars]; [discriminate|]. cbn [head_explode any_explode existsb]. intros ->. reflexivity. Qed.

Lemma many_items_need_group o vars env :
  (1 < length (defined_items o vars env))%nat -> (1 < length vars)%nat \/ head_explode vars = true.
Proof.
  intros H. destruct vars as [|v [|v2 vars]]; [cbn in H; lia| |left; cbn [length]; lia].
  right. cbn [head_explode]. destruct (vs_explode v) eqn:E; [reflexivity|].
  unfold defined_items in H. cbn [flat_map] in H. rewrite app_nil_r in H.
  pose proof (var_items_length o v (env (vs_name v)) E). lia.
Qed.

Lemma expand_expr_in_lang o vars env :
  forallb (fun v => name_chars_ok (vs_name v)) vars = true ->
  ExprL (rx_of_expr o vars) (expand_expr o vars env).
Proof.
  intros Hn. unfold expand_expr, ExprL.
  destruct (defined_items o vars env) as [|x items] eqn:Ed; [left; reflexivity|]. right.
  assert (HB : let e := rx_of_expr o vars in
               BodyL (rx_cls1 e) (rx_cls2 e) (rx_sep e) (rx_max e) (join_sep (op_sep o) (x :: items))).
  { apply join_body; [rewrite <- Ed; apply defined_items_units; exact Hn | discriminate |
                      rewrite <- Ed; apply defined_items_length | rewrite <- Ed; apply many_items_need_group]. }
  cbn zeta in HB. unfold rx_of_expr at 1. cbn [rx_first].
  destruct (op_first o) as [f|]; [exists (join_sep (op_sep o) (x :: items)); split; [reflexivity | exact HB] | exact HB].
Qed.

(* every RFC 6570 expansion, for string and list values, of a parsed template matches it *)
Theorem expansion_matches : forall sel ps env,
  ut_parse sel = Some ps -> rx_match (map rx_of_part ps) (ut_expand ps env) = true.
Proof.
  intros sel ps env Hp. apply rx_match_spec. unfold ut_parse in Hp.
  destruct (parse_go _ _ _ _) as [ps0|]; [|discriminate].
  destruct (forallb wf_part ps0) eqn:Hwf; [|discriminate]. injection Hp as ->.
  unfold ut_expand. induction ps as [|p ps IH]; cbn [map flat_map]; [constructor|].
  cbn [forallb] in Hwf. apply andb_true_iff in Hwf. destruct Hwf as [Hp Hps].
  constructor; [|apply IH; exact Hps].
  destruct p as [l|o vars]; cbn [rx_of_part PartL expand_part]; [reflexivity|].
  cbn [wf_part] in Hp. apply andb_true_iff in Hp. apply expand_expr_in_lang. apply Hp.
Qed.

(* hence the hub answers true on every expansion of a selector it treats as a template *)
Theorem expansion_matches_hub : forall sel ps env f,
  ut_parse sel = Some ps -> ut_tmatch sel = Some f -> f (ut_expand ps env) = true.
Proof.
  intros sel ps env f Hp Hf. unfold ut_tmatch in Hf. rewrite Hp in Hf.
  destruct (compile_ok ps); [|discriminate]. injection Hf as <-. eapply expansion_matches. exact Hp.
Qed.

(* ---- the converse fails: the generated expression ignores variable names and prefix lengths ---- *)
(* "{?a}" against "?b=1" *)
Definition w_sel1 : str := [123; 63; 97; 125].
Definition w_topic1 : str := [63; 98; 61; 49].

Lemma named_body_prefix (name e j : str) :
  is_prefix name (match j with [] => name ++ e | _ => name ++ [61] ++ j end) = true.
Proof. destruct j; apply is_prefix_app; eexists; reflexivity. Qed.

(* whatever a single named variable is bound to, its expansion is empty or starts with first ++ name *)
Lemma named_items_prefix o vs val x items :
  op_named o = true -> var_items o vs val = x :: items -> is_prefix (vs_name vs) x = true.
Proof.
  intros En. unfold var_items. destruct val as [[v|l]|]; [| |discriminate].
  - intros H. injection H as <- _. unfold expand_var. rewrite En.
    destruct v; apply is_prefix_app; eexists; reflexivity.
  - destruct l as [|m l]; [discriminate|]. destruct (negb (N.eqb (vs_maxlen vs) 0)); [discriminate|].
    destruct (vs_explode vs).
    + cbn [map]. intros H. injection H as <- _. rewrite En. destruct m; apply is_prefix_app; eexists; reflexivity.
    + intros H. injection H as <- _. rewrite En.
      exact (named_body_prefix (vs_name vs) (op_ifemp o) (join_sep 44 (map (esc_for o) (m :: l)))).
Qed.

Lemma match_without_expansion_name :
  exists ps f, ut_parse w_sel1 = Some ps /\ ut_tmatch w_sel1 = Some f /\ f w_topic1 = true /\
               forall env, ut_expand ps env <> w_topic1.
Proof.
  eexists. eexists. split; [vm_compute; reflexivity|]. split; [vm_compute; reflexivity|].
  split; [vm_compute; reflexivity|]. intros env.
  unfold ut_expand. cbn [flat_map expand_part]. rewrite app_nil_r.
  unfold expand_expr, defined_items. cbn [flat_map]. rewrite app_nil_r.
  destruct (var_items OpQuery _ (env _)) as [|x items] eqn:Ei; [discriminate|].
  apply named_items_prefix in Ei; [|reflexivity]. cbn [vs_name] in Ei.
  cbn [op_first]. destruct x as [|c x]; [discriminate|]. cbn [is_prefix] in Ei.
  apply andb_true_iff in Ei. destruct Ei as [Ec _]. apply N.eqb_eq in Ec. subst c.
  destruct items; cbn [join_sep app]; discriminate.
Qed.

Lemma esc_u_char_nonempty c : c <> [] -> esc_u_char c <> [].
Proof.
  intros H. unfold esc_u_char. destruct c as [|b [|b2 c']]; [congruence| |cbn; discriminate].
  destruct (unreserved b); discriminate.
Qed.

(* with string values every character of the value yields either itself (1 byte) or pct-triplets *)
Lemma esc_u_char_shape c : c <> [] -> (exists b, esc_u_char c = [b] /\ b <> 37) \/ (exists h1 h2 r, esc_u_char c = 37 :: h1 :: h2 :: r).
Proof.
  intros H. unfold esc_u_char. destruct c as [|b [|b2 c']]; [congruence| |].
  - destruct (unreserved b) eqn:E.
    + left. exists b. split; [reflexivity|]. intros ->. discriminate.
    + right. unfold pct. eauto.
  - right. cbn [flat_map]. unfold pct at 1. cbn [app]. eauto.
Qed.

Lemma match_without_expansion_prefix :
  exists ps f, ut_parse w_sel2 = Some ps /\ ut_tmatch w_sel2 = Some f /\ f w_topic2 = true /\
               forall env, (forall n v, env n = Some (VStr v) -> Forall (fun c => c <> []) v) -> ut_expand ps env <> w_topic2.
Proof.
  eexists. eexists. split; [vm_compute; reflexivity|]. split; [vm_compute; reflexivity|].
  split; [vm_compute; reflexivity|]. intros env Hwf.
  unfold ut_expand. cbn [flat_map expand_part]. rewrite app_nil_r.
  unfold expand_expr, defined_items. cbn [flat_map vs_name]. rewrite app_nil_r.
  destruct (env [120]) as [[v|l]|] eqn:Ev; cbn [var_items]; [| |discriminate].
  2:{ destruct l; [discriminate|]. cbn [vs_maxlen N.eqb Pos.eqb negb]. discriminate. }
  specialize (Hwf _ _ Ev). cbn [op_first op_sep join_sep].
  unfold expand_var. cbn [op_named vs_maxlen]. unfold esc_for. cbn [op_allow_r].
  unfold take_prefix. cbn [N.eqb Pos.eqb N.to_nat Pos.to_nat Pos.iter_op Nat.add].
  change (Pos.to_nat 3) with 3%nat. unfold w_topic2, esc_u.
  destruct v as [|c1 v]; [discriminate|]. inversion Hwf as [|? ? H1 Hwf1]; subst.
  cbn [firstn flat_map].
  destruct (esc_u_char_shape c1 H1) as [[b1 [E1 _]]|[h1 [h2 [r E1]]]]; rewrite E1; cbn [app]; [|discriminate].
  destruct v as [|c2 v]; [discriminate|]. inversion Hwf1 as [|? ? H2 Hwf2]; subst.
  cbn [firstn flat_map].
  destruct (esc_u_char_shape c2 H2) as [[b2 [E2 _]]|[h1 [h2 [r E2]]]]; rewrite E2; cbn [app]; [|discriminate].
  destruct v as [|c3 v]; [discriminate|]. inversion Hwf2 as [|? ? H3 Hwf3]; subst.
  cbn [firstn flat_map].
  destruct (esc_u_char_shape c3 H3) as [[b3 [E3 _]]|[h1 [h2 [r E3]]]]; rewrite E3; cbn [app]; discriminate.
Qed.

(* what the check flags as "not an expansion" is not one *)
Lemma is_prefix_refl_app a b : is_prefix a (a ++ b) = true.
Proof. apply is_prefix_app. exists b. reflexivity. Qed.

Lemma nonexp_named_sound ps t : nonexp_named ps t = true -> forall env, ut_expand ps env <> t.
Proof.
  unfold nonexp_named. destruct ps as [|[l|o [|v [|v2 vars]]] [|p2 ps]]; try discriminate.
  destruct (op_first o) as [f|] eqn:Ef; [|discriminate]. intros H env.
  apply andb_true_iff in H. destruct H as [H Hpre]. apply andb_true_iff in H. destruct H as [Hn Hne].
  unfold ut_expand. cbn [flat_map expand_part]. rewrite app_nil_r.
  unfold expand_expr, defined_items. cbn [flat_map]. rewrite app_nil_r.
  destruct (var_items o v (env (vs_name v))) as [|x items] eqn:Ei.
  - intros <-. discriminate.
  - apply named_items_prefix in Ei; [|exact Hn]. rewrite Ef. intros <-.
    apply negb_true_iff in Hpre. cbn [is_prefix] in Hpre. rewrite N.eqb_refl in Hpre. cbn [andb] in Hpre.
    apply is_prefix_app in Ei. destruct Ei as [r ->].
    destruct items as [|y items']; cbn [join_sep] in Hpre.
    + rewrite is_prefix_refl_app in Hpre. discriminate.
    + rewrite <- app_assoc, is_prefix_refl_app in Hpre. discriminate.
Qed.

(* ---- a selector without "{" is a template of one literal: it matches only itself ---- *)
Lemma utf8_dec_suffix s r rest : utf8_dec s = Some (r, rest) -> exists pre, s = pre ++ rest.
Proof.
  unfold utf8_dec. destruct s as [|b0 s1]; [discriminate|].
  destruct (N.ltb b0 128); [intros H; injection H as <- <-; exists [b0]; reflexivity|].
  destruct (in_range 194 223 b0).
  { destruct s1 as [|b1 s2]; [discriminate|]. destruct (is_cont b1); [|discriminate].
    intros H; injection H as <- <-. exists [b0; b1]. reflexivity. }
  destruct (in_range 224 239 b0).
  { destruct s1 as [|b1 [|b2 s3]]; try discriminate.
    destruct (in_range _ _ b1 && is_cont b2); [|discriminate].
    intros H; injection H as <- <-. exists [b0; b1; b2]. reflexivity. }
  destruct (in_range 240 244 b0); [|discriminate].
  destruct s1 as [|b1 [|b2 [|b3 s4]]]; try discriminate.
  destruct (in_range _ _ b1 && is_cont b2 && is_cont b3); [|discriminate].
  intros H; injection H as <- <-. exists [b0; b1; b2; b3]. reflexivity.
Qed.

Lemma has_brace_app a b : has_brace (a ++ b) = false -> has_brace b = false.
Proof.
  unfold has_brace, mem_N. rewrite existsb_app. intros H. apply orb_false_iff in H. apply H.
Qed.

Definition with_lit (a : pacc) (l : str) : pacc :=
  {| pa_parts := pa_parts a; pa_lit := l; pa_op := pa_op a; pa_vars := pa_vars a; pa_name := pa_name a; pa_max := pa_max a |}.

Lemma firstn_len_app {A} (pre rest : list A) : firstn (length (pre ++ rest) - length rest) (pre ++ rest) = pre.
Proof.
  rewrite app_length. replace (length pre + length rest - length rest)%nat with (length pre + 0)%nat by lia.
  rewrite firstn_app_2. cbn [firstn]. apply app_nil_r.
Qed.

Lemma parse_default_no_brace : forall fuel a s ps,
  has_brace s = false -> parse_go fuel PDefault a s = Some ps ->
  ps = rev (flush_lit (with_lit a (rev s ++ pa_lit a))).
Proof.
  induction fuel as [|fuel IH]; intros a s ps Hb Hp; [discriminate|].
  cbn [parse_go] in Hp. destruct s as [|c s'].
  - injection Hp as <-. destruct a; reflexivity.
  - destruct (utf8_dec (c :: s')) as [[r rest]|] eqn:Ed; [|discriminate].
    destruct (N.eqb r 65533); [discriminate|].
    assert (Hc : N.eqb c 123 = false).
    { unfold has_brace, mem_N in Hb. cbn [existsb] in Hb. apply orb_false_iff in Hb. destruct Hb as [Hb _].
      unfold LBRACE in Hb. rewrite N.eqb_sym. exact Hb. }
    rewrite Hc in Hp. destruct (N.eqb c 37) eqn:E37.
    + destruct s' as [|h1 [|h2 s3]]; try discriminate.
      destruct (is_hex h1 && is_hex h2); [|discriminate].
      apply IH in Hp; [|apply (has_brace_app [c; h1; h2] s3); exact Hb].
      rewrite Hp. cbn [pa_lit pa_parts pa_op pa_vars pa_name pa_max with_lit]. unfold flush_lit. cbn [pa_lit pa_parts].
      cbn [rev]. rewrite <- !app_assoc. reflexivity.
    + destruct (lit_ok r); [|discriminate].
      destruct (utf8_dec_suffix _ _ _ Ed) as [pre Hpre].
      apply IH in Hp; [|apply (has_brace_app pre rest); rewrite <- Hpre; exact Hb].
      rewrite Hp. unfold flush_lit, with_lit. cbn [pa_lit pa_parts].
      rewrite Hpre, firstn_len_app, rev_app_distr, <- app_assoc. reflexivity.
Qed.

Lemma rev_nil_inv {A} (l : list A) : rev l = [] -> l = [].
Proof. destruct l as [|x l]; [reflexivity|]. cbn [rev]. intros H. apply app_eq_nil in H. destruct H; discriminate. Qed.

Theorem brace_free_matches_itself : forall sel f topic,
  has_brace sel = false -> ut_tmatch sel = Some f -> f topic = true -> topic = sel.
Proof.
  intros sel f topic Hb Hf Hm. unfold ut_tmatch in Hf.
  destruct (ut_parse sel) as [ps|] eqn:Hp; [|discriminate].
  destruct (compile_ok ps); [|discriminate]. injection Hf as <-.
  apply rx_match_spec in Hm. unfold ut_parse in Hp.
  destruct (parse_go _ _ _ _) as [ps0|] eqn:Hg; [|discriminate].
  destruct (forallb wf_part ps0); [|discriminate]. injection Hp as ->.
  apply parse_default_no_brace in Hg; [|exact Hb]. subst ps.
  unfold flush_lit, with_lit, pacc0 in Hm. cbn [pa_lit pa_parts] in Hm. rewrite app_nil_r in Hm.
  destruct (rev sel) as [|x l] eqn:Er.
  - apply rev_nil_inv in Er. subst sel. cbn [rev map] in Hm. inversion Hm. reflexivity.
  - change (rev [PLit (rev (x :: l))]) with [PLit (rev (x :: l))] in Hm. cbn [map rx_of_part] in Hm.
    inversion Hm as [|p ps' s1 s2 H1 H2]. subst.
    inversion H2. subst. cbn [PartL] in H1. subst s1. rewrite app_nil_r.
    change (rev l ++ [x]) with (rev (x :: l)). rewrite <- Er. apply rev_involutive.
Qed.

(* ---- the right-linear grammars TailL / BodyL are the expression  C1* (?:sep C2* ){0,k} ---- *)
Lemma UnitsL_Units cls s : UnitsL cls s <-> Units cls s.
Proof. split; intros H; induction H; constructor; assumption. Qed.

Lemma SepsL_Tail cls sep k r : SepsL cls sep k r -> TailL cls sep k r.
Proof.
  intros H. induction H as [k|u s Hu H IH|k u s Hu H IH]; [constructor| |].
  - apply TSepN. apply Units_Tail; [apply UnitsL_Units; exact Hu | exact IH].
  - apply TSepS. apply Units_Tail; [apply UnitsL_Units; exact Hu | exact IH].
Qed.

Theorem TailL_is_the_expression cls sep k s :
  TailL cls sep k s <-> exists u r, s = u ++ r /\ UnitsL cls u /\ SepsL cls sep k r.
Proof.
  split.
  - intros H. induction H as [k|k c s Hc H IH|k h1 h2 s Hh1 Hh2 H IH|s H IH|k s H IH].
    + exists [], []. repeat split; constructor.
    + destruct IH as [u [r [-> [Hu Hr]]]]. exists (c :: u), r. repeat split; [constructor; assumption | exact Hr].
    + destruct IH as [u [r [-> [Hu Hr]]]]. exists (37 :: h1 :: h2 :: u), r. repeat split; [constructor; assumption | exact Hr].
    + destruct IH as [u [r [-> [Hu Hr]]]]. exists [], (sep :: u ++ r). repeat split; [constructor | constructor; assumption].
    + destruct IH as [u [r [-> [Hu Hr]]]]. exists [], (sep :: u ++ r). repeat split; [constructor | constructor; assumption].
  - intros [u [r [-> [Hu Hr]]]]. apply Units_Tail; [apply UnitsL_Units; exact Hu | apply SepsL_Tail; exact Hr].
Qed.

Theorem BodyL_is_the_expression cls1 cls2 sep k s :
  BodyL cls1 cls2 sep k s <-> exists u r, s = u ++ r /\ UnitsL cls1 u /\ SepsL cls2 sep k r.
Proof.
  split.
  - intros H. induction H as [k|k c s Hc H IH|k h1 h2 s Hh1 Hh2 H IH|s H|k s H].
    + exists [], []. repeat split; constructor.
    + destruct IH as [u [r [-> [Hu Hr]]]]. exists (c :: u), r. repeat split; [constructor; assumption | exact Hr].
    + destruct IH as [u [r [-> [Hu Hr]]]]. exists (37 :: h1 :: h2 :: u), r. repeat split; [constructor; assumption | exact Hr].
    + apply TailL_is_the_expression in H. destruct H as [u [r [-> [Hu Hr]]]].
      exists [], (sep :: u ++ r). repeat split; [constructor | constructor; assumption].
    + apply TailL_is_the_expression in H. destruct H as [u [r [-> [Hu Hr]]]].
      exists [], (sep :: u ++ r). repeat split; [constructor | constructor; assumption].
  - intros [u [r [-> [Hu Hr]]]]. apply Units_Body; [apply UnitsL_Units; exact Hu|].
    destruct Hr as [k|u' s' Hu' Hs|k u' s' Hu' Hs]; [constructor| |].
    + apply BSepN. apply Units_Tail; [apply UnitsL_Units; exact Hu' | apply SepsL_Tail; exact Hs].
    + apply BSepS. apply Units_Tail; [apply UnitsL_Units; exact Hu' | apply SepsL_Tail; exact Hs].
Qed.
