(* SubIndexProofs.v — C05: the index hands every update to exactly the connected
   subscribers that match, for every history and every cache state. *)
From Mercure Require Import Base Match SubIndex MatchProofs.
From Coq Require Import Sorting.Sorted Permutation ZifyN ZifyNat ZifyBool.

(* ---------- basic facts ---------- *)

Lemma mem_N_in x l : mem_N x l = true <-> In x l.
Proof.
  unfold mem_N. rewrite existsb_exists. split.
  - intros (y & Hy & E). apply N.eqb_eq in E. subst. assumption.
  - intros H. exists x. split; [assumption|apply N.eqb_refl].
Qed.

Lemma mem_N_app x a b : mem_N x (a ++ b) = mem_N x a || mem_N x b.
Proof. unfold mem_N. apply existsb_app. Qed.

Lemma insert_str_perm x l : Permutation (insert_str x l) (x :: l).
Proof.
  induction l as [|y l IH]; cbn; [reflexivity|].
  destruct (str_leb x y); [reflexivity|].
  rewrite IH. apply perm_swap.
Qed.

Lemma sort_strs_perm l : Permutation (sort_strs l) l.
Proof.
  induction l as [|x l IH]; cbn; [reflexivity|].
  rewrite insert_str_perm. constructor. exact IH.
Qed.

Lemma sort_strs_nonnil l : l <> [] -> sort_strs l <> [].
Proof.
  intros H E. pose proof (sort_strs_perm l) as P. rewrite E in P.
  apply Permutation_nil in P. congruence.
Qed.

Lemma existsb_perm {A} (f : A -> bool) l l' : Permutation l l' -> existsb f l = existsb f l'.
Proof.
  induction 1; cbn; try congruence.
  - rewrite !orb_assoc, (orb_comm (f y)). reflexivity.
Qed.

(* ---------- the codec ---------- *)

Lemma decode_escape t : forall rest pe priv cur acc,
  decode_aux (escape_topic t ++ rest) pe false priv cur acc =
  decode_aux rest pe false priv (rev t ++ cur) acc.
Proof.
  induction t as [|c t IH]; intros rest pe priv cur acc; [reflexivity|].
  cbn [escape_topic].
  destruct (N.eqb_spec c ESC) as [->|Hesc].
  - cbn [app decode_aux]. cbn [N.eqb ESC]. rewrite IH. cbn [rev]. rewrite <- app_assoc. reflexivity.
  - destruct (N.eqb_spec c DELIM) as [->|Hdel].
    + cbn [app decode_aux]. cbn [N.eqb ESC]. rewrite IH. cbn [rev]. rewrite <- app_assoc. reflexivity.
    + cbn [app decode_aux].
      apply N.eqb_neq in Hesc, Hdel. rewrite Hesc, Hdel.
      rewrite IH. cbn [rev]. rewrite <- app_assoc. reflexivity.
Qed.

Lemma decode_topics ts : forall t priv acc,
  decode_aux (concat_with [DELIM] (map escape_topic (t :: ts))) true false priv [] acc =
  (rev acc ++ t :: ts, priv).
Proof.
  induction ts as [|t2 ts IH]; intros t priv acc.
  - cbn [map concat_with]. rewrite <- (app_nil_r (escape_topic t)), decode_escape.
    cbn [decode_aux]. rewrite app_nil_r, rev_involutive. cbn [rev]. reflexivity.
  - change (map escape_topic (t :: t2 :: ts)) with (escape_topic t :: map escape_topic (t2 :: ts)).
    change (concat_with [DELIM] (escape_topic t :: map escape_topic (t2 :: ts)))
      with (escape_topic t ++ [DELIM] ++ concat_with [DELIM] (map escape_topic (t2 :: ts))).
    rewrite decode_escape. cbn [app decode_aux]. cbn [N.eqb DELIM ESC].
    rewrite app_nil_r, rev_involutive. rewrite IH. cbn [rev]. rewrite <- app_assoc. reflexivity.
Qed.

Lemma decode_encode ts p : ts <> [] -> decode (encode ts p) = (sort_strs ts, p).
Proof.
  intros H. unfold decode, encode.
  pose proof (sort_strs_nonnil ts H) as Hs.
  destruct (sort_strs ts) as [|t l] eqn:E; [congruence|].
  change (concat_with [DELIM] (priv_tag p :: map escape_topic (t :: l)))
    with (priv_tag p ++ [DELIM] ++ concat_with [DELIM] (map escape_topic (t :: l))).
  destruct p; cbn [priv_tag app decode_aux]; cbn [N.eqb ESC DELIM Pos.eqb rev app str_eqb andb];
    rewrite decode_topics; reflexivity.
Qed.

(* ---------- MatchTopics ---------- *)

Lemma match_topics_loop_spec m sub al ts : forall s c,
  match_topics_loop m sub al ts s c =
  (s || existsb (fun t => existsb (m t) sub) ts) && (c || existsb (fun t => existsb (m t) al) ts).
Proof.
  induction ts as [|t ts IH]; intros s c; cbn [match_topics_loop existsb].
  - rewrite !orb_false_r. reflexivity.
  - rewrite IH. destruct s, c; cbn; try reflexivity;
      destruct (existsb (m t) sub), (existsb (m t) al); reflexivity.
Qed.

Lemma match_topics_with_spec m sub al ts p :
  match_topics_with m sub al ts p = match_topics_spec m sub al ts p.
Proof. unfold match_topics_with, match_topics_spec. rewrite match_topics_loop_spec. reflexivity. Qed.

Lemma match_topics_spec_perm m sub al ts ts' p :
  Permutation ts ts' -> match_topics_spec m sub al ts p = match_topics_spec m sub al ts' p.
Proof. intros H. unfold match_topics_spec. rewrite !(existsb_perm _ _ _ H). reflexivity. Qed.

Lemma existsb2_ext (m m' : str -> str -> bool) l ts :
  (forall t s, m t s = m' t s) ->
  existsb (fun t => existsb (m t) l) ts = existsb (fun t => existsb (m' t) l) ts.
Proof.
  intros H.
  assert (E : forall t, existsb (m t) l = existsb (m' t) l).
  { intros t. induction l as [|s l IHl]; cbn; [reflexivity|]. rewrite H, IHl. reflexivity. }
  induction ts as [|t ts IH]; cbn; [reflexivity|]. rewrite IH, E. reflexivity.
Qed.

Lemma match_topics_spec_ext m m' sub al ts p :
  (forall t s, m t s = m' t s) -> match_topics_spec m sub al ts p = match_topics_spec m' sub al ts p.
Proof.
  intros H. unfold match_topics_spec. rewrite !(existsb2_ext m m' _ _ H). reflexivity.
Qed.

Section P.
  Variable tmatch : str -> option (str -> bool).
  (* the one fact about the URI-template library mercure's "{" shortcut relies on:
     a selector without "{" that parses as a template matches only itself *)
  Hypothesis tmatch_literal : forall sel f topic,
    has_brace sel = false -> tmatch sel = Some f -> f topic = true -> topic = sel.

  Lemma match_raw_spec topic sel : match_raw tmatch topic sel = match_spec tmatch topic sel.
  Proof. apply MatchProofs.match_raw_spec. exact tmatch_literal. Qed.

  Lemma test_encode s ts p : ts <> [] ->
    test tmatch s (encode ts p) = match_topics_spec (match_spec tmatch) (s_topics s) (s_allowed s) ts p.
  Proof.
    intros H. unfold test. rewrite decode_encode by assumption.
    unfold sub_matches, match_topics. rewrite match_topics_with_spec.
    rewrite (match_topics_spec_perm _ _ _ _ ts _ (sort_strs_perm ts)).
    apply match_topics_spec_ext. apply match_raw_spec.
  Qed.

  (* ---------- the index invariant ---------- *)

  Definition fentry_ok (ix : index) (f : fentry) : Prop :=
    f_scanned f <= ix_next ix /\
    Forall (fun id => id < f_scanned f) (f_ids f) /\
    forall id s, In (id, s) (ix_live ix) -> id < f_scanned f -> mem_N id (f_ids f) = test tmatch s (f_key f).

  Definition Inv (ix : index) : Prop :=
    StronglySorted N.lt (map fst (ix_live ix)) /\
    Forall (fun e => fst e < ix_next ix) (ix_live ix) /\
    Forall (fentry_ok ix) (ix_cache ix).

  Lemma Inv_empty : Inv ix_empty.
  Proof. repeat split; constructor. Qed.

  Lemma sorted_unique (l : list (N * sub)) id s P :
    StronglySorted N.lt (map fst l) -> In (id, s) l ->
    mem_N id (map fst (filter P l)) = P (id, s).
  Proof.
    induction l as [|[id' s'] l IH]; intros Hs Hin; [destruct Hin|].
    cbn [map] in Hs. apply StronglySorted_inv in Hs. destruct Hs as [Hs Hall].
    destruct Hin as [E|Hin].
    - inversion E; subst. cbn [filter].
      assert (Hno : mem_N id (map fst (filter P l)) = false).
      { apply not_true_is_false. intros Hm. apply mem_N_in in Hm.
        apply in_map_iff in Hm. destruct Hm as ([i2 s2] & Ei & Hf). cbn in Ei. subst i2.
        apply filter_In in Hf. destruct Hf as [Hf _].
        rewrite Forall_forall in Hall. specialize (Hall id (in_map fst _ _ Hf)). cbn in Hall. lia. }
      destruct (P (id, s)); cbn [map mem_N existsb]; [rewrite N.eqb_refl; reflexivity|exact Hno].
    - assert (Hne : id' <> id).
      { rewrite Forall_forall in Hall. specialize (Hall id (in_map fst _ _ Hin)). cbn in Hall. lia. }
      cbn [filter]. destruct (P (id', s')); cbn [map mem_N existsb fst].
      + apply N.eqb_neq in Hne. rewrite N.eqb_sym, Hne. cbn [orb]. apply IH; assumption.
      + apply IH; assumption.
  Qed.

  Lemma f_lookup_some k c f : f_lookup k c = Some f -> In f c /\ f_key f = k.
  Proof.
    induction c as [|f' c IH]; cbn; [discriminate|].
    destruct (str_eqb (f_key f') k) eqn:E.
    - intros H. inversion H; subst. split; [left; reflexivity|apply str_eqb_eq; assumption].
    - intros H. destruct (IH H). split; [right; assumption|assumption].
  Qed.

  Lemma f_set_forall (P : fentry -> Prop) f c : P f -> Forall P c -> Forall P (f_set f c).
  Proof.
    intros Hf. induction 1 as [|f' c Hf' Hc IH]; cbn; [repeat constructor; assumption|].
    destruct (str_eqb (f_key f') (f_key f)); constructor; assumption.
  Qed.

  Lemma keep_some_forall {A} (P : A -> Prop) keep : forall l, Forall P l -> Forall P (keep_some keep l).
  Proof.
    induction keep as [|b keep IH]; intros l H; destruct l as [|x l]; cbn; try assumption.
    inversion H; subst. destruct b; [constructor; auto|auto].
  Qed.

  (* what get_filter returns is a valid memo for the key *)
  Lemma get_filter_ok ix key : Inv ix ->
    let f := get_filter tmatch ix key in
    f_key f = key /\ fentry_ok ix f /\
    forall id s, In (id, s) (ix_live ix) -> mem_N id (f_ids f) = test tmatch s key.
  Proof.
    intros (Hsort & Hlt & Hc). unfold get_filter.
    set (f0 := match f_lookup key (ix_cache ix) with Some f => f | None => {| f_key := key; f_scanned := 0; f_ids := [] |} end).
    assert (H0 : f_key f0 = key /\ fentry_ok ix f0).
    { unfold f0. destruct (f_lookup key (ix_cache ix)) as [f|] eqn:E.
      - apply f_lookup_some in E. destruct E as [Hin Hk]. split; [assumption|].
        rewrite Forall_forall in Hc. apply Hc. assumption.
      - split; [reflexivity|]. repeat split; cbn; [lia|constructor|]. intros. lia. }
    destruct H0 as [Hk (Hle & Hids & Hmem)].
    destruct (N.ltb_spec (f_scanned f0) (ix_next ix)) as [Hlt'|Hge].
    - cbn [f_key f_scanned f_ids]. split; [reflexivity|].
      assert (Hall : forall id s, In (id, s) (ix_live ix) ->
        mem_N id (f_ids f0 ++ map fst (filter (fun e => N.leb (f_scanned f0) (fst e) && test tmatch (snd e) key) (ix_live ix))) = test tmatch s key).
      { intros id s Hin. rewrite mem_N_app.
        rewrite (sorted_unique _ id s _ Hsort Hin). cbn [fst snd].
        destruct (N.leb_spec (f_scanned f0) id) as [Hge|Hlt2].
        - assert (Hno : mem_N id (f_ids f0) = false).
          { apply not_true_is_false. intros Hm. apply mem_N_in in Hm.
            rewrite Forall_forall in Hids. specialize (Hids _ Hm). lia. }
          rewrite Hno. reflexivity.
        - rewrite (Hmem id s Hin Hlt2), Hk. cbn [andb]. rewrite orb_false_r. reflexivity. }
      split; [|exact Hall].
      repeat split; cbn [f_key f_scanned f_ids].
      + lia.
      + apply Forall_app. split.
        * eapply Forall_impl; [|exact Hids]. cbn. intros. lia.
        * apply Forall_forall. intros id Hin. apply in_map_iff in Hin. destruct Hin as ([i2 s2] & <- & Hf).
          apply filter_In in Hf. destruct Hf as [Hf _]. rewrite Forall_forall in Hlt. apply (Hlt _ Hf).
      + intros id s Hin _. apply Hall. assumption.
    - split; [assumption|]. split; [repeat split; assumption|].
      intros id s Hin. rewrite <- Hk. apply Hmem; [assumption|].
      rewrite Forall_forall in Hlt. specialize (Hlt _ Hin). cbn in Hlt. lia.
  Qed.

  Lemma match_any_values ix key : Inv ix ->
    fst (ix_match_any tmatch ix key) = filter (fun s => test tmatch s key) (map snd (ix_live ix)).
  Proof.
    intros HI. destruct (get_filter_ok ix key HI) as (_ & _ & Hall).
    unfold ix_match_any. cbn [fst].
    set (f := get_filter tmatch ix key) in *.
    assert (E : filter (fun e => mem_N (fst e) (f_ids f)) (ix_live ix) =
                filter (fun e => test tmatch (snd e) key) (ix_live ix)).
    { apply filter_ext_in. intros [id s] Hin. cbn [fst snd]. apply Hall. assumption. }
    rewrite E. clear. induction (ix_live ix) as [|[id s] l IH]; cbn; [reflexivity|].
    destruct (test tmatch s key); cbn; rewrite IH; reflexivity.
  Qed.

  Lemma match_any_inv ix key : Inv ix -> Inv (snd (ix_match_any tmatch ix key)).
  Proof.
    intros HI. destruct (get_filter_ok ix key HI) as (Hk & (Hle & Hids & Hmem) & Hall).
    destruct HI as (Hsort & Hlt & Hc).
    unfold ix_match_any. cbn [snd]. set (f := get_filter tmatch ix key) in *.
    repeat split; cbn [ix_next ix_live ix_cache]; try assumption.
    apply f_set_forall.
    - repeat split; cbn [f_key f_scanned f_ids ix_next ix_live].
      + assumption.
      + apply Forall_forall. intros id Hin. apply filter_In in Hin. destruct Hin as [Hin _].
        rewrite Forall_forall in Hids. auto.
      + intros id s Hin Hlt2.
        assert (Hin' : mem_N id (map fst (ix_live ix)) = true) by (apply mem_N_in, (in_map fst _ _ Hin)).
        transitivity (mem_N id (f_ids f)); [|apply Hall; assumption].
        destruct (mem_N id (f_ids f)) eqn:Em.
        * apply mem_N_in. apply filter_In. split; [apply mem_N_in; assumption|assumption].
        * apply not_true_is_false. intros Hm. apply mem_N_in in Hm. apply filter_In in Hm.
          destruct Hm as [Hm _]. apply mem_N_in in Hm. congruence.
    - eapply Forall_impl; [|exact Hc]. intros f' (A & B & C). repeat split; assumption.
  Qed.

  Lemma add_inv ix s : Inv ix -> Inv (ix_add ix s).
  Proof.
    intros (Hsort & Hlt & Hc). unfold ix_add. repeat split; cbn [ix_next ix_live ix_cache].
    - rewrite map_app. cbn [map fst].
      assert (G : forall l : list (N * sub), StronglySorted N.lt (map fst l) -> Forall (fun e => fst e < ix_next ix) l ->
                  StronglySorted N.lt (map fst l ++ [ix_next ix])).
      { induction l as [|[i x] l IH]; cbn; intros Hs Hl; [repeat constructor|].
        apply StronglySorted_inv in Hs. destruct Hs as [Hs Ha]. inversion Hl; subst.
        constructor; [apply IH; assumption|].
        apply Forall_app. split; [assumption|]. constructor; [assumption|constructor]. }
      apply G; assumption.
    - apply Forall_app. split.
      + eapply Forall_impl; [|exact Hlt]. cbn. intros. lia.
      + constructor; [cbn; lia|constructor].
    - eapply Forall_impl; [|exact Hc]. intros f (A & B & C). repeat split; cbn [ix_next ix_live].
      + lia.
      + assumption.
      + intros id s' Hin Hl. apply in_app_or in Hin. destruct Hin as [Hin|[E|[]]].
        * apply C; assumption.
        * inversion E; subst. lia.
  Qed.

  Lemma remove_inv ix l : Inv ix -> Inv (ix_remove ix l).
  Proof.
    intros (Hsort & Hlt & Hc). unfold ix_remove. repeat split; cbn [ix_next ix_live ix_cache].
    - clear -Hsort. induction (ix_live ix) as [|[i x] ls IH]; cbn; [constructor|].
      cbn in Hsort. apply StronglySorted_inv in Hsort. destruct Hsort as [Hs Ha].
      destruct (negb (N.eqb (s_label x) l)); cbn; [|apply IH; assumption].
      constructor; [apply IH; assumption|].
      apply Forall_forall. intros y Hy. apply in_map_iff in Hy. destruct Hy as (e & <- & He).
      apply filter_In in He. destruct He as [He _].
      rewrite Forall_forall in Ha. apply Ha. apply in_map. assumption.
    - apply Forall_forall. intros e He. apply filter_In in He. destruct He as [He _].
      rewrite Forall_forall in Hlt. auto.
    - eapply Forall_impl; [|exact Hc]. intros f (A & B & C). repeat split; cbn [ix_next ix_live]; try assumption.
      intros id s Hin. apply filter_In in Hin. destruct Hin as [Hin _]. apply C. assumption.
  Qed.

  Lemma evict_inv ix keep : Inv ix -> Inv (ix_evict ix keep).
  Proof.
    intros (Hsort & Hlt & Hc). unfold ix_evict. repeat split; cbn [ix_next ix_live ix_cache]; try assumption.
    apply keep_some_forall.
    eapply Forall_impl; [|exact Hc]. intros f (A & B & C). repeat split; assumption.
  Qed.

  Lemma filter_map_snd (P : sub -> bool) (l : list (N * sub)) :
    filter P (map snd l) = map snd (filter (fun e => P (snd e)) l).
  Proof. induction l as [|[i s] l IH]; cbn; [reflexivity|]. destruct (P s); cbn; rewrite IH; reflexivity. Qed.

  (* ---------- the theorem ---------- *)

  Theorem recipients_exact_from ops : forall ix live,
    Inv ix -> map snd (ix_live ix) = live -> ops_ok live ops = true ->
    snd (ix_run tmatch ix ops) = spec_run tmatch live ops.
  Proof.
    induction ops as [|o ops IH]; intros ix live HI Hl Hok; [reflexivity|].
    cbn [ops_ok] in Hok. apply andb_true_iff in Hok. destruct Hok as [Ho Hok].
    cbn [ix_run spec_run].
    destruct o as [s|l|ts p|keep]; cbn [ix_step].
    - specialize (IH (ix_add ix s) (live ++ [s]) (add_inv ix s HI)).
      destruct (ix_run tmatch (ix_add ix s) ops) as [ix2 outs]. cbn [snd] in *. f_equal.
      apply IH; [|assumption]. cbn [ix_add ix_live]. rewrite map_app, Hl. reflexivity.
    - specialize (IH (ix_remove ix l) (filter (fun s => negb (N.eqb (s_label s) l)) live) (remove_inv ix l HI)).
      destruct (ix_run tmatch (ix_remove ix l) ops) as [ix2 outs]. cbn [snd] in *. f_equal.
      apply IH; [|assumption]. cbn [ix_remove ix_live]. rewrite <- Hl, filter_map_snd. reflexivity.
    - pose proof (match_any_values ix (encode ts p) HI) as Hv.
      pose proof (match_any_inv ix (encode ts p) HI) as Hi2.
      destruct (ix_match_any tmatch ix (encode ts p)) as [r ix'] eqn:E. cbn [fst snd] in *.
      assert (Hlive' : map snd (ix_live ix') = live).
      { unfold ix_match_any in E. inversion E; subst. cbn [ix_live]. reflexivity. }
      specialize (IH ix' live Hi2 Hlive' Hok).
      destruct (ix_run tmatch ix' ops) as [ix2 outs]. cbn [snd] in *. rewrite IH. f_equal.
      f_equal. unfold expected_recipients. rewrite Hv, Hl. f_equal.
      apply filter_ext. intros s. apply test_encode. destruct ts; [discriminate|discriminate].
    - specialize (IH (ix_evict ix keep) live (evict_inv ix keep HI)).
      destruct (ix_run tmatch (ix_evict ix keep) ops) as [ix2 outs]. cbn [snd] in *. f_equal.
      apply IH; assumption.
  Qed.

  Theorem recipients_exact ops :
    ops_ok [] ops = true -> snd (ix_run tmatch ix_empty ops) = spec_run tmatch [] ops.
  Proof. intros H. apply recipients_exact_from; [apply Inv_empty|reflexivity|assumption]. Qed.
End P.

(* the filter key identifies the (sorted) topic list and the private flag *)
Theorem encode_injective ts p ts' p' :
  ts <> [] -> ts' <> [] -> encode ts p = encode ts' p' -> sort_strs ts = sort_strs ts' /\ p = p'.
Proof.
  intros H H' E. pose proof (decode_encode ts p H) as D. rewrite E, (decode_encode ts' p' H') in D.
  inversion D; auto.
Qed.

(* C01 companions: what "matches" means for a private update *)
Lemma private_needs_claim m sub al ts :
  match_topics_with m sub al ts true = true ->
  exists t s, In t ts /\ In s al /\ m t s = true.
Proof.
  rewrite match_topics_with_spec. unfold match_topics_spec. cbn [negb orb].
  rewrite andb_true_iff. intros [_ H]. apply existsb_exists in H. destruct H as (t & Ht & H).
  apply existsb_exists in H. destruct H as (s & Hs & H). eauto.
Qed.

Lemma anonymous_never_private m sub ts : match_topics_with m sub [] ts true = false.
Proof.
  rewrite match_topics_with_spec. unfold match_topics_spec. cbn [negb orb].
  replace (existsb (fun t => existsb (m t) []) ts) with false; [apply andb_false_r|].
  induction ts as [|t ts IH]; cbn; [reflexivity|assumption].
Qed.
