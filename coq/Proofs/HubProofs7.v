(* HubProofs7.v — C06 / C07 (hub level, persistent transport, full retention): in every reachable state, under every
   schedule of publishers, subscriber handlers, Close and crashes, what a subscriber has been sent is a gap-free prefix
   of its ideal sequence - the matching part of the committed order that follows the requested id up to the cut-off
   read at registration, then the matching part of everything committed after the cut-off - and equals it while the
   subscriber is live and has not been cut off. *)
From Mercure Require Import Base Hub HubProofs HubProofs2 HubProofs4 HubProofs6.
From Coq Require Import Lia.

Definition prefix {A} (a b : list A) : Prop := exists r, b = a ++ r.

Lemma prefix_refl {A} (a : list A) : prefix a a.
Proof. exists []. rewrite app_nil_r. reflexivity. Qed.
Lemma prefix_nil {A} (a : list A) : prefix [] a.
Proof. exists a. reflexivity. Qed.
Lemma prefix_app {A} (a b : list A) : prefix a (a ++ b).
Proof. exists b. reflexivity. Qed.
Lemma prefix_trans {A} (a b c : list A) : prefix a b -> prefix b c -> prefix a c.
Proof. intros [r ->] [r' ->]. exists (r ++ r'). rewrite app_assoc. reflexivity. Qed.
Lemma prefix_app_r {A} (a b c : list A) : prefix a b -> prefix a (b ++ c).
Proof. intros H. eapply prefix_trans; [exact H|apply prefix_app]. Qed.

(* the stored entries of a committed order: sequence numbers from s on *)
Fixpoint entries_from (s : N) (l : list N) : list (N * N) :=
  match l with [] => [] | x :: t => (s, x) :: entries_from (s + 1) t end.

(* what follows the first occurrence of r *)
Fixpoint after (r : N) (l : list N) : list N :=
  match l with [] => [] | x :: t => if N.eqb r x then t else after r t end.

Lemma entries_from_app s l1 l2 : entries_from s (l1 ++ l2) = entries_from s l1 ++ entries_from (s + N.of_nat (length l1)) l2.
Proof.
  revert s. induction l1 as [|x l1 IH]; intros s; cbn [app entries_from length].
  - rewrite N.add_0_r. reflexivity.
  - rewrite IH. replace (s + 1 + N.of_nat (length l1)) with (s + N.of_nat (S (length l1))) by lia. reflexivity.
Qed.

Lemma last_default {A} (a : A) l d d' : last (a :: l) d = last (a :: l) d'.
Proof. revert a. induction l as [|b l IH]; intros a; [reflexivity|]. cbn [last]. apply (IH b). Qed.

Lemma entries_from_last s l : last (map fst (entries_from (s + 1) l)) s = s + N.of_nat (length l).
Proof.
  revert s. induction l as [|x l IH]; intros s; [cbn; lia|].
  cbn [entries_from map length]. destruct l as [|y l].
  - cbn. lia.
  - change (last (map fst (entries_from (s + 1 + 1) (y :: l))) s = s + N.of_nat (S (length (y :: l)))).
    pose proof (IH (s + 1)) as E. cbn [entries_from map] in E |- *.
    rewrite (last_default _ _ s (s + 1)). rewrite E. cbn [length]. lia.
Qed.

Lemma entries_from_length s l : length (entries_from s l) = length l.
Proof. revert s. induction l as [|x l IH]; intros s; cbn; [reflexivity|]. rewrite IH. reflexivity. Qed.

Lemma skipn_skipn' {A} a b (l : list A) : skipn a (skipn b l) = skipn (b + a) l.
Proof. revert l. induction b as [|b IH]; intros l; [reflexivity|]. destruct l as [|x l]; [rewrite !skipn_nil; reflexivity|]. cbn [skipn Nat.add]. apply IH. Qed.

(* the entries with a sequence number above m form a suffix *)
Lemma filter_entries m l : forall s,
  filter (fun e : N * N => N.ltb m (fst e)) (entries_from s l) =
  entries_from (s + N.of_nat (N.to_nat (m + 1 - s))) (skipn (N.to_nat (m + 1 - s)) l).
Proof.
  induction l as [|x l IH]; intros s; cbn [entries_from filter].
  - rewrite skipn_nil. reflexivity.
  - cbn [fst]. destruct (N.ltb_spec m s) as [Hlt|Hge].
    + replace (N.to_nat (m + 1 - s)) with 0%nat by lia. cbn [skipn entries_from N.of_nat]. rewrite N.add_0_r. f_equal.
      rewrite IH. replace (N.to_nat (m + 1 - (s + 1))) with 0%nat by lia. cbn [skipn N.of_nat]. rewrite N.add_0_r. reflexivity.
    + rewrite IH. replace (N.to_nat (m + 1 - s)) with (S (N.to_nat (m + 1 - (s + 1)))) by lia. cbn [skipn]. f_equal. lia.
Qed.

Ltac sproj := cbn [hs_req hs_phase hs_disc hs_ready hs_closed hs_out hs_liveq hs_sent hs_recvd hs_cut hs_resp hs_ended].

Ltac spl := repeat (match goal with |- _ /\ _ => split; [assumption|] end).

Section P.
  Variable mt : nat -> N -> bool.
  Variable cap : nat.
  Variable tracking : bool.

  Notation sub_step := (sub_step mt cap tracking).
  Notation publish := (publish mt cap).
  Notation add_event := (add_event mt cap tracking).
  Notation s_dispatch := (s_dispatch cap).
  Notation fan_out := (fan_out mt cap).

  (* the remaining history scan, if it is not cut short: what it will still send *)
  Fixpoint scan_rest (i : nat) (cut : N) (rq : req) (snap : list (N * N)) (found : bool) : list N :=
    match snap with
    | [] => []
    | (sq, id) :: t =>
        if negb found then scan_rest i cut rq t (match rq with ReqId r => N.eqb r id | _ => false end)
        else if N.ltb cut sq then []
        else (if mt i id then [id] else []) ++ scan_rest i cut rq t true
    end.

  Definition hist_part (i : nat) (C : list N) (cut : N) (rq : req) : list N :=
    filter (mt i) (match rq with
                   | NoReq => []
                   | Earliest => firstn (N.to_nat cut) C
                   | ReqId r => after r (firstn (N.to_nat cut) C)
                   end).
  Definition live_part (i : nat) (C : list N) (cut : N) : list N := filter (mt i) (skipn (N.to_nat cut) C).
  Definition ideal (i : nat) (C : list N) (cut : N) (rq : req) : list N := hist_part i C cut rq ++ live_part i C cut.
  (* the local transport keeps no history: whatever is requested, nothing is replayed *)
  Definition eff_req (persistent : bool) (rq : req) : req := if persistent then rq else NoReq.

  (* with bounded retention the scan sees only the retained entries: k0 is the number of entries that had been dropped
     from the front of the history when the subscriber's scan took its snapshot *)
  Definition hseg (C : list N) (k0 : nat) (cut : N) : list N := firstn (N.to_nat cut - k0) (skipn k0 C).
  Definition hist_part_k (i : nat) (C : list N) (k0 : nat) (cut : N) (rq : req) : list N :=
    filter (mt i) (match rq with
                   | NoReq => []
                   | Earliest => hseg C k0 cut
                   | ReqId r => after r (hseg C k0 cut)
                   end).
  Definition ideal_k (i : nat) (C : list N) (k0 : nat) (cut : N) (rq : req) : list N := hist_part_k i C k0 cut rq ++ live_part i C cut.

  Lemma hseg_0 C cut : hseg C 0 cut = firstn (N.to_nat cut) C.
  Proof. unfold hseg. rewrite Nat.sub_0_r. reflexivity. Qed.
  Lemma hist_part_k_0 i C cut rq : hist_part_k i C 0 cut rq = hist_part i C cut rq.
  Proof. unfold hist_part_k, hist_part. rewrite hseg_0. reflexivity. Qed.
  Lemma ideal_k_0 i C cut rq : ideal_k i C 0 cut rq = ideal i C cut rq.
  Proof. unfold ideal_k, ideal. rewrite hist_part_k_0. reflexivity. Qed.

  Lemma scan_found i cut rq l : forall s,
    scan_rest i cut rq (entries_from s l) true = filter (mt i) (firstn (N.to_nat (cut + 1 - s)) l).
  Proof.
    induction l as [|x l IH]; intros s; cbn [entries_from scan_rest negb].
    - rewrite firstn_nil. reflexivity.
    - destruct (N.ltb_spec cut s) as [Hlt|Hge].
      + replace (N.to_nat (cut + 1 - s)) with 0%nat by lia. reflexivity.
      + replace (N.to_nat (cut + 1 - s)) with (S (N.to_nat (cut + 1 - (s + 1)))) by lia.
        cbn [firstn filter]. rewrite IH. destruct (mt i x); reflexivity.
  Qed.

  Lemma scan_not_found i cut r l : forall s,
    scan_rest i cut (ReqId r) (entries_from s l) false = filter (mt i) (after r (firstn (N.to_nat (cut + 1 - s)) l)).
  Proof.
    induction l as [|x l IH]; intros s; cbn [entries_from scan_rest negb].
    - rewrite firstn_nil. reflexivity.
    - destruct (N.eqb_spec r x) as [->|Hne].
      + rewrite scan_found. destruct (N.ltb_spec cut s) as [Hlt|Hge].
        * replace (N.to_nat (cut + 1 - s)) with 0%nat by lia. replace (N.to_nat (cut + 1 - (s + 1))) with 0%nat by lia. reflexivity.
        * replace (N.to_nat (cut + 1 - s)) with (S (N.to_nat (cut + 1 - (s + 1)))) by lia.
          cbn [firstn after]. rewrite N.eqb_refl. reflexivity.
      + rewrite IH. destruct (N.ltb_spec cut s) as [Hlt|Hge].
        * replace (N.to_nat (cut + 1 - s)) with 0%nat by lia. replace (N.to_nat (cut + 1 - (s + 1))) with 0%nat by lia. reflexivity.
        * replace (N.to_nat (cut + 1 - s)) with (S (N.to_nat (cut + 1 - (s + 1)))) by lia.
          cbn [firstn after]. apply N.eqb_neq in Hne. rewrite Hne. reflexivity.
  Qed.

  Lemma scan_not_found_other i cut rq l : (forall r, rq <> ReqId r) -> forall s, scan_rest i cut rq (entries_from s l) false = [].
  Proof.
    intros Hr. induction l as [|x l IH]; intros s; cbn [entries_from scan_rest negb]; [reflexivity|].
    destruct rq; try apply IH. exfalso. eapply Hr. reflexivity.
  Qed.

  (* the scan started on the whole stored history sends exactly the history part *)
  Lemma scan_whole i cut rq C :
    rq <> NoReq ->
    scan_rest i cut rq (entries_from 1 C) (match rq with Earliest => true | _ => false end) = hist_part i C cut rq.
  Proof.
    intros Hrq. unfold hist_part. destruct rq as [| |r]; [contradiction| |].
    - rewrite scan_found. replace (cut + 1 - 1) with cut by lia. reflexivity.
    - rewrite scan_not_found. replace (cut + 1 - 1) with cut by lia. reflexivity.
  Qed.

  Lemma hist_part_grow i C cut rq u : (N.to_nat cut <= length C)%nat -> hist_part i (C ++ [u]) cut rq = hist_part i C cut rq.
  Proof.
    intros H. unfold hist_part. rewrite firstn_app. replace (N.to_nat cut - length C)%nat with 0%nat by lia.
    cbn [firstn]. rewrite app_nil_r. reflexivity.
  Qed.

  Lemma live_part_grow i C cut u : (N.to_nat cut <= length C)%nat ->
    live_part i (C ++ [u]) cut = live_part i C cut ++ (if mt i u then [u] else []).
  Proof.
    intros H. unfold live_part. rewrite skipn_app. replace (N.to_nat cut - length C)%nat with 0%nat by lia.
    cbn [skipn]. rewrite filter_app. cbn [filter]. destruct (mt i u); reflexivity.
  Qed.

  Lemma ideal_grow i C cut rq u : (N.to_nat cut <= length C)%nat ->
    ideal i (C ++ [u]) cut rq = ideal i C cut rq ++ (if mt i u then [u] else []).
  Proof. intros H. unfold ideal. rewrite hist_part_grow, live_part_grow by assumption. rewrite app_assoc. reflexivity. Qed.

  Lemma live_part_all i C : live_part i C (N.of_nat (length C)) = [].
  Proof. unfold live_part. rewrite Nat2N.id, skipn_all. reflexivity. Qed.

  Lemma scan_whole_k i cut rq C k0 :
    rq <> NoReq ->
    scan_rest i cut rq (entries_from (N.of_nat k0 + 1) (skipn k0 C)) (match rq with Earliest => true | _ => false end) = hist_part_k i C k0 cut rq.
  Proof.
    intros Hrq. unfold hist_part_k, hseg. destruct rq as [| |r]; [contradiction| |].
    - rewrite scan_found. replace (N.to_nat (cut + 1 - (N.of_nat k0 + 1))) with (N.to_nat cut - k0)%nat by lia. reflexivity.
    - rewrite scan_not_found. replace (N.to_nat (cut + 1 - (N.of_nat k0 + 1))) with (N.to_nat cut - k0)%nat by lia. reflexivity.
  Qed.

  Lemma hseg_grow C k0 cut u : (N.to_nat cut <= length C)%nat -> hseg (C ++ [u]) k0 cut = hseg C k0 cut.
  Proof.
    intros H. unfold hseg. rewrite skipn_app, firstn_app, skipn_length.
    replace (N.to_nat cut - k0 - (length C - k0))%nat with 0%nat by lia. cbn [firstn]. rewrite app_nil_r. reflexivity.
  Qed.

  Lemma hist_part_k_grow i C k0 cut rq u : (N.to_nat cut <= length C)%nat -> hist_part_k i (C ++ [u]) k0 cut rq = hist_part_k i C k0 cut rq.
  Proof. intros H. unfold hist_part_k. rewrite hseg_grow by assumption. reflexivity. Qed.

  Lemma ideal_k_grow i C k0 cut rq u : (N.to_nat cut <= length C)%nat ->
    ideal_k i (C ++ [u]) k0 cut rq = ideal_k i C k0 cut rq ++ (if mt i u then [u] else []).
  Proof. intros H. unfold ideal_k. rewrite hist_part_k_grow, live_part_grow by assumption. rewrite app_assoc. reflexivity. Qed.

  (* ---- what the critical sections do to each subscriber ---- *)
  Definition mem_nat (j : nat) (l : list nat) : bool := existsb (Nat.eqb j) l.
  Lemma mem_nat_In j l : mem_nat j l = true <-> In j l.
  Proof.
    unfold mem_nat. rewrite existsb_exists. split.
    - intros (x & Hx & E). apply Nat.eqb_eq in E. subst. assumption.
    - intros H. exists j. split; [assumption|apply Nat.eqb_refl].
  Qed.

  Lemma fan_out_nth u idx : NoDup idx -> forall subs j,
    nth_error (fan_out subs idx u) j =
    match nth_error subs j with
    | Some s => Some (if mem_nat j idx && mt j u then fst (s_dispatch s u false) else s)
    | None => None
    end.
  Proof.
    induction 1 as [|i idx Hni ND IH]; intros subs j; unfold mem_nat in *; cbn [Hub.fan_out existsb].
    - destruct (nth_error subs j); reflexivity.
    - destruct (nth_error subs i) as [si|] eqn:Ei.
      + destruct (mt i u) eqn:Em.
        * rewrite IH. destruct (Nat.eq_dec i j) as [->|Hne].
          -- rewrite (nth_upd_eq _ _ _ _ Ei), Ei, Nat.eqb_refl, Em. cbn [orb andb].
             assert (Hm : existsb (Nat.eqb j) idx = false).
             { destruct (existsb (Nat.eqb j) idx) eqn:E; [|reflexivity]. apply mem_nat_In in E. contradiction. }
             rewrite Hm. reflexivity.
          -- rewrite (nth_upd_neq _ _ _ _ Hne). destruct (nth_error subs j); [|reflexivity].
             assert (E : Nat.eqb j i = false) by (apply Nat.eqb_neq; congruence). rewrite E. reflexivity.
        * rewrite IH. destruct (nth_error subs j) eqn:Ej; [|reflexivity].
          destruct (Nat.eqb_spec j i) as [->|Hne]; [|reflexivity]. rewrite Em. cbn [orb]. rewrite !andb_false_r. reflexivity.
      + rewrite IH. destruct (nth_error subs j) eqn:Ej; [|reflexivity].
        destruct (Nat.eqb_spec j i) as [->|Hne]; [congruence|reflexivity].
  Qed.

  Lemma disconnect_all_nth idx : NoDup idx -> forall subs j,
    nth_error (disconnect_all subs idx) j =
    match nth_error subs j with
    | Some s => Some (if mem_nat j idx then s_disconnect s else s)
    | None => None
    end.
  Proof.
    induction 1 as [|i idx Hni ND IH]; intros subs j; unfold mem_nat in *; cbn [disconnect_all existsb].
    - destruct (nth_error subs j); reflexivity.
    - destruct (nth_error subs i) as [si|] eqn:Ei.
      + rewrite IH. destruct (Nat.eq_dec i j) as [->|Hne].
        * rewrite (nth_upd_eq _ _ _ _ Ei), Ei, Nat.eqb_refl. cbn [orb].
          assert (Hm : existsb (Nat.eqb j) idx = false).
          { destruct (existsb (Nat.eqb j) idx) eqn:E; [|reflexivity]. apply mem_nat_In in E. contradiction. }
          rewrite Hm. reflexivity.
        * rewrite (nth_upd_neq _ _ _ _ Hne). destruct (nth_error subs j); [|reflexivity].
          assert (E : Nat.eqb j i = false) by (apply Nat.eqb_neq; congruence). rewrite E. reflexivity.
      + rewrite IH. destruct (nth_error subs j) eqn:Ej; [|reflexivity].
        destruct (Nat.eqb_spec j i) as [->|Hne]; [congruence|reflexivity].
  Qed.

  (* ---- the invariant ---- *)
  Definition SubOk (p : bool) (C : list N) (idx : list nat) (cd : bool) (k0 : nat) (i : nat) (s : hsub) : Prop :=
    (N.to_nat (hs_cut s) <= length C)%nat /\ hs_closed s = hs_disc s /\
    prefix (hs_sent s) (ideal_k i C k0 (hs_cut s) (eff_req p (hs_req s))) /\
    match hs_phase s with
    | PNew | PAnnounced => hs_sent s = [] /\ hs_liveq s = [] /\ ~ In i idx /\ hs_ready s = false
    | PIndexed => In i idx /\ hs_ready s = false /\ hs_sent s = [] /\ (hs_disc s = false -> hs_liveq s = live_part i C (hs_cut s))
    | PScan snap found _ =>
        In i idx /\ hs_ready s = false /\
        (hs_disc s = false ->
         hs_sent s ++ scan_rest i (hs_cut s) (hs_req s) snap found = hist_part_k i C k0 (hs_cut s) (eff_req p (hs_req s)) /\
         hs_liveq s = live_part i C (hs_cut s))
    | PHistDone =>
        In i idx /\ hs_ready s = false /\
        (hs_disc s = false -> hs_sent s = hist_part_k i C k0 (hs_cut s) (eff_req p (hs_req s)) /\ hs_liveq s = live_part i C (hs_cut s))
    | PFlush rest =>
        In i idx /\ hs_ready s = false /\ hs_disc s = false /\
        exists done, hs_liveq s = done ++ rest /\ hs_sent s = hist_part_k i C k0 (hs_cut s) (eff_req p (hs_req s)) ++ done /\
                     hs_liveq s = live_part i C (hs_cut s)
    | PLive _ => hs_disc s = false -> In i idx /\ hs_ready s = true /\ hs_sent s = ideal_k i C k0 (hs_cut s) (eff_req p (hs_req s))
    | PLeaving | PRemoved => hs_disc s = true
    | PGone => hs_disc s = true \/ ~ In i idx
    | PRefused => In i idx -> cd = true /\ p = true
    end.

  (* how many entries retention has dropped from the front of the stored history *)
  Definition dropped (st : hstate) : nat := (length (h_committed st) - length (h_db st))%nat.

  Definition Inv (st : hstate) : Prop :=
    (h_persistent st = true ->
       h_db st = entries_from (N.of_nat (dropped st) + 1) (skipn (dropped st) (h_committed st)) /\
       h_seq st = N.of_nat (length (h_committed st)) /\
       (h_committed st <> [] -> (dropped st < length (h_committed st))%nat) /\
       (h_size st = 0 -> dropped st = 0%nat)) /\
    (h_persistent st = false -> h_db st = []) /\
    h_lastseq st = N.of_nat (length (h_committed st)) /\ NoDup (h_index st) /\
    forall i s, nth_error (h_subs st) i = Some s ->
      exists k0, (k0 <= dropped st)%nat /\ SubOk (h_persistent st) (h_committed st) (h_index st) (h_closed_done st) k0 i s.

  Lemma prefix_grow i C k0 cut rq u l :
    (N.to_nat cut <= length C)%nat -> prefix l (ideal_k i C k0 cut rq) -> prefix l (ideal_k i (C ++ [u]) k0 cut rq).
  Proof. intros H P. rewrite ideal_k_grow by assumption. apply prefix_app_r. assumption. Qed.

  (* a subscriber untouched by a commit that it does not have to see *)
  Lemma subok_commit_untouched p C idx cd k0 i s u :
    SubOk p C idx cd k0 i s ->
    (mt i u = false \/ hs_disc s = true \/ ~ In i idx) ->
    (match hs_phase s with PRefused => ~ In i idx | _ => True end) ->
    SubOk p (C ++ [u]) idx cd k0 i s.
  Proof.
    intros (Hc & Hf & Hp & Hph) Hwhy Hr. unfold SubOk. rewrite app_length. cbn [length].
    split; [lia|]. split; [assumption|]. split; [apply prefix_grow; assumption|].
    destruct (hs_phase s) eqn:Ep; try assumption.
    - (* PIndexed *) destruct Hph as (A & B & D & E). repeat split; try assumption. intros Hd. rewrite live_part_grow by assumption.
      destruct Hwhy as [Hm|[Hx|Hx]]; [rewrite Hm, app_nil_r; auto|congruence|contradiction].
    - (* PScan *) destruct Hph as (A & B & E). repeat split; try assumption; destruct (E H) as [E1 E2].
      + rewrite hist_part_k_grow by assumption. assumption.
      + rewrite live_part_grow by assumption. destruct Hwhy as [Hm|[Hx|Hx]]; [rewrite Hm, app_nil_r; auto|congruence|contradiction].
    - (* PHistDone *) destruct Hph as (A & B & E). repeat split; try assumption; destruct (E H) as [E1 E2].
      + rewrite hist_part_k_grow by assumption. assumption.
      + rewrite live_part_grow by assumption. destruct Hwhy as [Hm|[Hx|Hx]]; [rewrite Hm, app_nil_r; auto|congruence|contradiction].
    - (* PFlush *) destruct Hph as (A & B & D & done & E1 & E2 & E3). repeat split; try assumption. exists done.
      rewrite hist_part_k_grow, live_part_grow by assumption.
      destruct Hwhy as [Hm|[Hx|Hx]]; [rewrite Hm, app_nil_r; auto|congruence|contradiction].
    - (* PLive *) intros Hd. destruct (Hph Hd) as (A & B & E). repeat split; try assumption. rewrite ideal_k_grow by assumption.
      destruct Hwhy as [Hm|[Hx|Hx]]; [rewrite Hm, app_nil_r; auto|congruence|contradiction].
  Qed.
  Lemma subok_commit_touched p C idx cd k0 i s u :
    SubOk p C idx cd k0 i s -> mt i u = true -> In i idx -> hs_disc s = false ->
    (forall r, hs_phase s <> PFlush r) -> hs_phase s <> PRefused ->
    SubOk p (C ++ [u]) idx cd k0 i (fst (s_dispatch s u false)).
  Proof.
    intros (Hc & Hf & Hp & Hph) Hm Hin Hd Hnf Hnr. unfold Hub.s_dispatch. rewrite Hd. cbn [negb andb].
    destruct (hs_phase s) eqn:Ep; try (exfalso; tauto); try (exfalso; eapply Hnf; reflexivity); try congruence.
    - (* PIndexed *) destruct Hph as (A & B & D & E). rewrite B. cbn [negb fst]. unfold SubOk, s_queue. sproj. rewrite Ep, app_length. cbn [length].
      split; [lia|]. split; [assumption|]. split; [apply prefix_grow; assumption|]. repeat split; try assumption.
      intros _. rewrite live_part_grow, Hm, (E Hd) by assumption. reflexivity.
    - (* PScan *) destruct Hph as (A & B & E). rewrite B. cbn [negb fst]. unfold SubOk, s_queue. sproj. rewrite Ep, app_length. cbn [length].
      split; [lia|]. split; [assumption|]. split; [apply prefix_grow; assumption|]. repeat split; try assumption; destruct (E Hd) as [E1 E2].
      + rewrite hist_part_k_grow by assumption. assumption.
      + rewrite live_part_grow, Hm, E2 by assumption. reflexivity.
    - (* PHistDone *) destruct Hph as (A & B & E). rewrite B. cbn [negb fst]. unfold SubOk, s_queue. sproj. rewrite Ep, app_length. cbn [length].
      split; [lia|]. split; [assumption|]. split; [apply prefix_grow; assumption|]. repeat split; try assumption; destruct (E Hd) as [E1 E2].
      + rewrite hist_part_k_grow by assumption. assumption.
      + rewrite live_part_grow, Hm, E2 by assumption. reflexivity.
    - (* PLive *) destruct (Hph Hd) as (A & B & E). rewrite B. cbn [negb].
      destruct (Nat.ltb (length (hs_out s)) cap); cbn [fst]; unfold SubOk, s_send, s_cutoff; sproj; rewrite Ep, app_length; cbn [length].
      + split; [lia|]. split; [assumption|]. rewrite ideal_k_grow, Hm, E by assumption. split; [apply prefix_refl|]. intros _. auto.
      + split; [lia|]. split; [reflexivity|]. split; [apply prefix_grow; assumption|]. discriminate.
    - (* PGone *) destruct Hph; [congruence|contradiction].
  Qed.

  Lemma retain_shape size coin (C : list N) (d : nat) u :
    (d <= length C)%nat ->
    exists d', (d <= d')%nat /\ (d' < length (C ++ [u]))%nat /\ (size = 0 -> d' = d) /\
      retain size coin (N.of_nat (length C) + 1) (entries_from (N.of_nat d + 1) (skipn d C) ++ [(N.of_nat (length C) + 1, u)]) =
      entries_from (N.of_nat d' + 1) (skipn d' (C ++ [u])).
  Proof.
    intros Hd.
    assert (E : entries_from (N.of_nat d + 1) (skipn d C) ++ [(N.of_nat (length C) + 1, u)] = entries_from (N.of_nat d + 1) (skipn d (C ++ [u]))).
    { rewrite skipn_app. replace (d - length C)%nat with 0%nat by lia. cbn [skipn]. rewrite entries_from_app, skipn_length. cbn [entries_from].
      do 3 f_equal. lia. }
    rewrite E. unfold retain. destruct (N.eqb size 0 || negb coin || N.leb (N.of_nat (length C) + 1) size) eqn:Ec.
    - exists d. rewrite app_length. cbn [length]. repeat split; auto; lia.
    - apply orb_false_iff in Ec. destruct Ec as [Ec Ec2]. apply orb_false_iff in Ec. destruct Ec as [Ec0 _].
      apply N.eqb_neq in Ec0. apply N.leb_gt in Ec2.
      rewrite filter_entries, skipn_skipn'.
      set (dl := N.to_nat (N.of_nat (length C) + 1 - size + 1 - (N.of_nat d + 1))).
      exists (d + dl)%nat. rewrite app_length. cbn [length]. split; [lia|]. split; [subst dl; lia|]. split; [intros; contradiction|].
      f_equal. lia.
  Qed.

  Lemma dropped_shape (C : list N) (db : list (N * N)) d' s :
    (d' <= length C)%nat -> db = entries_from s (skipn d' C) -> (length C - length db)%nat = d'.
  Proof. intros H ->. rewrite entries_from_length, skipn_length. lia. Qed.

  Lemma inv_publish st u coin st' : Inv st -> publish st u coin = (st', PubOk) -> Inv st' /\ (dropped st <= dropped st')%nat.
  Proof.
    intros (Hdbq & Hloc & Hls & ND & Hsubs). unfold Hub.publish.
    destruct (h_closed_done st && h_persistent st) eqn:Ecp; [discriminate|].
    destruct (Nat.eqb (h_close st) 2); [discriminate|].
    destruct (existsb _ (h_index st)) eqn:Efl; [discriminate|].
    intros E. inversion E; subst; clear E.
    assert (Hsub' : forall j s', nth_error (fan_out (h_subs st) (h_index st) u) j = Some s' ->
                    exists k0, (k0 <= dropped st)%nat /\
                    SubOk (h_persistent st) (h_committed st ++ [u]) (h_index st) (h_closed_done st) k0 j s').
    { intros j s' Hj. rewrite (fan_out_nth _ _ ND) in Hj.
      destruct (nth_error (h_subs st) j) as [s|] eqn:Ej; [|discriminate]. inversion Hj; subst; clear Hj.
      destruct (Hsubs _ _ Ej) as (k0 & Hk0 & Hok). exists k0. split; [assumption|].
      assert (Hrf : match hs_phase s with PRefused => ~ In j (h_index st) | _ => True end).
      { destruct (hs_phase s) eqn:Ep; try exact I. destruct Hok as (_ & _ & _ & Hr). rewrite Ep in Hr. intros Hin.
        destruct (Hr Hin) as [R1 R2]. rewrite R1, R2 in Ecp. discriminate. }
      destruct (mem_nat j (h_index st)) eqn:Em; cbn [andb].
      - apply mem_nat_In in Em. destruct (mt j u) eqn:Emt.
        + destruct (hs_disc s) eqn:Ed.
          * unfold Hub.s_dispatch. rewrite Ed. cbn [fst]. apply subok_commit_untouched; auto.
          * apply subok_commit_touched; auto.
            -- intros r Ep.
               assert (T : existsb (fun i => match nth_error (h_subs st) i with Some s0 => mt i u && flushing s0 | None => false end) (h_index st) = true).
               { apply existsb_exists. exists j. split; [assumption|]. rewrite Ej, Emt. unfold flushing. rewrite Ep. reflexivity. }
               congruence.
            -- intros Ep. rewrite Ep in Hrf. contradiction.
        + apply subok_commit_untouched; auto.
      - apply subok_commit_untouched; auto. right. right. intros Hin. apply mem_nat_In in Hin. congruence. }
    destruct (h_persistent st) eqn:Hp.
    - destruct (Hdbq eq_refl) as (Hdb & Hseq & Hne & Hz0).
      assert (Hd : (dropped st <= length (h_committed st))%nat) by (unfold dropped; lia).
      destruct (retain_shape (h_size st) coin (h_committed st) (dropped st) u Hd) as (d' & Hd1 & Hd2 & Hd3 & Hr).
      match goal with |- Inv ?x /\ _ => set (st2 := x) end.
      assert (Hc2 : h_committed st2 = h_committed st ++ [u]) by reflexivity.
      assert (Hdb2 : h_db st2 = retain (h_size st) coin (h_seq st + 1) (h_db st ++ [(h_seq st + 1, u)])) by reflexivity.
      assert (Hp2 : h_persistent st2 = true) by reflexivity.
      assert (Hs2 : h_seq st2 = h_seq st + 1) by reflexivity.
      assert (Hl2 : h_lastseq st2 = h_seq st + 1) by reflexivity.
      assert (Hi2 : h_index st2 = h_index st) by reflexivity.
      assert (Hz2 : h_size st2 = h_size st) by reflexivity.
      assert (Hcd2 : h_closed_done st2 = h_closed_done st) by reflexivity.
      assert (Hsb2 : h_subs st2 = fan_out (h_subs st) (h_index st) u) by reflexivity.
      clearbody st2.
      assert (Hdr : dropped st2 = d').
      { unfold dropped. rewrite Hc2, Hdb2, Hseq, Hdb, Hr. eapply dropped_shape; [|reflexivity]. lia. }
      split; [|rewrite Hdr; assumption].
      unfold Inv. rewrite Hdr, Hp2, Hc2, Hdb2, Hs2, Hl2, Hi2, Hz2, Hcd2, Hsb2.
      split; [intros _; split; [rewrite Hseq, Hdb; exact Hr|split; [rewrite app_length, Hseq; cbn [length]; lia|split; [intros _; assumption|intros Hz; rewrite (Hd3 Hz); auto]]]|].
      split; [discriminate|]. split; [rewrite app_length, Hseq; cbn [length]; lia|]. split; [assumption|].
      intros j s' Hj. destruct (Hsub' j s' Hj) as (k0 & Hk0 & Hok). exists k0. split; [lia|exact Hok].
    - pose proof (Hloc eq_refl) as Hdb0.
      match goal with |- Inv ?x /\ _ => set (st2 := x) end.
      assert (Hc2 : h_committed st2 = h_committed st ++ [u]) by reflexivity.
      assert (Hdb2 : h_db st2 = h_db st) by reflexivity.
      assert (Hp2 : h_persistent st2 = false) by reflexivity.
      assert (Hl2 : h_lastseq st2 = h_lastseq st + 1) by reflexivity.
      assert (Hi2 : h_index st2 = h_index st) by reflexivity.
      assert (Hcd2 : h_closed_done st2 = h_closed_done st) by reflexivity.
      assert (Hsb2 : h_subs st2 = fan_out (h_subs st) (h_index st) u) by reflexivity.
      clearbody st2.
      assert (Hdr : (dropped st <= dropped st2)%nat) by (unfold dropped; rewrite Hc2, Hdb2, app_length; cbn [length]; lia).
      split; [|exact Hdr].
      unfold Inv. rewrite Hp2, Hc2, Hdb2, Hl2, Hi2, Hcd2, Hsb2.
      split; [discriminate|]. split; [intros _; assumption|]. split; [rewrite app_length, Hls; cbn [length]; lia|]. split; [assumption|].
      intros j s' Hj. destruct (Hsub' j s' Hj) as (k0 & Hk0 & Hok). exists k0. split; [lia|exact Hok].
  Qed.

  (* ---- frames ---- *)
  Lemma inv_log_event st i a : Inv st -> Inv (log_event st i a).
  Proof. intros H. exact H. Qed.
  Lemma inv_metrics st dg dt : Inv st -> Inv (metrics st dg dt).
  Proof. intros H. exact H. Qed.
  Lemma inv_ack st u : Inv st -> Inv (ack st u).
  Proof. intros H. exact H. Qed.

  Lemma inv_add_event st i a c st1 : Inv st -> add_event st i a c = Some st1 -> Inv st1.
  Proof.
    intros H. unfold Hub.add_event. destruct (negb tracking); [intros E; inversion E; subst; assumption|].
    destruct (h_closed st); [intros E; inversion E; subst; assumption|].
    destruct (publish st (ev_id i a) c) as [st' []] eqn:Ep; intros E; inversion E; subst; try assumption.
    apply inv_log_event. eapply (proj1 (inv_publish _ _ _ _ H Ep)).
  Qed.

  Lemma subok_idx p C idx idx' cd k0 j s : (In j idx <-> In j idx') -> SubOk p C idx cd k0 j s -> SubOk p C idx' cd k0 j s.
  Proof.
    intros Hiff (A & B & D & E). split; [assumption|]. split; [assumption|]. split; [assumption|].
    destruct (hs_phase s); tauto.
  Qed.

  Lemma subok_cd p C idx k0 j s : SubOk p C idx false k0 j s -> SubOk p C idx true k0 j s.
  Proof.
    intros (A & B & D & E). split; [assumption|]. split; [assumption|]. split; [assumption|].
    destruct (hs_phase s); try assumption. intros Hin. destruct (E Hin) as [X _]. discriminate.
  Qed.

  (* replace subscriber i and the index *)
  Lemma inv_replace st i s' idx' k0 :
    Inv st -> NoDup idx' -> (forall j, j <> i -> (In j (h_index st) <-> In j idx')) -> (k0 <= dropped st)%nat ->
    SubOk (h_persistent st) (h_committed st) idx' (h_closed_done st) k0 i s' ->
    Inv (set_sub (set_index st idx') i s').
  Proof.
    intros (Hdbq & Hloc & Hls & ND & Hsubs) ND' Hiff Hk Hi.
    unfold Inv, set_sub, set_subs, set_index. cbn [h_persistent h_db h_committed h_seq h_lastseq h_index h_subs h_size h_close h_closed_done].
    change (dropped {| h_persistent := h_persistent st; h_close := h_close st; h_db := h_db st; h_committed := h_committed st; h_seq := h_seq st;
              h_lastseq := h_lastseq st; h_index := idx'; h_subs := upd_nth i s' (h_subs st); h_acked := h_acked st; h_events := h_events st;
              h_gauge := h_gauge st; h_subs_total := h_subs_total st; h_updates_total := h_updates_total st; h_size := h_size st |}) with (dropped st).
    repeat (split; [assumption|]).
    intros j sj Hj. apply nth_upd_cases in Hj. destruct Hj as [(<- & -> & _)|(Hne & Hj)]; [exists k0; auto|].
    destruct (Hsubs _ _ Hj) as (k1 & Hk1 & Hok). exists k1. split; [assumption|]. eapply subok_idx; [apply Hiff; congruence|]. assumption.
  Qed.

  Lemma inv_set_sub st i s' k0 : Inv st -> (k0 <= dropped st)%nat ->
    SubOk (h_persistent st) (h_committed st) (h_index st) (h_closed_done st) k0 i s' -> Inv (set_sub st i s').
  Proof.
    intros H Hk Hi. pose proof (inv_replace st i s' (h_index st) k0 H) as R.
    destruct H as (_ & _ & _ & ND & _). specialize (R ND (fun j _ => iff_refl _) Hk Hi). exact R.
  Qed.

  Lemma inv_set_phase st i s p k0 :
    Inv st -> nth_error (h_subs st) i = Some s -> (k0 <= dropped st)%nat ->
    SubOk (h_persistent st) (h_committed st) (h_index st) (h_closed_done st) k0 i (with_phase s p) -> Inv (set_phase st i p).
  Proof. intros H E Hk Hi. unfold set_phase. rewrite E. eapply inv_set_sub; eassumption. Qed.

  (* after an event dispatched on behalf of subscriber i, i is where it was *)
  Lemma after_event st i s a c st1 :
    Inv st -> nth_error (h_subs st) i = Some s -> add_event st i a c = Some st1 ->
    Inv st1 /\ h_index st1 = h_index st /\ h_closed_done st1 = h_closed_done st /\ h_persistent st1 = h_persistent st /\
    exists s1 k1, nth_error (h_subs st1) i = Some s1 /\ hs_phase s1 = hs_phase s /\ (k1 <= dropped st1)%nat /\
               SubOk (h_persistent st1) (h_committed st1) (h_index st1) (h_closed_done st1) k1 i s1.
  Proof.
    intros H E Ea. pose proof (inv_add_event _ _ _ _ _ H Ea) as H1.
    destruct (add_event_frame mt cap tracking _ _ _ _ _ Ea) as (Ph & _ & _ & _ & Hc & Hi & _ & Hper).
    split; [assumption|]. split; [assumption|]. split; [unfold h_closed_done; rewrite Hc; reflexivity|]. split; [assumption|].
    destruct (phases_nth _ _ _ _ Ph E) as (s1 & E1 & P1).
    destruct H1 as (_ & _ & _ & _ & Hs). destruct (Hs _ _ E1) as (k1 & Hk1 & Hok). exists s1, k1. auto.
  Qed.

  Lemma subok_cutoff p C idx cd k0 i s :
    SubOk p C idx cd k0 i s -> (forall r, hs_phase s <> PFlush r) -> SubOk p C idx cd k0 i (s_cutoff s).
  Proof.
    intros (A & B & D & E) Hnf. unfold SubOk, s_cutoff. sproj.
    split; [assumption|]. split; [reflexivity|]. split; [assumption|].
    destruct (hs_phase s) eqn:Ep; try assumption; try reflexivity; try (left; reflexivity).
    - destruct E as (E1 & E2 & E3 & E4). repeat split; try assumption. discriminate.
    - destruct E as (E1 & E2 & E3). repeat split; try assumption; discriminate.
    - destruct E as (E1 & E2 & E3). repeat split; try assumption; discriminate.
    - exfalso. eapply Hnf. reflexivity.
    - discriminate.
  Qed.

  Lemma subok_disconnect p C idx cd k0 i s :
    SubOk p C idx cd k0 i s -> (forall r, hs_phase s <> PFlush r) -> SubOk p C idx cd k0 i (s_disconnect s).
  Proof. intros H Hnf. unfold s_disconnect. destruct (hs_disc s); [assumption|]. apply subok_cutoff; assumption. Qed.
  Lemma inv_sub_step st i s c st' :
    Inv st -> nth_error (h_subs st) i = Some s -> sub_step st i s c = Some st' -> Inv st'.
  Proof.
    intros H E. pose proof H as (Hdbq & Hloc & Hls & ND & Hsubs). destruct (Hsubs _ _ E) as (k0 & Hk0 & Hok).
    unfold Hub.sub_step. destruct (hs_phase s) eqn:Ep.
    - (* PNew *)
      destruct (add_event st i true c) as [st1|] eqn:Ea; [|discriminate]. cbn [option_map]. intros E'; inversion E'; subst; clear E'.
      destruct (after_event _ _ _ _ _ _ H E Ea) as (H1 & Hi & Hcd & Hper & s1 & k1 & E1 & P1 & Hk1 & Ok1).
      eapply (inv_set_phase _ _ _ _ k1); [assumption|eassumption|assumption|].
      destruct Ok1 as (A & B & D & F). rewrite P1, Ep in F. unfold SubOk, with_phase. sproj. auto.
    - (* PAnnounced *)
      destruct (h_closed st).
      + destruct (add_event st i false c) as [st1|] eqn:Ea; [|discriminate]. cbn [option_map]. intros E'; inversion E'; subst; clear E'.
        destruct (after_event _ _ _ _ _ _ H E Ea) as (H1 & Hi & Hcd & Hper & s1 & k1 & E1 & P1 & Hk1 & Ok1).
        eapply (inv_set_phase _ _ _ _ k1); [assumption|eassumption|assumption|].
        destruct Ok1 as (A & B & D & F). rewrite P1, Ep in F. unfold SubOk, with_phase. sproj.
        spl. intros Hin. exfalso. tauto.
      + intros E'; inversion E'; subst; clear E'.
        destruct Hok as (A & B & D & F). rewrite Ep in F. destruct F as (F1 & F2 & F3 & F4).
        apply (inv_replace _ _ _ _ k0); [assumption|apply NoDup_app_one; assumption| |assumption|].
        * intros j Hj. rewrite in_app_iff. cbn [In]. split; [auto|]. intros [?|[?|[]]]; [assumption|congruence].
        * unfold SubOk. sproj. rewrite Hls, Nat2N.id. split; [lia|]. split; [assumption|].
          rewrite F1. split; [apply prefix_nil|]. split; [apply in_or_app; right; left; reflexivity|].
          split; [assumption|]. split; [reflexivity|]. intros _. rewrite F2, live_part_all. reflexivity.
    - (* PIndexed *)
      destruct Hok as (A & B & D & F). rewrite Ep in F. destruct F as (F1 & F2 & F3 & F4).
      destruct (h_persistent st) eqn:Hp.
      + destruct (Hdbq eq_refl) as (Hdb & Hseq & Hne & Hz0). cbn [eff_req] in D. destruct (hs_req s) eqn:Er.
        * intros E'; inversion E'; subst; clear E'. apply (inv_set_sub _ _ _ k0); [assumption|assumption|].
          unfold SubOk, with_phase. sproj. rewrite ?Er, ?Hp. cbn [eff_req]. spl. intros Hd. split; [rewrite F3; reflexivity|auto].
        * destruct (h_closed_done st) eqn:Ecd.
          -- destruct (add_event st i false c) as [st1|] eqn:Ea; [|discriminate]. cbn [option_map]. intros E'; inversion E'; subst; clear E'.
             destruct (after_event _ _ _ _ _ _ H E Ea) as (H1 & Hi & Hcd & Hper & s1 & k1 & E1 & P1 & Hk1 & Ok1).
             eapply (inv_set_phase _ _ _ _ k1); [assumption|eassumption|assumption|].
             destruct Ok1 as (A1 & B1 & D1 & G). unfold SubOk, with_phase. sproj.
             spl. intros _. rewrite Hcd, Hper, Hp. auto.
          -- intros E'; inversion E'; subst; clear E'. apply (inv_set_sub _ _ _ (dropped st)); [assumption|lia|].
             unfold SubOk, with_phase. sproj. rewrite ?Er, ?Hp. cbn [eff_req]. split; [assumption|]. split; [assumption|].
             split; [rewrite F3; apply prefix_nil|]. spl. intros Hd. rewrite F3, Hdb. cbn [app].
             split; [apply (scan_whole_k i (hs_cut s) Earliest); discriminate|auto].
        * destruct (h_closed_done st) eqn:Ecd.
          -- destruct (add_event st i false c) as [st1|] eqn:Ea; [|discriminate]. cbn [option_map]. intros E'; inversion E'; subst; clear E'.
             destruct (after_event _ _ _ _ _ _ H E Ea) as (H1 & Hi & Hcd & Hper & s1 & k1 & E1 & P1 & Hk1 & Ok1).
             eapply (inv_set_phase _ _ _ _ k1); [assumption|eassumption|assumption|].
             destruct Ok1 as (A1 & B1 & D1 & G). unfold SubOk, with_phase. sproj.
             spl. intros _. rewrite Hcd, Hper, Hp. auto.
          -- intros E'; inversion E'; subst; clear E'. apply (inv_set_sub _ _ _ (dropped st)); [assumption|lia|].
             unfold SubOk, with_phase. sproj. rewrite ?Er, ?Hp. cbn [eff_req]. split; [assumption|]. split; [assumption|].
             split; [rewrite F3; apply prefix_nil|]. spl. intros Hd. rewrite F3, Hdb. cbn [app].
             split; [apply (scan_whole_k i (hs_cut s) (ReqId id)); discriminate|auto].
      + cbn [eff_req] in D. destruct (hs_req s) eqn:Er; intros E'; inversion E'; subst; clear E'; (apply (inv_set_sub _ _ _ k0); [assumption|assumption|]);
          unfold SubOk, with_phase; sproj; rewrite ?Er, ?Hp; cbn [eff_req]; spl; intros Hd; (split; [rewrite F3; reflexivity|auto]).
    - (* PScan *)
      destruct Hok as (A & B & D & F). rewrite Ep in F. destruct F as (F1 & F2 & F3).
      destruct snap as [|[sq id] snap'].
      + intros E'; inversion E'; subst; clear E'. apply (inv_set_sub _ _ _ k0); [assumption|assumption|].
        unfold SubOk, with_phase. sproj. spl. intros Hd. destruct (F3 Hd) as [G1 G2].
        cbn [scan_rest] in G1. rewrite app_nil_r in G1. auto.
      + destruct found; cbn [negb].
        * destruct (N.ltb (hs_cut s) sq) eqn:Ecut.
          -- intros E'; inversion E'; subst; clear E'. apply (inv_set_sub _ _ _ k0); [assumption|assumption|].
             unfold SubOk, with_phase. sproj. spl. intros Hd. destruct (F3 Hd) as [G1 G2].
             cbn [scan_rest negb] in G1. rewrite Ecut in G1. auto.
          -- destruct (mt i id) eqn:Em.
             ++ unfold Hub.s_dispatch. destruct (hs_disc s) eqn:Ed.
                ** intros E'; inversion E'; subst; clear E'. apply (inv_set_sub _ _ _ k0); [assumption|assumption|].
                   unfold SubOk, with_phase. sproj. rewrite Ed. spl. discriminate.
                ** cbn [negb andb]. destruct (Nat.ltb (length (hs_out s)) cap).
                   --- intros E'; inversion E'; subst; clear E'. apply (inv_set_sub _ _ _ k0); [assumption|assumption|].
                       destruct (F3 eq_refl) as [G1 G2]. cbn [scan_rest negb] in G1. rewrite Ecut, Em in G1.
                       unfold SubOk, with_phase, s_send. sproj. rewrite ?Ed. split; [assumption|]. split; [assumption|].
                       split; [eexists; unfold ideal_k; rewrite <- G1, <- !app_assoc; reflexivity|].
                       spl. intros _. rewrite <- app_assoc. auto.
                   --- intros E'; inversion E'; subst; clear E'. apply (inv_set_sub _ _ _ k0); [assumption|assumption|].
                       unfold SubOk, with_phase, s_cutoff. sproj. split; [assumption|]. split; [reflexivity|].
                       split; [assumption|]. spl. discriminate.
             ++ intros E'; inversion E'; subst; clear E'. apply (inv_set_sub _ _ _ k0); [assumption|assumption|].
                unfold SubOk, with_phase. sproj. spl. intros Hd. destruct (F3 Hd) as [G1 G2].
                cbn [scan_rest negb] in G1. rewrite Ecut, Em in G1. auto.
        * intros E'; inversion E'; subst; clear E'. apply (inv_set_sub _ _ _ k0); [assumption|assumption|].
          unfold SubOk, with_phase. sproj. spl. intros Hd. destruct (F3 Hd) as [G1 G2].
          cbn [scan_rest negb] in G1. auto.
    - (* PHistDone *)
      destruct Hok as (A & B & D & F). rewrite Ep in F. destruct F as (F1 & F2 & F3).
      destruct (hs_disc s) eqn:Ed; intros E'; inversion E'; subst; clear E'.
      + apply inv_metrics. apply (inv_set_sub _ _ _ k0); [assumption|assumption|].
        unfold SubOk, with_phase. sproj. rewrite Ed. spl. discriminate.
      + apply (inv_set_sub _ _ _ k0); [assumption|assumption|]. destruct (F3 eq_refl) as [G1 G2].
        unfold SubOk, with_phase. sproj. rewrite Ed. spl. split; [reflexivity|]. exists []. rewrite app_nil_r. auto.
    - (* PFlush *)
      destruct Hok as (A & B & D & F). rewrite Ep in F. destruct F as (F1 & F2 & F3 & done & G1 & G2 & G3).
      destruct rest as [|u rest'].
      + intros E'; inversion E'; subst; clear E'. apply inv_metrics. apply (inv_set_sub _ _ _ k0); [assumption|assumption|].
        rewrite app_nil_r in G1. unfold SubOk, with_phase, s_set_ready. sproj. spl. intros _.
        split; [assumption|]. split; [reflexivity|]. unfold ideal_k. rewrite G2, <- G3, G1. reflexivity.
      + destruct (Nat.ltb (length (hs_out s)) cap); intros E'; inversion E'; subst; clear E'.
        * apply (inv_set_sub _ _ _ k0); [assumption|assumption|]. unfold SubOk, with_phase, s_send. sproj. split; [assumption|]. split; [assumption|].
          split; [exists rest'; unfold ideal_k; rewrite G2, <- G3, G1, <- !app_assoc; reflexivity|].
          spl. exists (done ++ [u]). rewrite G2, <- !app_assoc. cbn [app]. auto.
        * apply inv_metrics. apply (inv_set_sub _ _ _ k0); [assumption|assumption|].
          unfold SubOk, with_phase, s_cutoff. sproj. split; [assumption|]. split; [reflexivity|]. split; [assumption|]. discriminate.
    - discriminate.
    - (* PLeaving *)
      destruct Hok as (A & B & D & F). rewrite Ep in F.
      destruct (h_closed st); intros E'; inversion E'; subst; clear E'.
      + apply (inv_set_sub _ _ _ k0); [assumption|assumption|]. unfold SubOk, with_phase. sproj. auto.
      + apply (inv_replace _ _ _ _ k0); [assumption|apply NoDup_filter; assumption| |assumption|].
        * intros j Hj. rewrite filter_In. apply Nat.eqb_neq in Hj. rewrite Hj. cbn [negb]. tauto.
        * unfold SubOk, with_phase. sproj. auto.
    - (* PRemoved *)
      destruct (add_event st i false c) as [st1|] eqn:Ea; [|discriminate]. cbn [option_map]. intros E'; inversion E'; subst; clear E'.
      destruct (after_event _ _ _ _ _ _ H E Ea) as (H1 & Hi & Hcd & Hper & s1 & k1 & E1 & P1 & Hk1 & Ok1).
      apply inv_metrics. eapply (inv_set_phase _ _ _ _ k1); [assumption|eassumption|assumption|].
      destruct Ok1 as (A & B & D & F). rewrite P1, Ep in F. unfold SubOk, with_phase. sproj. auto.
    - discriminate.
    - discriminate.
  Qed.
  Lemma inv_recv st i s st' : Inv st -> nth_error (h_subs st) i = Some s -> recv_step st i s = Some st' -> Inv st'.
  Proof.
    intros H E. pose proof H as (Hdbq & Hloc & Hls & ND & Hsubs). destruct (Hsubs _ _ E) as (k0 & Hk0 & A & B & D & F).
    unfold recv_step. destruct (hs_phase s) eqn:Ep; try discriminate.
    destruct (hs_out s) as [|u o].
    - destruct (hs_closed s) eqn:Ec; [|discriminate]. intros E'; inversion E'; subst; clear E'.
      apply (inv_set_sub _ _ _ k0); [assumption|assumption|]. unfold SubOk, with_phase. sproj. spl. auto.
    - intros E'; inversion E'; subst; clear E'. apply (inv_set_sub _ _ _ k0); [assumption|assumption|].
      unfold SubOk. sproj. auto.
  Qed.

  Lemma inv_leave st i s st' : Inv st -> nth_error (h_subs st) i = Some s -> leave_step st i s = Some st' -> Inv st'.
  Proof.
    intros H E. pose proof H as (Hdbq & Hloc & Hls & ND & Hsubs). destruct (Hsubs _ _ E) as (k0 & Hk0 & Hok).
    unfold leave_step. destruct (hs_phase s) eqn:Ep; try discriminate. intros E'; inversion E'; subst; clear E'.
    apply (inv_set_sub _ _ _ k0); [assumption|assumption|].
    assert (Hd : SubOk (h_persistent st) (h_committed st) (h_index st) (h_closed_done st) k0 i (s_disconnect s)).
    { apply subok_disconnect; [assumption|]. intros r. rewrite Ep. discriminate. }
    destruct Hd as (A & B & D & F).
    assert (Hdisc : hs_disc (s_disconnect s) = true).
    { unfold s_disconnect. destruct (hs_disc s) eqn:Ed; [assumption|reflexivity]. }
    unfold SubOk, with_phase. sproj. spl. assumption.
  Qed.

  Lemma inv_close st st' : Inv st -> close_step st = Some st' -> Inv st'.
  Proof.
    intros H. pose proof H as (Hdbq & Hloc & Hls & ND & Hsubs).
    unfold close_step. destruct (h_close st) as [|[|[|n]]] eqn:Ec; try discriminate.
    - intros E'; inversion E'; subst; clear E'. unfold Inv, set_close.
      cbn [h_persistent h_db h_committed h_seq h_lastseq h_index h_subs h_size h_close h_closed_done].
      change (dropped _) with (dropped st).
      repeat (split; [assumption|]). intros j sj Hj. destruct (Hsubs _ _ Hj) as (k0 & Hk0 & Hok). exists k0. split; [assumption|].
      unfold h_closed_done in Hok. rewrite Ec in Hok. exact Hok.
    - destruct (existsb _ (h_index st)) eqn:Efl; [discriminate|]. intros E'; inversion E'; subst; clear E'.
      unfold Inv, set_close, set_subs. cbn [h_persistent h_db h_committed h_seq h_lastseq h_index h_subs h_size h_close h_closed_done].
      change (dropped _) with (dropped st).
      repeat (split; [assumption|]).
      intros j sj Hj. rewrite (disconnect_all_nth _ ND) in Hj.
      destruct (nth_error (h_subs st) j) as [s|] eqn:Ej; [|discriminate]. inversion Hj; subst; clear Hj.
      destruct (Hsubs _ _ Ej) as (k0 & Hk0 & Hok). exists k0. split; [assumption|].
      unfold h_closed_done in Hok. rewrite Ec in Hok. cbn in Hok.
      destruct (mem_nat j (h_index st)) eqn:Em; [|exact Hok].
      apply subok_disconnect; [exact Hok|]. intros r Ep. apply mem_nat_In in Em.
      assert (T : existsb (fun i => match nth_error (h_subs st) i with Some s0 => flushing s0 | None => false end) (h_index st) = true).
      { apply existsb_exists. exists j. split; [assumption|]. rewrite Ej. unfold flushing. rewrite Ep. reflexivity. }
      congruence.
    - destruct (h_persistent st && _); [discriminate|]. intros E'; inversion E'; subst; clear E'. unfold Inv, set_close.
      cbn [h_persistent h_db h_committed h_seq h_lastseq h_index h_subs h_size h_close h_closed_done].
      change (dropped _) with (dropped st).
      repeat (split; [assumption|]). intros j sj Hj. destruct (Hsubs _ _ Hj) as (k0 & Hk0 & Hok). exists k0. split; [assumption|].
      unfold h_closed_done in Hok. rewrite Ec in Hok. cbn in Hok. apply subok_cd. exact Hok.
  Qed.

  Lemma entries_last_default d l : last (map fst (entries_from (N.of_nat d + 1) l)) 0 = if Nat.eqb (length l) 0 then 0 else N.of_nat d + N.of_nat (length l).
  Proof.
    destruct l as [|x l]; [reflexivity|]. cbn [length Nat.eqb].
    pose proof (entries_from_last (N.of_nat d) (x :: l)) as E. cbn [entries_from map] in E |- *.
    rewrite (last_default _ _ 0 (N.of_nat d)). exact E.
  Qed.

  Lemma inv_crash st : Inv st -> Inv (crash st).
  Proof.
    intros (Hdbq & Hloc & Hls & ND & Hsubs). unfold Inv, crash.
    cbn [h_persistent h_db h_committed h_seq h_lastseq h_index h_subs h_size h_close h_closed_done].
    assert (Hdr : dropped {| h_persistent := h_persistent st; h_close := 0; h_db := if h_persistent st then h_db st else [];
                     h_committed := h_committed st; h_seq := if h_persistent st then h_seq st else 0;
                     h_lastseq := if h_persistent st then last (map fst (h_db st)) 0 else N.of_nat (length (h_committed st));
                     h_index := []; h_subs := map (fun s => match hs_phase s with PNew | PRefused => s | _ => with_phase s PGone end) (h_subs st);
                     h_acked := h_acked st; h_events := h_events st; h_gauge := 0; h_subs_total := 0; h_updates_total := 0; h_size := h_size st |} = dropped st).
    { unfold dropped. cbn [h_committed h_db]. destruct (h_persistent st) eqn:Hp; [reflexivity|]. rewrite (Hloc eq_refl). reflexivity. }
    rewrite Hdr.
    split; [intros Hp; rewrite Hp; apply Hdbq; assumption|].
    split; [intros Hp; rewrite Hp; reflexivity|].
    split.
    { destruct (h_persistent st) eqn:Hp; [|reflexivity]. destruct (Hdbq eq_refl) as (Hdb & Hseq & Hne & Hz0).
      rewrite Hdb, entries_last_default, skipn_length.
      destruct (h_committed st) as [|x C'] eqn:EC; [reflexivity|].
      assert (Hlt : (dropped st < length (x :: C'))%nat) by (apply Hne; discriminate).
      destruct (Nat.eqb_spec (length (x :: C') - dropped st) 0); lia. }
    split; [constructor|].
    intros j sj Hj. rewrite nth_error_map in Hj. destruct (nth_error (h_subs st) j) as [s|] eqn:Ej; [|discriminate].
    inversion Hj; subst; clear Hj. destruct (Hsubs _ _ Ej) as (k0 & Hk0 & A & B & D & F). exists k0. split; [assumption|].
    destruct (hs_phase s) eqn:Ep; unfold SubOk, with_phase; sproj; rewrite ?Ep; spl; auto; try (intros []); try (right; intros []).
    destruct F as (F1 & F2 & F3 & F4). repeat split; auto.
  Qed.

  Theorem inv_wstep w a : Inv (w_st w) -> Inv (w_st (wstep mt cap tracking w a)).
  Proof.
    intros H. destruct a as [t|t coin|i coin|i|i| |]; cbn [Hub.wstep].
    - destruct (nth_error (w_pubs w) t) as [p|]; [|exact H].
      destruct (pb_todo p); [exact H|]. destruct (pb_checked p); [exact H|]. destruct (h_closed (w_st w)); exact H.
    - destruct (nth_error (w_pubs w) t) as [p|]; [|exact H].
      destruct (pb_todo p) as [|u todo]; [exact H|]. destruct (pb_checked p); [|exact H].
      destruct (publish (w_st w) u coin) as [st' []] eqn:Epub; cbn [set_pub w_st]; try exact H.
      apply inv_ack. eapply inv_publish; eassumption.
    - destruct (nth_error (h_subs (w_st w)) i) as [s|] eqn:E; [|exact H].
      destruct (sub_step (w_st w) i s coin) as [st'|] eqn:Es; [|exact H]. eapply inv_sub_step; eassumption.
    - destruct (nth_error (h_subs (w_st w)) i) as [s|] eqn:E; [|exact H].
      destruct (recv_step (w_st w) i s) as [st'|] eqn:Es; [|exact H]. eapply inv_recv; eassumption.
    - destruct (nth_error (h_subs (w_st w)) i) as [s|] eqn:E; [|exact H].
      destruct (leave_step (w_st w) i s) as [st'|] eqn:Es; [|exact H]. eapply inv_leave; eassumption.
    - destruct (close_step (w_st w)) as [st'|] eqn:Es; [|exact H]. eapply inv_close; eassumption.
    - apply inv_crash. exact H.
  Qed.

  Theorem inv_reachable persistent size reqs pubs sched : Inv (w_st (wrun mt cap tracking (winit persistent size reqs pubs) sched)).
  Proof.
    unfold Hub.wrun.
    assert (H0 : Inv (w_st (winit persistent size reqs pubs))).
    { unfold Inv, dropped. cbn. split; [intros _; repeat split; auto; intros X; contradiction|]. split; [reflexivity|]. split; [reflexivity|]. split; [constructor|].
      intros i s Hi. rewrite nth_error_map in Hi. destruct (nth_error reqs i); [|discriminate]. inversion Hi; subst. exists 0%nat. split; [lia|].
      unfold SubOk, new_sub. sproj. cbn [length N.to_nat]. split; [lia|]. split; [reflexivity|]. split; [apply prefix_nil|]. auto. }
    revert H0. generalize (winit persistent size reqs pubs).
    induction sched as [|a sched IH]; intros w H0; [exact H0|]. cbn. apply IH. apply inv_wstep. assumption.
  Qed.

  (* the transport kind and the retention size never change *)
  Definition pz (st : hstate) : bool * N := (h_persistent st, h_size st).

  Lemma publish_pz st u coin st' r : publish st u coin = (st', r) -> pz st' = pz st.
  Proof.
    unfold Hub.publish. destruct (h_closed_done st && h_persistent st); [intros E; inversion E; reflexivity|].
    destruct (Nat.eqb (h_close st) 2); [intros E; inversion E; reflexivity|].
    destruct (existsb _ (h_index st)); [intros E; inversion E; reflexivity|].
    intros E. inversion E; subst. unfold pz, set_subs. destruct (h_persistent st) eqn:Hp; cbn; rewrite ?Hp; reflexivity.
  Qed.

  Lemma add_event_pz st i a c st1 : add_event st i a c = Some st1 -> pz st1 = pz st.
  Proof.
    unfold Hub.add_event. destruct (negb tracking); [intros E; inversion E; reflexivity|].
    destruct (h_closed st); [intros E; inversion E; reflexivity|].
    destruct (publish st (ev_id i a) c) as [st' []] eqn:Ep; intros E; inversion E; subst; try reflexivity.
    apply (publish_pz _ _ _ _ _ Ep).
  Qed.

  Lemma pz_wstep w a : pz (w_st (wstep mt cap tracking w a)) = pz (w_st w).
  Proof.
    destruct a as [t|t coin|i coin|i|i| |]; cbn [Hub.wstep].
    - destruct (nth_error (w_pubs w) t) as [p|]; [|reflexivity].
      destruct (pb_todo p); [reflexivity|]. destruct (pb_checked p); [reflexivity|]. destruct (h_closed (w_st w)); reflexivity.
    - destruct (nth_error (w_pubs w) t) as [p|]; [|reflexivity].
      destruct (pb_todo p) as [|u todo]; [reflexivity|]. destruct (pb_checked p); [|reflexivity].
      destruct (publish (w_st w) u coin) as [st' []] eqn:Ep; cbn [set_pub w_st]; try reflexivity.
      apply (publish_pz _ _ _ _ _ Ep).
    - destruct (nth_error (h_subs (w_st w)) i) as [s|] eqn:E; [|reflexivity].
      destruct (sub_step (w_st w) i s coin) as [st'|] eqn:Es; [|reflexivity]. cbn [w_st].
      unfold Hub.sub_step in Es.
      assert (G : forall st0 i0 a0 c0 st1 p0, add_event st0 i0 a0 c0 = Some st1 -> pz (set_phase st1 i0 p0) = pz st0).
      { intros st0 i0 a0 c0 st1 p0 Ea. rewrite <- (add_event_pz _ _ _ _ _ Ea).
        unfold set_phase. destruct (nth_error (h_subs st1) i0); reflexivity. }
      remember (pz (w_st w)) as P0 eqn:HP0.
      destruct (hs_phase s).
      all: repeat match type of Es with
           | context [match ?x with _ => _ end] =>
               lazymatch x with
               | add_event _ _ _ _ => fail
               | context [match _ with _ => _ end] => fail
               | _ => destruct x eqn:?; try discriminate
               end
           | context [if ?x then _ else _] => destruct x eqn:?; try discriminate
           end.
      all: try (match type of Es with
                | option_map _ (add_event ?st0 ?i0 ?a0 ?c0) = Some _ =>
                    destruct (add_event st0 i0 a0 c0) as [st1|] eqn:Eev; [|discriminate];
                    cbn in Es; inversion Es; subst st'; clear Es; rewrite HP0; try (change (pz (metrics ?x _ _)) with (pz x)); eapply G; eassumption
                end; fail).
      all: inversion Es; subst st'; rewrite HP0; reflexivity.
    - destruct (nth_error (h_subs (w_st w)) i) as [s|] eqn:E; [|reflexivity].
      destruct (recv_step (w_st w) i s) as [st'|] eqn:Es; [|reflexivity]. cbn [w_st].
      unfold recv_step in Es. destruct (hs_phase s); try discriminate.
      destruct (hs_out s); [destruct (hs_closed s); [|discriminate]|]; inversion Es; subst; reflexivity.
    - destruct (nth_error (h_subs (w_st w)) i) as [s|] eqn:E; [|reflexivity].
      destruct (leave_step (w_st w) i s) as [st'|] eqn:Es; [|reflexivity]. cbn [w_st].
      unfold leave_step in Es. destruct (hs_phase s); try discriminate. inversion Es; subst; reflexivity.
    - destruct (close_step (w_st w)) as [st'|] eqn:Es; [|reflexivity]. cbn [w_st].
      unfold close_step in Es. destruct (h_close (w_st w)) as [|[|[|]]]; try discriminate.
      + inversion Es; subst; reflexivity.
      + destruct (existsb _ (h_index (w_st w))); [discriminate|]. inversion Es; subst; reflexivity.
      + destruct (h_persistent (w_st w) && _); [discriminate|]. inversion Es; subst; reflexivity.
    - reflexivity.
  Qed.

  Lemma pz_reachable persistent size reqs pubs sched :
    pz (w_st (wrun mt cap tracking (winit persistent size reqs pubs) sched)) = (persistent, size).
  Proof.
    unfold Hub.wrun. assert (H0 : pz (w_st (winit persistent size reqs pubs)) = (persistent, size)) by reflexivity.
    revert H0. generalize (winit persistent size reqs pubs).
    induction sched as [|a sched IH]; intros w H0; [exact H0|]. cbn. apply IH. rewrite pz_wstep. exact H0.
  Qed.

  Lemma persistent_reachable persistent size reqs pubs sched :
    h_persistent (w_st (wrun mt cap tracking (winit persistent size reqs pubs) sched)) = persistent.
  Proof. pose proof (pz_reachable persistent size reqs pubs sched) as H. apply (f_equal fst) in H. exact H. Qed.

  Lemma size_reachable persistent size reqs pubs sched :
    h_size (w_st (wrun mt cap tracking (winit persistent size reqs pubs) sched)) = size.
  Proof. pose proof (pz_reachable persistent size reqs pubs sched) as H. apply (f_equal snd) in H. exact H. Qed.

  (* ---- FIFO: what the handler has written, then what is buffered, is what was sent ---- *)
  Definition fifo (i : nat) (s : hsub) : Prop := hs_sent s = hs_recvd s ++ hs_out s.
  Definition Fifo (st : hstate) : Prop := AllSubs fifo st.

  Lemma fifo_dispatch i s u h : fifo i s -> fifo i (fst (s_dispatch s u h)).
  Proof.
    unfold fifo, Hub.s_dispatch. intros H. destruct (hs_disc s); [assumption|].
    destruct (negb h && negb (hs_ready s)); [assumption|].
    destruct (Nat.ltb (length (hs_out s)) cap); cbn; [rewrite H, app_assoc; reflexivity|assumption].
  Qed.
  Lemma fifo_disconnect i s : fifo i s -> fifo i (s_disconnect s).
  Proof. unfold fifo, s_disconnect. intros H. destruct (hs_disc s); assumption. Qed.

  Lemma fifo_publish st u coin : Fifo st -> Fifo (fst (publish st u coin)).
  Proof.
    intros H. unfold Hub.publish.
    destruct (h_closed_done st && h_persistent st); [exact H|].
    destruct (Nat.eqb (h_close st) 2); [exact H|].
    destruct (existsb _ (h_index st)); [exact H|].
    cbn [fst]. unfold Fifo, AllSubs, set_subs. cbn [h_subs].
    destruct (h_persistent st); cbn [h_subs h_index]; apply fan_out_all; auto; intros; apply fifo_dispatch; assumption.
  Qed.

  Lemma fifo_add_event st i a c st1 : Fifo st -> add_event st i a c = Some st1 -> Fifo st1.
  Proof.
    intros H. unfold Hub.add_event. destruct (negb tracking); [intros E; inversion E; subst; exact H|].
    destruct (h_closed st); [intros E; inversion E; subst; exact H|].
    pose proof (fifo_publish st (ev_id i a) c H) as Hp.
    destruct (publish st (ev_id i a) c) as [st' []]; cbn [fst] in Hp; intros E; inversion E; subst; try exact H.
    intros j sj Hj. apply (Hp j sj). exact Hj.
  Qed.

  Lemma fifo_set_sub st i s' : Fifo st -> fifo i s' -> Fifo (set_sub st i s').
  Proof.
    intros H Hi j sj Hj. unfold set_sub, set_subs in Hj. cbn [h_subs] in Hj.
    apply nth_upd_cases in Hj. destruct Hj as [(<- & -> & _)|(_ & Hj)]; [exact Hi|eapply H; eassumption].
  Qed.

  Lemma fifo_set_phase st i p : Fifo st -> Fifo (set_phase st i p).
  Proof.
    intros H. unfold set_phase. destruct (nth_error (h_subs st) i) as [s|] eqn:E; [|exact H].
    apply fifo_set_sub; [assumption|]. exact (H _ _ E).
  Qed.

  Lemma fifo_sub_step st i s c st' : Fifo st -> nth_error (h_subs st) i = Some s -> sub_step st i s c = Some st' -> Fifo st'.
  Proof.
    intros H E. pose proof (H _ _ E) as Hs. unfold fifo in Hs. unfold Hub.sub_step.
    destruct (hs_phase s) eqn:Ep; try discriminate.
    - destruct (add_event st i true c) as [st1|] eqn:Ea; [|discriminate]. cbn. intros E'; inversion E'; subst.
      apply fifo_set_phase. eapply fifo_add_event; eassumption.
    - destruct (h_closed st).
      + destruct (add_event st i false c) as [st1|] eqn:Ea; [|discriminate]. cbn. intros E'; inversion E'; subst.
        apply fifo_set_phase. eapply fifo_add_event; eassumption.
      + intros E'; inversion E'; subst. apply (fifo_set_sub (set_index st (h_index st ++ [i]))); [exact H|exact Hs].
    - destruct (h_persistent st); destruct (hs_req s); try (intros E'; inversion E'; subst; apply fifo_set_sub; [exact H|exact Hs]).
      all: destruct (h_closed_done st); try (intros E'; inversion E'; subst; apply fifo_set_sub; [exact H|exact Hs]).
      all: destruct (add_event st i false c) as [st1|] eqn:Ea; [|discriminate]; cbn; intros E'; inversion E'; subst;
           apply fifo_set_phase; eapply fifo_add_event; eassumption.
    - destruct snap as [|[sq id] snap']; [intros E'; inversion E'; subst; apply fifo_set_sub; [exact H|exact Hs]|].
      destruct (negb found); [intros E'; inversion E'; subst; apply fifo_set_sub; [exact H|exact Hs]|].
      destruct (N.ltb (hs_cut s) sq); [intros E'; inversion E'; subst; apply fifo_set_sub; [exact H|exact Hs]|].
      destruct (mt i id); [|intros E'; inversion E'; subst; apply fifo_set_sub; [exact H|exact Hs]].
      pose proof (fifo_dispatch i s id true Hs) as Hd. destruct (s_dispatch s id true) as [s' ok]. cbn [fst] in Hd.
      destruct ok; intros E'; inversion E'; subst; apply fifo_set_sub; [exact H|exact Hd|exact H|exact Hd].
    - destruct (hs_disc s); intros E'; inversion E'; subst; [apply (fifo_set_sub st)|apply fifo_set_sub]; try exact H; exact Hs.
    - destruct rest as [|u rest'].
      + intros E'; inversion E'; subst. apply (fifo_set_sub st); [exact H|exact Hs].
      + destruct (Nat.ltb (length (hs_out s)) cap); intros E'; inversion E'; subst.
        * apply fifo_set_sub; [exact H|]. unfold fifo, with_phase, s_send. sproj. rewrite Hs, app_assoc. reflexivity.
        * apply (fifo_set_sub st); [exact H|exact Hs].
    - destruct (h_closed st); intros E'; inversion E'; subst.
      + apply fifo_set_sub; [exact H|exact Hs].
      + apply (fifo_set_sub (set_index st _)); [exact H|exact Hs].
    - destruct (add_event st i false c) as [st1|] eqn:Ea; [|discriminate]. cbn. intros E'; inversion E'; subst.
      apply (fifo_set_phase st1). eapply fifo_add_event; eassumption.
  Qed.

  Theorem fifo_wstep w a : Fifo (w_st w) -> Fifo (w_st (wstep mt cap tracking w a)).
  Proof.
    intros H. destruct a as [t|t coin|i coin|i|i| |]; cbn [Hub.wstep].
    - destruct (nth_error (w_pubs w) t) as [p|]; [|exact H].
      destruct (pb_todo p); [exact H|]. destruct (pb_checked p); [exact H|]. destruct (h_closed (w_st w)); exact H.
    - destruct (nth_error (w_pubs w) t) as [p|]; [|exact H].
      destruct (pb_todo p) as [|u todo]; [exact H|]. destruct (pb_checked p); [|exact H].
      pose proof (fifo_publish (w_st w) u coin H) as Hp.
      destruct (publish (w_st w) u coin) as [st' []]; cbn [fst] in Hp; cbn [set_pub w_st]; try exact H.
      intros j sj Hj. eapply Hp. exact Hj.
    - destruct (nth_error (h_subs (w_st w)) i) as [s|] eqn:E; [|exact H].
      destruct (sub_step (w_st w) i s coin) as [st'|] eqn:Es; [|exact H]. eapply fifo_sub_step; eassumption.
    - destruct (nth_error (h_subs (w_st w)) i) as [s|] eqn:E; [|exact H].
      destruct (recv_step (w_st w) i s) as [st'|] eqn:Es; [|exact H]. cbn [w_st].
      pose proof (H _ _ E) as Hs. unfold fifo in Hs. unfold recv_step in Es. destruct (hs_phase s); try discriminate.
      destruct (hs_out s) as [|u o] eqn:Eo.
      + destruct (hs_closed s); [|discriminate]. inversion Es; subst. apply fifo_set_sub; [exact H|]. unfold fifo, with_phase. sproj. exact Hs.
      + inversion Es; subst. apply fifo_set_sub; [exact H|]. unfold fifo. sproj. rewrite Hs, <- app_assoc. reflexivity.
    - destruct (nth_error (h_subs (w_st w)) i) as [s|] eqn:E; [|exact H].
      destruct (leave_step (w_st w) i s) as [st'|] eqn:Es; [|exact H]. cbn [w_st].
      unfold leave_step in Es. destruct (hs_phase s); try discriminate. inversion Es; subst.
      apply fifo_set_sub; [exact H|]. exact (fifo_disconnect i s (H _ _ E)).
    - destruct (close_step (w_st w)) as [st'|] eqn:Es; [|exact H]. cbn [w_st].
      unfold close_step in Es. destruct (h_close (w_st w)) as [|[|[|]]]; try discriminate.
      + inversion Es; subst. exact H.
      + destruct (existsb _ (h_index (w_st w))); [discriminate|]. inversion Es; subst.
        unfold Fifo, AllSubs, set_close, set_subs. cbn [h_subs]. apply disconnect_all_all; auto using fifo_disconnect.
      + destruct (h_persistent (w_st w) && _); [discriminate|]. inversion Es; subst. exact H.
    - intros j sj Hj. cbn [w_st] in Hj. unfold crash in Hj. cbn [h_subs] in Hj.
      rewrite nth_error_map in Hj. destruct (nth_error (h_subs (w_st w)) j) as [s0|] eqn:E; [|discriminate].
      inversion Hj; subst. pose proof (H _ _ E) as Hs. destruct (hs_phase s0); exact Hs.
  Qed.

  Theorem fifo_reachable persistent size reqs pubs sched :
    Fifo (w_st (wrun mt cap tracking (winit persistent size reqs pubs) sched)).
  Proof.
    unfold Hub.wrun.
    assert (H0 : Fifo (w_st (winit persistent size reqs pubs))).
    { intros i s Hi. cbn in Hi. rewrite nth_error_map in Hi. destruct (nth_error reqs i); [|discriminate]. inversion Hi; subst. reflexivity. }
    revert H0. generalize (winit persistent size reqs pubs).
    induction sched as [|a sched IH]; intros w H0; [exact H0|]. cbn. apply IH. apply fifo_wstep. exact H0.
  Qed.
  (* ---- the ideal sequence is the matching part of the committed order from one point on ---- *)
  Lemma after_notin r l : ~ In r l -> after r l = [].
  Proof.
    induction l as [|x l IH]; intros H; [reflexivity|]. cbn [after].
    destruct (N.eqb_spec r x) as [->|Hne]; [exfalso; apply H; left; reflexivity|]. apply IH. intros Hin. apply H. right. assumption.
  Qed.

  Lemma after_app_in r l1 l2 : In r l1 -> after r (l1 ++ l2) = after r l1 ++ l2.
  Proof.
    induction l1 as [|x l1 IH]; intros H; [destruct H|]. cbn [app after].
    destruct (N.eqb_spec r x) as [->|Hne]; [reflexivity|]. apply IH. destruct H as [->|H]; [congruence|assumption].
  Qed.

  Lemma after_is_skipn r l : In r l -> exists k, (1 <= k <= length l)%nat /\ after r l = skipn k l.
  Proof.
    induction l as [|x l IH]; intros H; [destruct H|]. cbn [after].
    destruct (N.eqb_spec r x) as [->|Hne].
    - exists 1%nat. cbn. split; [lia|reflexivity].
    - destruct H as [->|H]; [congruence|]. destruct (IH H) as (k & Hk & E). exists (S k). cbn [length skipn]. split; [lia|assumption].
  Qed.

  Lemma skipn_firstn_app {A} k n (l : list A) : (k <= n <= length l)%nat -> skipn k (firstn n l) ++ skipn n l = skipn k l.
  Proof.
    intros H. rewrite <- (firstn_skipn n l) at 3. rewrite skipn_app, firstn_length.
    replace (k - Nat.min n (length l))%nat with 0%nat by lia. reflexivity.
  Qed.

  Lemma ideal_is_suffix i C cut rq :
    (N.to_nat cut <= length C)%nat ->
    exists k, (k <= N.to_nat cut)%nat /\ ideal i C cut rq = filter (mt i) (skipn k C) /\
      (rq = Earliest -> k = 0%nat) /\ (rq = NoReq -> k = N.to_nat cut) /\
      (forall r, rq = ReqId r ->
         (In r (firstn (N.to_nat cut) C) -> skipn k C = after r C) /\
         (~ In r (firstn (N.to_nat cut) C) -> k = N.to_nat cut)).
  Proof.
    intros Hc. unfold ideal, hist_part, live_part. set (n := N.to_nat cut) in *. destruct rq as [| |r].
    - exists n. cbn [filter app]. repeat split; try discriminate; auto.
    - exists 0%nat. rewrite <- filter_app, firstn_skipn. cbn [skipn]. repeat split; try discriminate; auto; lia.
    - destruct (in_dec N.eq_dec r (firstn n C)) as [Hin|Hnin].
      + destruct (after_is_skipn _ _ Hin) as (k & Hk & E). rewrite firstn_length in Hk.
        exists k. rewrite <- filter_app, E, skipn_firstn_app by lia.
        split; [lia|]. split; [reflexivity|]. split; [discriminate|]. split; [discriminate|].
        intros r' Er. inversion Er; subst r'. split; [|contradiction]. intros _.
        rewrite <- (firstn_skipn n C) at 2. rewrite after_app_in by assumption. rewrite E. symmetry. apply skipn_firstn_app. lia.
      + exists n. rewrite (after_notin _ _ Hnin). cbn [filter app].
        split; [lia|]. split; [reflexivity|]. split; [discriminate|]. split; [discriminate|].
        intros r' Er. inversion Er; subst r'. split; [contradiction|auto].
  Qed.

  (* ---- the statements of C06 / C07 ---- *)
  Notation wrun := (wrun mt cap tracking).

  (* any retention size: k0 entries had been dropped from the stored history when the subscriber's scan read it *)
  Theorem replay_then_live_retention persistent size reqs pubs sched i s :
    let st := w_st (wrun (winit persistent size reqs pubs) sched) in
    nth_error (h_subs st) i = Some s ->
    exists k0, (k0 <= dropped st)%nat /\
    let target := ideal_k i (h_committed st) k0 (hs_cut s) (eff_req persistent (hs_req s)) in
    (N.to_nat (hs_cut s) <= length (h_committed st))%nat /\
    prefix (hs_sent s) target /\ prefix (hs_recvd s) target /\ hs_sent s = hs_recvd s ++ hs_out s /\
    (forall left, hs_phase s = PLive left -> hs_disc s = false -> hs_sent s = target).
  Proof.
    intros st E. destruct (inv_reachable persistent size reqs pubs sched) as (_ & _ & _ & _ & Hs).
    destruct (Hs _ _ E) as (k0 & Hk0 & A & B & D & F). fold st in D, F, Hk0. exists k0. split; [assumption|]. intros target.
    unfold target. rewrite <- (persistent_reachable persistent size reqs pubs sched). fold st.
    pose proof (fifo_reachable persistent size reqs pubs sched _ _ E) as Hf. unfold fifo in Hf.
    split; [assumption|]. split; [assumption|]. split; [eapply prefix_trans; [|exact D]; rewrite Hf; apply prefix_app|].
    split; [assumption|]. intros left Ep Hd. rewrite Ep in F. destruct (F Hd) as (_ & _ & G). exact G.
  Qed.

  Lemma dropped_zero persistent reqs pubs sched :
    persistent = true -> dropped (w_st (wrun (winit persistent 0 reqs pubs) sched)) = 0%nat.
  Proof.
    intros ->. destruct (inv_reachable true 0 reqs pubs sched) as (A & _).
    destruct (A (persistent_reachable true 0 reqs pubs sched)) as (_ & _ & _ & Z). apply Z. apply (size_reachable true 0 reqs pubs sched).
  Qed.

  Lemma ideal_k_noreq i C k0 cut : ideal_k i C k0 cut NoReq = ideal i C cut NoReq.
  Proof. reflexivity. Qed.

  Theorem replay_then_live persistent reqs pubs sched i s :
    let st := w_st (wrun (winit persistent 0 reqs pubs) sched) in
    nth_error (h_subs st) i = Some s ->
    let target := ideal i (h_committed st) (hs_cut s) (eff_req persistent (hs_req s)) in
    (N.to_nat (hs_cut s) <= length (h_committed st))%nat /\
    prefix (hs_sent s) target /\ prefix (hs_recvd s) target /\ hs_sent s = hs_recvd s ++ hs_out s /\
    (forall left, hs_phase s = PLive left -> hs_disc s = false -> hs_sent s = target).
  Proof.
    intros st E target. destruct (replay_then_live_retention persistent 0 reqs pubs sched i s E) as (k0 & Hk0 & H). fold st in Hk0, H.
    assert (Et : ideal_k i (h_committed st) k0 (hs_cut s) (eff_req persistent (hs_req s)) = target).
    { unfold target. destruct persistent.
      - pose proof (dropped_zero true reqs pubs sched eq_refl) as Z. fold st in Z. assert (k0 = 0%nat) by lia. subst k0. apply ideal_k_0.
      - cbn [eff_req]. apply ideal_k_noreq. }
    cbn zeta in H. rewrite Et in H. exact H.
  Qed.

  (* with Bolt the stored history is the retained suffix of the commit order, entry k at sequence number k *)
  Theorem stored_order_is_commit_order_retention size reqs pubs sched :
    let st := w_st (wrun (winit true size reqs pubs) sched) in
    h_db st = entries_from (N.of_nat (dropped st) + 1) (skipn (dropped st) (h_committed st)) /\
    h_seq st = N.of_nat (length (h_committed st)) /\ (h_committed st <> [] -> (dropped st < length (h_committed st))%nat).
  Proof.
    intros st. destruct (inv_reachable true size reqs pubs sched) as (A & _).
    destruct (A (persistent_reachable true size reqs pubs sched)) as (X & Y & Z & _). auto.
  Qed.

  Theorem stored_order_is_commit_order reqs pubs sched :
    let st := w_st (wrun (winit true 0 reqs pubs) sched) in
    h_db st = entries_from 1 (h_committed st) /\ h_seq st = N.of_nat (length (h_committed st)).
  Proof.
    intros st. destruct (stored_order_is_commit_order_retention 0 reqs pubs sched) as (X & Y & _). fold st in X, Y.
    pose proof (dropped_zero true reqs pubs sched eq_refl) as Z. fold st in Z. rewrite Z in X. cbn [skipn N.of_nat] in X. auto.
  Qed.

  Lemma grows_run w sched : I09 (w_st w) -> grows (w_st w) (w_st (wrun w sched)).
  Proof.
    revert w. induction sched as [|a sched IH]; intros w H; [exists []; rewrite app_nil_r; reflexivity|].
    unfold Hub.wrun. cbn [fold_left]. destruct (i09_wstep mt cap tracking w a H) as [H1 [l1 E1]].
    destruct (IH _ H1) as [l2 E2]. exists (l1 ++ l2). unfold Hub.wrun in E2. rewrite E2, E1, app_assoc. reflexivity.
  Qed.

  (* real-time order: an update acknowledged before another one is committed precedes it in the single order *)
  Theorem commit_order_respects_real_time persistent size reqs pubs sched1 sched2 u v :
    let w := wrun (winit persistent size reqs pubs) sched1 in
    let w' := wrun w sched2 in
    In u (h_acked (w_st w)) -> ~ In v (h_committed (w_st w)) -> In v (h_committed (w_st w')) ->
    exists l1 l2 l3, h_committed (w_st w') = l1 ++ u :: l2 ++ v :: l3.
  Proof.
    intros w w' Hu Hv Hv'. pose proof (durable_reachable mt cap tracking persistent size reqs pubs sched1) as H9. fold w in H9.
    pose proof (i_acked _ H9) as Hack. rewrite Forall_forall in Hack. specialize (Hack _ Hu).
    destruct (grows_run w sched2 H9) as [l E]. fold w' in E. rewrite E in Hv'. apply in_app_or in Hv'. destruct Hv' as [?|Hl]; [contradiction|].
    apply in_split in Hack. destruct Hack as (a & b & Ea). apply in_split in Hl. destruct Hl as (c & d & El).
    exists a, (b ++ c), d. rewrite E, Ea, El. repeat (rewrite <- app_assoc; cbn [app]). reflexivity.
  Qed.

  Lemma NoDup_app_l {A} (a b : list A) : NoDup (a ++ b) -> NoDup a.
  Proof.
    induction a as [|x a IH]; intros H; [constructor|]. cbn in H. inversion H; subst.
    constructor; [intros Hin; apply H2; apply in_or_app; left; assumption|apply IH; assumption].
  Qed.
  Lemma NoDup_app_r {A} (a b : list A) : NoDup (a ++ b) -> NoDup b.
  Proof. induction a as [|x a IH]; intros H; [exact H|]. cbn in H. inversion H; subst. apply IH. assumption. Qed.

  Lemma NoDup_skipn {A} k (l : list A) : NoDup l -> NoDup (skipn k l).
  Proof. intros H. rewrite <- (firstn_skipn k l) in H. apply NoDup_app_r in H. assumption. Qed.

  Lemma NoDup_prefix {A} (a b : list A) : prefix a b -> NoDup b -> NoDup a.
  Proof. intros [r ->] H. apply NoDup_app_l in H. assumption. Qed.

  (* exactly once: if the committed ids are distinct, nothing is sent (or received) twice *)
  Theorem exactly_once persistent reqs pubs sched i s :
    let st := w_st (wrun (winit persistent 0 reqs pubs) sched) in
    nth_error (h_subs st) i = Some s -> NoDup (h_committed st) -> NoDup (hs_sent s) /\ NoDup (hs_recvd s).
  Proof.
    intros st E ND. destruct (replay_then_live persistent reqs pubs sched i s E) as (Hc & P1 & P2 & _).
    destruct (ideal_is_suffix i (h_committed st) (hs_cut s) (eff_req persistent (hs_req s)) Hc) as (k & _ & Ek & _).
    fold st in P1, P2. rewrite Ek in P1, P2.
    split; eapply NoDup_prefix; try eassumption; apply NoDup_filter, NoDup_skipn; assumption.
  Qed.
  (* live delivery: a subscriber that is live and was not cut off has been sent, after its replay, exactly the matching
     updates committed after its registration, in commit order *)
  Theorem live_exactly_the_matching_suffix persistent reqs pubs sched i s left :
    let st := w_st (wrun (winit persistent 0 reqs pubs) sched) in
    nth_error (h_subs st) i = Some s -> hs_phase s = PLive left -> hs_disc s = false ->
    hs_sent s = hist_part i (h_committed st) (hs_cut s) (eff_req persistent (hs_req s)) ++
                filter (mt i) (skipn (N.to_nat (hs_cut s)) (h_committed st)).
  Proof.
    intros st E Ep Hd. destruct (replay_then_live persistent reqs pubs sched i s E) as (_ & _ & _ & _ & G). exact (G left Ep Hd).
  Qed.
  (* ---- bounded retention: the ideal sequence is still the matching part of the commit order from one point on ---- *)
  Lemma hseg_app C k0 cut : (k0 <= N.to_nat cut <= length C)%nat -> hseg C k0 cut ++ skipn (N.to_nat cut) C = skipn k0 C.
  Proof.
    intros H. unfold hseg. replace (skipn (N.to_nat cut) C) with (skipn (N.to_nat cut - k0) (skipn k0 C)).
    - apply firstn_skipn.
    - rewrite skipn_skipn'. f_equal. lia.
  Qed.

  Lemma ideal_k_is_suffix i C k0 cut rq :
    (N.to_nat cut <= length C)%nat ->
    exists k, ideal_k i C k0 cut rq = filter (mt i) (skipn k C) /\ (k <= N.to_nat cut)%nat /\
      ((k0 <= N.to_nat cut)%nat -> (k0 <= k)%nat) /\
      (rq = Earliest -> (k0 <= N.to_nat cut)%nat -> k = k0) /\ (rq = NoReq -> k = N.to_nat cut) /\
      (forall r, rq = ReqId r ->
         (In r (hseg C k0 cut) -> skipn k C = after r (skipn k0 C)) /\ (~ In r (hseg C k0 cut) -> k = N.to_nat cut)).
  Proof.
    intros Hc. set (n := N.to_nat cut) in *.
    destruct (le_lt_dec k0 n) as [Hk|Hk].
    - unfold ideal_k, hist_part_k, live_part. fold n. destruct rq as [| |r].
      + exists n. cbn [filter app]. repeat split; try discriminate; auto; lia.
      + exists k0. rewrite <- filter_app, hseg_app by (fold n; lia). repeat split; try discriminate; auto; lia.
      + destruct (in_dec N.eq_dec r (hseg C k0 cut)) as [Hin|Hnin].
        * destruct (after_is_skipn _ _ Hin) as (k & Hkk & E).
          assert (Hl : length (hseg C k0 cut) = (n - k0)%nat) by (unfold hseg; fold n; rewrite firstn_length, skipn_length; lia).
          rewrite Hl in Hkk.
          exists (k0 + k)%nat. rewrite <- filter_app, E.
          assert (E2 : skipn k (hseg C k0 cut) ++ skipn n C = skipn (k0 + k) C).
          { unfold hseg. fold n. rewrite <- (skipn_skipn' k k0 C).
            replace (skipn n C) with (skipn (n - k0) (skipn k0 C)) by (rewrite skipn_skipn'; f_equal; lia).
            apply skipn_firstn_app. rewrite skipn_length. lia. }
          rewrite E2. split; [reflexivity|]. split; [lia|]. split; [lia|]. split; [discriminate|]. split; [discriminate|].
          intros r' Er. inversion Er; subst r'. split; [|contradiction]. intros _.
          rewrite <- (hseg_app C k0 cut) by (fold n; lia). rewrite after_app_in by assumption. rewrite E. symmetry. exact E2.
        * exists n. rewrite (after_notin _ _ Hnin). cbn [filter app]. split; [reflexivity|]. split; [lia|]. split; [lia|].
          split; [discriminate|]. split; [discriminate|]. intros r' Er. inversion Er; subst r'. split; [contradiction|auto].
    - assert (Hs : hseg C k0 cut = []) by (unfold hseg; fold n; replace (n - k0)%nat with 0%nat by lia; reflexivity).
      exists n. unfold ideal_k, hist_part_k, live_part. fold n. rewrite Hs. split; [destruct rq; reflexivity|]. split; [lia|]. split; [lia|].
      split; [intros; lia|]. split; [reflexivity|]. intros r Er. split; [intros []|reflexivity].
  Qed.

  Theorem exactly_once_retention persistent size reqs pubs sched i s :
    let st := w_st (wrun (winit persistent size reqs pubs) sched) in
    nth_error (h_subs st) i = Some s -> NoDup (h_committed st) -> NoDup (hs_sent s) /\ NoDup (hs_recvd s).
  Proof.
    intros st E ND. destruct (replay_then_live_retention persistent size reqs pubs sched i s E) as (k0 & _ & Hc & P1 & P2 & _).
    fold st in Hc, P1, P2.
    destruct (ideal_k_is_suffix i (h_committed st) k0 (hs_cut s) (eff_req persistent (hs_req s)) Hc) as (k & Ek & _).
    rewrite Ek in P1, P2.
    split; eapply NoDup_prefix; try eassumption; apply NoDup_filter, NoDup_skipn; assumption.
  Qed.
End P.
