(* HubProofs5.v — C17: subscription events announce each subscription's start and end exactly once. *)
From Mercure Require Import Base Hub HubProofs HubProofs2 HubProofs3.
From Coq Require Import Lia.

Section P.
  Variable mt : nat -> N -> bool.
  Variable cap : nat.

  Notation sub_step := (sub_step mt cap).
  Notation publish := (publish mt cap).
  Notation add_event := (add_event mt cap).

  Definition evs (i : nat) (l : list (nat * bool)) : list bool := map snd (filter (fun e => Nat.eqb (fst e) i) l).

  Definition exp_ev (p : phase) : list bool :=
    match p with PNew => [] | PGone | PRefused => [true; false] | _ => [true] end.

  Lemma evs_app i l a j : evs j (l ++ [(i, a)]) = evs j l ++ (if Nat.eqb i j then [a] else []).
  Proof. unfold evs. rewrite filter_app, map_app. cbn. destruct (Nat.eqb i j); reflexivity. Qed.

  (* with tracking on and the transport never closed so far: each subscriber's events are what its phase says *)
  Definition EvOk (st : hstate) : Prop :=
    h_close st = 0%nat -> forall i s, nth_error (h_subs st) i = Some s -> evs i (h_events st) = exp_ev (hs_phase s).

  Lemma add_event_on st i a c st1 :
    h_close st = 0%nat -> add_event true st i a c = Some st1 ->
    h_events st1 = h_events st ++ [(i, a)] /\ phases st1 = phases st /\ h_close st1 = 0%nat.
  Proof.
    intros Hc. unfold Hub.add_event. cbn [negb]. unfold h_closed. rewrite Hc. cbn.
    destruct (publish st (ev_id i a) c) as [st' r] eqn:Ep.
    assert (Hr : r <> PubClosed).
    { intros ->. unfold Hub.publish in Ep. unfold h_closed_done in Ep. rewrite Hc in Ep. cbn in Ep.
      destruct (existsb _ (h_index st)); [discriminate|]. destruct (h_persistent st); discriminate. }
    destruct r; try congruence; intros E; inversion E; subst.
    destruct (publish_frame _ _ _ _ _ _ _ Ep) as (A & _ & _ & _ & F & _ & G & _).
    unfold log_event, phases in *; cbn. rewrite G, F. auto.
  Qed.

  (* a step of subscriber i that dispatches event (i, a) and moves it to phase p *)
  Lemma ev_event_step st i s a c st1 p :
    EvOk st -> h_close st = 0%nat -> nth_error (h_subs st) i = Some s ->
    add_event true st i a c = Some st1 -> exp_ev p = exp_ev (hs_phase s) ++ [a] ->
    EvOk (set_phase st1 i p).
  Proof.
    intros H Hc Hs Eev Hp _ j sj Hj.
    destruct (add_event_on _ _ _ _ _ Hc Eev) as (E1 & P1 & C1).
    destruct (phases_nth _ _ _ _ P1 Hs) as (s1 & Es1 & Ps1).
    unfold set_phase in *. rewrite Es1 in *. unfold set_sub, set_subs in *. cbn [h_subs h_events] in *.
    rewrite E1, evs_app.
    apply nth_upd_cases in Hj. destruct Hj as [(-> & -> & _)|(Hne & Hj)].
    - rewrite Nat.eqb_refl. cbn [with_phase hs_phase]. rewrite Hp. f_equal. apply H; assumption.
    - apply Nat.eqb_neq in Hne. rewrite Hne, app_nil_r.
      (* subscriber j has in st1 the phase it had in st *)
      assert (Hph : exists s0, nth_error (h_subs st) j = Some s0 /\ hs_phase s0 = hs_phase sj).
      { unfold phases in P1.
        assert (Hn : nth_error (map hs_phase (h_subs st)) j = Some (hs_phase sj)) by (rewrite <- P1; apply map_nth_error; assumption).
        rewrite nth_error_map in Hn. destruct (nth_error (h_subs st) j) as [s0|]; [|discriminate]. inversion Hn. eauto. }
      destruct Hph as (s0 & E0 & P0). rewrite <- P0. apply H; assumption.
  Qed.

  (* a step that changes only subscriber i, without event, keeping what its phase says about events *)
  Lemma ev_silent_step st i s s' (st' : hstate) :
    EvOk st -> nth_error (h_subs st) i = Some s ->
    h_close st' = h_close st -> h_events st' = h_events st -> h_subs st' = upd_nth i s' (h_subs st) ->
    exp_ev (hs_phase s') = exp_ev (hs_phase s) -> EvOk st'.
  Proof.
    intros H Hs Hc He Hsub Hp Hc' j sj Hj. rewrite Hc in Hc'. rewrite He. rewrite Hsub in Hj.
    apply nth_upd_cases in Hj. destruct Hj as [(-> & -> & _)|(_ & Hj)].
    - rewrite Hp. apply H; assumption.
    - apply H; assumption.
  Qed.

  Lemma ev_metrics st dg dt : EvOk st -> EvOk (metrics st dg dt).
  Proof. intros H. exact H. Qed.

  Lemma ev_sub_step st i s c st' :
    EvOk st -> nth_error (h_subs st) i = Some s -> sub_step true st i s c = Some st' -> EvOk st'.
  Proof.
    intros H Hs Hstep.
    destruct (sub_step_frame mt cap true _ _ _ _ _ Hstep) as (Fc & _).
    intros Hc'. assert (Hc : h_close st = 0%nat) by congruence. revert Hc'.
    change (EvOk st'). unfold Hub.sub_step in Hstep.
    destruct (hs_phase s) eqn:Ep.
    all: repeat match type of Hstep with
         | context [match ?x with _ => _ end] =>
             lazymatch x with
             | Hub.add_event _ _ _ _ _ _ _ => fail
             | context [match _ with _ => _ end] => fail
             | _ => destruct x eqn:?; try discriminate
             end
         | context [if ?x then _ else _] => destruct x eqn:?; try discriminate
         end.
    all: try (match type of Hstep with
              | option_map _ (Hub.add_event _ _ _ ?st0 ?i0 ?a0 ?c0) = Some _ =>
                  destruct (add_event true st0 i0 a0 c0) as [st1|] eqn:Eev; [|discriminate];
                  cbn in Hstep; inversion Hstep; subst st'; clear Hstep
              end).
    (* refusals happen only on a closed transport *)
    all: try (match goal with Hx : h_closed ?xx = true |- _ => unfold h_closed in Hx; rewrite Hc in Hx; discriminate end).
    all: try (match goal with Hx : h_closed_done ?xx = true |- _ => unfold h_closed_done in Hx; rewrite Hc in Hx; discriminate end).
    all: try (try apply ev_metrics; eapply ev_event_step; try eassumption; rewrite Ep; reflexivity).
    all: inversion Hstep; subst st'; clear Hstep.
    all: try apply ev_metrics.
    all: eapply ev_silent_step; try eassumption; try reflexivity; cbn [hs_phase with_phase s_set_ready s_cutoff s_send]; rewrite ?Ep; try reflexivity.
    all: try (match goal with Hd : s_dispatch _ _ _ _ = (?h, _) |- _ =>
                let Hx := fresh in pose proof (dispatch_phase cap s _ true) as Hx; rewrite Hd in Hx; cbn in Hx end).
    all: cbn; try reflexivity.
  Qed.

  Lemma ev_same st st' :
    EvOk st -> h_close st' = h_close st -> h_events st' = h_events st -> phases st' = phases st -> EvOk st'.
  Proof.
    intros H Hc He Hp Hc' j sj Hj. rewrite Hc in Hc'. rewrite He.
    symmetry in Hp. destruct (phases_nth _ _ _ _ Hp Hj) as (s0 & E0 & P0).
    rewrite <- P0. apply (H Hc' j s0 E0).
  Qed.

  Theorem ev_wstep w a : a <> ACrash -> EvOk (w_st w) -> EvOk (w_st (wstep mt cap true w a)).
  Proof.
    intros Hna H. destruct a as [t|t coin|i coin|i|i| |]; cbn [Hub.wstep]; try congruence.
    - destruct (nth_error (w_pubs w) t) as [p|]; [|exact H].
      destruct (pb_todo p); [exact H|]. destruct (pb_checked p); [exact H|].
      destruct (h_closed (w_st w)); exact H.
    - destruct (nth_error (w_pubs w) t) as [p|]; [|exact H].
      destruct (pb_todo p) as [|u todo]; [exact H|]. destruct (pb_checked p); [|exact H].
      destruct (publish (w_st w) u coin) as [st' []] eqn:Ep; cbn [set_pub w_st]; try exact H.
      destruct (publish_frame _ _ _ _ _ _ _ Ep) as (A & _ & _ & _ & F & _ & G & _).
      eapply ev_same; [exact H| | |]; unfold ack, phases in *; cbn; assumption.
    - destruct (nth_error (h_subs (w_st w)) i) as [s|] eqn:E; [|exact H].
      destruct (sub_step true (w_st w) i s coin) as [st'|] eqn:Es; [|exact H]. eapply ev_sub_step; eassumption.
    - destruct (nth_error (h_subs (w_st w)) i) as [s|] eqn:E; [|exact H].
      destruct (recv_step (w_st w) i s) as [st'|] eqn:Es; [|exact H]. cbn [w_st].
      unfold recv_step in Es. destruct (hs_phase s) eqn:Ep; try discriminate.
      destruct (hs_out s); [destruct (hs_closed s); [|discriminate]|]; inversion Es; subst;
        (eapply ev_silent_step; [exact H|exact E|reflexivity|reflexivity|reflexivity|cbn; rewrite Ep; reflexivity]).
    - destruct (nth_error (h_subs (w_st w)) i) as [s|] eqn:E; [|exact H].
      destruct (leave_step (w_st w) i s) as [st'|] eqn:Es; [|exact H]. cbn [w_st].
      unfold leave_step in Es. destruct (hs_phase s) eqn:Ep; try discriminate. inversion Es; subst.
      eapply ev_silent_step; [exact H|exact E|reflexivity|reflexivity|reflexivity|cbn; rewrite Ep; reflexivity].
    - destruct (close_step (w_st w)) as [st'|] eqn:Es; [|exact H]. cbn [w_st].
      unfold close_step in Es. destruct (h_close (w_st w)) as [|[|[|]]] eqn:Ec; try discriminate.
      + inversion Es; subst. intros Hc. cbn in Hc. discriminate.
      + destruct (existsb _ _); [discriminate|]. inversion Es; subst. intros Hc. cbn in Hc. discriminate.
      + destruct (h_persistent _ && _); [discriminate|]. inversion Es; subst. intros Hc. cbn in Hc. discriminate.
  Qed.

  (* C17: with tracking enabled, for every schedule without a crash, as long as the hub has not been closed: each
     subscriber that has not started has no event; each one between the announcement and the end of its shutdown has
     exactly [active=true]; each one that is gone - also when its registration failed - has exactly [true; false] *)
  Theorem events_balanced persistent size reqs pubs sched :
    Forall (fun a => a <> ACrash) sched ->
    EvOk (w_st (wrun mt cap true (winit persistent size reqs pubs) sched)).
  Proof.
    unfold Hub.wrun. intros Hs.
    assert (H0 : EvOk (w_st (winit persistent size reqs pubs))).
    { intros _ i s Hi. cbn in Hi. rewrite nth_error_map in Hi. destruct (nth_error reqs i); [|discriminate]. inversion Hi; reflexivity. }
    revert H0. generalize (winit persistent size reqs pubs).
    induction Hs as [|a sched Ha Hs IH]; intros w H0; [exact H0|]. cbn. apply IH. apply ev_wstep; assumption.
  Qed.

  (* C17: no event at all when tracking is disabled *)
  Lemma noev_wstep w a : h_events (w_st w) = [] -> h_events (w_st (wstep mt cap false w a)) = [].
  Proof.
    intros H. destruct a as [t|t coin|i coin|i|i| |]; cbn [Hub.wstep].
    - destruct (nth_error (w_pubs w) t) as [p|]; [|exact H].
      destruct (pb_todo p); [exact H|]. destruct (pb_checked p); [exact H|]. destruct (h_closed (w_st w)); exact H.
    - destruct (nth_error (w_pubs w) t) as [p|]; [|exact H].
      destruct (pb_todo p) as [|u todo]; [exact H|]. destruct (pb_checked p); [|exact H].
      destruct (publish (w_st w) u coin) as [st' []] eqn:Ep; cbn [set_pub w_st]; try exact H.
      destruct (publish_frame _ _ _ _ _ _ _ Ep) as (_ & _ & _ & _ & _ & _ & G & _). unfold ack; cbn. congruence.
    - destruct (nth_error (h_subs (w_st w)) i) as [s|] eqn:E; [|exact H].
      destruct (sub_step false (w_st w) i s coin) as [st'|] eqn:Es; [|exact H]. cbn [w_st].
      unfold Hub.sub_step, Hub.add_event in Es. cbn [negb] in Es.
      destruct (hs_phase s).
      all: repeat match type of Es with
           | context [match ?x with _ => _ end] =>
               lazymatch x with
               | context [match _ with _ => _ end] => fail
               | _ => destruct x eqn:?; try discriminate
               end
           | context [if ?x then _ else _] => destruct x eqn:?; try discriminate
           end.
      all: cbn in Es; inversion Es; subst; clear Es.
      all: unfold metrics, set_phase, set_sub, set_subs, set_index; repeat match goal with |- context [match ?x with _ => _ end] => destruct x end; cbn; assumption.
    - destruct (nth_error (h_subs (w_st w)) i) as [s|] eqn:E; [|exact H].
      destruct (recv_step (w_st w) i s) as [st'|] eqn:Es; [|exact H]. cbn [w_st].
      unfold recv_step in Es. destruct (hs_phase s); try discriminate.
      destruct (hs_out s); [destruct (hs_closed s); [|discriminate]|]; inversion Es; subst; exact H.
    - destruct (nth_error (h_subs (w_st w)) i) as [s|] eqn:E; [|exact H].
      destruct (leave_step (w_st w) i s) as [st'|] eqn:Es; [|exact H]. cbn [w_st].
      unfold leave_step in Es. destruct (hs_phase s); try discriminate. inversion Es; subst. exact H.
    - destruct (close_step (w_st w)) as [st'|] eqn:Es; [|exact H]. cbn [w_st].
      unfold close_step in Es. destruct (h_close (w_st w)) as [|[|[|]]]; try discriminate.
      + inversion Es; subst. exact H.
      + destruct (existsb _ _); [discriminate|]. inversion Es; subst. exact H.
      + destruct (h_persistent _ && _); [discriminate|]. inversion Es; subst. exact H.
    - exact H.
  Qed.

  Theorem no_events_when_disabled persistent size reqs pubs sched :
    h_events (w_st (wrun mt cap false (winit persistent size reqs pubs) sched)) = [].
  Proof.
    unfold Hub.wrun. assert (H0 : h_events (w_st (winit persistent size reqs pubs)) = []) by reflexivity.
    revert H0. generalize (winit persistent size reqs pubs).
    induction sched as [|a sched IH]; intros w H0; [exact H0|]. cbn. apply IH. apply noev_wstep. exact H0.
  Qed.
End P.
