(* HubProofs3.v — C15 (closing the hub) and C09 (durability of acknowledged / delivered updates)
   as invariants of Model/Hub.v over every schedule. *)
From Mercure Require Import Base Hub HubProofs HubProofs2.
From Coq Require Import Lia ZArith.

Section P.
  Variable mt : nat -> N -> bool.
  Variable cap : nat.
  Variable tracking : bool.

  Notation wstep := (wstep mt cap tracking).
  Notation wrun := (wrun mt cap tracking).
  Notation sub_step := (sub_step mt cap tracking).
  Notation publish := (publish mt cap).
  Notation add_event := (add_event mt cap tracking).

  (* ---------- C15 ---------- *)

  Definition ClosedOk (st : hstate) : Prop :=
    (2 <= h_close st)%nat ->
    forall i s, In i (h_index st) -> nth_error (h_subs st) i = Some s -> hs_closed s = true.

  Lemma dispatch_closed s u h : hs_closed s = true -> hs_closed (fst (s_dispatch cap s u h)) = true.
  Proof.
    intros H. unfold s_dispatch. destruct (hs_disc s); [assumption|].
    destruct (negb h && negb (hs_ready s)); [assumption|].
    destruct (Nat.ltb (length (hs_out s)) cap); cbn; auto.
  Qed.

  Lemma disconnect_closed s : hs_closed (s_disconnect s) = true \/ (hs_disc s = true /\ s_disconnect s = s).
  Proof. unfold s_disconnect. destruct (hs_disc s); [right; auto|left; reflexivity]. Qed.

  (* closed is never reset: a generic per-subscriber monotonicity *)
  Definition closed_pres (P : nat -> hsub -> Prop) : Prop := True.

  Lemma fan_out_closed u idx : forall subs i s,
    nth_error (fan_out mt cap subs idx u) i = Some s ->
    exists s0, nth_error subs i = Some s0 /\ (hs_closed s0 = true -> hs_closed s = true).
  Proof.
    induction idx as [|j idx IH]; intros subs i s Hi; cbn in Hi; [eauto|].
    destruct (nth_error subs j) as [sj|] eqn:Ej; [|eauto].
    destruct (mt j u); [|eauto].
    destruct (IH _ _ _ Hi) as (s1 & E1 & H1).
    apply nth_upd_cases in E1. destruct E1 as [(-> & -> & _)|(Hne & E1)].
    - exists sj. split; [assumption|]. intros Hc. apply H1. apply dispatch_closed. assumption.
    - exists s1. auto.
  Qed.

  (* a subscriber that is disconnected is closed - needed to know that Close leaves everybody closed *)
  Definition DiscClosed (st : hstate) : Prop :=
    forall i s, nth_error (h_subs st) i = Some s -> hs_disc s = true -> hs_closed s = true.

  Lemma disconnect_all_closed idx : forall subs,
    (forall i s, nth_error subs i = Some s -> hs_disc s = true -> hs_closed s = true) ->
    (forall i s, nth_error (disconnect_all subs idx) i = Some s -> hs_disc s = true -> hs_closed s = true) /\
    (forall i s, In i idx -> nth_error (disconnect_all subs idx) i = Some s -> hs_closed s = true) /\
    (forall i s, nth_error (disconnect_all subs idx) i = Some s ->
       exists s0, nth_error subs i = Some s0 /\ (hs_closed s0 = true -> hs_closed s = true)).
  Proof.
    induction idx as [|j idx IH]; intros subs HD; cbn.
    - split; [assumption|]. split; [intros i s []|]. eauto.
    - destruct (nth_error subs j) as [sj|] eqn:Ej.
      + assert (HD' : forall i s, nth_error (upd_nth j (s_disconnect sj) subs) i = Some s -> hs_disc s = true -> hs_closed s = true).
        { intros i s Hi Hd. apply nth_upd_cases in Hi. destruct Hi as [(-> & -> & _)|(_ & Hi)]; [|eauto].
          destruct (disconnect_closed sj) as [Hc|(Hd0 & Heq)]; [assumption|]. rewrite Heq. eauto. }
        destruct (IH _ HD') as (A & B & C). split; [assumption|]. split.
        * intros i s [<-|Hin] Hi; [|eauto].
          destruct (C _ _ Hi) as (s0 & E0 & H0). rewrite (nth_upd_eq _ _ _ _ Ej) in E0. inversion E0; subst.
          apply H0. destruct (disconnect_closed sj) as [Hc|(Hd0 & Heq)]; [assumption|]. rewrite Heq. eauto.
        * intros i s Hi. destruct (C _ _ Hi) as (s0 & E0 & H0).
          apply nth_upd_cases in E0. destruct E0 as [(-> & -> & _)|(_ & E0)].
          -- exists sj. split; [assumption|]. intros Hc. apply H0.
             unfold s_disconnect. destruct (hs_disc sj); [assumption|reflexivity].
          -- exists s0. auto.
      + destruct (IH _ HD) as (A & B & C). split; [assumption|]. split; [|assumption].
        intros i s [<-|Hin] Hi; [|eauto].
        destruct (C _ _ Hi) as (s0 & E0 & _). congruence.
  Qed.

  (* ---------- the disconnected flag and the closed channel move together, and only upwards ---------- *)

  (* R s s': s' has the flags of s, or is cut off *)
  Definition flagsR (s s' : hsub) : Prop :=
    (hs_disc s' = hs_disc s /\ hs_closed s' = hs_closed s) \/ (hs_disc s' = true /\ hs_closed s' = true).

  Lemma flagsR_refl s : flagsR s s. Proof. left. auto. Qed.
  Lemma flagsR_trans a b c : flagsR a b -> flagsR b c -> flagsR a c.
  Proof. intros [[A1 A2]|[A1 A2]] [[B1 B2]|[B1 B2]]; unfold flagsR; try (right; split; congruence); left; split; congruence. Qed.

  Lemma dispatch_flags s u h : flagsR s (fst (s_dispatch cap s u h)).
  Proof.
    unfold s_dispatch. destruct (hs_disc s); [apply flagsR_refl|].
    destruct (negb h && negb (hs_ready s)); [left; auto|].
    destruct (Nat.ltb (length (hs_out s)) cap); [left; auto|right; auto].
  Qed.

  Lemma disconnect_flags s : flagsR s (s_disconnect s).
  Proof. unfold s_disconnect. destruct (hs_disc s); [apply flagsR_refl|right; auto]. Qed.

  Definition subsR (l l' : list hsub) : Prop :=
    forall j s', nth_error l' j = Some s' -> exists s, nth_error l j = Some s /\ flagsR s s'.

  Lemma subsR_refl l : subsR l l. Proof. intros j s' H. exists s'. split; [assumption|apply flagsR_refl]. Qed.
  Lemma subsR_trans a b c : subsR a b -> subsR b c -> subsR a c.
  Proof.
    intros H1 H2 j s' Hj. destruct (H2 _ _ Hj) as (sb & Eb & Rb). destruct (H1 _ _ Eb) as (sa & Ea & Ra).
    exists sa. split; [assumption|eapply flagsR_trans; eassumption].
  Qed.

  Lemma subsR_upd l i s s' : nth_error l i = Some s -> flagsR s s' -> subsR l (upd_nth i s' l).
  Proof.
    intros E R j sj Hj. apply nth_upd_cases in Hj. destruct Hj as [(-> & -> & _)|(_ & Hj)].
    - exists s. auto.
    - exists sj. split; [assumption|apply flagsR_refl].
  Qed.

  Lemma fan_out_R u idx : forall subs, subsR subs (fan_out mt cap subs idx u).
  Proof.
    induction idx as [|j idx IH]; intros subs; cbn; [apply subsR_refl|].
    destruct (nth_error subs j) as [sj|] eqn:Ej; [|apply IH].
    destruct (mt j u); [|apply IH].
    eapply subsR_trans; [|apply IH]. eapply subsR_upd; [exact Ej|apply dispatch_flags].
  Qed.

  Lemma disconnect_all_R idx : forall subs, subsR subs (disconnect_all subs idx).
  Proof.
    induction idx as [|j idx IH]; intros subs; cbn; [apply subsR_refl|].
    destruct (nth_error subs j) as [sj|] eqn:Ej; [|apply IH].
    eapply subsR_trans; [|apply IH]. eapply subsR_upd; [exact Ej|apply disconnect_flags].
  Qed.

  Lemma publish_R st u coin : subsR (h_subs st) (h_subs (fst (publish st u coin))).
  Proof.
    unfold Hub.publish.
    destruct (h_closed_done st && h_persistent st); [apply subsR_refl|].
    destruct (Nat.eqb (h_close st) 2); [apply subsR_refl|].
    destruct (existsb _ (h_index st)); [apply subsR_refl|].
    cbn [fst]. unfold set_subs. destruct (h_persistent st); cbn [h_subs h_index]; apply fan_out_R.
  Qed.

  Lemma add_event_R st i a c st1 : add_event st i a c = Some st1 -> subsR (h_subs st) (h_subs st1).
  Proof.
    unfold Hub.add_event. destruct (negb tracking); [intros E; inversion E; subst; apply subsR_refl|].
    destruct (h_closed st); [intros E; inversion E; subst; apply subsR_refl|].
    pose proof (publish_R st (ev_id i a) c) as Hp.
    destruct (publish st (ev_id i a) c) as [st' []]; cbn [fst] in Hp; intros E; inversion E; subst; try apply subsR_refl.
    exact Hp.
  Qed.

  Lemma set_phase_R st i p : subsR (h_subs st) (h_subs (set_phase st i p)).
  Proof.
    unfold set_phase. destruct (nth_error (h_subs st) i) as [s|] eqn:E; [|apply subsR_refl].
    unfold set_sub, set_subs. cbn [h_subs]. eapply subsR_upd; [exact E|left; auto].
  Qed.

  Lemma sub_step_R st i s c st' : nth_error (h_subs st) i = Some s -> sub_step st i s c = Some st' -> subsR (h_subs st) (h_subs st').
  Proof.
    intros Hs Hstep. unfold Hub.sub_step in Hstep.
    destruct (hs_phase s) eqn:Ep.
    all: repeat match type of Hstep with
         | context [match ?x with _ => _ end] =>
             lazymatch x with
             | Hub.add_event _ _ _ _ _ _ _ => fail
             | context [match _ with _ => _ end] => fail
             | _ => destruct x eqn:?; try discriminate
             end
         | context [if ?x then _ else _] => destruct x eqn:?; try discriminate
         end.
    all: try (match type of Hstep with
              | option_map _ (Hub.add_event _ _ _ ?st0 ?i0 ?a0 ?c0) = Some _ =>
                  destruct (add_event st0 i0 a0 c0) as [st1|] eqn:Eev; [|discriminate];
                  cbn in Hstep; inversion Hstep; subst st'; clear Hstep;
                  eapply subsR_trans; [eapply add_event_R; eassumption|];
                  try (unfold metrics; cbn [h_subs]); apply set_phase_R
              end; fail).
    all: inversion Hstep; subst st'; clear Hstep.
    all: unfold metrics, set_sub, set_subs, set_index; cbn [h_subs].
    all: eapply subsR_upd; [exact Hs|].
    all: try (left; split; reflexivity).
    all: try (right; split; reflexivity).
    all: try (match goal with Hd : s_dispatch _ _ ?u ?h = (?s', _) |- _ =>
                let Hx := fresh in pose proof (dispatch_flags s u h) as Hx; rewrite Hd in Hx; cbn in Hx;
                destruct Hx as [[? ?]|[? ?]]; [left|right]; split; assumption end).
  Qed.

  Theorem wstep_R w a : subsR (h_subs (w_st w)) (h_subs (w_st (wstep w a))).
  Proof.
    destruct a as [t|t coin|i coin|i|i| |]; cbn [Hub.wstep].
    - destruct (nth_error (w_pubs w) t) as [p|]; [|apply subsR_refl].
      destruct (pb_todo p); [apply subsR_refl|]. destruct (pb_checked p); [apply subsR_refl|].
      destruct (h_closed (w_st w)); apply subsR_refl.
    - destruct (nth_error (w_pubs w) t) as [p|]; [|apply subsR_refl].
      destruct (pb_todo p) as [|u todo]; [apply subsR_refl|]. destruct (pb_checked p); [|apply subsR_refl].
      pose proof (publish_R (w_st w) u coin) as Hp.
      destruct (publish (w_st w) u coin) as [st' []]; cbn [fst] in Hp; cbn [set_pub w_st]; try apply subsR_refl.
      exact Hp.
    - destruct (nth_error (h_subs (w_st w)) i) as [s|] eqn:E; [|apply subsR_refl].
      destruct (sub_step (w_st w) i s coin) as [st'|] eqn:Es; [|apply subsR_refl]. eapply sub_step_R; eassumption.
    - destruct (nth_error (h_subs (w_st w)) i) as [s|] eqn:E; [|apply subsR_refl].
      destruct (recv_step (w_st w) i s) as [st'|] eqn:Es; [|apply subsR_refl]. cbn [w_st].
      unfold recv_step in Es. destruct (hs_phase s); try discriminate.
      destruct (hs_out s); [destruct (hs_closed s) eqn:Ec; [|discriminate]|]; inversion Es; subst;
        unfold set_sub, set_subs; cbn [h_subs]; (eapply subsR_upd; [exact E|left; split; cbn; congruence]).
    - destruct (nth_error (h_subs (w_st w)) i) as [s|] eqn:E; [|apply subsR_refl].
      destruct (leave_step (w_st w) i s) as [st'|] eqn:Es; [|apply subsR_refl]. cbn [w_st].
      unfold leave_step in Es. destruct (hs_phase s); try discriminate. inversion Es; subst.
      unfold set_sub, set_subs; cbn [h_subs]. eapply subsR_upd; [exact E|].
      pose proof (disconnect_flags s) as [[A B]|[A B]]; [left|right]; split; assumption.
    - destruct (close_step (w_st w)) as [st'|] eqn:Es; [|apply subsR_refl]. cbn [w_st].
      unfold close_step in Es. destruct (h_close (w_st w)) as [|[|[|]]]; try discriminate.
      + inversion Es; subst. apply subsR_refl.
      + destruct (existsb _ _); [discriminate|]. inversion Es; subst. cbn [set_close set_subs h_subs]. apply disconnect_all_R.
      + destruct (h_persistent _ && _); [discriminate|]. inversion Es; subst. apply subsR_refl.
    - cbn [w_st crash h_subs]. intros j s' Hj. rewrite nth_error_map in Hj.
      destruct (nth_error (h_subs (w_st w)) j) as [s0|] eqn:E0; [|discriminate]. inversion Hj; subst.
      exists s0. split; [reflexivity|]. destruct (hs_phase s0); left; split; reflexivity.
  Qed.

  (* in every reachable state: disconnected <-> channel closed, for every subscriber *)
  Definition FlagsEq (st : hstate) : Prop := forall i s, nth_error (h_subs st) i = Some s -> hs_disc s = hs_closed s.

  Theorem flags_reachable persistent size reqs pubs sched :
    FlagsEq (w_st (wrun (winit persistent size reqs pubs) sched)).
  Proof.
    unfold Hub.wrun.
    assert (H0 : FlagsEq (w_st (winit persistent size reqs pubs))).
    { intros i s Hi. cbn in Hi. rewrite nth_error_map in Hi. destruct (nth_error reqs i); [|discriminate]. inversion Hi; reflexivity. }
    revert H0. generalize (winit persistent size reqs pubs).
    induction sched as [|a sched IH]; intros w H0; [exact H0|]. cbn. apply IH.
    intros i s' Hi. destruct (wstep_R w a _ _ Hi) as (s & E & [[A B]|[A B]]); [rewrite A, B; eapply H0; eassumption|congruence].
  Qed.

  (* ---------- C15: closing ---------- *)

  Lemma set_phase_frame st i p : h_close (set_phase st i p) = h_close st /\ h_index (set_phase st i p) = h_index st.
  Proof. unfold set_phase. destruct (nth_error (h_subs st) i); split; reflexivity. Qed.

  Lemma sub_step_frame st i s c st' :
    sub_step st i s c = Some st' ->
    h_close st' = h_close st /\ (forall j, In j (h_index st') -> In j (h_index st) \/ h_close st = 0%nat).
  Proof.
    intros Hstep. unfold Hub.sub_step in Hstep.
    destruct (hs_phase s) eqn:Ep.
    all: repeat match type of Hstep with
         | context [match ?x with _ => _ end] =>
             lazymatch x with
             | Hub.add_event _ _ _ _ _ _ _ => fail
             | context [match _ with _ => _ end] => fail
             | _ => destruct x eqn:?; try discriminate
             end
         | context [if ?x then _ else _] => destruct x eqn:?; try discriminate
         end.
    all: try (match type of Hstep with
              | option_map _ (Hub.add_event _ _ _ ?st0 ?i0 ?a0 ?c0) = Some _ =>
                  destruct (add_event st0 i0 a0 c0) as [st1|] eqn:Eev; [|discriminate];
                  cbn in Hstep; inversion Hstep; subst st'; clear Hstep;
                  destruct (add_event_frame _ _ _ _ _ _ _ _ Eev) as (_ & _ & _ & _ & F & G & _);
                  try (unfold metrics; cbn [h_close h_index]);
                  destruct (set_phase_frame st1 i0 PAnnounced) as [_ _];
                  match goal with |- context [set_phase st1 ?ii ?pp] => destruct (set_phase_frame st1 ii pp) as [X Y] end;
                  rewrite X, Y, F, G; split; [reflexivity|intros j Hj; left; exact Hj]
              end; fail).
    all: inversion Hstep; subst st'; clear Hstep.
    all: unfold metrics, set_sub, set_subs, set_index; cbn [h_close h_index].
    all: split; [reflexivity|].
    all: intros j Hj; try (left; exact Hj).
    - (* registration: only while the closed channel is open *)
      right. unfold h_closed in *. destruct (h_close st); [reflexivity|discriminate].
    - left. apply filter_In in Hj. destruct Hj; assumption.
  Qed.

  Definition I15 (st : hstate) : Prop := FlagsEq st /\ ClosedOk st.

  Theorem i15_wstep w a : I15 (w_st w) -> I15 (w_st (wstep w a)).
  Proof.
    intros [HF HC]. split.
    { intros i s' Hi. destruct (wstep_R w a _ _ Hi) as (s & E & [[A B]|[A B]]); [rewrite A, B; eapply HF; eassumption|congruence]. }
    (* closed stays closed for every subscriber *)
    assert (Mono : forall j s', nth_error (h_subs (w_st (wstep w a))) j = Some s' ->
                   exists s, nth_error (h_subs (w_st w)) j = Some s /\ (hs_closed s = true -> hs_closed s' = true)).
    { intros j s' Hj. destruct (wstep_R w a _ _ Hj) as (s & E & [[A B]|[A B]]); exists s; (split; [assumption|]); intros; congruence. }
    destruct a as [t|t coin|i coin|i|i| |]; cbn [Hub.wstep] in *.
    - destruct (nth_error (w_pubs w) t) as [p|]; [|exact HC].
      destruct (pb_todo p); [exact HC|]. destruct (pb_checked p); [exact HC|].
      destruct (h_closed (w_st w)); exact HC.
    - destruct (nth_error (w_pubs w) t) as [p|]; [|exact HC].
      destruct (pb_todo p) as [|u todo]; [exact HC|]. destruct (pb_checked p); [|exact HC].
      destruct (publish (w_st w) u coin) as [st' []] eqn:Ep; cbn [set_pub w_st] in *; try exact HC.
      destruct (publish_frame _ _ _ _ _ _ _ Ep) as (_ & _ & _ & _ & F & G & _).
      intros Hge i s Hin Hs. unfold ack in *. cbn [h_close h_index h_subs] in *. rewrite F in Hge. rewrite G in Hin.
      destruct (Mono _ _ Hs) as (s0 & E0 & M0). apply M0. eapply HC; eassumption.
    - destruct (nth_error (h_subs (w_st w)) i) as [s|] eqn:E; [|exact HC].
      destruct (sub_step (w_st w) i s coin) as [st'|] eqn:Es; cbn [w_st] in *; [|exact HC].
      destruct (sub_step_frame _ _ _ _ _ Es) as (F & G).
      intros Hge j sj Hin Hs. rewrite F in Hge.
      destruct (G _ Hin) as [Hin0|H0]; [|lia].
      destruct (Mono _ _ Hs) as (s0 & E0 & M0). apply M0. eapply HC; eassumption.
    - destruct (nth_error (h_subs (w_st w)) i) as [s|] eqn:E; [|exact HC].
      destruct (recv_step (w_st w) i s) as [st'|] eqn:Es; cbn [w_st] in *; [|exact HC].
      assert (FG : h_close st' = h_close (w_st w) /\ h_index st' = h_index (w_st w)).
      { unfold recv_step in Es. destruct (hs_phase s); try discriminate.
        destruct (hs_out s); [destruct (hs_closed s); [|discriminate]|]; inversion Es; subst; split; reflexivity. }
      destruct FG as [F G]. intros Hge j sj Hin Hs. rewrite F in Hge. rewrite G in Hin.
      destruct (Mono _ _ Hs) as (s0 & E0 & M0). apply M0. eapply HC; eassumption.
    - destruct (nth_error (h_subs (w_st w)) i) as [s|] eqn:E; [|exact HC].
      destruct (leave_step (w_st w) i s) as [st'|] eqn:Es; cbn [w_st] in *; [|exact HC].
      assert (FG : h_close st' = h_close (w_st w) /\ h_index st' = h_index (w_st w)).
      { unfold leave_step in Es. destruct (hs_phase s); try discriminate. inversion Es; subst; split; reflexivity. }
      destruct FG as [F G]. intros Hge j sj Hin Hs. rewrite F in Hge. rewrite G in Hin.
      destruct (Mono _ _ Hs) as (s0 & E0 & M0). apply M0. eapply HC; eassumption.
    - destruct (close_step (w_st w)) as [st'|] eqn:Es; cbn [w_st] in *; [|exact HC].
      unfold close_step in Es. destruct (h_close (w_st w)) as [|[|[|]]] eqn:Ec; try discriminate.
      + inversion Es; subst. intros Hge. cbn in Hge. lia.
      + destruct (existsb _ _); [discriminate|]. inversion Es; subst st'. clear Es.
        intros _ j sj Hin Hs. cbn [set_close set_subs h_index h_subs] in *.
        assert (HD : forall i s, nth_error (h_subs (w_st w)) i = Some s -> hs_disc s = true -> hs_closed s = true).
        { intros i0 s0 E0 D0. rewrite <- (HF _ _ E0). assumption. }
        destruct (disconnect_all_closed (h_index (w_st w)) (h_subs (w_st w)) HD) as (_ & B & _).
        eapply B; eassumption.
      + destruct (h_persistent _ && _); [discriminate|]. inversion Es; subst st'. clear Es.
        intros _ j sj Hin Hs. cbn [set_close h_index h_subs] in *. eapply HC; [rewrite Ec; lia|eassumption|eassumption].
    - intros Hge. cbn in Hge. lia.
  Qed.

  (* C15: once Close has disconnected (phase >= 2), and for ever after, every indexed subscriber's channel is closed *)
  Theorem streams_end persistent size reqs pubs sched :
    ClosedOk (w_st (wrun (winit persistent size reqs pubs) sched)).
  Proof.
    unfold Hub.wrun.
    assert (H0 : I15 (w_st (winit persistent size reqs pubs))).
    { split.
      - intros i s Hi. cbn in Hi. rewrite nth_error_map in Hi. destruct (nth_error reqs i); [|discriminate]. inversion Hi; reflexivity.
      - intros Hge. cbn in Hge. lia. }
    assert (G : forall w, I15 (w_st w) -> I15 (w_st (fold_left wstep sched w))).
    { induction sched as [|a sched IH]; intros w Hw; [exact Hw|]. cbn. apply IH. apply i15_wstep. exact Hw. }
    apply G. exact H0.
  Qed.

  (* C15: after Close has begun, a publish is refused and changes nothing *)
  Theorem publish_rejected_after_close w t p u todo :
    h_closed (w_st w) = true -> nth_error (w_pubs w) t = Some p -> pb_todo p = u :: todo -> pb_checked p = false ->
    w_st (wstep w (APubCheck t)) = w_st w /\
    exists p', nth_error (w_pubs (wstep w (APubCheck t))) t = Some p' /\ pb_results p' = pb_results p ++ [(u, false)].
  Proof.
    intros Hc Hp Ht Hk. cbn [Hub.wstep]. rewrite Hp, Ht, Hk, Hc. cbn [set_pub w_st w_pubs].
    split; [reflexivity|]. eexists. split; [eapply nth_upd_eq; eassumption|reflexivity].
  Qed.

  (* C15: ... and a subscriber is refused, without being indexed *)
  Theorem subscribe_rejected_after_close st i s c st' :
    h_closed st = true -> nth_error (h_subs st) i = Some s -> hs_phase s = PAnnounced -> sub_step st i s c = Some st' ->
    h_index st' = h_index st /\ exists s', nth_error (h_subs st') i = Some s' /\ hs_phase s' = PRefused.
  Proof.
    intros Hc Hn Hp Hs. unfold Hub.sub_step in Hs. rewrite Hp, Hc in Hs.
    destruct (add_event st i false c) as [st1|] eqn:Eev; [|discriminate]. cbn in Hs. inversion Hs; subst st'.
    destruct (add_event_frame _ _ _ _ _ _ _ _ Eev) as (A & _ & _ & _ & _ & G & _).
    destruct (set_phase_frame st1 i PRefused) as [_ Y]. rewrite Y, G. split; [reflexivity|].
    destruct (phases_nth _ _ _ _ A Hn) as (s1 & E1 & _).
    unfold set_phase. rewrite E1. unfold set_sub, set_subs. cbn [h_subs].
    eexists. split; [eapply nth_upd_eq; eassumption|reflexivity].
  Qed.

  (* C15: closing twice is harmless *)
  Theorem close_idempotent st : h_close st = 3%nat -> close_step st = None.
  Proof. intros H. unfold close_step. rewrite H. reflexivity. Qed.
End P.
