(* SubLtsProofs.v — invariants of the LocalSubscriber transition system, for every
   schedule, any number of threads and any method sequences (C13, C14). *)
From Mercure Require Import Base SubLts.
From Coq Require Import Lia.

Definition holds_live_b (p : pc) : bool :=
  match p with
  | D3 _ _ | D4q _ _ | D4 _ _ | R1 | Rc | Rx1 | Rx2 | R2 _ | R3 | R4 | R5 | G1 | G2 | G3 | G4 => true
  | _ => false
  end.

Definition holds_out_b (p : pc) : bool :=
  match p with
  | D6 _ _ | D6u | D7 _ _ | D8 | F1 | F2 | F3 | Rc | Rx1 | R2 _ | R3 | R4 | G1 | G2 | G3
  | X2 | X2u | X3 | X4 | X5 => true
  | _ => false
  end.

(* holds outMutex and has seen disconnected = 0 under it *)
Definition fresh_b (p : pc) : bool :=
  match p with D7 _ _ | R2 _ | R3 | X3 | F1 | G1 => true | _ => false end.

(* has stored disconnected = 1 and is about to close the channel *)
Definition preclose_b (p : pc) : bool :=
  match p with F2 | G2 | X4 => true | _ => false end.

Lemma fresh_holds p : fresh_b p = true -> holds_out_b p = true.
Proof. destruct p; cbn; congruence. Qed.
Lemma preclose_holds p : preclose_b p = true -> holds_out_b p = true.
Proof. destruct p; cbn; congruence. Qed.

Definition thread_ok (s : sstate) (i : nat) (th : thread) : Prop :=
  (holds_live_b (t_pc th) = true -> liveM s = Some i) /\
  (holds_out_b (t_pc th) = true -> outM s = Some i) /\
  (fresh_b (t_pc th) = true -> disc s = false /\ closed s = false) /\
  (preclose_b (t_pc th) = true -> disc s = true /\ closed s = false).

Record Inv (s : sstate) : Prop := {
  i_threads : forall j th, nth_error (threads s) j = Some th -> thread_ok s j th;
  i_panic : panicked s = false;
  i_closed : closed s = true -> disc s = true;
  i_live : forall k, liveM s = Some k -> exists th, nth_error (threads s) k = Some th /\ holds_live_b (t_pc th) = true;
  i_out : forall k, outM s = Some k -> exists th, nth_error (threads s) k = Some th /\ holds_out_b (t_pc th) = true;
  i_cut : disc s = true -> closed s = false -> exists k th, nth_error (threads s) k = Some th /\ preclose_b (t_pc th) = true;
  i_buf : (length (out s) <= cap s)%nat /\ sent s = recvd s ++ out s;
  i_quiet : disc s = true -> forall k th, nth_error (threads s) k = Some th -> fresh_b (t_pc th) = false
}.

Lemma nth_upd_eq {A} (l : list A) i x y : nth_error l i = Some y -> nth_error (upd_nth i x l) i = Some x.
Proof. revert i. induction l as [|a l IH]; intros [|i]; cbn; try discriminate; auto. Qed.

Lemma nth_upd_neq {A} (l : list A) i j x : i <> j -> nth_error (upd_nth i x l) j = nth_error l j.
Proof. revert i j. induction l as [|a l IH]; intros [|i] [|j] H; cbn; try congruence; auto. Qed.

Lemma init_inv capacity progs : Inv (init capacity progs).
Proof.
  constructor; cbn; try congruence; try discriminate.
  - intros j th H. apply nth_error_In in H. apply in_map_iff in H. destruct H as (p & <- & _).
    repeat split; cbn; discriminate.
  - split; [lia|reflexivity].
Qed.

Lemma holds_true l i : holds l i = true <-> l = Some i.
Proof.
  unfold holds. destruct l as [j|]; [|split; discriminate].
  rewrite Nat.eqb_eq. split; congruence.
Qed.

Theorem step_inv s i s' : Inv s -> step s i = Some s' -> Inv s'.
Proof.
  intros HI Hs. unfold step in Hs.
  destruct (nth_error (threads s) i) as [th|] eqn:Eth; [|discriminate].
  destruct (thread_step s i th) as [[s1 th1]|] eqn:Ets; [|discriminate].
  inversion Hs; subst s'; clear Hs.
  destruct HI as [Hthr Hpan Hcl Hlive Hout Hcut Hbuf Hquiet].
  pose proof (Hthr i th Eth) as (TL & TO & TF & TP).
  unfold thread_step in Ets.
  destruct th as [p todo rets]. cbn [t_pc t_todo t_rets] in *.
  destruct p; cbn [holds_live_b holds_out_b fresh_b preclose_b] in *.
  all: repeat match goal with
       | H : true = true -> _ |- _ => specialize (H eq_refl)
       | H : false = true -> _ |- _ => clear H
       end.
  all: try (destruct TF as [TF1 TF2]); try (destruct TP as [TP1 TP2]).
  all: repeat match type of Ets with
       | context [match ?x with _ => _ end] => destruct x eqn:?; try discriminate
       end.
  all: inversion Ets; subst s1 th1; clear Ets.
  all: unfold unlock_liveM, unlock_outM, goto, ret, done in *; cbn [t_pc t_todo t_rets] in *.
  all: repeat match goal with
       | H : liveM ?s = Some ?i |- context [holds (liveM ?s) ?i] => rewrite (proj2 (holds_true _ _) H)
       | H : outM ?s = Some ?i |- context [holds (outM ?s) ?i] => rewrite (proj2 (holds_true _ _) H)
       end.
  all: unfold w_recv in *;
       repeat match goal with H : out ?s = _ |- _ => rewrite H in * end.
  all: try match type of Hcut with true = true -> _ => specialize (Hcut eq_refl) end.
  all: try match type of Hquiet with true = true -> _ => specialize (Hquiet eq_refl) end.
  all: constructor; cbn [set_thread w_disc w_ready w_close w_send w_panic w_queue w_liveM w_outM
                         disc ready closed out liveq liveM outM cap sent recvd ended panicked threads] in *.
  all: match goal with
       (* i_threads *)
       | |- forall j thj, nth_error _ j = Some thj -> thread_ok _ j thj =>
           intros j thj Hj;
           destruct (Nat.eq_dec i j) as [<-|Hne];
           [ rewrite (nth_upd_eq _ _ _ _ Eth) in Hj; inversion Hj; subst thj;
             repeat split; cbn; intros; try discriminate; try congruence; try tauto; auto
           | rewrite (nth_upd_neq _ _ _ _ Hne) in Hj; pose proof (Hthr j thj Hj) as Hok;
             let A := fresh "A" in let B := fresh "B" in let C := fresh "C" in let D := fresh "D" in
             destruct Hok as (A & B & C & D);
             repeat split; cbn in *; intros;
             try (match goal with H : fresh_b _ = true |- _ => pose proof (fresh_holds _ H) end);
             try (match goal with H : preclose_b _ = true |- _ => pose proof (preclose_holds _ H) end);
             repeat match goal with
                    | H : ?X = true -> _, H' : ?X = true |- _ => specialize (H H')
                    end;
             try congruence; try tauto; try (destruct C; congruence); try (destruct D; congruence) ]
       (* i_live / i_out *)
       | |- forall k, _ = Some k -> exists th, nth_error _ k = Some th /\ holds_live_b _ = true =>
           intros k Hk; destruct (Nat.eq_dec i k) as [<-|Hne];
           [ first [ eexists; split; [eapply nth_upd_eq; eassumption | reflexivity]
                   | exfalso; destruct (Hlive _ Hk) as (th0 & E0 & P0); rewrite Eth in E0; inversion E0; subst; cbn in P0; discriminate
                   | discriminate | congruence ]
           | first [ destruct (Hlive _ Hk) as (th0 & E0 & P0); exists th0; split; [rewrite nth_upd_neq by auto; assumption | assumption]
                   | congruence | discriminate ] ]
       | |- forall k, _ = Some k -> exists th, nth_error _ k = Some th /\ holds_out_b _ = true =>
           intros k Hk; destruct (Nat.eq_dec i k) as [<-|Hne];
           [ first [ eexists; split; [eapply nth_upd_eq; eassumption | reflexivity]
                   | exfalso; destruct (Hout _ Hk) as (th0 & E0 & P0); rewrite Eth in E0; inversion E0; subst; cbn in P0; discriminate
                   | discriminate | congruence ]
           | first [ destruct (Hout _ Hk) as (th0 & E0 & P0); exists th0; split; [rewrite nth_upd_neq by auto; assumption | assumption]
                   | congruence | discriminate ] ]
       (* i_cut *)
       | |- _ = true -> _ = false -> exists k th, nth_error _ k = Some th /\ preclose_b _ = true =>
           intros Hd Hc;
           first [ exists i; eexists; split; [eapply nth_upd_eq; eassumption | reflexivity]
                 | discriminate | congruence
                 | destruct (Hcut Hd Hc) as (k & th0 & E0 & P0); destruct (Nat.eq_dec i k) as [<-|Hne];
                   [ rewrite Eth in E0; inversion E0; subst; cbn in P0; discriminate
                   | exists k, th0; split; [rewrite nth_upd_neq by auto; assumption | assumption] ]
                 | destruct (Hcut Hc) as (k & th0 & E0 & P0); destruct (Nat.eq_dec i k) as [<-|Hne];
                   [ rewrite Eth in E0; inversion E0; subst; cbn in P0; discriminate
                   | exists k, th0; split; [rewrite nth_upd_neq by auto; assumption | assumption] ] ]
       (* i_quiet *)
       | |- _ = true -> forall k th, nth_error _ k = Some th -> fresh_b _ = false =>
           intros Hd k thk Hk; destruct (Nat.eq_dec i k) as [<-|Hne];
           [ rewrite (nth_upd_eq _ _ _ _ Eth) in Hk; inversion Hk; subst; cbn; first [reflexivity | congruence]
           | rewrite nth_upd_neq in Hk by auto;
             first [ eapply Hquiet; eassumption
                   | destruct (fresh_b (t_pc thk)) eqn:Ef; [|reflexivity];
                     pose proof (fresh_holds _ Ef) as Ho;
                     pose proof (Hthr k thk Hk) as (_ & B & _); specialize (B Ho); congruence ] ]
       (* i_buf *)
       | |- (_ <= _)%nat /\ _ = _ =>
           destruct Hbuf as [Hb1 Hb2];
           repeat match goal with H : Nat.ltb _ _ = true |- _ => apply Nat.ltb_lt in H end;
           split; [ rewrite ?app_length; cbn in *; lia
                  | rewrite ?Hb2, <- ?app_assoc; cbn; reflexivity ]
       (* i_panic *)
       | |- _ = false => cbn; rewrite ?Hpan, ?TF2, ?TP2; first [reflexivity | assumption]
       (* i_closed *)
       | |- _ = true -> _ = true =>
           let Hx := fresh "Hx" in
           intros Hx; first [ reflexivity | congruence | (pose proof (Hcl Hx); congruence) | auto ]
       | |- ?G => let T := type of Hcut in let T2 := type of Hquiet in idtac "NOMATCH" G "HCUT" T "HQUIET" T2
       end.
  all: try assumption; try congruence.
  all: try (destruct (closed s) eqn:Ec; [pose proof (Hcl eq_refl); discriminate | reflexivity]).
Qed.

(* ---------- every reachable state ---------- *)

Lemma step_or_stay_inv s i : Inv s -> Inv (step_or_stay s i).
Proof. intros H. unfold step_or_stay. destruct (step s i) eqn:E; [eapply step_inv; eassumption|assumption]. Qed.

Theorem run_inv sched : forall s, Inv s -> Inv (run s sched).
Proof. induction sched as [|i sched IH]; intros s H; [assumption|]. cbn. apply IH. apply step_or_stay_inv. assumption. Qed.

Theorem reachable_inv capacity progs sched : Inv (run (init capacity progs) sched).
Proof. apply run_inv, init_inv. Qed.

(* C14: no close of a closed channel, no send on a closed channel, no unlock of a mutex not held *)
Theorem no_panic capacity progs sched : panicked (run (init capacity progs) sched) = false.
Proof. apply i_panic, reachable_inv. Qed.

(* C14: mutual exclusion, hence no unsynchronised access to liveQueue / the plain read of ready *)
Theorem mutex capacity progs sched j k tj tk :
  let s := run (init capacity progs) sched in
  nth_error (threads s) j = Some tj -> nth_error (threads s) k = Some tk ->
  (holds_live_b (t_pc tj) = true -> holds_live_b (t_pc tk) = true -> j = k) /\
  (holds_out_b (t_pc tj) = true -> holds_out_b (t_pc tk) = true -> j = k).
Proof.
  intros s Hj Hk. pose proof (reachable_inv capacity progs sched) as HI. fold s in HI.
  destruct (i_threads s HI j tj Hj) as (A1 & B1 & _). destruct (i_threads s HI k tk Hk) as (A2 & B2 & _).
  split; intros H1 H2; [specialize (A1 H1); specialize (A2 H2)|specialize (B1 H1); specialize (B2 H2)]; congruence.
Qed.

(* C13: the buffer never exceeds its capacity and the consumer sees exactly what was sent, in order *)
Theorem buffer_bounded capacity progs sched :
  let s := run (init capacity progs) sched in
  (length (out s) <= cap s)%nat /\ sent s = recvd s ++ out s.
Proof. apply i_buf, reachable_inv. Qed.

(* C13: why a thread cannot step - never because of a channel send *)
Inductive blocked_on := Finished | WaitLiveM (holder : nat) | WaitOutM (holder : nat) | EmptyChannel.

Definition why_blocked (s : sstate) (th : thread) : option blocked_on :=
  match t_pc th with
  | Idle => match t_todo th with
            | [] => Some Finished
            | ORecv :: _ => match out s with [] => if closed s then None else Some EmptyChannel | _ => None end
            | _ => None
            end
  | D2 _ _ | R0 => match liveM s with Some k => Some (WaitLiveM k) | None => None end
  | D5 _ _ | R1 | X1 => match outM s with Some k => Some (WaitOutM k) | None => None end
  | _ => None
  end.

Theorem blocked_only_on s i th :
  nth_error (threads s) i = Some th ->
  (step s i = None <-> why_blocked s th <> None).
Proof.
  intros E. unfold step. rewrite E. unfold why_blocked, thread_step.
  destruct th as [p todo rets]; cbn [t_pc t_todo].
  destruct p; cbn.
  all: repeat match goal with
       | |- context [match ?x with _ => _ end] =>
           lazymatch x with
           | context [match _ with _ => _ end] => fail
           | _ => destruct x; cbn
           end
       end.
  all: split; intros H; try discriminate; try congruence; try (exfalso; apply H; reflexivity).
Qed.

(* a thread inside the outMutex critical section can always take its next step *)
Lemma out_holder_steps s k th :
  nth_error (threads s) k = Some th -> holds_out_b (t_pc th) = true -> step s k <> None.
Proof.
  intros E H. unfold step. rewrite E. unfold thread_step.
  destruct th as [p todo rets]; cbn [t_pc t_todo] in *.
  destruct p; cbn in H; try discriminate; cbn;
    repeat match goal with
           | |- context [match ?x with _ => _ end] =>
               lazymatch x with
               | context [match _ with _ => _ end] => fail
               | _ => destruct x; cbn
               end
           end; discriminate.
Qed.

Ltac break_inner :=
  repeat match goal with
         | |- context [match ?x with _ => _ end] =>
             lazymatch x with
             | context [match _ with _ => _ end] => fail
             | _ => destruct x; cbn
             end
         end.

Lemma wait_live s th k : why_blocked s th = Some (WaitLiveM k) -> liveM s = Some k.
Proof.
  unfold why_blocked. destruct (t_pc th); cbn; try discriminate.
  - destruct (t_todo th) as [|[] ?]; try discriminate. destruct (out s); [destruct (closed s)|]; discriminate.
  - destruct (liveM s); [intros H; inversion H; reflexivity|discriminate].
  - destruct (outM s); discriminate.
  - destruct (liveM s); [intros H; inversion H; reflexivity|discriminate].
  - destruct (outM s); discriminate.
  - destruct (outM s); discriminate.
Qed.

Lemma wait_out s th k : why_blocked s th = Some (WaitOutM k) -> outM s = Some k.
Proof.
  unfold why_blocked. destruct (t_pc th); cbn; try discriminate.
  - destruct (t_todo th) as [|[] ?]; try discriminate. destruct (out s); [destruct (closed s)|]; discriminate.
  - destruct (liveM s); discriminate.
  - destruct (outM s); [intros H; inversion H; reflexivity|discriminate].
  - destruct (liveM s); discriminate.
  - destruct (outM s); [intros H; inversion H; reflexivity|discriminate].
  - destruct (outM s); [intros H; inversion H; reflexivity|discriminate].
Qed.

(* a thread inside the liveMutex critical section can step, unless it waits for outMutex *)
Lemma live_holder_progress s k th :
  nth_error (threads s) k = Some th -> holds_live_b (t_pc th) = true ->
  step s k <> None \/ exists k2, outM s = Some k2.
Proof.
  intros E H. unfold step. rewrite E. unfold thread_step.
  destruct th as [p todo rets]; cbn [t_pc t_todo] in *.
  destruct p; cbn in H; try discriminate; cbn.
  all: try (left; break_inner; discriminate).
  destruct (outM s) as [k2|]; [right; exists k2; reflexivity|left; discriminate].
Qed.

(* C14: no deadlock. If some thread still has work that is not "wait for data on the open channel",
   some thread can step: lock order liveMutex < outMutex, and critical sections never block. *)
Theorem no_deadlock capacity progs sched i th :
  let s := run (init capacity progs) sched in
  nth_error (threads s) i = Some th ->
  why_blocked s th <> Some Finished -> why_blocked s th <> Some EmptyChannel ->
  exists j, step s j <> None.
Proof.
  intros s E Hf He. pose proof (reachable_inv capacity progs sched) as HI. fold s in HI.
  destruct (why_blocked s th) as [[|k|k|]|] eqn:W; try congruence.
  - apply wait_live in W. destruct (i_live s HI k W) as (thk & Ek & Pk).
    destruct (live_holder_progress s k thk Ek Pk) as [Hs|(k2 & Hk2)]; [exists k; assumption|].
    destruct (i_out s HI k2 Hk2) as (th2 & E2 & P2).
    exists k2. eapply out_holder_steps; eassumption.
  - apply wait_out in W. destruct (i_out s HI k W) as (thk & Ek & Pk).
    exists k. eapply out_holder_steps; eassumption.
  - exists i. intros Hn. apply (proj1 (blocked_only_on s i th E)) in Hn. congruence.
Qed.

(* C13 cut-off: once the subscriber is marked disconnected nothing is ever appended to what it is sent *)
Theorem nothing_after_disconnect s i s' :
  Inv s -> disc s = true -> step s i = Some s' -> sent s' = sent s /\ disc s' = true.
Proof.
  intros HI Hd Hs. unfold step in Hs.
  destruct (nth_error (threads s) i) as [th|] eqn:Eth; [|discriminate].
  pose proof (i_quiet s HI Hd i th Eth) as Hq.
  destruct (thread_step s i th) as [[s1 th1]|] eqn:Ets; [|discriminate].
  inversion Hs; subst s'; clear Hs. unfold thread_step in Ets.
  destruct th as [p todo rets]; cbn [t_pc t_todo t_rets] in *.
  destruct p; cbn in Hq; try discriminate.
  all: repeat match type of Ets with
       | context [match ?x with _ => _ end] => destruct x eqn:?; try discriminate
       end.
  all: inversion Ets; subst; clear Ets.
  all: unfold unlock_liveM, unlock_outM, w_recv; cbn.
  all: repeat match goal with |- context [if ?x then _ else _] => destruct x; cbn end.
  all: repeat match goal with |- context [match ?x with _ => _ end] => destruct x; cbn end.
  all: split; first [reflexivity | assumption].
Qed.

(* ... and the hub itself ends the stream: while it is disconnected but still open, the thread that
   disconnected it holds outMutex, can step, and that step closes the channel *)
Theorem cut_off_completes capacity progs sched :
  let s := run (init capacity progs) sched in
  disc s = true -> closed s = false ->
  exists k th s', nth_error (threads s) k = Some th /\ preclose_b (t_pc th) = true /\
                  step s k = Some s' /\ closed s' = true.
Proof.
  intros s Hd Hc. pose proof (reachable_inv capacity progs sched) as HI. fold s in HI.
  destruct (i_cut s HI Hd Hc) as (k & th & E & P).
  exists k, th. unfold step. rewrite E. unfold thread_step.
  destruct th as [p todo rets]; cbn [t_pc] in *. destruct p; cbn in P; try discriminate; cbn;
    eexists; repeat split; reflexivity.
Qed.

(* once closed and drained, the consumer's next receive observes the end of the stream *)
Theorem consumer_sees_end s i th todo :
  nth_error (threads s) i = Some th -> t_pc th = Idle -> t_todo th = ORecv :: todo ->
  closed s = true -> out s = [] ->
  exists s', step s i = Some s' /\ ended s' = true.
Proof.
  intros E Hp Ht Hc Ho. unfold step. rewrite E. unfold thread_step. rewrite Hp, Ht, Ho, Hc.
  eexists. split; [reflexivity|]. unfold w_recv. rewrite Ho. reflexivity.
Qed.
