(* TimersProofs.v — C16: heartbeat cadence, no write after the deadline, the hub ends the connection at the
   right instant; for every configuration, token expiry and arrival times. *)
From Mercure Require Import Base Timers.
From Coq Require Import ZArith Lia ZifyBool.
Open Scope Z_scope.

(* the write deadline is the earlier of "now + write timeout" and the token's expiry, absent terms dropped *)
Theorem deadlines c :
  match write_deadline c with
  | None => write_timeout c = 0 /\ token_exp c = None
  | Some d =>
      (write_timeout c <> 0 -> d <= write_timeout c) /\ (forall e, token_exp c = Some e -> d <= e) /\
      ((write_timeout c <> 0 /\ d = write_timeout c) \/ token_exp c = Some d)
  end.
Proof.
  unfold write_deadline.
  destruct (Z.eqb_spec (write_timeout c) 0) as [E|E]; destruct (token_exp c) as [e|].
  - split; [lia|]. split; [intros e0 H; inversion H; lia|right; reflexivity].
  - auto.
  - split; [lia|]. split; [intros e0 H; inversion H; subst; lia|].
    destruct (Z.min_spec (write_timeout c) e) as [[A B]|[A B]]; rewrite B; [left; auto|right; reflexivity].
  - split; [lia|]. split; [intros e0 H; discriminate|left; auto].
Qed.

(* the disconnection timer is armed exactly when a write timeout is configured, one dispatch timeout before the deadline *)
Theorem disconnect_due_spec c x :
  disconnect_due c = Some x <->
  write_timeout c <> 0 /\ exists d, write_deadline c = Some d /\ x = d - dispatch_timeout c.
Proof.
  unfold disconnect_due. destruct (Z.eqb_spec (write_timeout c) 0) as [E|E].
  - split; [discriminate|intros [H _]; congruence].
  - destruct (write_deadline c) as [d|] eqn:Ed.
    + split; [intros H; inversion H; subst; split; [assumption|eauto]|intros (_ & d' & Hd & ->); inversion Hd; reflexivity].
    + exfalso. unfold write_deadline in Ed. destruct (write_timeout c =? 0) eqn:E0; [lia|]. destruct (token_exp c); discriminate.
Qed.

Lemma thandler_S f c hb arr :
  thandler (S f) c hb arr =
  if ole (disconnect_due c) hb && ole (disconnect_due c) (hd_opt arr) then
    match disconnect_due c with Some t => [TEnd t true] | None => [] end
  else if ole (hd_opt arr) hb then
    match arr with
    | a :: rest => if write_ok c a then TWrite a WUpdate true :: thandler f c (next_hb c a) rest else [TWrite a WUpdate false; TEnd a false]
    | [] => []
    end
  else
    match hb with
    | Some h => if write_ok c h then TWrite h WHeartbeat true :: thandler f c (Some (h + heartbeat c)) arr else [TWrite h WHeartbeat false; TEnd h false]
    | None => []
    end.
Proof. reflexivity. Qed.

(* nothing is written successfully after the deadline in effect *)
Theorem no_write_after fuel : forall c hb arr t,
  In t (ok_writes (thandler fuel c hb arr)) -> write_ok c t = true.
Proof.
  induction fuel as [|f IH]; intros c hb arr t H; [destruct H|].
  rewrite thandler_S in H.
  destruct (ole (disconnect_due c) hb && ole (disconnect_due c) (hd_opt arr)).
  { destruct (disconnect_due c); destruct H. }
  destruct (ole (hd_opt arr) hb).
  - destruct arr as [|a rest]; [destruct H|].
    destruct (write_ok c a) eqn:Ew; [|destruct H].
    cbn in H. destruct H as [<-|H]; [assumption|eauto].
  - destruct hb as [h|]; [|destruct H].
    destruct (write_ok c h) eqn:Ew; [|destruct H].
    cbn in H. destruct H as [<-|H]; [assumption|eauto].
Qed.

(* on an open stream something is written at least once per heartbeat interval: every successful write happens
   no later than the instant the heartbeat was due *)
Theorem heartbeat_gap fuel : forall c prev arr,
  0 < heartbeat c ->
  gaps_le (heartbeat c) prev (ok_writes (thandler fuel c (Some (prev + heartbeat c)) arr)) = true.
Proof.
  induction fuel as [|f IH]; intros c prev arr Hh; [reflexivity|].
  rewrite thandler_S.
  destruct (ole (disconnect_due c) (Some (prev + heartbeat c)) && ole (disconnect_due c) (hd_opt arr)).
  { destruct (disconnect_due c); reflexivity. }
  destruct (ole (hd_opt arr) (Some (prev + heartbeat c))) eqn:El.
  - destruct arr as [|a rest]; [reflexivity|].
    destruct (write_ok c a); [|reflexivity].
    cbn [ok_writes flat_map app gaps_le]. cbn in El.
    unfold next_hb. replace (heartbeat c =? 0) with false by lia.
    fold (ok_writes (thandler f c (Some (a + heartbeat c)) rest)). rewrite IH by assumption.
    rewrite andb_true_r. lia.
  - destruct (write_ok c (prev + heartbeat c)); [|reflexivity].
    cbn [ok_writes flat_map app gaps_le].
    fold (ok_writes (thandler f c (Some (prev + heartbeat c + heartbeat c)) arr)). rewrite IH by assumption.
    rewrite andb_true_r. lia.
Qed.

(* when a maximum duration is configured the hub ends the connection itself, at the disconnection instant and not
   earlier, and no write fails before; otherwise the handler ends only on a write attempted after the deadline *)
Theorem end_exact fuel : forall c hb arr t b,
  0 <= dispatch_timeout c ->
  In (TEnd t b) (thandler fuel c hb arr) ->
  match disconnect_due c with
  | Some d => b = true /\ t = d
  | None => b = false /\ write_ok c t = false
  end.
Proof.
  induction fuel as [|f IH]; intros c hb arr t b Hd H; [destruct H|].
  rewrite thandler_S in H.
  destruct (ole (disconnect_due c) hb && ole (disconnect_due c) (hd_opt arr)) eqn:Eb.
  { destruct (disconnect_due c) as [d|]; [|destruct H].
    destruct H as [E|[]]. inversion E; subst. auto. }
  assert (Wok : forall d x, disconnect_due c = Some d -> x < d -> write_ok c x = true).
  { intros d x Hdd Hx. apply disconnect_due_spec in Hdd. destruct Hdd as (_ & wd & Hw & ->).
    unfold write_ok. rewrite Hw. lia. }
  destruct (ole (hd_opt arr) hb) eqn:El.
  - destruct arr as [|a rest]; [destruct H|].
    destruct (write_ok c a) eqn:Ew.
    + destruct H as [E|H]; [discriminate|eapply IH; eassumption].
    + destruct H as [E|[E|[]]]; [discriminate|]. inversion E; subst.
      destruct (disconnect_due c) as [d|] eqn:Edd; [|auto].
      exfalso. cbn in Eb, El.
      assert (t < d).
      { destruct hb as [h|]; cbn in Eb, El; lia. }
      rewrite (Wok d t eq_refl) in Ew by assumption. discriminate.
  - destruct hb as [h|]; [|destruct H].
    destruct (write_ok c h) eqn:Ew.
    + destruct H as [E|H]; [discriminate|eapply IH; eassumption].
    + destruct H as [E|[E|[]]]; [discriminate|]. inversion E; subst.
      destruct (disconnect_due c) as [d|] eqn:Edd; [|auto].
      exfalso. cbn in Eb, El.
      assert (t < d).
      { destruct arr as [|a rest]; cbn in Eb, El; lia. }
      rewrite (Wok d t eq_refl) in Ew by assumption. discriminate.
Qed.
