(* BoltPersistProofs.v — the cut-off read at registration separates what the history scan replays from what arrives live,
   whatever write transactions fail; the code before 3127a7e did not have this property. *)
From Mercure Require Import Base BoltHist BoltPersist.
From Coq Require Import Lia.

Section PP.
  Variable A : Type.
  Notation db := (db A).

  (* every stored key is at most the bucket sequence, and the fields agree with the database *)
  Definition Inv (t : tstate A) : Prop :=
    t_last_seq A t = d_seq A (t_db A t) /\ Forall (fun e => fst e <= d_seq A (t_db A t)) (d_entries A (t_db A t)).

  Lemma cleanup_sub size r seq es : forall e, In e (cleanup A size r seq es) -> In e es.
  Proof.
    unfold cleanup. destruct (N.eqb size 0 || negb r || N.leb seq size); [tauto|].
    intros e H. apply filter_In in H. apply H.
  Qed.

  Lemma persist_seq size d rx : d_seq A (persist A size d rx) = d_seq A d + 1.
  Proof. reflexivity. Qed.

  Lemma persist_entries size d rx e :
    In e (d_entries A (persist A size d rx)) -> In e (d_entries A d) \/ e = (d_seq A d + 1, snd rx).
  Proof.
    unfold persist. cbn [d_entries]. intros H. apply cleanup_sub in H. apply in_app_or in H.
    destruct H as [H|[H|[]]]; [left; exact H | right; symmetry; exact H].
  Qed.

  Lemma step_inv size t a : Inv t -> Inv (step A size t a).
  Proof.
    intros [H1 H2]. destruct a as [r x|x]; [|split; assumption]. split; [reflexivity|].
    cbn [step t_db]. rewrite persist_seq. apply Forall_forall. intros e He.
    apply persist_entries in He. destruct He as [He| ->].
    - rewrite Forall_forall in H2. specialize (H2 e He). lia.
    - cbn [fst]. lia.
  Qed.

  Lemma run_inv size l : forall t, Inv t -> Inv (run A size t l).
  Proof. induction l as [|a l IH]; intros t H; [exact H|]. apply IH. apply step_inv. exact H. Qed.

  Lemma step_seq_mono size t a : d_seq A (t_db A t) <= d_seq A (t_db A (step A size t a)).
  Proof. destruct a; cbn [step t_db]; [rewrite persist_seq|]; lia. Qed.

  Lemma run_seq_mono size l : forall t, d_seq A (t_db A t) <= d_seq A (t_db A (run A size t l)).
  Proof.
    induction l as [|a l IH]; intros t; [apply N.le_refl|]. cbn [run fold_left].
    eapply N.le_trans; [apply (step_seq_mono size t a)|]. apply IH.
  Qed.

  (* The cut-off. A subscriber registers in state t1 (reached by any attempts l1) and reads toSeq = lastSeq. Whatever
     happens next (l2), a key is at most toSeq iff it was already there at registration - never a key stored later -
     so "replay the keys <= toSeq, receive the later updates live" neither loses nor doubles anything. *)
  Theorem cutoff_separates size t0 l1 l2 : Inv t0 ->
    let t1 := run A size t0 l1 in
    let t2 := run A size t1 l2 in
    forall e, In e (d_entries A (t_db A t2)) ->
      (fst e <= t_last_seq A t1 -> In e (d_entries A (t_db A t1))) /\
      (In e (d_entries A (t_db A t1)) -> fst e <= t_last_seq A t1).
  Proof.
    intros H0 t1 t2 e He.
    assert (H1 : Inv t1) by (apply run_inv; exact H0).
    split.
    - subst t2. revert He. generalize dependent t1. induction l2 as [|a l2 IH]; intros t1 H1 He Hle; [exact He|].
      cbn [run fold_left] in He.
      (* go through the first step: either e was there, or it is the new key, whose sequence exceeds the cut-off *)
      assert (Hs : Inv (step A size t1 a)) by (apply step_inv; exact H1).
      destruct a as [r x|x]; [|apply IH; assumption].
      destruct (N.leb_spec (fst e) (d_seq A (t_db A t1))) as [Hc|Hc].
      + (* e's key is old: it is in t1 or it is not in any later state (keys only grow) *)
        destruct H1 as [H1a H1b].
        (* entries of later states with a key <= d_seq t1 come from t1 *)
        assert (G : forall l t, Inv t -> d_seq A (t_db A t1) <= d_seq A (t_db A t) ->
                     (forall e', In e' (d_entries A (t_db A t)) -> fst e' <= d_seq A (t_db A t1) -> In e' (d_entries A (t_db A t1))) ->
                     forall e', In e' (d_entries A (t_db A (run A size t l))) -> fst e' <= d_seq A (t_db A t1) -> In e' (d_entries A (t_db A t1))).
        { induction l as [|b l IHl]; intros t Ht Hge Hold e' He' Hk; [apply Hold; assumption|].
          cbn [run fold_left] in He'. apply (IHl (step A size t b)); [apply step_inv; exact Ht | | | exact He' | exact Hk].
          - destruct b; cbn [step t_db]; [rewrite persist_seq|]; lia.
          - intros e'' He'' Hk''. destruct b as [r' x'|x']; [|apply Hold; assumption].
            cbn [step t_db] in He''. apply persist_entries in He''. destruct He'' as [He''| ->]; [apply Hold; assumption|].
            cbn [fst] in Hk''. lia. }
        apply (G l2 (step A size t1 (Commit A r x)) Hs); [cbn [step t_db]; rewrite persist_seq; lia | | exact He | exact Hc].
        intros e' He' Hk'. cbn [step t_db] in He'. apply persist_entries in He'. destruct He' as [He'| ->]; [exact He'|].
        cbn [fst] in Hk'. lia.
      + destruct H1 as [H1a H1b]. rewrite H1a in Hle. lia.
    - intros Hin. destruct H1 as [H1a H1b]. rewrite H1a. rewrite Forall_forall in H1b. apply H1b. exact Hin.
  Qed.

  (* after any attempts the hub's last event id is the id of the last committed update *)
  Theorem last_id_is_last_committed size l : forall t,
    t_last_id A (run A size t l) = match rev (committed A l) with x :: _ => Some x | [] => t_last_id A t end.
  Proof.
    induction l as [|a l IH]; intros t; [reflexivity|]. cbn [run fold_left]. fold (run A size (step A size t a) l).
    rewrite IH. destruct a as [r x|x]; cbn [committed step t_last_id]; [|reflexivity].
    cbn [rev]. destruct (rev (committed A l)) as [|y ys]; reflexivity.
  Qed.
End PP.

(* the code before 3127a7e: one commit, one failed write, one commit - the third update is stored under a sequence
   number that is not above the cut-off a subscriber read in between, and the failed update's id is reported as last *)
Lemma old_code_refuted :
  let t0 := {| t_db := db_empty N; t_last_seq := 0; t_last_id := None |} in
  let t1 := run_old N 0 t0 [Commit N false 1; Fail N 99] in
  let t2 := run_old N 0 t1 [Commit N false 2] in
  t_last_id N t1 = Some 99 /\
  exists e, In e (d_entries N (t_db N t2)) /\ ~ In e (d_entries N (t_db N t1)) /\ fst e <= t_last_seq N t1.
Proof.
  cbv zeta. split; [reflexivity|]. exists (2, 2). split; [vm_compute; tauto|]. split; [|vm_compute; discriminate].
  vm_compute. intros [H|[]]. discriminate.
Qed.
