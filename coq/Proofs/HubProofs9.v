(* HubProofs9.v — C20: the two counters, globally. Between two restarts subscribers_total grows by exactly the number
   of streams accepted (handlers that completed registration) and updates_total by exactly the number of publishes
   acknowledged, for every schedule; refused registrations and refused publishes count for nothing. *)
From Mercure Require Import Base Hub HubProofs HubProofs2.
From Coq Require Import Lia ZArith.

Section P.
  Variable mt : nat -> N -> bool.
  Variable cap : nat.
  Variable tracking : bool.

  Notation wstep := (wstep mt cap tracking).
  Notation wrun := (wrun mt cap tracking).
  Notation sub_step := (sub_step mt cap tracking).
  Notation publish := (publish mt cap).
  Notation add_event := (add_event mt cap tracking).

  (* a stream was accepted: its handler completed registration (whatever happened to it since) *)
  Definition accepted (p : phase) : Z := match p with PLive _ | PLeaving | PRemoved | PGone => 1 | _ => 0 end.
  Fixpoint atotal (l : list phase) : Z := match l with [] => 0 | p :: l' => accepted p + atotal l' end.

  Definition Cnt (bs bu : Z) (st : hstate) : Prop :=
    (Z.of_N (h_subs_total st) - atotal (phases st) = bs)%Z /\
    (Z.of_N (h_updates_total st) - Z.of_nat (length (h_acked st)) = bu)%Z.

  Lemma atotal_upd (l : list hsub) i s s' :
    nth_error l i = Some s ->
    atotal (map hs_phase (upd_nth i s' l)) = (atotal (map hs_phase l) - accepted (hs_phase s) + accepted (hs_phase s'))%Z.
  Proof.
    revert i. induction l as [|a l IH]; intros [|i]; cbn; try discriminate.
    - intros E. inversion E; subst. lia.
    - intros E. rewrite (IH i E). lia.
  Qed.

  Lemma set_phase_atotal st i p s :
    nth_error (h_subs st) i = Some s ->
    atotal (phases (set_phase st i p)) = (atotal (phases st) - accepted (hs_phase s) + accepted p)%Z.
  Proof.
    intros E. unfold set_phase. rewrite E. unfold phases, set_sub, set_subs. cbn [h_subs].
    rewrite (atotal_upd _ _ _ _ E). reflexivity.
  Qed.

  Lemma cnt_sub_step bs bu st i s c st' :
    Cnt bs bu st -> nth_error (h_subs st) i = Some s -> sub_step st i s c = Some st' -> Cnt bs bu st'.
  Proof.
    unfold Cnt. intros [H Hu] Hs Hstep. unfold Hub.sub_step in Hstep.
    destruct (hs_phase s) eqn:Ep.
    all: repeat match type of Hstep with
         | context [match ?x with _ => _ end] =>
             lazymatch x with
             | Hub.add_event _ _ _ _ _ _ _ => fail
             | context [match _ with _ => _ end] => fail
             | _ => destruct x eqn:?; try discriminate
             end
         | context [if ?x then _ else _] => destruct x eqn:?; try discriminate
         end.
    all: try (match type of Hstep with
              | option_map _ (Hub.add_event _ _ _ ?st0 ?i0 ?a0 ?c0) = Some _ =>
                  destruct (add_event st0 i0 a0 c0) as [st1|] eqn:Eev; [|discriminate];
                  cbn in Hstep; inversion Hstep; subst st'; clear Hstep;
                  destruct (add_event_frame _ _ _ _ _ _ _ _ Eev) as (A & B & C & D & _ & _ & F & _);
                  destruct (phases_nth _ _ _ _ A Hs) as (s1 & E1 & P1);
                  try (unfold metrics; cbn [h_subs_total h_updates_total h_acked];
                       change (phases {| h_persistent := _; h_close := _; h_db := _; h_committed := _; h_seq := _; h_lastseq := _; h_index := _; h_subs := h_subs ?x; h_acked := _; h_events := _; h_gauge := _; h_subs_total := _; h_updates_total := _; h_size := _ |}) with (phases x));
                  rewrite (set_phase_atotal _ _ _ _ E1), A, P1, Ep;
                  unfold set_phase; rewrite E1; cbn [h_subs_total h_updates_total h_acked set_sub set_subs]; rewrite ?C, ?D, ?F;
                  cbn [accepted]; split; lia
              end; fail).
    all: inversion Hstep; subst st'; clear Hstep.
    all: unfold metrics, set_sub, set_subs, set_index, phases in *; cbn [h_subs_total h_updates_total h_acked h_subs].
    all: rewrite (atotal_upd _ _ _ _ Hs), Ep; cbn [accepted hs_phase with_phase s_set_ready s_cutoff s_send]; try (split; lia).
    all: try (match goal with Hd : s_dispatch _ _ _ _ = (?h, _) |- _ =>
                let Hx := fresh in pose proof (dispatch_phase cap s _ true) as Hx; rewrite Hd in Hx; cbn in Hx end).
    all: cbn; split; lia.
  Qed.

  Lemma cnt_recv bs bu st i s st' : Cnt bs bu st -> nth_error (h_subs st) i = Some s -> recv_step st i s = Some st' -> Cnt bs bu st'.
  Proof.
    unfold Cnt. intros [H Hu] Hs Hstep. unfold recv_step in Hstep.
    destruct (hs_phase s) eqn:Ep; try discriminate.
    destruct (hs_out s); [destruct (hs_closed s); [|discriminate]|]; inversion Hstep; subst st'; clear Hstep.
    all: unfold set_sub, set_subs, phases in *; cbn [h_subs_total h_updates_total h_acked h_subs].
    all: rewrite (atotal_upd _ _ _ _ Hs), Ep; cbn; split; lia.
  Qed.

  Lemma cnt_leave bs bu st i s st' : Cnt bs bu st -> nth_error (h_subs st) i = Some s -> leave_step st i s = Some st' -> Cnt bs bu st'.
  Proof.
    unfold Cnt. intros [H Hu] Hs Hstep. unfold leave_step in Hstep.
    destruct (hs_phase s) eqn:Ep; try discriminate. inversion Hstep; subst st'; clear Hstep.
    unfold set_sub, set_subs, phases in *; cbn [h_subs_total h_updates_total h_acked h_subs].
    rewrite (atotal_upd _ _ _ _ Hs), Ep; cbn; split; lia.
  Qed.

  Lemma cnt_close bs bu st st' : Cnt bs bu st -> close_step st = Some st' -> Cnt bs bu st'.
  Proof.
    unfold Cnt. intros [H Hu] Hstep. unfold close_step in Hstep.
    destruct (h_close st) as [|[|[|]]]; try discriminate.
    - inversion Hstep; subst st'. split; assumption.
    - destruct (existsb _ (h_index st)); [discriminate|]. inversion Hstep; subst st'.
      unfold phases, set_close, set_subs in *. cbn [h_subs_total h_updates_total h_acked h_subs].
      rewrite disconnect_all_phases. split; assumption.
    - destruct (h_persistent st && _); [discriminate|]. inversion Hstep; subst st'. split; assumption.
  Qed.

  Theorem cnt_wstep bs bu w a : a <> ACrash -> Cnt bs bu (w_st w) -> Cnt bs bu (w_st (wstep w a)).
  Proof.
    intros Hna H. destruct a as [t|t coin|i coin|i|i| |]; cbn [Hub.wstep]; try congruence.
    - destruct (nth_error (w_pubs w) t) as [p|]; [|exact H].
      destruct (pb_todo p); [exact H|]. destruct (pb_checked p); [exact H|].
      destruct (h_closed (w_st w)); exact H.
    - destruct (nth_error (w_pubs w) t) as [p|]; [|exact H].
      destruct (pb_todo p) as [|u todo]; [exact H|]. destruct (pb_checked p); [|exact H].
      destruct (publish (w_st w) u coin) as [st' []] eqn:Ep; cbn [set_pub w_st]; try exact H.
      destruct (publish_frame _ _ _ _ _ _ _ Ep) as (A & B & C & D & _ & _ & _ & I & _).
      destruct H as [H Hu]. unfold Cnt, ack, phases in *. cbn [h_subs_total h_updates_total h_acked h_subs].
      unfold phases in A. rewrite A, C, D, I, app_length. cbn [length]. split; lia.
    - destruct (nth_error (h_subs (w_st w)) i) as [s|] eqn:E; [|exact H].
      destruct (sub_step (w_st w) i s coin) as [st'|] eqn:Es; [|exact H]. eapply cnt_sub_step; eassumption.
    - destruct (nth_error (h_subs (w_st w)) i) as [s|] eqn:E; [|exact H].
      destruct (recv_step (w_st w) i s) as [st'|] eqn:Es; [|exact H]. eapply cnt_recv; eassumption.
    - destruct (nth_error (h_subs (w_st w)) i) as [s|] eqn:E; [|exact H].
      destruct (leave_step (w_st w) i s) as [st'|] eqn:Es; [|exact H]. eapply cnt_leave; eassumption.
    - destruct (close_step (w_st w)) as [st'|] eqn:Es; [|exact H]. eapply cnt_close; eassumption.
  Qed.

  Lemma cnt_wrun bs bu sched : ~ In ACrash sched -> forall w, Cnt bs bu (w_st w) -> Cnt bs bu (w_st (wrun w sched)).
  Proof.
    unfold Hub.wrun. induction sched as [|a sched IH]; intros Hn w H; [exact H|]. cbn [fold_left].
    apply IH; [intros Hin; apply Hn; right; exact Hin|].
    apply cnt_wstep; [intros ->; apply Hn; left; reflexivity|exact H].
  Qed.

  (* C20, between restarts: from ANY state (for instance just after a restart), along any restart-free schedule,
     subscribers_total grows by exactly the number of streams accepted meanwhile and updates_total by exactly the
     number of publishes acknowledged meanwhile *)
  Theorem counters_since w sched : ~ In ACrash sched ->
    let st := w_st w in let st' := w_st (wrun w sched) in
    (Z.of_N (h_subs_total st') - Z.of_N (h_subs_total st) = atotal (phases st') - atotal (phases st))%Z /\
    (Z.of_N (h_updates_total st') - Z.of_N (h_updates_total st) = Z.of_nat (length (h_acked st')) - Z.of_nat (length (h_acked st)))%Z.
  Proof.
    intros Hn st st'.
    destruct (cnt_wrun _ _ sched Hn w (conj eq_refl eq_refl)) as [A B]. fold st st' in A, B. split; lia.
  Qed.

  Lemma atotal_new reqs : atotal (map hs_phase (map new_sub reqs)) = 0%Z.
  Proof. induction reqs as [|r l IH]; cbn; [reflexivity|exact IH]. Qed.

  (* from the start of the process: the counters ARE those numbers *)
  Theorem counters_global persistent size reqs pubs sched : ~ In ACrash sched ->
    let st := w_st (wrun (winit persistent size reqs pubs) sched) in
    Z.of_N (h_subs_total st) = atotal (phases st) /\ h_updates_total st = N.of_nat (length (h_acked st)).
  Proof.
    intros Hn st. destruct (counters_since (winit persistent size reqs pubs) sched Hn) as [A B].
    fold st in A, B. unfold phases in A at 2. cbn [winit w_st h_subs h_subs_total h_updates_total h_acked length] in A, B.
    rewrite atotal_new in A. split; lia.
  Qed.

  (* a restart resets both counters and the gauge (they are per process) *)
  Theorem counters_restart w :
    let st := w_st (wstep w ACrash) in h_subs_total st = 0 /\ h_updates_total st = 0 /\ h_gauge st = 0%Z.
  Proof. cbn. repeat split. Qed.

  (* every open stream was accepted: gauge <= subscribers_total, in every reachable restart-free state *)
  Lemma counted_le_accepted l : (total l <= atotal l)%Z /\ (0 <= total l)%Z.
  Proof. induction l as [|p l [IH1 IH2]]; cbn [total atotal]; [lia|]. destruct p; cbn [counted accepted]; lia. Qed.

  Theorem gauge_le_total persistent size reqs pubs sched : ~ In ACrash sched ->
    let st := w_st (wrun (winit persistent size reqs pubs) sched) in
    (0 <= h_gauge st <= Z.of_N (h_subs_total st))%Z.
  Proof.
    intros Hn st. destruct (counters_global persistent size reqs pubs sched Hn) as [A _]. fold st in A.
    pose proof (gauge_reachable mt cap tracking persistent size reqs pubs sched) as G. unfold GaugeOk in G. fold st in G.
    rewrite G, A. destruct (counted_le_accepted (phases st)). lia.
  Qed.
End P.
