(* HandlerProofs.v — C02 (publish authorization), C04 (credential precedence, cookie rule),
   C08 (Last-Event-ID negotiation). *)
From Mercure Require Import Base Match Auth Handler LastEventID MatchProofs.

Section P.
  Variable validate : str -> option claims.
  Variable referer_origin : str -> option str.
  Variable tmatch : str -> option (str -> bool).

  Notation authorize := (authorize validate referer_origin).
  Notation publish_decision := (publish_decision validate referer_origin tmatch).
  Notation subscribe_decision := (subscribe_decision validate referer_origin).

  (* ---------- C02 ---------- *)

  Definition sel_ok (t s : str) : bool := str_eqb s star || tm tmatch t s.

  Lemma inner_spec t sels :
    match can_dispatch_inner tmatch t sels with
    | Some true => mem_str star sels = true
    | Some false => existsb (sel_ok t) sels = true
    | None => existsb (sel_ok t) sels = false /\ mem_str star sels = false
    end.
  Proof.
    induction sels as [|s sels IH]; cbn [can_dispatch_inner]; [split; reflexivity|].
    unfold mem_str in *. cbn [existsb]. unfold sel_ok at 1 3.
    destruct (str_eqb s star) eqn:Es.
    - apply str_eqb_eq in Es. subst. rewrite str_eqb_refl. reflexivity.
    - assert (Es' : str_eqb star s = false).
      { apply not_true_is_false. intros H. apply str_eqb_eq in H. subst. rewrite str_eqb_refl in Es. discriminate. }
      rewrite Es'. cbn [orb].
      destruct (tm tmatch t s) eqn:Em; [reflexivity|].
      destruct (can_dispatch_inner tmatch t sels) as [[|]|]; cbn [orb]; assumption.
  Qed.

  Lemma star_all topics sels : mem_str star sels = true -> can_dispatch_spec tmatch topics sels = true.
  Proof.
    intros H. unfold can_dispatch_spec. apply forallb_forall. intros t _.
    unfold mem_str in H. apply existsb_exists in H. destruct H as (s & Hin & E).
    apply existsb_exists. exists s. split; [assumption|].
    apply str_eqb_eq in E. subst. rewrite str_eqb_refl. reflexivity.
  Qed.

  (* the loop with its early return equals "every topic has a selector that is * or matches" *)
  Theorem can_dispatch_eq topics sels : can_dispatch tmatch topics sels = can_dispatch_spec tmatch topics sels.
  Proof.
    induction topics as [|t ts IH]; [reflexivity|].
    cbn [can_dispatch]. pose proof (inner_spec t sels) as H.
    destruct (can_dispatch_inner tmatch t sels) as [[|]|].
    - symmetry. apply star_all. assumption.
    - rewrite IH. unfold can_dispatch_spec. cbn [forallb]. fold (sel_ok t). rewrite H. reflexivity.
    - destruct H as [H _]. unfold can_dispatch_spec. cbn [forallb]. fold (sel_ok t). rewrite H. reflexivity.
  Qed.

  Theorem dispatch_only_if_authorized cfg r f st u :
    publish_decision cfg r f = (st, Some u) ->
    st = 200 /\ u_topics u <> [] /\
    exists c sels, authorize (cfg_publish_origins cfg) r = AuthOk c /\ c_publish c = Some sels /\
      (can_dispatch_spec tmatch (u_topics u) sels = true \/ (cfg_compat7 cfg = true /\ u_private u = false)).
  Proof.
    unfold Handler.publish_decision.
    destruct (authorize (cfg_publish_origins cfg) r) as [| |c] eqn:Ea; try discriminate.
    destruct (c_publish c) as [sels|] eqn:Ep; try discriminate.
    destruct f as [f|]; try discriminate.
    destruct (f_topics f) as [|t ts] eqn:Et; try discriminate.
    destruct (parse_retry (f_retry f)) as [retry|]; try discriminate.
    destruct (can_dispatch tmatch (t :: ts) sels || negb (f_private f) && cfg_compat7 cfg) eqn:Ed; try discriminate.
    intros H. inversion H; subst. cbn [u_topics u_private].
    split; [reflexivity|]. split; [discriminate|].
    exists c, sels. split; [reflexivity|]. split; [assumption|].
    apply orb_true_iff in Ed. destruct Ed as [Ed|Ed].
    - left. rewrite <- can_dispatch_eq. assumption.
    - right. apply andb_true_iff in Ed. destruct Ed as [E1 E2]. apply negb_true_iff in E1. auto.
  Qed.

  Theorem refusal_is_4xx cfg r f st :
    publish_decision cfg r f = (st, None) -> st = 400 \/ st = 401.
  Proof.
    unfold Handler.publish_decision.
    destruct (authorize (cfg_publish_origins cfg) r) as [| |c]; try (intros H; inversion H; auto; fail).
    destruct (c_publish c) as [sels|]; try (intros H; inversion H; auto; fail).
    destruct f as [f|]; try (intros H; inversion H; auto; fail).
    destruct (f_topics f) as [|t ts]; try (intros H; inversion H; auto; fail).
    destruct (parse_retry (f_retry f)); try (intros H; inversion H; auto; fail).
    destruct (can_dispatch tmatch (t :: ts) sels || negb (f_private f) && cfg_compat7 cfg); intros H; inversion H; auto.
  Qed.

  (* the hub's publish step on the stored history: a refusal changes nothing *)
  Definition apply_publish (hist : list update) (d : N * option update) : list update :=
    match snd d with Some u => hist ++ [u] | None => hist end.

  Theorem refusal_no_effect cfg r f st hist :
    publish_decision cfg r f = (st, None) -> apply_publish hist (publish_decision cfg r f) = hist.
  Proof. intros H. rewrite H. reflexivity. Qed.

  (* the update is private iff the form has the key "private", whatever its values *)
  Theorem private_flag cfg r f st u fm :
    f = Some fm -> publish_decision cfg r f = (st, Some u) -> u_private u = f_private fm.
  Proof.
    intros ->. unfold Handler.publish_decision.
    destruct (authorize (cfg_publish_origins cfg) r) as [| |c]; try discriminate.
    destruct (c_publish c) as [sels|]; try discriminate.
    destruct (f_topics fm) as [|t ts]; try discriminate.
    destruct (parse_retry (f_retry fm)); try discriminate.
    destruct (can_dispatch tmatch (t :: ts) sels || negb (f_private fm) && cfg_compat7 cfg); try discriminate.
    intros H. inversion H. reflexivity.
  Qed.

  (* ---------- C04 ---------- *)

  Definition header_ok (v : str) : bool := Nat.leb 48 (length v) && is_prefix s_bearer v.

  Theorem header_only origins r vs :
    r_auth_hdr r = Some vs ->
    (forall r', r_auth_hdr r' = Some vs -> authorize origins r' = authorize origins r) /\
    authorize origins r <> AuthAnon /\
    (forall c, authorize origins r = AuthOk c ->
       exists v, vs = [v] /\ header_ok v = true /\ validate (skipn 7 v) = Some c).
  Proof.
    intros H. unfold Auth.authorize. rewrite H. split; [intros r' H'; rewrite H'; reflexivity|].
    destruct vs as [|v [|v2 vs]]; try (split; [discriminate|intros c Hc; discriminate]).
    unfold header_ok. destruct (Nat.leb 48 (length v) && is_prefix s_bearer v) eqn:Eh; [|split; [discriminate|intros c Hc; discriminate]].
    unfold of_validate. destruct (validate (skipn 7 v)) as [c'|] eqn:Ev; (split; [discriminate|]); intros c Hc; inversion Hc; subst.
    exists v. split; [reflexivity|split; [exact Eh|exact Ev]].
  Qed.

  Theorem query_when_no_header origins r vs :
    r_auth_hdr r = None -> r_auth_qry r = Some vs ->
    (forall r', r_auth_hdr r' = None -> r_auth_qry r' = Some vs -> authorize origins r' = authorize origins r) /\
    authorize origins r <> AuthAnon /\
    (forall c, authorize origins r = AuthOk c ->
       exists v, vs = [v] /\ Nat.leb 41 (length v) = true /\ validate v = Some c).
  Proof.
    intros H1 H2. unfold Auth.authorize. rewrite H1, H2. split; [intros r' A B; rewrite A, B; reflexivity|].
    destruct vs as [|v [|v2 vs]]; try (split; [discriminate|intros c Hc; discriminate]).
    destruct (Nat.leb 41 (length v)) eqn:Eh; [|split; [discriminate|intros c Hc; discriminate]].
    unfold of_validate. destruct (validate v) as [c'|] eqn:Ev; (split; [discriminate|]); intros c Hc; inversion Hc; subst.
    exists v. split; [reflexivity|split; [exact Eh|exact Ev]].
  Qed.

  (* the origin the CSRF rule looks at: Origin, failing that the origin of the Referer *)
  Definition effective_origin (r : request) : option str :=
    match r_origin r with
    | [] => match r_referer r with [] => None | ref => referer_origin ref end
    | o => Some o
    end.

  Theorem cookie_rule origins r ck :
    r_auth_hdr r = None -> r_auth_qry r = None -> r_cookie r = Some ck ->
    authorize origins r <> AuthAnon /\
    (r_post r = false -> authorize origins r = of_validate validate ck) /\
    (r_post r = true ->
       forall c, authorize origins r = AuthOk c ->
         validate ck = Some c /\ exists o, effective_origin r = Some o /\ origin_allowed origins o = true).
  Proof.
    intros H1 H2 H3. unfold Auth.authorize. rewrite H1, H2, H3. fold (effective_origin r).
    destruct (r_post r); cbn [negb].
    - split.
      + destruct (effective_origin r) as [o|]; [|discriminate].
        destruct (origin_allowed origins o); [|discriminate].
        unfold of_validate. destruct (validate ck); discriminate.
      + split; [discriminate|]. intros _ c.
        destruct (effective_origin r) as [o|]; [|discriminate].
        destruct (origin_allowed origins o) eqn:Eo; [|discriminate].
        unfold of_validate. destruct (validate ck) as [c'|] eqn:Ev; [|discriminate].
        intros Hc. inversion Hc; subst. split; [reflexivity|]. exists o. auto.
    - split; [unfold of_validate; destruct (validate ck); discriminate|].
      split; [reflexivity|discriminate].
  Qed.

  Theorem no_credential_is_anonymous origins r :
    r_auth_hdr r = None -> r_auth_qry r = None -> r_cookie r = None -> authorize origins r = AuthAnon.
  Proof. intros H1 H2 H3. unfold Auth.authorize. rewrite H1, H2, H3. reflexivity. Qed.

  Theorem anonymous_cannot_publish cfg r f :
    authorize (cfg_publish_origins cfg) r = AuthAnon -> publish_decision cfg r f = (401, None).
  Proof. intros H. unfold Handler.publish_decision. rewrite H. reflexivity. Qed.

  Theorem invalid_credential_never_downgraded cfg r f topics :
    (authorize (cfg_publish_origins cfg) r = AuthErr -> publish_decision cfg r f = (401, None)) /\
    (cfg_subscriber_keyed cfg = true -> authorize [] r = AuthErr -> subscribe_decision cfg r topics = (401, None)).
  Proof.
    split.
    - intros H. unfold Handler.publish_decision. rewrite H. reflexivity.
    - intros Hk H. unfold Handler.subscribe_decision. rewrite Hk, H. reflexivity.
  Qed.

  Theorem anonymous_subscribe cfg r topics :
    cfg_subscriber_keyed cfg = true -> authorize [] r = AuthAnon ->
    subscribe_decision cfg r topics =
      if cfg_anonymous cfg then match topics with [] => (400, None) | _ => (200, Some None) end else (401, None).
  Proof.
    intros Hk H. unfold Handler.subscribe_decision. rewrite Hk, H. cbn [andb].
    destruct (cfg_anonymous cfg); reflexivity.
  Qed.

  (* a subscriber record carries claims only if authorize returned them without error *)
  Theorem claims_only_if_verified cfg r topics sels :
    subscribe_decision cfg r topics = (200, Some (Some sels)) ->
    cfg_subscriber_keyed cfg = true /\ exists c, authorize [] r = AuthOk c /\ c_subscribe c = Some sels.
  Proof.
    unfold Handler.subscribe_decision. destruct (cfg_subscriber_keyed cfg) eqn:Hk.
    - destruct (authorize [] r) as [| |c] eqn:Ea; try discriminate.
      + cbn [andb]. destruct (negb (cfg_anonymous cfg)); [discriminate|]. destruct topics; discriminate.
      + destruct topics; [discriminate|]. intros H. inversion H. split; [reflexivity|]. exists c. auto.
    - cbn [andb]. destruct topics; discriminate.
  Qed.
End P.

(* ---------- C08 ---------- *)

Theorem carrier_precedence hdr qry legacy compat7 :
  retrieve_last_event_id hdr qry legacy compat7 =
  match hdr with
  | _ :: _ => hdr
  | [] => match qry with
          | _ :: _ => qry
          | [] => if compat7 then match legacy with Some (v :: _) => v | _ => [] end else []
          end
  end.
Proof.
  unfold retrieve_last_event_id. destruct hdr; [|reflexivity]. destruct qry; [|reflexivity].
  destruct legacy as [[|v l]|]; destruct compat7; reflexivity.
Qed.

Lemma mem_str_in x l : mem_str x l = true <-> In x l.
Proof.
  unfold mem_str. rewrite existsb_exists. split.
  - intros (y & Hy & E). apply str_eqb_eq in E. subst. assumption.
  - intros H. exists x. split; [assumption|apply str_eqb_refl].
Qed.

Lemma last_default_irrelevant (l : list str) d d' : l <> [] -> last l d = last l d'.
Proof.
  induction l as [|x l IH]; [congruence|]. intros _. destruct l as [|y l]; [reflexivity|].
  cbn [last]. apply IH. discriminate.
Qed.

Lemma scan_from_spec h : forall req resp,
  let '(rho, rep) := scan_from h req resp in
  (In req h -> rho = req /\ rep = after_first req h) /\
  (~ In req h -> rho = last h resp /\ rep = []).
Proof.
  induction h as [|id h IH]; intros req resp; cbn [scan_from].
  - split; [intros []|intros _; split; reflexivity].
  - cbn [after_first]. destruct (str_eqb id req) eqn:E.
    + apply str_eqb_eq in E. subst. split; [intros _; split; reflexivity|intros H; exfalso; apply H; left; reflexivity].
    + specialize (IH req id). destruct (scan_from h req id) as [rho rep].
      assert (Hne : id <> req) by (intros ->; rewrite str_eqb_refl in E; discriminate).
      destruct IH as [IH1 IH2]. split.
      * intros [H|H]; [congruence|]. apply IH1. assumption.
      * intros H. destruct IH2 as [A B]; [intros Hin; apply H; right; assumption|].
        split; [|assumption]. rewrite A. destruct h as [|y h']; [reflexivity|].
        change (last (id :: y :: h') resp) with (last (y :: h') resp).
        apply last_default_irrelevant. discriminate.
Qed.

Lemma last_in_or_default (h : list str) d : h <> [] -> In (last h d) h.
Proof.
  induction h as [|x h IH]; [congruence|]. intros _. destruct h as [|y h]; [left; reflexivity|].
  right. apply IH. discriminate.
Qed.

(* the response id equals the requested one exactly when replay resumes right after it (or replays
   everything, for "earliest"); otherwise it differs, and nothing is replayed *)
Theorem truthful h req :
  let '(rho, rep) := history_scan h req in
  (rho = req <-> req = s_earliest \/ In req h) /\
  (req = s_earliest -> rho = s_earliest /\ rep = h) /\
  (req <> s_earliest -> In req h -> rep = after_first req h) /\
  (req <> s_earliest -> ~ In req h -> rep = [] /\ rho = last h s_earliest).
Proof.
  unfold history_scan. destruct (str_eqb req s_earliest) eqn:E.
  - apply str_eqb_eq in E. subst. repeat split; auto; try congruence.
  - assert (Hne : req <> s_earliest) by (intros ->; rewrite str_eqb_refl in E; discriminate).
    pose proof (scan_from_spec h req s_earliest) as H. destruct (scan_from h req s_earliest) as [rho rep].
    destruct H as [H1 H2].
    split; [split|split; [|split]].
    + intros Hr. right. destruct (in_dec (list_eq_dec N.eq_dec) req h) as [Hin|Hnin]; [assumption|].
      destruct (H2 Hnin) as [A _]. exfalso. rewrite A in Hr. destruct h as [|x h'].
      * cbn in Hr. congruence.
      * apply Hnin. rewrite <- Hr. apply last_in_or_default. discriminate.
    + intros [Hc|Hin]; [congruence|]. apply H1. assumption.
    + congruence.
    + intros _ Hin. apply H1. assumption.
    + intros _ Hnin. destruct (H2 Hnin). split; assumption.
Qed.

Theorem header_iff_requested persistent h req :
  fst (negotiate persistent h req) = None <-> req = [].
Proof.
  unfold negotiate. destruct req; [split; reflexivity|].
  destruct persistent; [destruct (history_scan h (n :: req))|]; cbn; split; discriminate.
Qed.

Lemma strs_eqb_refl l : strs_eqb l l = true.
Proof. induction l as [|x l IH]; cbn; [reflexivity|]. rewrite str_eqb_refl. exact IH. Qed.

(* the spec predicate evaluated by the correspondence check holds of the model *)
Theorem c08_ok_model compat7 persistent h hdr qry legacy :
  let req := retrieve_last_event_id hdr qry legacy compat7 in
  c08_ok {| c8_compat7 := compat7; c8_persistent := persistent; c8_history := h;
            c8_hdr := hdr; c8_qry := qry; c8_legacy := legacy;
            c8_resp := fst (negotiate persistent h req); c8_replayed := snd (negotiate persistent h req) |} = true.
Proof.
  intros req. unfold c08_ok. cbn [c8_compat7 c8_persistent c8_history c8_hdr c8_qry c8_legacy c8_resp c8_replayed].
  assert (Hreq : c08_requested {| c8_compat7 := compat7; c8_persistent := persistent; c8_history := h;
            c8_hdr := hdr; c8_qry := qry; c8_legacy := legacy;
            c8_resp := fst (negotiate persistent h req); c8_replayed := snd (negotiate persistent h req) |} = req).
  { unfold c08_requested, req. cbn. rewrite carrier_precedence. destruct hdr; [|reflexivity]. destruct qry; reflexivity. }
  rewrite Hreq. unfold negotiate. destruct req as [|c0 req0] eqn:Er; [reflexivity|].
  destruct persistent.
  - pose proof (truthful h (c0 :: req0)) as T. destruct (history_scan h (c0 :: req0)) as [rho rep]. cbn [fst snd].
    destruct T as (T1 & T2 & T3 & T4).
    destruct (str_eqb (c0 :: req0) s_earliest) eqn:E.
    + apply str_eqb_eq in E. destruct (T2 E) as [-> ->]. rewrite str_eqb_refl, strs_eqb_refl. reflexivity.
    + assert (Hne : c0 :: req0 <> s_earliest) by (intros Hx; rewrite Hx, str_eqb_refl in E; discriminate).
      destruct (mem_str (c0 :: req0) h) eqn:Em.
      * apply mem_str_in in Em. rewrite (T3 Hne Em), strs_eqb_refl.
        destruct T1 as [_ T1]. rewrite (T1 (or_intror Em)), str_eqb_refl. reflexivity.
      * assert (Hnin : ~ In (c0 :: req0) h) by (intros Hin; apply mem_str_in in Hin; congruence).
        destruct (T4 Hne Hnin) as [-> Hr].
        assert (Hrho : str_eqb rho (c0 :: req0) = false).
        { apply not_true_is_false. intros Hx. apply str_eqb_eq in Hx. destruct T1 as [T1 _]. destruct (T1 Hx); auto. }
        rewrite Hrho. cbn [negb andb]. destruct h; [rewrite Hr; reflexivity|reflexivity].
  - cbn [fst snd].
    destruct (str_eqb (c0 :: req0) s_earliest) eqn:E.
    + rewrite str_eqb_refl. reflexivity.
    + cbn [mem_str existsb].
      assert (Hx : str_eqb s_earliest (c0 :: req0) = false).
      { apply not_true_is_false. intros Hx. apply str_eqb_eq in Hx. rewrite <- Hx, str_eqb_refl in E. discriminate. }
      rewrite Hx, str_eqb_refl. reflexivity.
Qed.
