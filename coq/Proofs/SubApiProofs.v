(* SubApiProofs.v — C18: listing, filtering, dereferencing, ETag, authorization of the subscription API. *)
From Mercure Require Import Base Match Auth Handler UrlEsc UrlEscProofs SubApi MatchProofs HandlerProofs.

Lemma in_listing subs only sel sid :
  In (sel, sid) (listing subs only) <->
  exists sels, In (sid, sels) subs /\ In sel sels /\ match only with None => True | Some t => sel = t end.
Proof.
  unfold listing. rewrite in_flat_map. split.
  - intros ([sid' sels] & Hin & H). apply in_map_iff in H. destruct H as (x & E & Hf). inversion E; subst.
    apply filter_In in Hf. destruct Hf as [Hx Hc]. exists sels. cbn [fst snd] in *. repeat split; auto.
    destruct only as [t|]; [apply str_eqb_eq; assumption|exact I].
  - intros (sels & Hin & Hs & Ho). exists (sid, sels). split; [assumption|].
    apply in_map_iff. exists sel. split; [reflexivity|]. apply filter_In. split; [assumption|].
    destruct only as [t|]; [apply str_eqb_eq; assumption|reflexivity].
Qed.

(* the per-topic collection is the collection restricted to that selector *)
Theorem listing_filter subs t :
  listing subs (Some t) = filter (fun d => str_eqb (fst d) t) (listing subs None).
Proof.
  unfold listing. induction subs as [|[sid sels] subs IH]; [reflexivity|].
  cbn [flat_map]. rewrite filter_app, <- IH. f_equal. cbn [fst snd]. clear.
  induction sels as [|s sels IH]; [reflexivity|]. cbn [filter map fst].
  destruct (str_eqb s t) eqn:E; cbn [map filter fst]; rewrite ?E, IH; reflexivity.
Qed.

(* a pair dereferences iff it is listed *)
Theorem deref_iff_listed subs sel sid : deref subs sel sid = true <-> In (sel, sid) (listing subs None).
Proof.
  unfold deref. rewrite existsb_exists, in_listing. split.
  - intros ([sid' sels] & Hin & H). apply andb_true_iff in H. destruct H as [H1 H2]. cbn [fst snd] in *.
    apply str_eqb_eq in H1. subst. apply mem_str_in in H2. eauto.
  - intros (sels & Hin & Hs & _). exists (sid, sels). split; [assumption|]. cbn [fst snd].
    rewrite str_eqb_refl. apply mem_str_in. assumption.
Qed.

(* every listed id, taken as a URL, routes back to the subscription it names, which exists: it dereferences to itself;
   unknown pairs are not found *)
Theorem listed_dereferences subs only d :
  In d (listing subs only) -> bytes (fst d) -> bytes (snd d) -> fst d <> [] -> snd d <> [] ->
  route_sub_url (doc_id d) = Some d /\ deref subs (fst d) (snd d) = true.
Proof.
  intros Hin B1 B2 N1 N2. destruct d as [sel sid]. cbn [fst snd] in *. split.
  - apply route_sub_url_spec; assumption.
  - apply deref_iff_listed. apply in_listing in Hin. destruct Hin as (sels & A & B & _).
    apply in_listing. exists sels. auto.
Qed.

(* conditional requests: 304 exactly when If-None-Match is the hub's last event id *)
Theorem etag_304 last inm : api_status last inm = 304 <-> inm = last.
Proof.
  unfold api_status. destruct (str_eqb inm last) eqn:E.
  - apply str_eqb_eq in E. split; auto.
  - split; [discriminate|]. intros ->. rewrite str_eqb_refl in E. discriminate.
Qed.

(* with subscriber keys configured, the API answers only callers whose verified subscribe selectors match the requested URL *)
Theorem api_authz validate referer_origin tmatch cfg r url :
  cfg_subscriber_keyed cfg = true ->
  subscription_api_allowed validate referer_origin tmatch cfg r url = true ->
  exists c sels, authorize validate referer_origin [] r = AuthOk c /\ c_subscribe c = Some sels /\
                 can_receive tmatch [url] sels = true.
Proof.
  intros Hk. unfold subscription_api_allowed. rewrite Hk.
  destruct (authorize validate referer_origin [] r) as [| |c]; try discriminate.
  destruct (c_subscribe c) as [sels|] eqn:Es; [|discriminate]. intros H. eauto.
Qed.
