(* SseProofs.v — the SSE codec round-trip (C12). *)
From Mercure Require Import Base Sse.
From Coq Require Import ZifyN ZifyNat ZifyBool.
Ltac Zify.zify_post_hook ::= Z.div_mod_to_equations.

(* ---------- decimal rendering ---------- *)

Definition val (s : str) : N := undec_acc 0 s.

Lemma undec_acc_val a s : undec_acc a s = a * 10 ^ N.of_nat (length s) + val s.
Proof.
  unfold val. revert a. induction s as [|c s IH]; intros a; cbn [undec_acc length].
  - rewrite N.pow_0_r. lia.
  - rewrite IH. rewrite (IH (0 * 10 + (c - 48))).
    rewrite Nat2N.inj_succ, N.pow_succ_r'. lia.
Qed.

Lemma val_cons c s : val (c :: s) = (c - 48) * 10 ^ N.of_nat (length s) + val s.
Proof. unfold val at 1. cbn [undec_acc]. rewrite undec_acc_val. lia. Qed.

Lemma log2_div10 n : 10 <= n -> N.succ (N.log2 (n / 10)) <= N.log2 n.
Proof.
  intros H. assert (Hm : 0 < n / 10) by (apply N.div_str_pos; lia).
  rewrite <- N.log2_double by exact Hm.
  apply N.log2_le_mono. lia.
Qed.

Lemma is_digit_digit k : k < 10 -> is_digit (digit k) = true.
Proof. unfold is_digit, digit. intros. lia. Qed.

Lemma dec_fuel_S f n acc :
  dec_fuel (S f) n acc = if N.ltb n 10 then digit (n mod 10) :: acc else dec_fuel f (n / 10) (digit (n mod 10) :: acc).
Proof. reflexivity. Qed.

Lemma dec_fuel_spec f : forall n acc,
  (N.to_nat (N.log2 n) <= f)%nat ->
  forallb is_digit acc = true ->
  forallb is_digit (dec_fuel (S f) n acc) = true /\
  val (dec_fuel (S f) n acc) = n * 10 ^ N.of_nat (length acc) + val acc /\
  dec_fuel (S f) n acc <> [].
Proof.
  induction f as [|f IH]; intros n acc Hf Hacc.
  - cbn [dec_fuel]. destruct (N.ltb_spec n 10) as [Hlt|Hge].
    + cbn [forallb]. rewrite Hacc, is_digit_digit by (apply N.mod_lt; lia).
      split; [reflexivity|]. split; [|discriminate].
      rewrite val_cons. unfold digit. rewrite N.mod_small by lia. lia.
    + exfalso. pose proof (log2_div10 n Hge). lia.
  - rewrite dec_fuel_S. destruct (N.ltb_spec n 10) as [Hlt|Hge].
    + cbn [forallb]. rewrite Hacc, is_digit_digit by (apply N.mod_lt; lia).
      split; [reflexivity|]. split; [|discriminate].
      rewrite val_cons. unfold digit. rewrite N.mod_small by lia. lia.
    + pose proof (log2_div10 n Hge) as Hl.
      destruct (IH (n / 10) (digit (n mod 10) :: acc)) as (H1 & H2 & H3).
      * lia.
      * cbn [forallb]. rewrite Hacc, is_digit_digit by (apply N.mod_lt; lia). reflexivity.
      * split; [exact H1|]. split; [|exact H3].
        rewrite H2. rewrite val_cons. cbn [length]. rewrite Nat2N.inj_succ, N.pow_succ_r'.
        unfold digit.
        assert (Hd : n = 10 * (n / 10) + n mod 10) by (apply N.div_mod; lia).
        set (q := n / 10) in *. set (r := n mod 10) in *.
        set (p := 10 ^ N.of_nat (length acc)) in *. nia.
Qed.

Lemma undec_dec n : undec (dec n) = Some n.
Proof.
  unfold dec.
  destruct (dec_fuel_spec (N.to_nat (N.log2 n)) n []) as (H1 & H2 & H3); [lia|reflexivity|].
  unfold undec. destruct (dec_fuel _ n []) eqn:E; [congruence|].
  rewrite H1. f_equal. fold (val (n0 :: s)). rewrite H2. cbn. unfold val. cbn. lia.
Qed.

Lemma dec_digits n : forallb is_digit (dec n) = true.
Proof.
  unfold dec. destruct (dec_fuel_spec (N.to_nat (N.log2 n)) n []) as (H1 & _); [lia|reflexivity|exact H1].
Qed.

Lemma mem_N_false_forall x s : mem_N x s = false <-> Forall (fun c => c <> x) s.
Proof.
  unfold mem_N. induction s as [|c s IH]; cbn [existsb].
  - split; auto.
  - rewrite orb_false_iff, IH. split.
    + intros [H1 H2]. constructor; [|exact H2]. apply N.eqb_neq in H1. congruence.
    + intros H. inversion H; subst. split; [|assumption]. apply N.eqb_neq. congruence.
Qed.

Lemma no_crlf_forall s : no_crlf s = true <-> Forall (fun c => c <> CR /\ c <> LF) s.
Proof.
  unfold no_crlf. rewrite andb_true_iff, !negb_true_iff, !mem_N_false_forall.
  rewrite Forall_forall. rewrite !Forall_forall. firstorder.
Qed.

Lemma no_crlf_digits s : forallb is_digit s = true -> no_crlf s = true.
Proof.
  intros H. apply no_crlf_forall. rewrite forallb_forall in H. apply Forall_forall.
  intros c Hc. apply H in Hc. unfold is_digit, CR, LF in *. lia.
Qed.

(* ---------- line splitting ---------- *)

Lemma split_lines_nonnil s : split_lines s <> [].
Proof.
  destruct s as [|c s]; cbn [split_lines]; [discriminate|].
  destruct (N.eqb c CR); [destruct s as [|c2 s]; [discriminate|destruct (N.eqb c2 LF); discriminate]|].
  destruct (N.eqb c LF); [discriminate|]. destruct (split_lines s); discriminate.
Qed.

Lemma split_lines_app_lf l rest :
  no_crlf l = true -> split_lines (l ++ LF :: rest) = l :: split_lines rest.
Proof.
  rewrite no_crlf_forall. induction l as [|c l IH]; intros H.
  - reflexivity.
  - inversion H as [|? ? [Hc1 Hc2] Hl]; subst. cbn [app split_lines].
    apply N.eqb_neq in Hc1, Hc2. rewrite Hc1, Hc2. rewrite IH by assumption. reflexivity.
Qed.

Lemma split_lines_no_crlf s : Forall (fun l => no_crlf l = true) (split_lines s).
Proof.
  remember (length s) as n eqn:Hn. revert s Hn.
  induction n as [n IHn] using lt_wf_ind. intros s Hn.
  destruct s as [|c s]; cbn [split_lines].
  - repeat constructor.
  - destruct (N.eqb_spec c CR) as [->|Hcr].
    + destruct s as [|c2 s]; [repeat constructor|].
      destruct (N.eqb c2 LF); (constructor; [reflexivity|]).
      * apply (IHn (length s)); [cbn [length] in Hn; lia|reflexivity].
      * apply (IHn (length (c2 :: s))); [cbn [length] in *; lia|reflexivity].
    + destruct (N.eqb_spec c LF) as [->|Hlf].
      * constructor; [reflexivity|]. apply (IHn (length s)); [cbn [length] in Hn; lia|reflexivity].
      * assert (IH : Forall (fun l => no_crlf l = true) (split_lines s))
          by (apply (IHn (length s)); [cbn [length] in Hn; lia|reflexivity]).
        destruct (split_lines s) as [|l ls] eqn:E; [repeat constructor|].
        -- apply no_crlf_forall. repeat constructor; assumption.
        -- inversion IH; subst. constructor; [|assumption].
           apply no_crlf_forall. constructor; [split; assumption|]. apply no_crlf_forall. assumption.
Qed.

Lemma concat_with_cons sep x l : l <> [] -> concat_with sep (x :: l) = x ++ sep ++ concat_with sep l.
Proof. destruct l; [congruence|reflexivity]. Qed.

Lemma concat_with_hd sep c x l : concat_with sep ((c :: x) :: l) = c :: concat_with sep (x :: l).
Proof. destruct l; reflexivity. Qed.

Lemma replace_nl_spec d : replace_nl d = concat_with nl_data (split_lines d).
Proof.
  remember (length d) as n eqn:Hn. revert d Hn.
  induction n as [n IHn] using lt_wf_ind. intros d Hn.
  destruct d as [|c d]; cbn [split_lines replace_nl]; [reflexivity|].
  destruct (N.eqb c CR).
  - destruct d as [|c2 d]; [reflexivity|].
    destruct (N.eqb c2 LF); rewrite concat_with_cons by apply split_lines_nonnil; cbn [app]; f_equal.
    + apply (IHn (length d)); [cbn [length] in Hn; lia|reflexivity].
    + apply (IHn (length (c2 :: d))); [cbn [length] in *; lia|reflexivity].
  - destruct (N.eqb c LF).
    + rewrite concat_with_cons by apply split_lines_nonnil. cbn [app]. f_equal.
      apply (IHn (length d)); [cbn [length] in Hn; lia|reflexivity].
    + rewrite (IHn (length d) ltac:(cbn [length] in Hn; lia) d eq_refl).
      destruct (split_lines d) as [|l ls] eqn:E; [exfalso; eapply split_lines_nonnil; eassumption|].
      rewrite concat_with_hd. reflexivity.
Qed.

(* ---------- the lines of a serialised event ---------- *)

Definition ln (l : str) : str := l ++ [LF].
Definition data_line (l : str) : str := s_data ++ [COLON; SP] ++ l.

Definition lines_of (e : event) : list str :=
  (match e_type e with [] => [] | t => [s_event ++ [COLON; SP] ++ t] end) ++
  (if N.eqb (e_retry e) 0 then [] else [s_retry ++ [COLON; SP] ++ dec (e_retry e)]) ++
  [s_id ++ [COLON; SP] ++ e_id e] ++
  map data_line (split_lines (e_data e)) ++ [[]].

Lemma data_lines_concat ls : ls <> [] ->
  s_data ++ [COLON; SP] ++ concat_with nl_data ls ++ [LF] = concat (map ln (map data_line ls)).
Proof.
  induction ls as [|l ls IH]; [congruence|]. intros _.
  destruct ls as [|l2 ls].
  - cbn. unfold ln, data_line. cbn. rewrite app_nil_r. reflexivity.
  - remember (l2 :: ls) as L eqn:EL.
    assert (HL : L <> []) by (subst; discriminate).
    rewrite concat_with_cons by exact HL.
    cbn [map concat]. rewrite <- (IH HL).
    unfold ln, data_line, nl_data, s_data. repeat (rewrite <- app_assoc; cbn [app]). reflexivity.
Qed.

Lemma serialize_lines e : serialize e = concat (map ln (lines_of e)).
Proof.
  unfold serialize, lines_of. rewrite !map_app, !concat_app.
  f_equal.
  { destruct (e_type e); [reflexivity|]. unfold ln, s_event. cbn. rewrite <- !app_assoc, ?app_nil_r. reflexivity. }
  f_equal.
  { destruct (N.eqb (e_retry e) 0); [reflexivity|]. unfold ln, s_retry. cbn. rewrite <- !app_assoc, ?app_nil_r. reflexivity. }
  rewrite replace_nl_spec.
  rewrite <- data_lines_concat by apply split_lines_nonnil.
  unfold ln, s_id, s_data. cbn. rewrite <- !app_assoc. cbn. reflexivity.
Qed.

Lemma split_lines_concat ls rest :
  Forall (fun l => no_crlf l = true) ls ->
  split_lines (concat (map ln ls) ++ rest) = ls ++ split_lines rest.
Proof.
  induction ls as [|l ls IH]; intros H; [reflexivity|].
  inversion H; subst. cbn [map concat app]. unfold ln at 1. rewrite <- !app_assoc. cbn [app].
  rewrite split_lines_app_lf by assumption. rewrite IH by assumption. reflexivity.
Qed.

Lemma no_crlf_app a b : no_crlf (a ++ b) = no_crlf a && no_crlf b.
Proof.
  unfold no_crlf, mem_N. rewrite !existsb_app, !negb_orb.
  destruct (existsb (N.eqb CR) a), (existsb (N.eqb CR) b), (existsb (N.eqb LF) a), (existsb (N.eqb LF) b); reflexivity.
Qed.

Lemma lines_of_no_crlf e : wf_event e = true -> Forall (fun l => no_crlf l = true) (lines_of e).
Proof.
  unfold wf_event. rewrite andb_true_iff. intros [Hid Hty].
  unfold lines_of.
  apply Forall_app; split; [|apply Forall_app; split; [|apply Forall_app; split; [|apply Forall_app; split]]].
  - destruct (e_type e) eqn:E; constructor; [|constructor].
    rewrite !no_crlf_app. rewrite Hty. reflexivity.
  - destruct (N.eqb (e_retry e) 0); constructor; [|constructor].
    rewrite !no_crlf_app. rewrite (no_crlf_digits _ (dec_digits _)). reflexivity.
  - constructor; [|constructor]. rewrite !no_crlf_app, Hid. reflexivity.
  - apply Forall_forall. intros l Hl. apply in_map_iff in Hl. destruct Hl as (l0 & <- & Hin).
    unfold data_line. rewrite !no_crlf_app.
    pose proof (split_lines_no_crlf (e_data e)) as H. rewrite Forall_forall in H. rewrite (H _ Hin). reflexivity.
  - constructor; [reflexivity|constructor].
Qed.

Lemma complete_lines_event e rest :
  wf_event e = true ->
  complete_lines (serialize e ++ rest) = lines_of e ++ complete_lines rest.
Proof.
  intros H. unfold complete_lines. rewrite serialize_lines, split_lines_concat by (apply lines_of_no_crlf; assumption).
  apply removelast_app, split_lines_nonnil.
Qed.

(* ---------- interpreting those lines ---------- *)

Definition clean (st : pstate) : Prop := p_data st = [] /\ p_type st = [] /\ p_retry st = None.

Definition mk (d t i : str) (r : option N) : pstate := {| p_data := d; p_type := t; p_lastid := i; p_retry := r |}.

Lemma process_lines_cons_none st l st1 more :
  process_line st l = (st1, None) -> process_lines st (l :: more) = process_lines st1 more.
Proof. intros H. cbn [process_lines]. rewrite H. destruct (process_lines st1 more). reflexivity. Qed.

Lemma process_data_lines ls : forall d t i r more,
  process_lines (mk d t i r) (map data_line ls ++ more) =
  process_lines (mk (d ++ concat (map ln ls)) t i r) more.
Proof.
  induction ls as [|l ls IH]; intros d t i r more.
  - cbn. rewrite app_nil_r. reflexivity.
  - cbn [map app process_lines].
    change (process_line (mk d t i r) (data_line l)) with (mk (d ++ l ++ [LF]) t i r, @None parsed).
    cbv iota beta. rewrite IH. cbn [map concat]. unfold ln at 2. rewrite <- !app_assoc.
    destruct (process_lines _ more). reflexivity.
Qed.

Lemma concat_ln_nonnil ls : ls <> [] -> concat (map ln ls) <> [].
Proof. destruct ls as [|l ls]; [congruence|]. intros _. cbn. unfold ln. destruct l; discriminate. Qed.

Lemma removelast_concat_ln ls : ls <> [] -> removelast (concat (map ln ls)) = concat_with [LF] ls.
Proof.
  induction ls as [|l ls IH]; [congruence|]. intros _.
  destruct ls as [|l2 ls].
  - cbn. rewrite app_nil_r. unfold ln. rewrite removelast_last. reflexivity.
  - remember (l2 :: ls) as L eqn:EL.
    assert (HL : L <> []) by (subst; discriminate).
    rewrite concat_with_cons by exact HL. cbn [map concat].
    rewrite removelast_app by (apply concat_ln_nonnil; exact HL).
    rewrite (IH HL). unfold ln. rewrite <- app_assoc. reflexivity.
Qed.

Lemma mem_N_colon_first (t : str) c : exists b, N.eqb c COLON = b.
Proof. eexists; reflexivity. Qed.

Lemma process_event st e more :
  clean st -> id_nul_free e = true ->
  process_lines st (lines_of e ++ more) =
  let '(st2, out) := process_lines (mk [] [] (e_id e) None) more in (st2, expected e :: out).
Proof.
  intros (Hd & Ht & Hr) Hnul. destruct st as [d t i r]. cbn in Hd, Ht, Hr. subst d t r.
  unfold lines_of. rewrite <- !app_assoc.
  (* event line *)
  assert (E1 : forall more',
    process_lines (mk [] [] i None) ((match e_type e with [] => [] | t => [s_event ++ [COLON; SP] ++ t] end) ++ more') =
    process_lines (mk [] (e_type e) i None) more').
  { intros more'. destruct (e_type e) as [|c t]; [reflexivity|].
    cbn [app]. apply process_lines_cons_none. reflexivity. }
  rewrite E1.
  (* retry line *)
  assert (E2 : forall more',
    process_lines (mk [] (e_type e) i None) ((if N.eqb (e_retry e) 0 then [] else [s_retry ++ [COLON; SP] ++ dec (e_retry e)]) ++ more') =
    process_lines (mk [] (e_type e) i (if N.eqb (e_retry e) 0 then None else Some (e_retry e))) more').
  { intros more'. destruct (N.eqb (e_retry e) 0); [reflexivity|].
    cbn [app]. apply process_lines_cons_none.
    unfold process_line, s_retry. cbn [app]. cbn [N.eqb Pos.eqb COLON split_colon strip_space SP].
    unfold process_field. cbn [str_eqb s_event s_data s_id s_retry N.eqb Pos.eqb andb].
    rewrite undec_dec. reflexivity. }
  rewrite E2.
  (* id line *)
  cbn [app].
  rewrite (process_lines_cons_none _ _ (mk [] (e_type e) (e_id e) (if N.eqb (e_retry e) 0 then None else Some (e_retry e)))).
  2:{ unfold process_line, s_id. cbn [app]. cbn [N.eqb Pos.eqb COLON split_colon strip_space SP].
      unfold process_field. cbn [str_eqb s_event s_data s_id s_retry N.eqb Pos.eqb andb].
      unfold id_nul_free in Hnul. apply negb_true_iff in Hnul. rewrite Hnul. reflexivity. }
  (* data lines, then the blank line *)
  rewrite process_data_lines. cbn [app process_lines process_line].
  unfold dispatch. cbn [p_data p_type p_lastid p_retry mk].
  destruct (concat (map ln (split_lines (e_data e)))) as [|c0 rest0] eqn:Ec.
  { exfalso. eapply concat_ln_nonnil; [apply split_lines_nonnil|exact Ec]. }
  rewrite <- Ec. rewrite removelast_concat_ln by apply split_lines_nonnil.
  destruct (process_lines _ more) as [st2 out]. reflexivity.
Qed.

Lemma process_comment st more :
  process_lines st ([COLON] :: more) = process_lines st more.
Proof. cbn. destruct (process_lines st more). reflexivity. Qed.

(* ---------- the theorems ---------- *)

Theorem roundtrip e :
  wf_event e = true -> id_nul_free e = true ->
  sse_parse (serialize e) = [expected e].
Proof.
  intros Hwf Hnul. unfold sse_parse, sse_parse_from.
  rewrite <- (app_nil_r (serialize e)), complete_lines_event by assumption.
  rewrite process_event by (assumption || (repeat split; reflexivity)).
  reflexivity.
Qed.

(* a stream: the initial comment, then any interleaving of events and heartbeats *)
Inductive item := Ev (e : event) | Heartbeat.
Definition item_bytes (it : item) : str := match it with Ev e => serialize e | Heartbeat => [COLON; LF] end.
Definition item_wf (it : item) : bool := match it with Ev e => wf_event e && id_nul_free e | Heartbeat => true end.
Fixpoint events_of (l : list item) : list event :=
  match l with [] => [] | Ev e :: l' => e :: events_of l' | Heartbeat :: l' => events_of l' end.

Lemma complete_lines_comment rest : complete_lines ([COLON; LF] ++ rest) = [COLON] :: complete_lines rest.
Proof.
  unfold complete_lines. change ([COLON; LF] ++ rest) with ([COLON] ++ LF :: rest).
  rewrite split_lines_app_lf by reflexivity.
  pose proof (split_lines_nonnil rest). destruct (split_lines rest); [congruence|reflexivity].
Qed.

Lemma stream_items items : forall st,
  clean st -> forallb item_wf items = true ->
  snd (process_lines st (complete_lines (concat (map item_bytes items)))) = map expected (events_of items).
Proof.
  induction items as [|it items IH]; intros st Hc Hwf; [reflexivity|].
  cbn [forallb] in Hwf. apply andb_true_iff in Hwf. destruct Hwf as [Hit Hwf].
  cbn [map concat]. destruct it as [e|]; cbn [item_bytes events_of item_wf] in *.
  - apply andb_true_iff in Hit. destruct Hit as [H1 H2].
    rewrite complete_lines_event by assumption. rewrite process_event by assumption.
    specialize (IH (mk [] [] (e_id e) None)).
    destruct (process_lines (mk [] [] (e_id e) None) _) as [st2 out] eqn:E.
    cbn [snd map]. f_equal. cbn [snd] in IH. apply IH; [repeat split; reflexivity|assumption].
  - rewrite complete_lines_comment, process_comment. apply IH; assumption.
Qed.

Theorem stream items :
  forallb item_wf items = true ->
  sse_parse ([COLON; LF] ++ concat (map item_bytes items)) = map expected (events_of items).
Proof.
  intros H. unfold sse_parse, sse_parse_from.
  rewrite complete_lines_comment, process_comment.
  apply stream_items; [repeat split; reflexivity|assumption].
Qed.

Lemma parsed_eqb_refl p : parsed_eqb p p = true.
Proof.
  assert (R : forall s, str_eqb s s = true) by (induction s as [|c s IH]; cbn; [reflexivity|rewrite N.eqb_refl, IH; reflexivity]).
  unfold parsed_eqb. rewrite !R. destruct (pe_retry p); cbn; [rewrite N.eqb_refl|]; reflexivity.
Qed.

Theorem roundtrip_ok e : id_nul_free e = true -> c12_ok e (serialize e) = true.
Proof.
  intros Hnul. unfold c12_ok. destruct (wf_event e) eqn:Hwf; [|reflexivity].
  rewrite roundtrip by assumption. cbn. rewrite parsed_eqb_refl. reflexivity.
Qed.

(* the property as literally stated (ids merely free of line breaks) is false of the code:
   a conformant parser ignores an id containing U+0000 *)
Lemma roundtrip_refuted_nul :
  exists e, wf_event e = true /\ c12_ok e (serialize e) = false.
Proof.
  exists {| e_data := [120]; e_id := [97; 0; 98]; e_type := []; e_retry := 0 |}.
  split; vm_compute; reflexivity.
Qed.
