(* MatchProofs.v — C11 layer A: the selector rule of topicselector.go and the
   transparency of its cache for every history, eviction and interleaving. *)
From Mercure Require Import Base Match.

Lemma str_eqb_eq a b : str_eqb a b = true <-> a = b.
Proof.
  revert b. induction a as [|x a IH]; intros [|y b]; cbn; try (split; congruence).
  rewrite andb_true_iff, N.eqb_eq, IH. split; [intros [-> ->]; reflexivity|intros H; inversion H; auto].
Qed.

Lemma str_eqb_refl a : str_eqb a a = true.
Proof. apply str_eqb_eq. reflexivity. Qed.

Section P.
  Variable tmatch : str -> option (str -> bool).

  Notation match_raw := (match_raw tmatch).
  Notation match_spec := (match_spec tmatch).

  (* every cached result is the uncached answer for the pair it is labelled with *)
  Definition truthful (c : cache) : Prop :=
    Forall (fun e => me_val e = match_raw (me_topic e) (me_sel e)) c.

  Lemma lookup_in k c e : lookup k c = Some e -> In e c.
  Proof.
    induction c as [|e' c IH]; cbn; [discriminate|].
    destruct (str_eqb (me_key e') k); [intros H; inversion H; left; reflexivity|intros H; right; auto].
  Qed.

  Lemma cache_get_truthful c t s b : truthful c -> cache_get c t s = Some b -> b = match_raw t s.
  Proof.
    intros Ht. unfold cache_get. destruct (lookup (key_m s t) c) as [e|] eqn:E; [|discriminate].
    destruct (str_eqb (me_sel e) s && str_eqb (me_topic e) t) eqn:Eq; [|discriminate].
    apply andb_true_iff in Eq. destruct Eq as [E1 E2]. apply str_eqb_eq in E1, E2.
    intros H. inversion H; subst. apply lookup_in in E.
    unfold truthful in Ht. rewrite Forall_forall in Ht. apply Ht. assumption.
  Qed.

  Lemma cache_set_truthful e c :
    me_val e = match_raw (me_topic e) (me_sel e) -> truthful c -> truthful (cache_set e c).
  Proof.
    intros He. induction 1 as [|e' c He' Hc IH]; cbn; [repeat constructor; assumption|].
    destruct (str_eqb (me_key e') (me_key e)); constructor; assumption.
  Qed.

  Lemma keep_entries_truthful keep : forall c, truthful c -> truthful (keep_entries keep c).
  Proof.
    induction keep as [|b keep IH]; intros c H; destruct c as [|e c]; cbn; try assumption.
    inversion H; subst. destruct b; [constructor; [assumption|apply IH; assumption]|apply IH; assumption].
  Qed.

  Lemma miss_value t s f :
    (str_eqb s star || str_eqb t s) = false -> get_regexp tmatch s = Some f -> f t = match_raw t s.
  Proof.
    intros H Hf. unfold Match.match_raw. rewrite Hf.
    apply orb_false_iff in H. destruct H as [-> ->]. reflexivity.
  Qed.

  (* one call: the answer is the uncached one and the cache stays truthful *)
  Theorem match_cached_transparent c t s :
    truthful c -> fst (match_cached tmatch c t s) = match_raw t s /\ truthful (snd (match_cached tmatch c t s)).
  Proof.
    intros Ht. unfold match_cached.
    destruct (str_eqb s star || str_eqb t s) eqn:E.
    - cbn. split; [|assumption]. unfold Match.match_raw.
      apply orb_true_iff in E. destruct E as [-> | ->]; [reflexivity|rewrite orb_true_r; reflexivity].
    - destruct (cache_get c t s) as [b|] eqn:Eg.
      + cbn. split; [|assumption]. eapply cache_get_truthful; eassumption.
      + destruct (get_regexp tmatch s) as [f|] eqn:Ef; cbn.
        * split; [apply miss_value; assumption|].
          apply cache_set_truthful; [cbn; apply miss_value; assumption|assumption].
        * split; [|assumption]. unfold Match.match_raw. rewrite Ef.
          apply orb_false_iff in E. destruct E as [-> ->]. reflexivity.
  Qed.

  (* any sequence of lookups, from any truthful cache *)
  Theorem run_lookups_transparent qs : forall c,
    truthful c -> run_lookups tmatch c qs = map (fun q => match_raw (fst q) (snd q)) qs.
  Proof.
    induction qs as [|[t s] qs IH]; intros c Ht; [reflexivity|].
    cbn [run_lookups map fst snd].
    destruct (match_cached_transparent c t s Ht) as [H1 H2].
    destruct (match_cached tmatch c t s) as [r c']. cbn [fst snd] in *. subst r.
    f_equal. apply IH. assumption.
  Qed.

  (* the protocol rule; the "{" shortcut is sound when a brace-free template matches only itself *)
  Hypothesis tmatch_literal : forall sel f topic,
    has_brace sel = false -> tmatch sel = Some f -> f topic = true -> topic = sel.

  Lemma match_raw_spec topic sel : match_raw topic sel = match_spec topic sel.
  Proof.
    unfold Match.match_raw, Match.match_spec, get_regexp.
    destruct (has_brace sel) eqn:Hb; [reflexivity|].
    destruct (str_eqb sel star); [reflexivity|]. cbn [orb].
    destruct (str_eqb topic sel) eqn:E; [reflexivity|]. cbn [orb].
    destruct (tmatch sel) as [f|] eqn:Ef; [|reflexivity].
    destruct (f topic) eqn:Eft; [|reflexivity].
    apply (tmatch_literal sel f topic Hb Ef) in Eft. subst. rewrite str_eqb_refl in E. discriminate.
  Qed.

  Theorem spec_iff topic sel :
    match_spec topic sel = true <->
    sel = star \/ topic = sel \/ exists f, tmatch sel = Some f /\ f topic = true.
  Proof.
    unfold Match.match_spec. rewrite !orb_true_iff, !str_eqb_eq. split.
    - intros [[H|H]|H]; auto. right. right. destruct (tmatch sel) as [f|]; [exists f; auto|discriminate].
    - intros [H|[H|(f & Hf & H)]]; auto. right. rewrite Hf. assumption.
  Qed.

  Theorem invalid_template_matches_only_itself topic sel :
    tmatch sel = None -> (match_spec topic sel = true <-> sel = star \/ topic = sel).
  Proof.
    intros H. rewrite spec_iff. split; [|tauto].
    intros [A|[A|(f & Hf & _)]]; auto. congruence.
  Qed.

  (* ---------- all interleavings ---------- *)

  Definition thread_ok (th : cthread) : Prop :=
    Forall (fun d => snd d = match_raw (fst (fst d)) (snd (fst d))) (ct_done th) /\
    match ct_phase th with Computed t s r => r = match_raw t s | Idle => True end.

  Definition cinv (st : cache * list cthread) : Prop := truthful (fst st) /\ Forall thread_ok (snd st).

  Lemma thread_step_inv c th : truthful c -> thread_ok th ->
    truthful (fst (thread_step tmatch c th)) /\ thread_ok (snd (thread_step tmatch c th)).
  Proof.
    intros Hc [Hd Hp]. unfold thread_step.
    destruct (ct_phase th) as [|t s r] eqn:Eph.
    - destruct (ct_todo th) as [|[t s] todo]; [cbn; split; [assumption|split; [assumption|rewrite Eph; exact I]]|].
      destruct (str_eqb s star || str_eqb t s) eqn:E.
      + cbn. split; [assumption|]. split; [|exact I]. constructor; [|assumption]. cbn.
        unfold Match.match_raw. apply orb_true_iff in E. destruct E as [-> | ->]; [reflexivity|rewrite orb_true_r; reflexivity].
      + destruct (cache_get c t s) as [b|] eqn:Eg.
        * cbn. split; [assumption|]. split; [|exact I]. constructor; [|assumption]. cbn.
          eapply cache_get_truthful; eassumption.
        * destruct (get_regexp tmatch s) as [f|] eqn:Ef; cbn.
          -- split; [assumption|]. split; [assumption|]. apply miss_value; assumption.
          -- split; [assumption|]. split; [|exact I]. constructor; [|assumption]. cbn.
             unfold Match.match_raw. rewrite Ef. apply orb_false_iff in E. destruct E as [-> ->]. reflexivity.
    - cbn. split.
      + apply cache_set_truthful; [cbn; assumption|assumption].
      + split; [|exact I]. constructor; [cbn; assumption|assumption].
  Qed.

  Lemma upd_nth_forall {A} (P : A -> Prop) n x : forall l, P x -> Forall P l -> Forall P (upd_nth n x l).
  Proof.
    induction n as [|n IH]; intros l Hx Hl; destruct l as [|y l]; cbn; try constructor;
      inversion Hl; subst; auto.
  Qed.

  Lemma cstep_inv st a : cinv st -> cinv (cstep tmatch st a).
  Proof.
    destruct st as [c ths]. intros [Hc Ht]. cbn [fst snd] in *. destruct a as [tid|keep]; cbn [cstep].
    - destruct (nth_error ths tid) as [th|] eqn:E; [|split; assumption].
      assert (Hth : thread_ok th).
      { rewrite Forall_forall in Ht. apply Ht. eapply nth_error_In. eassumption. }
      destruct (thread_step_inv c th Hc Hth) as [H1 H2].
      destruct (thread_step tmatch c th) as [c' th']. cbn [fst snd] in *.
      split; [assumption|]. apply upd_nth_forall; assumption.
    - split; [apply keep_entries_truthful; assumption|assumption].
  Qed.

  (* every answer ever recorded by any thread, under any schedule with evictions anywhere,
     starting from any truthful cache, is the protocol's answer *)
  Theorem concurrent_transparent sched : forall c qss,
    truthful c ->
    let st := crun tmatch (c, map start_thread qss) sched in
    Forall (fun th => Forall (fun d => snd d = match_spec (fst (fst d)) (snd (fst d))) (ct_done th)) (snd st).
  Proof.
    intros c qss Hc.
    assert (Hinv : cinv (crun tmatch (c, map start_thread qss) sched)).
    { unfold crun.
      assert (H0 : cinv (c, map start_thread qss)).
      { split; [assumption|]. cbn. apply Forall_forall. intros th Hin. apply in_map_iff in Hin.
        destruct Hin as (qs & <- & _). split; [constructor|exact I]. }
      revert H0. generalize (c, map start_thread qss). induction sched as [|a sched IH]; intros st H0; [assumption|].
      cbn [fold_left]. apply IH. apply cstep_inv. assumption. }
    destruct Hinv as [_ Hths]. cbn zeta. eapply Forall_impl; [|exact Hths].
    intros th [Hd _]. eapply Forall_impl; [|exact Hd]. cbn. intros d ->. apply match_raw_spec.
  Qed.
End P.
