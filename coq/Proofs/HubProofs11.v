(* HubProofs11.v — C13 at hub level: (a) what a publish does to one subscriber depends on that subscriber alone
   (another subscriber's full buffer, disconnection or absence changes nothing for it); (b) a subscriber whose handler
   has run its shutdown is no longer listed in the index, in every reachable state, unless the hub was closed meanwhile
   (a closed transport refuses the removal). *)
From Mercure Require Import Base Hub HubProofs HubProofs2.
From Coq Require Import Lia.

Section P.
  Variable mt : nat -> N -> bool.
  Variable cap : nat.
  Variable tracking : bool.

  Notation wstep := (wstep mt cap tracking).
  Notation wrun := (wrun mt cap tracking).
  Notation sub_step := (sub_step mt cap tracking).
  Notation publish := (publish mt cap).
  Notation add_event := (add_event mt cap tracking).
  Notation fan_out := (fan_out mt cap).

  (* ---------- (a) fan-out is local ---------- *)

  Lemma fan_out_local u idx : forall subs1 subs2 j,
    nth_error subs1 j = nth_error subs2 j ->
    nth_error (fan_out subs1 idx u) j = nth_error (fan_out subs2 idx u) j.
  Proof.
    induction idx as [|i idx IH]; intros subs1 subs2 j E; cbn [Hub.fan_out]; [exact E|].
    destruct (Nat.eq_dec i j) as [->|Hne].
    - rewrite E. destruct (nth_error subs2 j) as [s|] eqn:E2; [|apply IH; congruence].
      destruct (mt j u); [|apply IH; congruence].
      apply IH. rewrite (nth_upd_eq _ _ _ _ E), (nth_upd_eq _ _ _ _ E2). reflexivity.
    - destruct (nth_error subs1 i) as [s1|]; destruct (nth_error subs2 i) as [s2|]; destruct (mt i u); apply IH;
        rewrite ?(nth_upd_neq _ _ _ _ Hne); exact E.
  Qed.

  (* two hub states that agree on subscriber j (and on the index and the database state): after the same publish they
     still agree on subscriber j - whatever the other subscribers are (slow, cut off, absent) *)
  Theorem publish_local st1 st2 u coin st1' st2' j :
    h_index st1 = h_index st2 -> nth_error (h_subs st1) j = nth_error (h_subs st2) j ->
    publish st1 u coin = (st1', PubOk) -> publish st2 u coin = (st2', PubOk) ->
    nth_error (h_subs st1') j = nth_error (h_subs st2') j.
  Proof.
    unfold Hub.publish. intros Ei Ej.
    destruct (h_closed_done st1 && h_persistent st1); [discriminate|].
    destruct (Nat.eqb (h_close st1) 2); [discriminate|].
    destruct (existsb _ (h_index st1)); [discriminate|].
    destruct (h_closed_done st2 && h_persistent st2); [discriminate|].
    destruct (Nat.eqb (h_close st2) 2); [discriminate|].
    destruct (existsb _ (h_index st2)); [discriminate|].
    intros E1 E2. inversion E1; subst st1'; clear E1. inversion E2; subst st2'; clear E2.
    unfold set_subs. cbn [h_subs].
    destruct (h_persistent st1); destruct (h_persistent st2); cbn [h_subs h_index]; rewrite Ei; apply fan_out_local; exact Ej.
  Qed.

  (* ---------- (b) after shutdown a subscriber is no longer listed ---------- *)

  Definition listed_ok (st : hstate) (i : nat) (p : phase) : Prop :=
    match p with
    | PNew | PAnnounced => ~ In i (h_index st)
    | PRemoved | PGone => In i (h_index st) -> h_closed st = true
    | _ => True
    end.

  Definition Listed (st : hstate) : Prop :=
    forall i p, nth_error (phases st) i = Some p -> listed_ok st i p.

  Lemma phases_upd st i s s0 :
    nth_error (h_subs st) i = Some s0 ->
    forall j, nth_error (phases (set_sub st i s)) j = if Nat.eqb j i then Some (hs_phase s) else nth_error (phases st) j.
  Proof.
    intros E j. unfold phases, set_sub, set_subs. cbn [h_subs]. rewrite !nth_error_map.
    destruct (Nat.eqb_spec j i) as [->|Hne].
    - rewrite (nth_upd_eq _ _ _ _ E). reflexivity.
    - rewrite nth_upd_neq; [reflexivity|congruence].
  Qed.

  (* a step that changes only subscriber i's record (phase p -> p'), keeps index and close state *)
  Lemma listed_set_sub st i s s0 :
    Listed st -> nth_error (h_subs st) i = Some s0 ->
    listed_ok st i (hs_phase s) -> Listed (set_sub st i s).
  Proof.
    intros H E Hi j p Hj. rewrite (phases_upd _ _ _ _ E) in Hj.
    destruct (Nat.eqb_spec j i) as [->|Hne].
    - inversion Hj; subst p. exact Hi.
    - specialize (H j p Hj). exact H.
  Qed.

  Lemma listed_ok_frame st st' i p :
    h_index st' = h_index st -> h_close st' = h_close st -> listed_ok st i p -> listed_ok st' i p.
  Proof. intros A B. unfold listed_ok, h_closed. rewrite A, B. auto. Qed.

  Lemma listed_frame st st' :
    phases st' = phases st -> h_index st' = h_index st -> h_close st' = h_close st -> Listed st -> Listed st'.
  Proof.
    intros A B C H i p Hi. rewrite A in Hi. eapply listed_ok_frame; [exact B|exact C|]. apply H. exact Hi.
  Qed.

  Lemma phase_of st i s : nth_error (h_subs st) i = Some s -> nth_error (phases st) i = Some (hs_phase s).
  Proof. intros E. unfold phases. rewrite nth_error_map, E. reflexivity. Qed.

  Lemma listed_set_phase st i p :
    Listed st -> (forall s, nth_error (h_subs st) i = Some s -> listed_ok st i p) -> Listed (set_phase st i p).
  Proof.
    intros H Hp. unfold set_phase. destruct (nth_error (h_subs st) i) as [s|] eqn:E; [|exact H].
    apply (listed_set_sub _ _ _ _ H E). cbn [with_phase hs_phase]. apply (Hp s eq_refl).
  Qed.

  Lemma listed_metrics st dg dt : Listed st -> Listed (metrics st dg dt).
  Proof. apply listed_frame; reflexivity. Qed.

  Lemma listed_sub_step st i s c st' :
    Listed st -> nth_error (h_subs st) i = Some s -> sub_step st i s c = Some st' -> Listed st'.
  Proof.
    intros H Hs Hstep. pose proof (H i _ (phase_of _ _ _ Hs)) as Hi. unfold Hub.sub_step in Hstep.
    destruct (hs_phase s) eqn:Ep.
    all: repeat match type of Hstep with
         | context [match ?x with _ => _ end] =>
             lazymatch x with
             | Hub.add_event _ _ _ _ _ _ _ => fail
             | context [match _ with _ => _ end] => fail
             | _ => destruct x eqn:?; try discriminate
             end
         | context [if ?x then _ else _] => destruct x eqn:?; try discriminate
         end.
    all: try (match type of Hstep with
              | option_map _ (Hub.add_event _ _ _ ?st0 ?i0 ?a0 ?c0) = Some _ =>
                  destruct (add_event st0 i0 a0 c0) as [st1|] eqn:Eev; [|discriminate];
                  cbn in Hstep; inversion Hstep; subst st'; clear Hstep;
                  destruct (add_event_frame _ _ _ _ _ _ _ _ Eev) as (A & _ & _ & _ & C & D & _ & _);
                  try apply listed_metrics;
                  apply listed_set_phase; [apply (listed_frame _ _ A D C H)|];
                  intros s1 _; apply (listed_ok_frame st st1 i _ D C); unfold listed_ok in *; cbn; auto
              end; fail).
    all: inversion Hstep; subst st'; clear Hstep.
    all: try apply listed_metrics.
    (* PAnnounced -> PIndexed: i joins the index *)
    all: try (match goal with |- Listed (set_sub (set_index _ _) _ _) => idtac end;
              first
              [ (* removal: filter *)
                match goal with |- Listed (set_sub (set_index ?st0 (filter _ _)) _ _) =>
                  intros j p Hj; rewrite (phases_upd (set_index st0 _) _ _ _ Hs) in Hj;
                  destruct (Nat.eqb_spec j i) as [->|Hne];
                  [ inversion Hj; subst p; cbn [with_phase hs_phase listed_ok]; unfold set_sub, set_subs, set_index; cbn [h_index];
                    intros Hin; apply filter_In in Hin; destruct Hin as [_ Hin]; rewrite Nat.eqb_refl in Hin; discriminate
                  | change (phases (set_index st0 _)) with (phases st0) in Hj; specialize (H j p Hj);
                    unfold listed_ok, h_closed, set_sub, set_subs, set_index in *; cbn [h_index h_close] in *;
                    destruct p; auto;
                    try (intros Hin; apply H; apply filter_In in Hin; tauto);
                    try (intros Hin; apply filter_In in Hin; destruct Hin as [Hin _]; apply H; exact Hin) ]
                end
              | (* registration: append *)
                match goal with |- Listed (set_sub (set_index ?st0 (_ ++ [_])) _ _) =>
                  intros j p Hj; rewrite (phases_upd (set_index st0 _) _ _ _ Hs) in Hj;
                  destruct (Nat.eqb_spec j i) as [->|Hne];
                  [ inversion Hj; subst p; cbn [hs_phase listed_ok]; exact I
                  | change (phases (set_index st0 _)) with (phases st0) in Hj; specialize (H j p Hj);
                    unfold listed_ok, h_closed, set_sub, set_subs, set_index in *; cbn [h_index h_close] in *;
                    destruct p; auto;
                    try (intros Hin; apply in_app_or in Hin; destruct Hin as [Hin|[Hin|[]]]; [apply H; exact Hin|congruence]);
                    try (intros Hin; apply in_app_or in Hin; destruct Hin as [Hin|[Hin|[]]]; [exact (H Hin)|congruence]) ]
                end ]; fail).
    all: apply (listed_set_sub _ _ _ _ H Hs).
    all: cbn [with_phase hs_phase s_set_ready s_cutoff s_send listed_ok]; auto.
    all: try (match goal with Hd : s_dispatch _ _ _ _ = (?h, _) |- _ =>
                let Hx := fresh in pose proof (dispatch_phase cap s _ true) as Hx; rewrite Hd in Hx; cbn in Hx end).
    all: try exact I.
    (* PLeaving -> PRemoved on a closed transport: still listed, but the hub is closed *)
    all: try (unfold listed_ok; intros _; assumption).
  Qed.

  Lemma listed_recv st i s st' : Listed st -> nth_error (h_subs st) i = Some s -> recv_step st i s = Some st' -> Listed st'.
  Proof.
    intros H Hs Hstep. unfold recv_step in Hstep.
    destruct (hs_phase s) eqn:Ep; try discriminate.
    destruct (hs_out s); [destruct (hs_closed s); [|discriminate]|]; inversion Hstep; subst st'; clear Hstep.
    all: apply (listed_set_sub _ _ _ _ H Hs); cbn [with_phase hs_phase listed_ok]; try rewrite Ep; exact I.
  Qed.

  Lemma listed_leave st i s st' : Listed st -> nth_error (h_subs st) i = Some s -> leave_step st i s = Some st' -> Listed st'.
  Proof.
    intros H Hs Hstep. unfold leave_step in Hstep.
    destruct (hs_phase s) eqn:Ep; try discriminate. inversion Hstep; subst st'; clear Hstep.
    apply (listed_set_sub _ _ _ _ H Hs); cbn [with_phase hs_phase listed_ok]; exact I.
  Qed.

  Lemma listed_more_closed st st' :
    phases st' = phases st -> h_index st' = h_index st -> (h_closed st = true -> h_closed st' = true) -> Listed st -> Listed st'.
  Proof.
    intros A B C H i p Hi. rewrite A in Hi. specialize (H i p Hi). unfold listed_ok in *. rewrite B. destruct p; auto.
  Qed.

  Lemma listed_close st st' : Listed st -> close_step st = Some st' -> Listed st'.
  Proof.
    intros H Hstep. unfold close_step in Hstep.
    destruct (h_close st) as [|[|[|]]] eqn:Ec; try discriminate.
    - inversion Hstep; subst st'. apply (listed_more_closed st); auto.
    - destruct (existsb _ (h_index st)); [discriminate|]. inversion Hstep; subst st'.
      apply (listed_more_closed st); auto. unfold phases, set_close, set_subs. cbn [h_subs]. apply disconnect_all_phases.
    - destruct (h_persistent st && _); [discriminate|]. inversion Hstep; subst st'. apply (listed_more_closed st); auto.
  Qed.

  Lemma listed_crash st : Listed (crash st).
  Proof.
    intros i p _. unfold listed_ok, crash. cbn [h_index]. destruct p; auto; intros [].
  Qed.

  Theorem listed_wstep w a : Listed (w_st w) -> Listed (w_st (wstep w a)).
  Proof.
    intros H. destruct a as [t|t coin|i coin|i|i| |]; cbn [Hub.wstep].
    - destruct (nth_error (w_pubs w) t) as [p|]; [|exact H].
      destruct (pb_todo p); [exact H|]. destruct (pb_checked p); [exact H|].
      destruct (h_closed (w_st w)); exact H.
    - destruct (nth_error (w_pubs w) t) as [p|]; [|exact H].
      destruct (pb_todo p) as [|u todo]; [exact H|]. destruct (pb_checked p); [|exact H].
      destruct (publish (w_st w) u coin) as [st' []] eqn:Ep; cbn [set_pub w_st]; try exact H.
      destruct (publish_frame _ _ _ _ _ _ _ Ep) as (A & _ & _ & _ & C & D & _).
      apply (listed_frame (w_st w)); auto.
    - destruct (nth_error (h_subs (w_st w)) i) as [s|] eqn:E; [|exact H].
      destruct (sub_step (w_st w) i s coin) as [st'|] eqn:Es; [|exact H]. eapply listed_sub_step; eassumption.
    - destruct (nth_error (h_subs (w_st w)) i) as [s|] eqn:E; [|exact H].
      destruct (recv_step (w_st w) i s) as [st'|] eqn:Es; [|exact H]. eapply listed_recv; eassumption.
    - destruct (nth_error (h_subs (w_st w)) i) as [s|] eqn:E; [|exact H].
      destruct (leave_step (w_st w) i s) as [st'|] eqn:Es; [|exact H]. eapply listed_leave; eassumption.
    - destruct (close_step (w_st w)) as [st'|] eqn:Es; [|exact H]. eapply listed_close; eassumption.
    - apply listed_crash.
  Qed.

  Theorem listed_reachable persistent size reqs pubs sched :
    Listed (w_st (wrun (winit persistent size reqs pubs) sched)).
  Proof.
    unfold Hub.wrun.
    assert (H0 : Listed (w_st (winit persistent size reqs pubs))).
    { intros i p _. unfold listed_ok. cbn. destruct p; auto; intros []. }
    revert H0. generalize (winit persistent size reqs pubs).
    induction sched as [|a sched IH]; intros w H0; [exact H0|]. cbn. apply IH. apply listed_wstep. exact H0.
  Qed.

  (* C13: once its handler has run the shutdown (cut off by overflow, connection failure, client gone ...) a
     subscriber is no longer listed - in every reachable state of a hub that is not closed; and one whose handler
     has not registered yet is never listed *)
  Theorem not_listed_after_shutdown persistent size reqs pubs sched i s :
    let st := w_st (wrun (winit persistent size reqs pubs) sched) in
    nth_error (h_subs st) i = Some s ->
    (hs_phase s = PRemoved \/ hs_phase s = PGone -> h_closed st = false -> ~ In i (h_index st)) /\
    (hs_phase s = PNew \/ hs_phase s = PAnnounced -> ~ In i (h_index st)).
  Proof.
    intros st Hs. pose proof (listed_reachable persistent size reqs pubs sched i _ (phase_of _ _ _ Hs)) as H. fold st in H.
    split.
    - intros [Hp|Hp] Hc Hin; rewrite Hp in H; unfold listed_ok in H; specialize (H Hin); congruence.
    - intros [Hp|Hp]; rewrite Hp in H; exact H.
  Qed.
End P.
