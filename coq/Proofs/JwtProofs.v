(* JwtProofs.v — C03: a token grants rights only if it verifies under the configured key and exact algorithm
   and its exp/nbf hold; anything else is refused (and, with HandlerProofs, never downgraded to anonymous). *)
From Mercure Require Import Base Match Auth Handler Jwt HandlerProofs MatchProofs.
Open Scope N_scope.

Section P.
  Variable b64 : str -> option str.
  Variable header_alg : str -> option str.
  Variable parse_claims : str -> option jclaims.
  Variable known_alg : str -> bool.
  Variable sig_ok : str -> str -> str -> bool.

  Notation validate_jwt := (validate_jwt b64 header_alg parse_claims known_alg sig_ok).

  Theorem grant_only_if_verified cfg_alg now tok c :
    validate_jwt cfg_alg now tok = Some c ->
    exists h p s hj pj sg jc,
      split_dot tok = [h; p; s] /\ b64 h = Some hj /\ header_alg hj = Some cfg_alg /\ known_alg cfg_alg = true /\
      b64 p = Some pj /\ parse_claims pj = Some jc /\ jc_claims jc = c /\
      b64 s = Some sg /\ sig_ok cfg_alg (h ++ [DOT] ++ p) sg = true /\ time_ok now jc = true.
  Proof.
    unfold Jwt.validate_jwt.
    destruct (split_dot tok) as [|h [|p [|s [|x l]]]]; try discriminate.
    destruct (b64 h) as [hj|] eqn:Eh; [|discriminate].
    destruct (header_alg hj) as [alg|] eqn:Ea; [|discriminate].
    destruct (b64 p) as [pj|] eqn:Ep; [|discriminate].
    destruct (parse_claims pj) as [jc|] eqn:Ec; [|discriminate].
    destruct (known_alg alg) eqn:Ek; [|discriminate]. cbn [negb].
    destruct (str_eqb alg cfg_alg) eqn:Eq; [|discriminate]. cbn [negb].
    apply str_eqb_eq in Eq. subst alg.
    destruct (b64 s) as [sg|] eqn:Es; [|discriminate].
    destruct (sig_ok cfg_alg (h ++ [DOT] ++ p) sg) eqn:Esig; [|discriminate]. cbn [negb].
    destruct (time_ok now jc) eqn:Et; [|discriminate]. cbn [negb].
    intros H. inversion H. subst.
    exists h, p, s, hj, pj, sg, jc. repeat split; assumption || reflexivity.
  Qed.

  (* a token whose header names another algorithm - "none", another family, a case variant - is refused,
     whatever its signature bytes are *)
  Theorem other_algorithm_refused cfg_alg now tok h p s hj alg :
    split_dot tok = [h; p; s] -> b64 h = Some hj -> header_alg hj = Some alg -> alg <> cfg_alg ->
    validate_jwt cfg_alg now tok = None.
  Proof.
    intros Hs Hh Ha Hne. unfold Jwt.validate_jwt. rewrite Hs, Hh, Ha.
    destruct (b64 p); [|reflexivity]. destruct (parse_claims _); [|reflexivity].
    destruct (known_alg alg); [|reflexivity]. cbn [negb].
    destruct (str_eqb alg cfg_alg) eqn:E; [apply str_eqb_eq in E; congruence|reflexivity].
  Qed.

  (* expired or not-yet-valid tokens are refused *)
  Theorem expired_refused cfg_alg now tok c :
    validate_jwt cfg_alg now tok = Some c ->
    forall h p s pj jc, split_dot tok = [h; p; s] -> b64 p = Some pj -> parse_claims pj = Some jc ->
    (forall e, jc_exp jc = Some e -> (now < e)%Z) /\ (forall n, jc_nbf jc = Some n -> (n <= now)%Z).
  Proof.
    intros H h p s pj jc Hs Hp Hc. apply grant_only_if_verified in H.
    destruct H as (h' & p' & s' & hj & pj' & sg & jc' & A & _ & _ & _ & B & C & _ & _ & _ & T).
    rewrite Hs in A. inversion A; subst. rewrite Hp in B. inversion B; subst. rewrite Hc in C. inversion C; subst.
    unfold time_ok in T. apply andb_true_iff in T. destruct T as [T1 T2]. split.
    - intros e He. rewrite He in T1. apply Z.ltb_lt. assumption.
    - intros n Hn. rewrite Hn in T2. apply Z.leb_le. assumption.
  Qed.

  (* every endpoint: a credential that is present but does not validate is answered 401, anonymous mode or not *)
  Theorem never_downgraded cfg_alg now referer_origin tmatch cfg r f topics tok :
    let validate := validate_jwt cfg_alg now in
    r_auth_hdr r = Some [s_bearer ++ tok] -> (48 <= length (s_bearer ++ tok))%nat -> validate tok = None ->
    publish_decision validate referer_origin tmatch cfg r f = (401, None) /\
    (cfg_subscriber_keyed cfg = true -> subscribe_decision validate referer_origin cfg r topics = (401, None)) /\
    (cfg_subscriber_keyed cfg = true -> forall url, subscription_api_allowed validate referer_origin tmatch cfg r url = false).
  Proof.
    intros validate Hh Hl Hv.
    assert (Ha : forall origins, authorize validate referer_origin origins r = AuthErr).
    { intros origins. unfold authorize. rewrite Hh.
      replace (Nat.leb 48 (length (s_bearer ++ tok))) with true by (symmetry; apply Nat.leb_le; assumption).
      assert (Hp : is_prefix s_bearer (s_bearer ++ tok) = true) by reflexivity. rewrite Hp. cbn [andb].
      assert (Hs : skipn 7 (s_bearer ++ tok) = tok) by reflexivity. rewrite Hs.
      unfold of_validate. fold validate. rewrite Hv. reflexivity. }
    split; [|split].
    - unfold publish_decision. rewrite Ha. reflexivity.
    - intros Hk. unfold subscribe_decision. rewrite Hk, Ha. reflexivity.
    - intros Hk url. unfold subscription_api_allowed. rewrite Hk, Ha. reflexivity.
  Qed.
End P.
