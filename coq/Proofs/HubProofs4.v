(* HubProofs4.v — C09: what is acknowledged is committed; the database holds each committed update at the
   position it was assigned; the newest update is always retained; a crash loses nothing that was committed. *)
From Mercure Require Import Base Hub HubProofs HubProofs2.
From Coq Require Import Lia ZArith ZifyN ZifyNat ZifyBool.

Section P.
  Variable mt : nat -> N -> bool.
  Variable cap : nat.
  Variable tracking : bool.

  Notation wstep := (wstep mt cap tracking).
  Notation wrun := (wrun mt cap tracking).
  Notation sub_step := (sub_step mt cap tracking).
  Notation publish := (publish mt cap).
  Notation add_event := (add_event mt cap tracking).

  Definition entry_ok (c : list N) (e : N * N) : Prop :=
    1 <= fst e /\ nth_error c (N.to_nat (fst e) - 1) = Some (snd e).

  Record I09 (st : hstate) : Prop := {
    i_acked : Forall (fun u => In u (h_committed st)) (h_acked st);
    i_db : h_persistent st = true -> Forall (entry_ok (h_committed st)) (h_db st);
    i_seq : h_persistent st = true -> h_seq st = N.of_nat (length (h_committed st));
    i_last : h_persistent st = true -> h_committed st <> [] -> In (h_seq st, last (h_committed st) 0) (h_db st)
  }.

  Lemma entry_ok_app c l e : entry_ok c e -> entry_ok (c ++ l) e.
  Proof. intros [A B]. split; [assumption|]. rewrite nth_error_app1; [assumption|]. apply nth_error_Some. congruence. Qed.

  Lemma retain_incl size run seq es e : In e (retain size run seq es) -> In e es.
  Proof.
    unfold retain. destruct (N.eqb size 0 || negb run || N.leb seq size); [auto|].
    intros H. apply filter_In in H. tauto.
  Qed.

  Lemma retain_keeps_last size run seq es u : In (seq, u) es -> In (seq, u) (retain size run seq es).
  Proof.
    unfold retain. destruct (N.eqb size 0) eqn:Es; [auto|]. cbn [orb].
    destruct (negb run); [auto|]. cbn [orb]. destruct (N.leb seq size) eqn:El; [auto|].
    intros H. apply filter_In. split; [assumption|]. cbn [fst]. lia.
  Qed.

  (* the committed sequence only grows *)
  Definition grows (st st' : hstate) : Prop := exists l, h_committed st' = h_committed st ++ l.

  Lemma publish_i09 st u coin st' : I09 st -> publish st u coin = (st', PubOk) ->
    I09 st' /\ h_committed st' = h_committed st ++ [u] /\ (h_persistent st = true -> In (h_seq st', u) (h_db st')).
  Proof.
    intros [HA HD HS HL]. unfold Hub.publish.
    destruct (h_closed_done st && h_persistent st); [discriminate|].
    destruct (Nat.eqb (h_close st) 2); [discriminate|].
    destruct (existsb _ (h_index st)); [discriminate|].
    intros E. inversion E; subst st'; clear E. unfold set_subs.
    destruct (h_persistent st) eqn:Ep; cbn [h_acked h_committed h_db h_seq h_persistent].
    - specialize (HD eq_refl). specialize (HS eq_refl).
      assert (Hnew : In (h_seq st + 1, u) (retain (h_size st) coin (h_seq st + 1) (h_db st ++ [(h_seq st + 1, u)]))).
      { apply retain_keeps_last. apply in_or_app. right. left. reflexivity. }
      split; [|split; [reflexivity|intros _; exact Hnew]].
      constructor; cbn [h_acked h_committed h_db h_seq h_persistent].
      + eapply Forall_impl; [|exact HA]. cbn. intros a Ha. apply in_or_app. left. assumption.
      + intros _. apply Forall_forall. intros e He. apply retain_incl in He. apply in_app_or in He.
        destruct He as [He|[<-|[]]].
        * apply entry_ok_app. rewrite Forall_forall in HD. apply HD. assumption.
        * split; [cbn; lia|]. cbn [fst snd]. rewrite HS.
          replace (N.to_nat (N.of_nat (length (h_committed st)) + 1) - 1)%nat with (length (h_committed st)) by lia.
          rewrite nth_error_app2 by lia. rewrite Nat.sub_diag. reflexivity.
      + intros _. rewrite HS, app_length. cbn. lia.
      + intros _ _. rewrite last_last. exact Hnew.
    - split; [|split; [reflexivity|discriminate]].
      constructor; cbn [h_acked h_committed h_db h_seq h_persistent]; try discriminate.
      eapply Forall_impl; [|exact HA]. cbn. intros a Ha. apply in_or_app. left. assumption.
  Qed.

  Lemma i09_subs_irrelevant st subs : I09 st -> I09 (set_subs st subs).
  Proof. intros [A B C D]. constructor; assumption. Qed.

  Lemma add_event_i09 st i a c st' : I09 st -> add_event st i a c = Some st' -> I09 st' /\ grows st st'.
  Proof.
    intros H. unfold Hub.add_event. destruct (negb tracking); [intros E; inversion E; subst; split; [assumption|exists []; rewrite app_nil_r; reflexivity]|].
    destruct (h_closed st); [intros E; inversion E; subst; split; [assumption|exists []; rewrite app_nil_r; reflexivity]|].
    destruct (publish st (ev_id i a) c) as [st1 []] eqn:Ep; intros E; inversion E; subst;
      try (split; [assumption|exists []; rewrite app_nil_r; reflexivity]).
    destruct (publish_i09 _ _ _ _ H Ep) as ([A B C D] & G & _).
    split; [constructor; assumption|]. exists [ev_id i a]. exact G.
  Qed.

  Lemma i09_set_phase st i p : I09 st -> I09 (set_phase st i p).
  Proof. intros H. unfold set_phase. destruct (nth_error (h_subs st) i); [apply i09_subs_irrelevant|]; assumption. Qed.

  Lemma sub_step_i09 st i s c st' : I09 st -> sub_step st i s c = Some st' -> I09 st' /\ grows st st'.
  Proof.
    intros H Hstep. unfold Hub.sub_step in Hstep.
    destruct (hs_phase s) eqn:Ep.
    all: repeat match type of Hstep with
         | context [match ?x with _ => _ end] =>
             lazymatch x with
             | Hub.add_event _ _ _ _ _ _ _ => fail
             | context [match _ with _ => _ end] => fail
             | _ => destruct x eqn:?; try discriminate
             end
         | context [if ?x then _ else _] => destruct x eqn:?; try discriminate
         end.
    all: try (match type of Hstep with
              | option_map _ (Hub.add_event _ _ _ ?st0 ?i0 ?a0 ?c0) = Some _ =>
                  destruct (add_event st0 i0 a0 c0) as [st1|] eqn:Eev; [|discriminate];
                  cbn in Hstep; inversion Hstep; subst st'; clear Hstep;
                  destruct (add_event_i09 _ _ _ _ _ H Eev) as (H1 & (l & G));
                  split; [|exists l; try (unfold metrics; cbn [h_committed]);
                           unfold set_phase; destruct (nth_error (h_subs st1) _); exact G];
                  pose proof (i09_set_phase st1 i0 PAnnounced H1) as _;
                  match goal with |- I09 (metrics (set_phase ?x ?ii ?pp) _ _) =>
                    destruct (i09_set_phase x ii pp H1) as [A B C D]; constructor; assumption
                  | |- I09 (set_phase ?x ?ii ?pp) => apply i09_set_phase; exact H1 end
              end; fail).
    all: inversion Hstep; subst st'; clear Hstep.
    all: split; [|exists []; unfold metrics, set_sub, set_subs, set_index; cbn [h_committed]; rewrite app_nil_r; reflexivity].
    all: destruct H as [A B C D]; constructor; assumption.
  Qed.

  Theorem i09_wstep w a : I09 (w_st w) -> I09 (w_st (wstep w a)) /\ grows (w_st w) (w_st (wstep w a)).
  Proof.
    intros H. assert (Same : grows (w_st w) (w_st w)) by (exists []; rewrite app_nil_r; reflexivity).
    destruct a as [t|t coin|i coin|i|i| |]; cbn [Hub.wstep].
    - destruct (nth_error (w_pubs w) t) as [p|]; [|auto].
      destruct (pb_todo p); [auto|]. destruct (pb_checked p); [auto|].
      destruct (h_closed (w_st w)); auto.
    - destruct (nth_error (w_pubs w) t) as [p|]; [|auto].
      destruct (pb_todo p) as [|u todo]; [auto|]. destruct (pb_checked p); [|auto].
      destruct (publish (w_st w) u coin) as [st' []] eqn:Ep; cbn [set_pub w_st]; auto.
      destruct (publish_i09 _ _ _ _ H Ep) as ([A B C D] & G & _).
      split; [|exists [u]; exact G]. unfold ack. constructor; cbn [h_acked h_committed h_db h_seq h_persistent]; try assumption.
      apply Forall_app. split; [assumption|]. constructor; [|constructor]. rewrite G. apply in_or_app. right. left. reflexivity.
    - destruct (nth_error (h_subs (w_st w)) i) as [s|] eqn:E; [|auto].
      destruct (sub_step (w_st w) i s coin) as [st'|] eqn:Es; [|auto]. eapply sub_step_i09; eassumption.
    - destruct (nth_error (h_subs (w_st w)) i) as [s|] eqn:E; [|auto].
      destruct (recv_step (w_st w) i s) as [st'|] eqn:Es; [|auto]. cbn [w_st].
      unfold recv_step in Es. destruct (hs_phase s); try discriminate.
      destruct (hs_out s); [destruct (hs_closed s); [|discriminate]|]; inversion Es; subst;
        (split; [apply i09_subs_irrelevant; assumption|exact Same]).
    - destruct (nth_error (h_subs (w_st w)) i) as [s|] eqn:E; [|auto].
      destruct (leave_step (w_st w) i s) as [st'|] eqn:Es; [|auto]. cbn [w_st].
      unfold leave_step in Es. destruct (hs_phase s); try discriminate. inversion Es; subst.
      split; [apply i09_subs_irrelevant; assumption|exact Same].
    - destruct (close_step (w_st w)) as [st'|] eqn:Es; [|auto]. cbn [w_st].
      unfold close_step in Es. destruct (h_close (w_st w)) as [|[|[|]]]; try discriminate.
      + inversion Es; subst. split; [destruct H as [A B C D]; constructor; assumption|exact Same].
      + destruct (existsb _ _); [discriminate|]. inversion Es; subst.
        split; [destruct H as [A B C D]; constructor; assumption|exact Same].
      + destruct (h_persistent _ && _); [discriminate|]. inversion Es; subst.
        split; [destruct H as [A B C D]; constructor; assumption|exact Same].
    - cbn [w_st]. split; [|exists []; unfold crash; cbn [h_committed]; rewrite app_nil_r; reflexivity].
      destruct H as [A B C D]. unfold crash. constructor; cbn [h_acked h_committed h_db h_seq h_persistent].
      + assumption.
      + intros Hp. rewrite Hp. auto.
      + intros Hp. rewrite Hp. auto.
      + intros Hp. rewrite Hp. auto.
  Qed.

  (* C09: in every reachable state - crashes anywhere - every acknowledged update is committed, every database
     entry is the committed update of that sequence number, and the newest committed update is in the database *)
  Theorem durable_reachable persistent size reqs pubs sched :
    I09 (w_st (wrun (winit persistent size reqs pubs) sched)).
  Proof.
    unfold Hub.wrun.
    assert (H0 : I09 (w_st (winit persistent size reqs pubs))).
    { constructor; cbn; try constructor; try reflexivity; congruence. }
    assert (G : forall w, I09 (w_st w) -> I09 (w_st (fold_left wstep sched w))).
    { induction sched as [|a sched IH]; intros w Hw; [exact Hw|]. cbn. apply IH. apply i09_wstep. exact Hw. }
    apply G. exact H0.
  Qed.

  (* C09: a publish is acknowledged only after its update is in the database, at its sequence number *)
  Theorem ack_implies_stored w t coin p u todo :
    I09 (w_st w) -> h_persistent (w_st w) = true ->
    nth_error (w_pubs w) t = Some p -> pb_todo p = u :: todo -> pb_checked p = true ->
    let w' := wstep w (APublish t coin) in
    h_acked (w_st w') = h_acked (w_st w) ++ [u] -> In (h_seq (w_st w'), u) (h_db (w_st w')).
  Proof.
    intros H Hp Hn Ht Hk. cbn [Hub.wstep]. rewrite Hn, Ht, Hk.
    destruct (publish (w_st w) u coin) as [st' []] eqn:Ep; cbn [set_pub w_st].
    - intros _. destruct (publish_i09 _ _ _ _ H Ep) as (_ & _ & G). unfold ack. cbn [h_seq h_db]. apply G. assumption.
    - intros E. exfalso. apply (f_equal (@length N)) in E. rewrite app_length in E. cbn in E. lia.
    - intros E. exfalso. apply (f_equal (@length N)) in E. rewrite app_length in E. cbn in E. lia.
  Qed.

  (* C09: a crash loses nothing that was committed, and the history reopens as it was *)
  Theorem crash_keeps_history st :
    h_persistent st = true -> h_db (crash st) = h_db st /\ h_seq (crash st) = h_seq st /\ h_committed (crash st) = h_committed st.
  Proof. intros H. unfold crash. cbn. rewrite H. auto. Qed.
End P.
