(* HubProofs2.v — C20 (metrics), C15 (close), C09 (durability) invariants of Model/Hub.v. *)
From Mercure Require Import Base Hub HubProofs.
From Coq Require Import Lia ZArith.

Section P.
  Variable mt : nat -> N -> bool.
  Variable cap : nat.
  Variable tracking : bool.

  Notation wstep := (wstep mt cap tracking).
  Notation wrun := (wrun mt cap tracking).
  Notation sub_step := (sub_step mt cap tracking).
  Notation publish := (publish mt cap).
  Notation add_event := (add_event mt cap tracking).

  (* ---------- phases are only changed by the subscriber's own handler ---------- *)

  Lemma dispatch_phase s u h : hs_phase (fst (s_dispatch cap s u h)) = hs_phase s.
  Proof.
    unfold s_dispatch. destruct (hs_disc s); [reflexivity|].
    destruct (negb h && negb (hs_ready s)); [reflexivity|].
    destruct (Nat.ltb (length (hs_out s)) cap); reflexivity.
  Qed.

  Lemma disconnect_phase s : hs_phase (s_disconnect s) = hs_phase s.
  Proof. unfold s_disconnect. destruct (hs_disc s); reflexivity. Qed.

  Lemma map_upd_nth {A B} (f : A -> B) i x (l : list A) y :
    nth_error l i = Some y -> f x = f y -> map f (upd_nth i x l) = map f l.
  Proof.
    revert i. induction l as [|a l IH]; intros [|i]; cbn; try discriminate.
    - intros E Hf. inversion E; subst. rewrite Hf. reflexivity.
    - intros E Hf. rewrite (IH i E Hf). reflexivity.
  Qed.

  Lemma fan_out_phases u idx : forall subs, map hs_phase (fan_out mt cap subs idx u) = map hs_phase subs.
  Proof.
    induction idx as [|j idx IH]; intros subs; cbn; [reflexivity|].
    destruct (nth_error subs j) as [sj|] eqn:E; [|apply IH].
    destruct (mt j u); [|apply IH]. rewrite IH. eapply map_upd_nth; [exact E|apply dispatch_phase].
  Qed.

  Lemma disconnect_all_phases idx : forall subs, map hs_phase (disconnect_all subs idx) = map hs_phase subs.
  Proof.
    induction idx as [|j idx IH]; intros subs; cbn; [reflexivity|].
    destruct (nth_error subs j) as [sj|] eqn:E; [|apply IH].
    rewrite IH. eapply map_upd_nth; [exact E|apply disconnect_phase].
  Qed.

  Definition phases (st : hstate) : list phase := map hs_phase (h_subs st).

  (* the publisher's critical section changes no phase, no metric except through ack, no close state *)
  Lemma publish_frame st u coin st' r :
    publish st u coin = (st', r) ->
    phases st' = phases st /\ h_gauge st' = h_gauge st /\ h_subs_total st' = h_subs_total st /\
    h_updates_total st' = h_updates_total st /\ h_close st' = h_close st /\ h_index st' = h_index st /\
    h_events st' = h_events st /\ h_acked st' = h_acked st /\ h_persistent st' = h_persistent st.
  Proof.
    unfold Hub.publish.
    destruct (h_closed_done st && h_persistent st); [intros E; inversion E; subst; repeat split|].
    destruct (Nat.eqb (h_close st) 2); [intros E; inversion E; subst; repeat split|].
    destruct (existsb _ (h_index st)); [intros E; inversion E; subst; repeat split|].
    intros E; inversion E; subst; clear E. unfold phases, set_subs.
    destruct (h_persistent st); cbn; rewrite fan_out_phases; repeat split.
  Qed.

  Lemma add_event_frame st i a c st' :
    add_event st i a c = Some st' ->
    phases st' = phases st /\ h_gauge st' = h_gauge st /\ h_subs_total st' = h_subs_total st /\
    h_updates_total st' = h_updates_total st /\ h_close st' = h_close st /\ h_index st' = h_index st /\
    h_acked st' = h_acked st /\ h_persistent st' = h_persistent st.
  Proof.
    unfold Hub.add_event. destruct (negb tracking); [intros E; inversion E; subst; repeat split|].
    destruct (h_closed st); [intros E; inversion E; subst; repeat split|].
    destruct (publish st (ev_id i a) c) as [st1 []] eqn:Ep; intros E; inversion E; subst; try (repeat split; fail).
    destruct (publish_frame _ _ _ _ _ Ep) as (A & B & C & D & F & G & H & I & J).
    unfold log_event, phases in *; cbn. repeat split; assumption.
  Qed.

  (* ---------- C20: the gauge counts the handlers between registration and the end of shutdown ---------- *)

  Definition counted (p : phase) : Z := match p with PLive _ | PLeaving | PRemoved => 1 | _ => 0 end.
  Fixpoint total (l : list phase) : Z := match l with [] => 0 | p :: l' => counted p + total l' end.

  Definition GaugeOk (st : hstate) : Prop := h_gauge st = total (phases st).

  Lemma total_upd (l : list hsub) i s s' :
    nth_error l i = Some s ->
    total (map hs_phase (upd_nth i s' l)) = (total (map hs_phase l) - counted (hs_phase s) + counted (hs_phase s'))%Z.
  Proof.
    revert i. induction l as [|a l IH]; intros [|i]; cbn; try discriminate.
    - intros E. inversion E; subst. lia.
    - intros E. rewrite (IH i E). lia.
  Qed.

  Lemma set_phase_total st i p s :
    nth_error (h_subs st) i = Some s ->
    total (phases (set_phase st i p)) = (total (phases st) - counted (hs_phase s) + counted p)%Z.
  Proof.
    intros E. unfold set_phase. rewrite E. unfold phases, set_sub, set_subs. cbn [h_subs].
    rewrite (total_upd _ _ _ _ E). reflexivity.
  Qed.

  Lemma phases_nth st st' i s : phases st' = phases st -> nth_error (h_subs st) i = Some s ->
    exists s', nth_error (h_subs st') i = Some s' /\ hs_phase s' = hs_phase s.
  Proof.
    unfold phases. intros H E.
    assert (Hn : nth_error (map hs_phase (h_subs st')) i = Some (hs_phase s)) by (rewrite H; apply map_nth_error; assumption).
    rewrite nth_error_map in Hn. destruct (nth_error (h_subs st') i) as [s'|]; [|discriminate].
    inversion Hn. eauto.
  Qed.

  Lemma gauge_sub_step st i s c st' :
    GaugeOk st -> nth_error (h_subs st) i = Some s -> sub_step st i s c = Some st' -> GaugeOk st'.
  Proof.
    unfold GaugeOk. intros H Hs Hstep. unfold Hub.sub_step in Hstep.
    destruct (hs_phase s) eqn:Ep.
    all: repeat match type of Hstep with
         | context [match ?x with _ => _ end] =>
             lazymatch x with
             | Hub.add_event _ _ _ _ _ _ _ => fail
             | context [match _ with _ => _ end] => fail
             | _ => destruct x eqn:?; try discriminate
             end
         | context [if ?x then _ else _] => destruct x eqn:?; try discriminate
         end.
    all: try (match type of Hstep with
              | option_map _ (Hub.add_event _ _ _ ?st0 ?i0 ?a0 ?c0) = Some _ =>
                  destruct (add_event st0 i0 a0 c0) as [st1|] eqn:Eev; [|discriminate];
                  cbn in Hstep; inversion Hstep; subst st'; clear Hstep;
                  destruct (add_event_frame _ _ _ _ _ Eev) as (A & B & _);
                  destruct (phases_nth _ _ _ _ A Hs) as (s1 & E1 & P1);
                  try (unfold metrics; cbn [h_gauge]; change (phases {| h_persistent := _; h_close := _; h_db := _; h_committed := _; h_seq := _; h_lastseq := _; h_index := _; h_subs := h_subs ?x; h_acked := _; h_events := _; h_gauge := _; h_subs_total := _; h_updates_total := _; h_size := _ |}) with (phases x));
                  rewrite (set_phase_total _ _ _ _ E1), A, P1, Ep;
                  unfold set_phase; rewrite E1; cbn [h_gauge set_sub set_subs]; rewrite B, H; cbn [counted]; lia
              end; fail).
    all: inversion Hstep; subst st'; clear Hstep.
    all: unfold metrics, set_sub, set_subs, set_index, phases in *; cbn [h_gauge h_subs].
    all: rewrite (total_upd _ _ _ _ Hs), H, Ep; cbn [counted hs_phase with_phase s_set_ready s_cutoff s_send]; try lia.
    all: try (match goal with Hd : s_dispatch _ _ _ _ = (?h, _) |- _ =>
                let Hx := fresh in pose proof (dispatch_phase s _ true) as Hx; rewrite Hd in Hx; cbn in Hx end).
    all: cbn; lia.
  Qed.

  Lemma gauge_recv st i s st' : GaugeOk st -> nth_error (h_subs st) i = Some s -> recv_step st i s = Some st' -> GaugeOk st'.
  Proof.
    unfold GaugeOk. intros H Hs Hstep. unfold recv_step in Hstep.
    destruct (hs_phase s) eqn:Ep; try discriminate.
    destruct (hs_out s); [destruct (hs_closed s); [|discriminate]|]; inversion Hstep; subst st'; clear Hstep.
    all: unfold set_sub, set_subs, phases in *; cbn [h_gauge h_subs].
    all: rewrite (total_upd _ _ _ _ Hs), H, Ep; cbn; lia.
  Qed.

  Lemma gauge_leave st i s st' : GaugeOk st -> nth_error (h_subs st) i = Some s -> leave_step st i s = Some st' -> GaugeOk st'.
  Proof.
    unfold GaugeOk. intros H Hs Hstep. unfold leave_step in Hstep.
    destruct (hs_phase s) eqn:Ep; try discriminate. inversion Hstep; subst st'; clear Hstep.
    unfold set_sub, set_subs, phases in *; cbn [h_gauge h_subs].
    rewrite (total_upd _ _ _ _ Hs), H, Ep; cbn; lia.
  Qed.

  Lemma gauge_close st st' : GaugeOk st -> close_step st = Some st' -> GaugeOk st'.
  Proof.
    unfold GaugeOk. intros H Hstep. unfold close_step in Hstep.
    destruct (h_close st) as [|[|[|]]]; try discriminate.
    - inversion Hstep; subst. exact H.
    - destruct (existsb _ (h_index st)); [discriminate|]. inversion Hstep; subst st'.
      unfold phases, set_close, set_subs in *. cbn [h_gauge h_subs]. rewrite disconnect_all_phases. exact H.
    - destruct (h_persistent st && _); [discriminate|]. inversion Hstep; subst. exact H.
  Qed.

  Lemma gauge_crash st : GaugeOk (crash st).
  Proof.
    unfold GaugeOk, crash, phases. cbn [h_gauge h_subs]. rewrite map_map.
    induction (h_subs st) as [|s l IH]; cbn; [reflexivity|]. rewrite <- IH.
    destruct (hs_phase s) eqn:Ep; cbn; rewrite ?Ep; cbn; reflexivity.
  Qed.

  Theorem gauge_wstep w a : GaugeOk (w_st w) -> GaugeOk (w_st (wstep w a)).
  Proof.
    intros H. destruct a as [t|t coin|i coin|i|i| |]; cbn [Hub.wstep].
    - destruct (nth_error (w_pubs w) t) as [p|]; [|exact H].
      destruct (pb_todo p); [exact H|]. destruct (pb_checked p); [exact H|].
      destruct (h_closed (w_st w)); exact H.
    - destruct (nth_error (w_pubs w) t) as [p|]; [|exact H].
      destruct (pb_todo p) as [|u todo]; [exact H|]. destruct (pb_checked p); [|exact H].
      destruct (publish (w_st w) u coin) as [st' []] eqn:Ep; cbn [set_pub w_st]; try exact H.
      destruct (publish_frame _ _ _ _ _ Ep) as (A & B & _).
      unfold GaugeOk, ack, phases in *. cbn [h_gauge h_subs]. rewrite B, H. unfold phases in A. rewrite A. reflexivity.
    - destruct (nth_error (h_subs (w_st w)) i) as [s|] eqn:E; [|exact H].
      destruct (sub_step (w_st w) i s coin) as [st'|] eqn:Es; [|exact H]. eapply gauge_sub_step; eassumption.
    - destruct (nth_error (h_subs (w_st w)) i) as [s|] eqn:E; [|exact H].
      destruct (recv_step (w_st w) i s) as [st'|] eqn:Es; [|exact H]. eapply gauge_recv; eassumption.
    - destruct (nth_error (h_subs (w_st w)) i) as [s|] eqn:E; [|exact H].
      destruct (leave_step (w_st w) i s) as [st'|] eqn:Es; [|exact H]. eapply gauge_leave; eassumption.
    - destruct (close_step (w_st w)) as [st'|] eqn:Es; [|exact H]. eapply gauge_close; eassumption.
    - apply gauge_crash.
  Qed.

  (* C20: in every reachable state the gauge is the number of handlers between the end of a successful
     registration and the end of shutdown *)
  Theorem gauge_reachable persistent size reqs pubs sched :
    GaugeOk (w_st (wrun (winit persistent size reqs pubs) sched)).
  Proof.
    unfold Hub.wrun.
    assert (H0 : GaugeOk (w_st (winit persistent size reqs pubs))).
    { unfold GaugeOk, phases. cbn. rewrite map_map. cbn. induction reqs; cbn; [reflexivity|assumption]. }
    revert H0. generalize (winit persistent size reqs pubs).
    induction sched as [|a sched IH]; intros w H0; [exact H0|]. cbn. apply IH. apply gauge_wstep. exact H0.
  Qed.

  (* C20: the counters move only with what they count. One step: updates_total grows exactly with the
     acknowledged publishes, subscribers_total exactly with the gauge's increments; only a restart resets them. *)
  Theorem counters_step w a :
    a <> ACrash ->
    let st := w_st w in let st' := w_st (wstep w a) in
    (h_updates_total st' - h_updates_total st = N.of_nat (length (h_acked st') - length (h_acked st)) /\
     h_updates_total st <= h_updates_total st' /\ (length (h_acked st) <= length (h_acked st'))%nat) /\
    (h_subs_total st' = h_subs_total st \/
     (h_subs_total st' = h_subs_total st + 1 /\ h_gauge st' = (h_gauge st + 1)%Z)).
  Proof.
    intros Hna. destruct a as [t|t coin|i coin|i|i| |]; cbn [Hub.wstep]; try congruence; cbn zeta.
    - destruct (nth_error (w_pubs w) t) as [p|]; [|split; [rewrite Nat.sub_diag, N.sub_diag; cbn; lia|left; reflexivity]].
      destruct (pb_todo p); [split; [rewrite Nat.sub_diag, N.sub_diag; cbn; lia|left; reflexivity]|].
      destruct (pb_checked p); [split; [rewrite Nat.sub_diag, N.sub_diag; cbn; lia|left; reflexivity]|].
      destruct (h_closed (w_st w)); cbn [set_pub w_st]; (split; [rewrite Nat.sub_diag, N.sub_diag; cbn; lia|left; reflexivity]).
    - destruct (nth_error (w_pubs w) t) as [p|]; [|split; [rewrite Nat.sub_diag, N.sub_diag; cbn; lia|left; reflexivity]].
      destruct (pb_todo p) as [|u todo]; [split; [rewrite Nat.sub_diag, N.sub_diag; cbn; lia|left; reflexivity]|].
      destruct (pb_checked p); [|split; [rewrite Nat.sub_diag, N.sub_diag; cbn; lia|left; reflexivity]].
      destruct (publish (w_st w) u coin) as [st' []] eqn:Ep; cbn [set_pub w_st];
        try (split; [rewrite Nat.sub_diag, N.sub_diag; cbn; lia|left; reflexivity]).
      destruct (publish_frame _ _ _ _ _ Ep) as (A & B & C & D & F & G & H & I & J).
      unfold ack. cbn [h_updates_total h_acked h_subs_total]. rewrite D, I, C, app_length. cbn [length].
      split; [|left; reflexivity]. split; [|lia]. lia.
    - destruct (nth_error (h_subs (w_st w)) i) as [s|] eqn:E; [|split; [rewrite Nat.sub_diag, N.sub_diag; cbn; lia|left; reflexivity]].
      destruct (sub_step (w_st w) i s coin) as [st'|] eqn:Es; cbn [w_st]; [|split; [rewrite Nat.sub_diag, N.sub_diag; cbn; lia|left; reflexivity]].
      unfold Hub.sub_step in Es.
      destruct (hs_phase s) eqn:Ep.
      all: repeat match type of Es with
           | context [match ?x with _ => _ end] =>
               lazymatch x with
               | Hub.add_event _ _ _ _ _ _ _ => fail
               | context [match _ with _ => _ end] => fail
               | _ => destruct x eqn:?; try discriminate
               end
           | context [if ?x then _ else _] => destruct x eqn:?; try discriminate
           end.
      all: try (match type of Es with
                | option_map _ (Hub.add_event _ _ _ ?st0 ?i0 ?a0 ?c0) = Some _ =>
                    destruct (add_event st0 i0 a0 c0) as [st1|] eqn:Eev; [|discriminate];
                    cbn in Es; inversion Es; subst st'; clear Es;
                    destruct (add_event_frame _ _ _ _ _ Eev) as (A & B & C & D & F & G & H & I);
                    unfold metrics, set_phase; destruct (nth_error (h_subs st1) _); cbn [h_updates_total h_acked h_subs_total h_gauge set_sub set_subs];
                    rewrite ?D, ?H, ?C, ?B; (split; [rewrite Nat.sub_diag, N.sub_diag; cbn; lia|left; lia])
                end; fail).
      all: inversion Es; subst st'; clear Es.
      all: unfold metrics, set_sub, set_subs, set_index; cbn [h_updates_total h_acked h_subs_total h_gauge].
      all: split; [rewrite Nat.sub_diag, N.sub_diag; cbn; lia|].
      all: first [left; lia | right; split; lia].
    - destruct (nth_error (h_subs (w_st w)) i) as [s|] eqn:E; [|split; [rewrite Nat.sub_diag, N.sub_diag; cbn; lia|left; reflexivity]].
      destruct (recv_step (w_st w) i s) as [st'|] eqn:Es; cbn [w_st]; [|split; [rewrite Nat.sub_diag, N.sub_diag; cbn; lia|left; reflexivity]].
      unfold recv_step in Es. destruct (hs_phase s); try discriminate.
      destruct (hs_out s); [destruct (hs_closed s); [|discriminate]|]; inversion Es; subst;
        unfold set_sub, set_subs; cbn; (split; [rewrite Nat.sub_diag, N.sub_diag; cbn; lia|left; reflexivity]).
    - destruct (nth_error (h_subs (w_st w)) i) as [s|] eqn:E; [|split; [rewrite Nat.sub_diag, N.sub_diag; cbn; lia|left; reflexivity]].
      destruct (leave_step (w_st w) i s) as [st'|] eqn:Es; cbn [w_st]; [|split; [rewrite Nat.sub_diag, N.sub_diag; cbn; lia|left; reflexivity]].
      unfold leave_step in Es. destruct (hs_phase s); try discriminate. inversion Es; subst.
      unfold set_sub, set_subs; cbn; (split; [rewrite Nat.sub_diag, N.sub_diag; cbn; lia|left; reflexivity]).
    - destruct (close_step (w_st w)) as [st'|] eqn:Es; cbn [w_st]; [|split; [rewrite Nat.sub_diag, N.sub_diag; cbn; lia|left; reflexivity]].
      unfold close_step in Es. destruct (h_close (w_st w)) as [|[|[|]]]; try discriminate.
      + inversion Es; subst. cbn. split; [rewrite Nat.sub_diag, N.sub_diag; cbn; lia|left; reflexivity].
      + destruct (existsb _ _); [discriminate|]. inversion Es; subst. cbn. split; [rewrite Nat.sub_diag, N.sub_diag; cbn; lia|left; reflexivity].
      + destruct (h_persistent _ && _); [discriminate|]. inversion Es; subst. cbn. split; [rewrite Nat.sub_diag, N.sub_diag; cbn; lia|left; reflexivity].
  Qed.
End P.
