(* HubProofs.v — invariants of the transport-level transition system (Model/Hub.v), for every
   schedule of publishers, subscriber handlers, Close and crashes. *)
From Mercure Require Import Base Hub.
From Coq Require Import Lia.

Lemma nth_upd_eq {A} (l : list A) i x y : nth_error l i = Some y -> nth_error (upd_nth i x l) i = Some x.
Proof. revert i. induction l as [|a l IH]; intros [|i]; cbn; try discriminate; auto. Qed.

Lemma nth_upd_neq {A} (l : list A) i j x : i <> j -> nth_error (upd_nth i x l) j = nth_error l j.
Proof. revert i j. induction l as [|a l IH]; intros [|i] [|j] H; cbn; try congruence; auto. Qed.

Lemma nth_upd_cases {A} (l : list A) i j x y :
  nth_error (upd_nth i x l) j = Some y -> (i = j /\ y = x /\ exists z, nth_error l i = Some z) \/ (i <> j /\ nth_error l j = Some y).
Proof.
  intros H. destruct (Nat.eq_dec i j) as [->|Hne].
  - left. destruct (nth_error l j) as [z|] eqn:E.
    + rewrite (nth_upd_eq _ _ _ _ E) in H. inversion H. eauto.
    + exfalso. clear -H E. revert j H E. induction l as [|a l IH]; intros [|j]; cbn; try discriminate; eauto.
  - right. rewrite nth_upd_neq in H by assumption. auto.
Qed.

Section P.
  Variable mt : nat -> N -> bool.
  Variable cap : nat.
  Variable tracking : bool.

  Notation wstep := (wstep mt cap tracking).
  Notation wrun := (wrun mt cap tracking).
  Notation sub_step := (sub_step mt cap tracking).

  (* a predicate on every subscriber, preserved by every action: the generic lifting *)
  Section Lift.
    Variable P : nat -> hsub -> Prop.
    Definition AllSubs (st : hstate) : Prop := forall i s, nth_error (h_subs st) i = Some s -> P i s.

    Hypothesis P_dispatch : forall i s u h, P i s -> (h = true \/ mt i u = true) -> mt i u = true -> P i (fst (s_dispatch cap s u h)).
    Hypothesis P_disconnect : forall i s, P i s -> P i (s_disconnect s).

    Lemma fan_out_all u idx : forall subs,
      (forall i s, nth_error subs i = Some s -> P i s) ->
      forall i s, nth_error (fan_out mt cap subs idx u) i = Some s -> P i s.
    Proof.
      induction idx as [|j idx IH]; intros subs H i s Hi; cbn in Hi; [eauto|].
      destruct (nth_error subs j) as [sj|] eqn:Ej; [|eapply IH; eauto].
      destruct (mt j u) eqn:Em; [|eapply IH; eauto].
      eapply IH; [|exact Hi]. intros k sk Hk.
      apply nth_upd_cases in Hk. destruct Hk as [(-> & -> & _)|(Hne & Hk)]; [|eauto].
      apply P_dispatch; auto.
    Qed.

    Lemma disconnect_all_all idx : forall subs,
      (forall i s, nth_error subs i = Some s -> P i s) ->
      forall i s, nth_error (disconnect_all subs idx) i = Some s -> P i s.
    Proof.
      induction idx as [|j idx IH]; intros subs H i s Hi; cbn in Hi; [eauto|].
      destruct (nth_error subs j) as [sj|] eqn:Ej; [|eapply IH; eauto].
      eapply IH; [|exact Hi]. intros k sk Hk.
      apply nth_upd_cases in Hk. destruct Hk as [(-> & -> & _)|(Hne & Hk)]; [|eauto].
      apply P_disconnect; auto.
    Qed.
  End Lift.

  (* ---------- C01: what a subscriber is sent always matches it ---------- *)

  Definition all_match (i : nat) (l : list N) : Prop := Forall (fun u => mt i u = true) l.

  Definition safe_sub (i : nat) (s : hsub) : Prop :=
    all_match i (hs_sent s) /\ all_match i (hs_liveq s) /\
    match hs_phase s with PFlush rest => all_match i rest | _ => True end.

  Lemma safe_dispatch i s u h : safe_sub i s -> (h = true \/ mt i u = true) -> mt i u = true -> safe_sub i (fst (s_dispatch cap s u h)).
  Proof.
    intros (A & B & C) _ Hm. unfold s_dispatch.
    destruct (hs_disc s); [repeat split; assumption|].
    destruct (negb h && negb (hs_ready s)).
    - cbn. repeat split; cbn; try assumption. apply Forall_app. split; [assumption|repeat constructor; assumption].
    - destruct (Nat.ltb (length (hs_out s)) cap); cbn; repeat split; cbn; try assumption.
      apply Forall_app. split; [assumption|repeat constructor; assumption].
  Qed.

  Lemma safe_disconnect i s : safe_sub i s -> safe_sub i (s_disconnect s).
  Proof. intros (A & B & C). unfold s_disconnect. destruct (hs_disc s); repeat split; assumption. Qed.

  Definition Safe (st : hstate) : Prop := AllSubs safe_sub st.

  Lemma safe_publish st u coin : Safe st -> Safe (fst (publish mt cap st u coin)).
  Proof.
    intros H. unfold publish.
    destruct (h_closed_done st && h_persistent st); [exact H|].
    destruct (Nat.eqb (h_close st) 2); [exact H|].
    destruct (existsb _ (h_index st)); [exact H|].
    cbn [fst]. unfold Safe, AllSubs, set_subs. cbn [h_subs].
    destruct (h_persistent st); cbn [h_subs h_index]; apply fan_out_all; auto using safe_dispatch.
  Qed.

  Ltac safe_upd H Hi :=
    apply nth_upd_cases in Hi; destruct Hi as [(-> & -> & _)|(_ & Hi)]; [|eapply H; eassumption].

  Lemma safe_add_event st i a c st1 : Safe st -> add_event mt cap tracking st i a c = Some st1 -> Safe st1.
  Proof.
    intros H. unfold add_event. destruct (negb tracking); [intros E; inversion E; subst; exact H|].
    destruct (h_closed st); [intros E; inversion E; subst; exact H|].
    pose proof (safe_publish st (ev_id i a) c H) as Hp.
    destruct (publish mt cap st (ev_id i a) c) as [st' []]; cbn [fst] in Hp; intros E; inversion E; subst; try exact H.
    intros j sj Hj. apply (Hp j sj). exact Hj.
  Qed.

  Lemma safe_set_phase st i p : Safe st -> (forall r, p <> PFlush r) -> Safe (set_phase st i p).
  Proof.
    intros H Hp. unfold set_phase. destruct (nth_error (h_subs st) i) as [s|] eqn:E; [|exact H].
    intros j sj Hj. unfold set_sub, set_subs in Hj. cbn [h_subs] in Hj.
    apply nth_upd_cases in Hj. destruct Hj as [(-> & -> & _)|(_ & Hj)]; [|eapply H; eassumption].
    destruct (H _ _ E) as (A & B & C). unfold safe_sub, with_phase; cbn. repeat split; try assumption.
    destruct p; try exact I. exfalso. eapply Hp. reflexivity.
  Qed.

  Lemma safe_metrics st dg dt : Safe st -> Safe (metrics st dg dt).
  Proof. intros H. exact H. Qed.

  Lemma safe_sub_step st i s c st' : Safe st -> nth_error (h_subs st) i = Some s -> sub_step st i s c = Some st' -> Safe st'.
  Proof.
    intros H Hs Hstep. pose proof (H i s Hs) as (A & B & C).
    unfold Hub.sub_step in Hstep.
    destruct (hs_phase s) eqn:Ep.
    all: repeat match type of Hstep with
         | context [match ?x with _ => _ end] =>
             lazymatch x with
             | add_event _ _ _ _ _ _ _ => fail
             | context [match _ with _ => _ end] => fail
             | _ => destruct x eqn:?; try discriminate
             end
         | context [if ?x then _ else _] => destruct x eqn:?; try discriminate
         end.
    (* the steps that dispatch a subscription event *)
    all: try (match type of Hstep with
              | option_map _ (add_event _ _ _ ?st0 ?i0 ?a0 ?c0) = Some _ =>
                  destruct (add_event mt cap tracking st0 i0 a0 c0) as [st1|] eqn:Eev; [|discriminate];
                  cbn in Hstep; inversion Hstep; subst st'; clear Hstep;
                  pose proof (safe_add_event _ _ _ _ _ H Eev) as H1;
                  try apply safe_metrics; apply safe_set_phase; [exact H1|intros r; discriminate]
              end; fail).
    all: inversion Hstep; subst st'; clear Hstep.
    all: intros j sj Hj; unfold metrics, set_sub, set_subs, set_index in Hj; cbn [h_subs] in Hj.
    all: safe_upd H Hj.
    all: unfold safe_sub, with_phase, s_set_ready, s_cutoff, s_send; cbn; repeat split; try assumption; try exact I.
    all: try (rewrite Ep in C; cbn in C).
    all: try (match goal with Hd : s_dispatch _ _ ?u _ = (_, _), Hm : mt _ ?u = true |- _ =>
                let Hx := fresh "Hx" in
                pose proof (safe_dispatch _ s u true (H _ s Hs) (or_introl eq_refl) Hm) as Hx;
                rewrite Hd in Hx; cbn in Hx end).
    all: try (apply Forall_app; split; [assumption|]; repeat constructor).
    all: try (inversion C; subst; assumption).
    all: try (match goal with Hx : safe_sub _ _ |- _ => destruct Hx as (? & ? & ?); assumption end).
  Qed.

  Lemma safe_recv st i s st' : Safe st -> nth_error (h_subs st) i = Some s -> recv_step st i s = Some st' -> Safe st'.
  Proof.
    intros H Hs Hstep. pose proof (H i s Hs) as (A & B & C). unfold recv_step in Hstep.
    destruct (hs_phase s) eqn:Ep; try discriminate.
    destruct (hs_out s); [destruct (hs_closed s); [|discriminate]|]; inversion Hstep; subst st'; clear Hstep.
    all: intros j sj Hj; unfold set_sub, set_subs in Hj; cbn [h_subs] in Hj; safe_upd H Hj.
    all: unfold safe_sub, with_phase; cbn; rewrite ?Ep; repeat split; try assumption; exact I.
  Qed.

  Lemma safe_leave st i s st' : Safe st -> nth_error (h_subs st) i = Some s -> leave_step st i s = Some st' -> Safe st'.
  Proof.
    intros H Hs Hstep. pose proof (safe_disconnect i s (H i s Hs)) as (A & B & C). unfold leave_step in Hstep.
    destruct (hs_phase s) eqn:Ep; try discriminate. inversion Hstep; subst st'; clear Hstep.
    intros j sj Hj; unfold set_sub, set_subs in Hj; cbn [h_subs] in Hj; safe_upd H Hj.
    unfold safe_sub, with_phase; cbn; repeat split; try assumption; exact I.
  Qed.

  Lemma safe_close st st' : Safe st -> close_step st = Some st' -> Safe st'.
  Proof.
    intros H Hstep. unfold close_step in Hstep.
    destruct (h_close st) as [|[|[|]]]; try discriminate.
    - inversion Hstep; subst. exact H.
    - destruct (existsb _ (h_index st)); [discriminate|]. inversion Hstep; subst st'.
      unfold Safe, AllSubs, set_close, set_subs. cbn [h_subs]. apply disconnect_all_all; auto using safe_disconnect.
    - destruct (h_persistent st && _); [discriminate|]. inversion Hstep; subst. exact H.
  Qed.

  Lemma safe_crash st : Safe st -> Safe (crash st).
  Proof.
    intros H i s Hi. unfold crash in Hi. cbn [h_subs] in Hi.
    rewrite nth_error_map in Hi. destruct (nth_error (h_subs st) i) as [s0|] eqn:E; [|discriminate].
    inversion Hi; subst. pose proof (H i s0 E) as Hs0. destruct Hs0 as (A & B & C).
    destruct (hs_phase s0) eqn:Ep; unfold safe_sub, with_phase; cbn; rewrite ?Ep; repeat split; assumption || exact I.
  Qed.

  Theorem safe_wstep w a : Safe (w_st w) -> Safe (w_st (wstep w a)).
  Proof.
    intros H. destruct a as [t|t coin|i coin|i|i| |]; cbn [Hub.wstep].
    - destruct (nth_error (w_pubs w) t) as [p|]; [|exact H].
      destruct (pb_todo p); [exact H|]. destruct (pb_checked p); [exact H|].
      destruct (h_closed (w_st w)); exact H.
    - destruct (nth_error (w_pubs w) t) as [p|]; [|exact H].
      destruct (pb_todo p) as [|u todo]; [exact H|]. destruct (pb_checked p); [|exact H].
      pose proof (safe_publish (w_st w) u coin H) as Hp.
      destruct (publish mt cap (w_st w) u coin) as [st' []]; cbn [fst] in Hp; cbn [set_pub w_st]; try exact H.
      intros j sj Hj. eapply Hp. exact Hj.
    - destruct (nth_error (h_subs (w_st w)) i) as [s|] eqn:E; [|exact H].
      destruct (sub_step (w_st w) i s coin) as [st'|] eqn:Es; [|exact H]. eapply safe_sub_step; eassumption.
    - destruct (nth_error (h_subs (w_st w)) i) as [s|] eqn:E; [|exact H].
      destruct (recv_step (w_st w) i s) as [st'|] eqn:Es; [|exact H]. eapply safe_recv; eassumption.
    - destruct (nth_error (h_subs (w_st w)) i) as [s|] eqn:E; [|exact H].
      destruct (leave_step (w_st w) i s) as [st'|] eqn:Es; [|exact H]. eapply safe_leave; eassumption.
    - destruct (close_step (w_st w)) as [st'|] eqn:Es; [|exact H]. eapply safe_close; eassumption.
    - apply safe_crash. exact H.
  Qed.

  Theorem safe_reachable persistent size reqs pubs sched :
    Safe (w_st (wrun (winit persistent size reqs pubs) sched)).
  Proof.
    unfold Hub.wrun.
    assert (H0 : Safe (w_st (winit persistent size reqs pubs))).
    { intros i s Hi. cbn in Hi. rewrite nth_error_map in Hi. destruct (nth_error reqs i); [|discriminate].
      inversion Hi; subst. repeat split; constructor. }
    revert H0. generalize (winit persistent size reqs pubs).
    induction sched as [|a sched IH]; intros w H0; [exact H0|]. cbn. apply IH. apply safe_wstep. exact H0.
  Qed.
End P.
