(* HubProofs8.v — the committed ids are distinct whenever the published ids are: publishers' ids are distinct and below
   the range of subscription-event ids, and each subscriber's active=true / active=false event is dispatched at most
   once (crashes included). This discharges the NoDup hypothesis of C06_exactly_once. *)
From Mercure Require Import Base Hub HubProofs HubProofs2 HubProofs7.
From Coq Require Import Lia.

Definition EVB : N := 1099511627776.

Lemma ev_id_ge i a : EVB <= ev_id i a.
Proof. unfold ev_id, EVB. destruct a; lia. Qed.

Lemma ev_id_inj i a j b : ev_id i a = ev_id j b -> i = j /\ a = b.
Proof. unfold ev_id. destruct a, b; intros H; split; try reflexivity; lia. Qed.

(* the abstraction the argument needs: the committed order and the phases *)
Definition M (C : list N) (ph : list phase) : Prop :=
  NoDup C /\
  forall i a, In (ev_id i a) C ->
    exists p, nth_error ph i = Some p /\ (a = true -> p <> PNew) /\ (a = false -> p = PRefused \/ p = PGone).

Lemma NoDup_snoc {A} (l : list A) x : NoDup l -> ~ In x l -> NoDup (l ++ [x]).
Proof.
  induction 1 as [|y l Hy Hl IH]; intros Hx; cbn; [constructor; [intros []|constructor]|].
  constructor.
  - intros Hin. apply in_app_or in Hin. destruct Hin as [Hin|[->|[]]]; [auto|apply Hx; left; reflexivity].
  - apply IH. intros Hin. apply Hx. right. assumption.
Qed.

Lemma M_pub C ph u : M C ph -> u < EVB -> ~ In u C -> M (C ++ [u]) ph.
Proof.
  intros [ND H] Hu Hn. split; [apply NoDup_snoc; assumption|].
  intros i a Hin. apply in_app_or in Hin. destruct Hin as [Hin|[E|[]]]; [apply H; assumption|].
  exfalso. pose proof (ev_id_ge i a). lia.
Qed.

Lemma nth_upd_eq' {A} (l : list A) i x y : nth_error l i = Some y -> nth_error (upd_nth i x l) i = Some x.
Proof. apply nth_upd_eq. Qed.

Lemma M_move C ph i p p' :
  M C ph -> nth_error ph i = Some p -> p' <> PNew -> p <> PRefused -> p <> PGone -> M C (upd_nth i p' ph).
Proof.
  intros [ND H] Hi Hp' H1 H2. split; [assumption|]. intros j a Hin. destruct (H j a Hin) as (q & Hq & A & B).
  destruct (Nat.eq_dec i j) as [->|Hne].
  - rewrite (nth_upd_eq _ _ _ _ Hq). exists p'. split; [reflexivity|]. split; [auto|].
    intros Ha. exfalso. rewrite Hi in Hq. inversion Hq; subst q. destruct (B Ha); contradiction.
  - rewrite (nth_upd_neq _ _ _ _ Hne). exists q. auto.
Qed.

Lemma M_event C ph i p p' a :
  M C ph -> nth_error ph i = Some p -> p' <> PNew ->
  (a = true -> p = PNew) -> (a = false -> p <> PRefused /\ p <> PGone /\ (p' = PRefused \/ p' = PGone)) ->
  M (C ++ [ev_id i a]) (upd_nth i p' ph).
Proof.
  intros [ND H] Hi Hp' Ht Hf.
  assert (Hfresh : ~ In (ev_id i a) C).
  { intros Hin. destruct (H i a Hin) as (q & Hq & A & B). rewrite Hi in Hq. inversion Hq; subst q.
    destruct a; [apply (A eq_refl); apply Ht; reflexivity|].
    destruct (Hf eq_refl) as (F1 & F2 & _). destruct (B eq_refl); contradiction. }
  split; [apply NoDup_snoc; assumption|].
  intros j b Hin. apply in_app_or in Hin. destruct Hin as [Hin|[E|[]]].
  - destruct (H j b Hin) as (q & Hq & A & B). destruct (Nat.eq_dec i j) as [->|Hne].
    + rewrite (nth_upd_eq _ _ _ _ Hq). exists p'. split; [reflexivity|]. split; [auto|].
      intros Hb. rewrite Hi in Hq. inversion Hq; subst q. destruct (B Hb) as [X|X]; exfalso.
      * destruct a; [rewrite (Ht eq_refl) in X; discriminate|destruct (Hf eq_refl) as (F1 & _); contradiction].
      * destruct a; [rewrite (Ht eq_refl) in X; discriminate|destruct (Hf eq_refl) as (_ & F2 & _); contradiction].
    + rewrite (nth_upd_neq _ _ _ _ Hne). exists q. auto.
  - apply ev_id_inj in E. destruct E as [-> ->]. rewrite (nth_upd_eq _ _ _ _ Hi). exists p'. split; [reflexivity|].
    split; [auto|]. intros Ha. destruct (Hf Ha) as (_ & _ & F). exact F.
Qed.

Lemma M_crash C ph : M C ph -> M C (map (fun p => match p with PNew | PRefused => p | _ => PGone end) ph).
Proof.
  intros [ND H]. split; [assumption|]. intros i a Hin. destruct (H i a Hin) as (q & Hq & A & B).
  rewrite nth_error_map, Hq. cbn. eexists. split; [reflexivity|]. split.
  - intros Ha. specialize (A Ha). destruct q; try discriminate. contradiction.
  - intros Ha. destruct (B Ha) as [->| ->]; auto.
Qed.

Lemma map_upd_nth' {A B} (f : A -> B) i x (l : list A) : map f (upd_nth i x l) = upd_nth i (f x) (map f l).
Proof. revert i. induction l as [|a l IH]; intros [|i]; cbn; try reflexivity. rewrite IH. reflexivity. Qed.

Inductive subseq {A} : list A -> list A -> Prop :=
| s_nil : subseq [] []
| s_skip x l' l : subseq l' l -> subseq l' (x :: l)
| s_keep x l' l : subseq l' l -> subseq (x :: l') (x :: l).

Lemma subseq_refl {A} (l : list A) : subseq l l.
Proof. induction l; constructor; assumption. Qed.
Lemma subseq_in {A} (l' l : list A) x : subseq l' l -> In x l' -> In x l.
Proof. induction 1; intros Hin; [assumption|right; auto|destruct Hin; [left; assumption|right; auto]]. Qed.
Lemma subseq_nodup {A} (l' l : list A) : subseq l' l -> NoDup l -> NoDup l'.
Proof.
  induction 1 as [|x l' l S IH|x l' l S IH]; intros ND; [constructor|inversion ND; auto|].
  inversion ND; subst. constructor; [|auto]. intros Hin. apply H1. eapply subseq_in; eassumption.
Qed.
Lemma subseq_app {A} (a' a b' b : list A) : subseq a' a -> subseq b' b -> subseq (a' ++ b') (a ++ b).
Proof. induction 1 as [|x l' l S IH|x l' l S IH]; intros Hb; cbn [app]; [assumption|apply s_skip; auto|apply s_keep; auto]. Qed.

Section P.
  Variable mt : nat -> N -> bool.
  Variable cap : nat.
  Variable tracking : bool.

  Notation sub_step := (sub_step mt cap tracking).
  Notation publish := (publish mt cap).
  Notation add_event := (add_event mt cap tracking).
  Notation wstep := (wstep mt cap tracking).
  Notation wrun := (wrun mt cap tracking).

  Definition MS (st : hstate) : Prop := M (h_committed st) (phases st).

  Lemma publish_commits st u coin st' :
    publish st u coin = (st', PubOk) -> h_committed st' = h_committed st ++ [u] /\ phases st' = phases st.
  Proof.
    intros Ep. destruct (publish_frame mt cap _ _ _ _ _ Ep) as (Ph & _). split; [|assumption].
    unfold Hub.publish in Ep.
    destruct (h_closed_done st && h_persistent st); [discriminate|].
    destruct (Nat.eqb (h_close st) 2); [discriminate|].
    destruct (existsb _ (h_index st)); [discriminate|].
    inversion Ep; subst. unfold set_subs. destruct (h_persistent st); reflexivity.
  Qed.

  Lemma add_event_commits st i a c st1 :
    add_event st i a c = Some st1 ->
    phases st1 = phases st /\ (h_committed st1 = h_committed st \/ h_committed st1 = h_committed st ++ [ev_id i a]).
  Proof.
    unfold Hub.add_event. destruct (negb tracking); [intros E; inversion E; subst; auto|].
    destruct (h_closed st); [intros E; inversion E; subst; auto|].
    destruct (publish st (ev_id i a) c) as [st' []] eqn:Ep; intros E; inversion E; subst; auto.
    destruct (publish_commits _ _ _ _ Ep) as [A B]. split; [exact B|right; exact A].
  Qed.

  Lemma phases_set_phase st i p s : nth_error (h_subs st) i = Some s -> phases (set_phase st i p) = upd_nth i p (phases st).
  Proof. intros E. unfold set_phase, phases. rewrite E. unfold set_sub, set_subs. cbn [h_subs]. rewrite map_upd_nth'. reflexivity. Qed.

  (* a step of subscriber i that dispatches (i, a) and moves it to phase p' *)
  Lemma ms_event st i s a c st1 p' :
    MS st -> nth_error (h_subs st) i = Some s -> add_event st i a c = Some st1 -> p' <> PNew ->
    hs_phase s <> PRefused -> hs_phase s <> PGone ->
    (a = true -> hs_phase s = PNew) -> (a = false -> p' = PRefused \/ p' = PGone) ->
    MS (set_phase st1 i p').
  Proof.
    intros H E Ea Hp' H1 H2 Ht Hf. destruct (add_event_commits _ _ _ _ _ Ea) as (Ph & Hc).
    destruct (phases_nth _ _ _ _ Ph E) as (s1 & E1 & P1).
    assert (Hcs : h_committed (set_phase st1 i p') = h_committed st1) by (unfold set_phase; rewrite E1; reflexivity).
    unfold MS. rewrite (phases_set_phase _ _ _ _ E1), Ph, Hcs.
    assert (Hn : nth_error (phases st) i = Some (hs_phase s)) by (unfold phases; apply map_nth_error; assumption).
    destruct Hc as [-> | ->].
    - eapply M_move; eassumption.
    - eapply M_event; try eassumption. intros Ha. split; [assumption|]. split; [assumption|]. auto.
  Qed.

  (* a silent step of subscriber i to phase p' *)
  Lemma ms_silent st i s s' : MS st -> nth_error (h_subs st) i = Some s -> hs_phase s' <> PNew ->
    hs_phase s <> PRefused -> hs_phase s <> PGone -> forall st0, h_committed st0 = h_committed st -> h_subs st0 = h_subs st -> MS (set_sub st0 i s').
  Proof.
    intros H E Hp' H1 H2 st0 Hc Hs. unfold MS, phases, set_sub, set_subs. cbn [h_subs h_committed]. rewrite Hc, Hs, map_upd_nth'.
    eapply M_move; try eassumption. apply map_nth_error. assumption.
  Qed.

  Lemma ms_sub_step st i s c st' : MS st -> nth_error (h_subs st) i = Some s -> sub_step st i s c = Some st' -> MS st'.
  Proof.
    intros H E Hstep. unfold Hub.sub_step in Hstep.
    destruct (hs_phase s) eqn:Ep.
    all: repeat match type of Hstep with
         | context [match ?x with _ => _ end] =>
             lazymatch x with
             | Hub.add_event _ _ _ _ _ _ _ => fail
             | context [match _ with _ => _ end] => fail
             | _ => destruct x eqn:?; try discriminate
             end
         | context [if ?x then _ else _] => destruct x eqn:?; try discriminate
         end.
    all: try (match type of Hstep with
              | option_map _ (Hub.add_event _ _ _ ?st0 ?i0 ?a0 ?c0) = Some _ =>
                  destruct (add_event st0 i0 a0 c0) as [st1|] eqn:Eev; [|discriminate];
                  cbn in Hstep; inversion Hstep; subst st'; clear Hstep;
                  try (unfold metrics; change (MS (set_phase st1 i0 PGone)));
                  eapply ms_event; try eassumption; rewrite ?Ep; try discriminate; auto; try (intros; discriminate)
              end; fail).
    all: inversion Hstep; subst st'; clear Hstep.
    all: try (unfold metrics; match goal with |- MS {| h_persistent := _; h_close := _; h_db := _; h_committed := _; h_seq := _; h_lastseq := _; h_index := _;
                 h_subs := h_subs ?x; h_acked := _; h_events := _; h_gauge := _; h_subs_total := _; h_updates_total := _; h_size := _ |} => change (MS x) end).
    all: eapply ms_silent; try eassumption; try reflexivity; rewrite ?Ep; cbn [hs_phase with_phase s_set_ready s_cutoff s_send]; try discriminate.
  Qed.
  (* ---- the publishers' remaining ids ---- *)
  Definition todos (pubs : list publisher) : list N := concat (map pb_todo pubs).

  Lemma todos_split pubs t p : nth_error pubs t = Some p ->
    exists l1 l2, todos pubs = l1 ++ pb_todo p ++ l2 /\ forall p', todos (upd_nth t p' pubs) = l1 ++ pb_todo p' ++ l2.
  Proof.
    revert t. induction pubs as [|q pubs IH]; intros [|t] E; cbn in E; try discriminate.
    - inversion E; subst. exists [], (todos pubs). split; [reflexivity|]. intros p'. reflexivity.
    - destruct (IH t E) as (l1 & l2 & A & B). exists (pb_todo q ++ l1), l2. unfold todos in *. cbn [map concat upd_nth].
      split; [rewrite A, <- app_assoc; reflexivity|]. intros p'. rewrite B, <- app_assoc. reflexivity.
  Qed.

  Definition TodoOk (C : list N) (l : list N) : Prop := NoDup l /\ forall u, In u l -> u < EVB /\ ~ In u C.

  Lemma NoDup_remove_mid {A} (l1 l2 : list A) x : NoDup (l1 ++ x :: l2) -> NoDup (l1 ++ l2) /\ ~ In x (l1 ++ l2).
  Proof. apply NoDup_remove. Qed.

  (* dropping the head of one publisher's list *)
  Lemma todo_pop C l1 u todo l2 : TodoOk C (l1 ++ (u :: todo) ++ l2) -> TodoOk C (l1 ++ todo ++ l2).
  Proof.
    intros [ND H]. cbn [app] in ND. apply NoDup_remove in ND. destruct ND as [ND _]. split; [assumption|].
    intros v Hv. apply H. apply in_app_or in Hv. apply in_or_app. destruct Hv as [?|?]; [left; assumption|right; right; assumption].
  Qed.

  (* committing the head of one publisher's list *)
  Lemma todo_commit C l1 u todo l2 : TodoOk C (l1 ++ (u :: todo) ++ l2) -> TodoOk (C ++ [u]) (l1 ++ todo ++ l2) /\ u < EVB /\ ~ In u C.
  Proof.
    intros [ND H]. cbn [app] in ND. pose proof (NoDup_remove _ _ _ ND) as [ND' Hn].
    assert (Hu : In u (l1 ++ (u :: todo) ++ l2)) by (apply in_or_app; right; left; reflexivity).
    destruct (H u Hu) as [Hlt Hnc]. split; [|auto]. split; [assumption|].
    intros v Hv. assert (Hv' : In v (l1 ++ (u :: todo) ++ l2)).
    { apply in_app_or in Hv. apply in_or_app. destruct Hv as [?|?]; [left; assumption|right; right; assumption]. }
    destruct (H v Hv') as [A B]. split; [assumption|]. intros Hin. apply in_app_or in Hin. destruct Hin as [?|[->|[]]]; [contradiction|].
    apply Hn. exact Hv.
  Qed.

  (* committing something else (an event id) *)
  Lemma todo_other C l e : TodoOk C l -> EVB <= e -> TodoOk (C ++ [e]) l.
  Proof.
    intros [ND H] He. split; [assumption|]. intros v Hv. destruct (H v Hv) as [A B]. split; [assumption|].
    intros Hin. apply in_app_or in Hin. destruct Hin as [?|[->|[]]]; [contradiction|lia].
  Qed.

  Definition crash_pub (p : publisher) : publisher :=
    if pb_checked p then match pb_todo p with
                         | u :: todo => {| pb_todo := todo; pb_checked := false; pb_results := pb_results p ++ [(u, false)] |}
                         | [] => p end else p.
  Lemma crash_todos_subseq pubs : subseq (todos (map crash_pub pubs)) (todos pubs).
  Proof.
    unfold todos. induction pubs as [|q pubs IH]; [constructor|]. cbn [map concat]. apply subseq_app; [|exact IH].
    unfold crash_pub. destruct (pb_checked q); [|apply subseq_refl]. destruct (pb_todo q) as [|u todo] eqn:Eq; [rewrite Eq; apply subseq_refl|].
    cbn [pb_todo]. apply s_skip. apply subseq_refl.
  Qed.

  Definition J (w : world) : Prop := MS (w_st w) /\ TodoOk (h_committed (w_st w)) (todos (w_pubs w)).

  (* what a subscriber step does to the committed order: nothing, or one event id *)
  Lemma sub_step_commits st i s c st' : sub_step st i s c = Some st' ->
    h_committed st' = h_committed st \/ exists a, h_committed st' = h_committed st ++ [ev_id i a].
  Proof.
    intros Hstep. unfold Hub.sub_step in Hstep.
    assert (G : forall st0 a0 c0 st1 p0, add_event st0 i a0 c0 = Some st1 ->
                h_committed (set_phase st1 i p0) = h_committed st0 \/ exists a, h_committed (set_phase st1 i p0) = h_committed st0 ++ [ev_id i a]).
    { intros st0 a0 c0 st1 p0 Ea. destruct (add_event_commits _ _ _ _ _ Ea) as (_ & Hc).
      assert (Hcs : h_committed (set_phase st1 i p0) = h_committed st1) by (unfold set_phase; destruct (nth_error (h_subs st1) i); reflexivity).
      rewrite Hcs. destruct Hc as [->| ->]; [left; reflexivity|right; eexists; reflexivity]. }
    destruct (hs_phase s) eqn:Ep.
    all: repeat match type of Hstep with
         | context [match ?x with _ => _ end] =>
             lazymatch x with
             | Hub.add_event _ _ _ _ _ _ _ => fail
             | context [match _ with _ => _ end] => fail
             | _ => destruct x eqn:?; try discriminate
             end
         | context [if ?x then _ else _] => destruct x eqn:?; try discriminate
         end.
    all: try (match type of Hstep with
              | option_map _ (Hub.add_event _ _ _ ?st0 ?i0 ?a0 ?c0) = Some _ =>
                  destruct (add_event st0 i0 a0 c0) as [st1|] eqn:Eev; [|discriminate];
                  cbn in Hstep; inversion Hstep; subst st'; clear Hstep; eapply G; eassumption
              end; fail).
    all: inversion Hstep; subst st'; left; reflexivity.
  Qed.

  Theorem j_wstep w a : J w -> J (wstep w a).
  Proof.
    intros [HM HT]. destruct a as [t|t coin|i coin|i|i| |]; cbn [Hub.wstep].
    - destruct (nth_error (w_pubs w) t) as [p|] eqn:Et; [|split; assumption].
      destruct (pb_todo p) as [|u todo] eqn:Ed; [split; assumption|]. destruct (pb_checked p); [split; assumption|].
      destruct (todos_split _ _ _ Et) as (l1 & l2 & A & B).
      destruct (h_closed (w_st w)); unfold J, set_pub; cbn [w_st w_pubs]; (split; [assumption|]); rewrite B; cbn [pb_todo].
      + rewrite A, Ed in HT. eapply todo_pop. eassumption.
      + rewrite A, Ed in HT. exact HT.
    - destruct (nth_error (w_pubs w) t) as [p|] eqn:Et; [|split; assumption].
      destruct (pb_todo p) as [|u todo] eqn:Ed; [split; assumption|]. destruct (pb_checked p); [|split; assumption].
      destruct (todos_split _ _ _ Et) as (l1 & l2 & A & B). pose proof HT as HT0. rewrite A, Ed in HT.
      destruct (publish (w_st w) u coin) as [st' []] eqn:Ep; unfold J, set_pub; cbn [w_st w_pubs]; try (split; assumption).
      + destruct (publish_commits _ _ _ _ Ep) as [Hc Hph]. destruct (todo_commit _ _ _ _ _ HT) as (T' & Hu & Hn).
        unfold MS, ack. cbn [h_committed]. rewrite B. cbn [pb_todo]. rewrite Hc. split; [|exact T'].
        change (M (h_committed (w_st w) ++ [u]) (phases st')). rewrite Hph. apply M_pub; assumption.
      + split; [assumption|]. rewrite B. cbn [pb_todo]. eapply todo_pop. eassumption.
    - destruct (nth_error (h_subs (w_st w)) i) as [s|] eqn:E; [|split; assumption].
      destruct (sub_step (w_st w) i s coin) as [st'|] eqn:Es; [|split; assumption]. unfold J. cbn [w_st w_pubs].
      split; [eapply ms_sub_step; eassumption|].
      destruct (sub_step_commits _ _ _ _ _ Es) as [->|[a ->]]; [assumption|]. apply todo_other; [assumption|apply ev_id_ge].
    - destruct (nth_error (h_subs (w_st w)) i) as [s|] eqn:E; [|split; assumption].
      destruct (recv_step (w_st w) i s) as [st'|] eqn:Es; [|split; assumption]. unfold J. cbn [w_st w_pubs].
      unfold recv_step in Es. destruct (hs_phase s) eqn:Ep; try discriminate.
      destruct (hs_out s); [destruct (hs_closed s); [|discriminate]|]; inversion Es; subst; (split; [|exact HT]).
      + eapply ms_silent; try eassumption; try reflexivity; rewrite ?Ep; cbn [hs_phase with_phase]; discriminate.
      + eapply ms_silent; try eassumption; try reflexivity; rewrite ?Ep; cbn [hs_phase]; rewrite ?Ep; discriminate.
    - destruct (nth_error (h_subs (w_st w)) i) as [s|] eqn:E; [|split; assumption].
      destruct (leave_step (w_st w) i s) as [st'|] eqn:Es; [|split; assumption]. unfold J. cbn [w_st w_pubs].
      unfold leave_step in Es. destruct (hs_phase s) eqn:Ep; try discriminate. inversion Es; subst. split; [|exact HT].
      eapply ms_silent; try eassumption; try reflexivity; rewrite ?Ep; cbn [hs_phase with_phase]; discriminate.
    - destruct (close_step (w_st w)) as [st'|] eqn:Es; [|split; assumption]. unfold J. cbn [w_st w_pubs].
      unfold close_step in Es. destruct (h_close (w_st w)) as [|[|[|]]]; try discriminate.
      + inversion Es; subst. split; assumption.
      + destruct (existsb _ (h_index (w_st w))); [discriminate|]. inversion Es; subst. split; [|exact HT].
        unfold MS, phases, set_close, set_subs. cbn [h_subs h_committed]. rewrite (disconnect_all_phases (h_index (w_st w))). exact HM.
      + destruct (h_persistent (w_st w) && _); [discriminate|]. inversion Es; subst. split; assumption.
    - unfold J. cbn [w_st w_pubs]. split.
      + unfold MS, crash, phases. cbn [h_subs h_committed]. rewrite map_map.
        pose proof (M_crash _ _ HM) as Hc. unfold phases in Hc. rewrite map_map in Hc.
        erewrite map_ext; [exact Hc|]. intros s. cbn. destruct (hs_phase s) eqn:Ep; cbn; rewrite ?Ep; reflexivity.
      + unfold crash. cbn [h_committed]. destruct HT as [ND H].
        pose proof (crash_todos_subseq (w_pubs w)) as S. unfold crash_pub in S.
        split; [eapply subseq_nodup; eassumption|]. intros u Hu. apply H. eapply subseq_in; eassumption.
  Qed.

  Theorem committed_distinct persistent size reqs pubs sched :
    NoDup (concat pubs) -> (forall u, In u (concat pubs) -> u < EVB) ->
    NoDup (h_committed (w_st (wrun (winit persistent size reqs pubs) sched))).
  Proof.
    intros ND Hlt. unfold Hub.wrun.
    assert (H0 : J (winit persistent size reqs pubs)).
    { unfold J, MS, TodoOk, todos. cbn.
      assert (E : map pb_todo (map (fun us : list N => {| pb_todo := us; pb_checked := false; pb_results := [] |}) pubs) = pubs) by (rewrite map_map; cbn; apply map_id).
      rewrite E.
      split; [split; [constructor|intros i a []]|]. split; [assumption|]. intros u Hu. split; [auto|intros []]. }
    assert (G : forall w, J w -> J (fold_left wstep sched w)).
    { induction sched as [|a sched IH]; intros w Hw; [exact Hw|]. cbn. apply IH. apply j_wstep. exact Hw. }
    destruct (G _ H0) as [[ND' _] _]. exact ND'.
  Qed.
  (* exactly once, from the inputs alone: distinct published ids are never sent, nor written to a client, twice
     (either transport, any retention size) *)
  Theorem exactly_once_distinct persistent size reqs pubs sched i s :
    NoDup (concat pubs) -> (forall u, In u (concat pubs) -> u < EVB) ->
    nth_error (h_subs (w_st (wrun (winit persistent size reqs pubs) sched))) i = Some s ->
    NoDup (hs_sent s) /\ NoDup (hs_recvd s).
  Proof.
    intros ND Hlt E. apply (exactly_once_retention mt cap tracking persistent size reqs pubs sched i s E).
    apply committed_distinct; assumption.
  Qed.
End P.
