(* BoltHistProofs2.v — C10 when the retention size changes at restarts (an operator edits the configuration): the
   retained window stays contiguous whatever the sequence of sizes, each publication keeps everything that has fewer
   than the current size newer updates, and a cleanup that runs leaves nothing older. *)
From Mercure Require Import Base BoltHist BoltHistProofs.
From Coq Require Import ZifyN ZifyNat ZifyBool.

Lemma in_nrange len : forall lo x, In x (nrange lo len) <-> lo <= x < lo + N.of_nat len.
Proof. induction len as [|k IH]; intros lo x; cbn [nrange In]; [lia|]. rewrite IH. lia. Qed.

Section B.
  Variable A : Type.
  Notation persist := (persist A).
  Notation seqs := (seqs A).
  Notation d_seq := (d_seq A).

  Definition contiguous (n : N) (l : list N) : Prop :=
    exists lo len, l = nrange lo len /\ lo + N.of_nat len = n + 1 /\ 1 <= lo.

  Lemma seqs_persist size d run x :
    seqs (persist size d (run, x)) =
    if N.eqb size 0 || negb run || N.leb (d_seq d + 1) size then seqs d ++ [d_seq d + 1]
    else filter (N.ltb (d_seq d + 1 - size)) (seqs d ++ [d_seq d + 1]).
  Proof.
    unfold BoltHist.persist, BoltHist.seqs, cleanup. cbn [d_entries BoltHist.d_seq fst snd].
    destruct (N.eqb size 0 || negb run || N.leb (BoltHist.d_seq A d + 1) size).
    - rewrite map_app. reflexivity.
    - rewrite (map_fst_filter A (N.ltb (BoltHist.d_seq A d + 1 - size))), map_app. reflexivity.
  Qed.

  Lemma persist_seq size d rx : d_seq (persist size d rx) = d_seq d + 1.
  Proof. reflexivity. Qed.

  Lemma persist_contiguous size d run x :
    contiguous (d_seq d) (seqs d) -> contiguous (d_seq (persist size d (run, x))) (seqs (persist size d (run, x))).
  Proof.
    intros (lo & len & Hl & Hsum & Hlo). rewrite persist_seq, seqs_persist.
    assert (Happ : seqs d ++ [d_seq d + 1] = nrange lo (S len)).
    { rewrite Hl, <- nrange_snoc. f_equal. f_equal. lia. }
    rewrite Happ. destruct (N.eqb size 0 || negb run || N.leb (d_seq d + 1) size) eqn:Eb.
    - exists lo, (S len). repeat split; lia.
    - rewrite filter_nrange. eexists. eexists. split; [reflexivity|].
      apply orb_false_iff in Eb. destruct Eb as [Eb El]. apply orb_false_iff in Eb. destruct Eb as [Es _].
      split; lia.
  Qed.

  (* nothing that has fewer than size newer updates is discarded (nothing at all when size = 0) *)
  Lemma persist_keeps_recent size d run x s :
    In s (seqs d ++ [d_seq d + 1]) -> size = 0 \/ d_seq d + 1 - size < s -> In s (seqs (persist size d (run, x))).
  Proof.
    intros Hin Hrecent. rewrite seqs_persist.
    destruct (N.eqb size 0 || negb run || N.leb (d_seq d + 1) size) eqn:Eb; [exact Hin|].
    apply filter_In. split; [exact Hin|].
    apply orb_false_iff in Eb. destruct Eb as [Eb El]. apply orb_false_iff in Eb. destruct Eb as [Es _]. lia.
  Qed.

  (* a cleanup that runs leaves nothing older *)
  Lemma persist_drops_old size d x s :
    contiguous (d_seq d) (seqs d) -> size <> 0 ->
    In s (seqs (persist size d (true, x))) -> d_seq d + 1 - size < s.
  Proof.
    intros (lo & len & Hl & Hsum & Hlo) Hs. rewrite seqs_persist.
    replace (N.eqb size 0) with false by lia. cbn [negb orb].
    destruct (N.leb_spec (d_seq d + 1) size) as [Hle|Hgt].
    - intros Hin. apply in_app_or in Hin. destruct Hin as [Hin|[<-|[]]]; [|lia].
      rewrite Hl in Hin. apply in_nrange in Hin. lia.
    - intros Hin. apply filter_In in Hin. lia.
  Qed.

  (* nothing appears that was not there or just published; without a cleanup nothing is discarded *)
  Lemma persist_only_known size d rx s : In s (seqs (persist size d rx)) -> In s (seqs d ++ [d_seq d + 1]).
  Proof.
    destruct rx as [run x]. rewrite seqs_persist.
    destruct (N.eqb size 0 || negb run || N.leb (d_seq d + 1) size); [auto|]. intros Hin. apply filter_In in Hin. tauto.
  Qed.

  Lemma persist_no_cleanup size d x : seqs (persist size d (false, x)) = seqs d ++ [d_seq d + 1].
  Proof. rewrite seqs_persist. cbn [negb]. rewrite orb_true_r. reflexivity. Qed.

  (* histories in which a restart may change the size *)
  Inductive rop := RPub (run : bool) (x : A) | RReopen (newsize : option N).

  Definition rstep (st : db A * N) (o : rop) : db A * N :=
    match o with
    | RPub run x => (persist (snd st) (fst st) (run, x), snd st)
    | RReopen None => st
    | RReopen (Some s) => (fst st, s)
    end.

  Definition rrun (size0 : N) (ops : list rop) : db A * N := fold_left rstep ops (db_empty A, size0).

  Theorem reconf_contiguous size0 ops :
    let d := fst (rrun size0 ops) in contiguous (d_seq d) (seqs d).
  Proof.
    unfold rrun. induction ops as [|o ops IH] using rev_ind.
    - cbn. exists 1, 0%nat. cbn. repeat split; lia.
    - rewrite fold_left_app. cbn [fold_left]. cbn zeta in IH.
      destruct (fold_left rstep ops (db_empty A, size0)) as [d size]. cbn [fst] in IH.
      destruct o as [run x|[s|]]; cbn [rstep fst snd]; [apply persist_contiguous| |]; exact IH.
  Qed.

  (* so a replay from any retained entry is complete, whatever sizes were in force *)
  Corollary reconf_replay_complete size0 ops s :
    let d := fst (rrun size0 ops) in
    In s (seqs d) -> forall s', s < s' <= d_seq d -> In s' (seqs d).
  Proof.
    intros d Hin s' Hs'. destruct (reconf_contiguous size0 ops) as (lo & len & Hl & Hsum & _). fold d in Hl, Hsum.
    rewrite Hl in *. apply in_nrange. apply in_nrange in Hin. lia.
  Qed.
End B.
