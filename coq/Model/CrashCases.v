(* CrashCases.v — C09 on kill-point runs: the process is frozen at a scheduling point of a publish sequence,
   the history file is taken as the kill left it and reopened. Updates are numbered 1.. in publish order
   (the initial history first). *)
From Mercure Require Export BoltHist HubCases.

Record crash_case := {
  cr_size : N; cr_initial : nat; cr_pubs : nat;
  cr_acked : list N;                 (* publishes that had returned success before the kill *)
  cr_delivered : list N;             (* updates already handed to a subscriber before the kill *)
  cr_reopened : bool;                (* the database reopens *)
  cr_history : list N;               (* its content after the restart *)
  cr_last : option (option N) }.     (* the last event id the restarted hub reports (Some None = "earliest") *)

(* the history after k publications in total (cleanup runs on every publication): the most recent `size` of them *)
Definition window (size : N) (k : nat) : list N :=
  let all := nrange 1 k in
  if N.eqb size 0 then all else skipn (k - N.to_nat size) all.

Definition crash_ok (c : crash_case) : bool :=
  cr_reopened c &&
  (* atomic: the file holds exactly the window of some number of publications, the interrupted one entirely or not at all *)
  existsb (fun k =>
    Ns_eqb (cr_history c) (window (cr_size c) k) &&
    (* durable: every acknowledged and every delivered update is among them *)
    forallb (fun u => N.leb u (N.of_nat k)) (cr_acked c) &&
    forallb (fun u => N.leb u (N.of_nat k)) (cr_delivered c))
    (seq (cr_initial c) (S (cr_pubs c))) &&
  (* the restarted hub reports the id of the last stored update *)
  match cr_last c with
  | Some l => option_eqb N.eqb l (match cr_history c with [] => None | h => Some (last h 0) end)
  | None => false
  end.
