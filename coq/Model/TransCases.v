(* TransCases.v — the properties' observable consequences on schedule-steered runs of the real transports
   (AddSubscriber / Dispatch / RemoveSubscriber / Close called concurrently; logical time-stamps at the
   operations' boundaries; every channel drained and the history read back at the end). *)
From Mercure Require Export Hub HubCases SubCases.

Record tpub := { tp_id : N; tp_ok : bool; tp_start : N; tp_end : N }.
Record tsub := { ts_err : bool; ts_start : N; ts_end : N; ts_left : N; ts_received : list N; ts_closed : bool }.
Record tobs := { to_pubs : list tpub; to_subs : list tsub; to_history : list N;
                 to_close_start : N; to_close_end : N; to_panic : bool; to_deadlock : bool;
                 (* when some call of Close returned, a subscriber registered before that call began still had an open stream *)
                 to_open_after_close : bool }.
Record trans_case := { tc_persistent : bool; tc_cap : nat; tc_initial : list N; tc_reqs : list req;
                       tc_mt : list (nat * N); tc_obs : list tobs }.

Fixpoint is_prefix_N (p l : list N) : bool :=
  match p, l with
  | [], _ => true
  | _ :: _, [] => false
  | x :: p', y :: l' => N.eqb x y && is_prefix_N p' l'
  end.

Fixpoint drop_until (x : N) (l : list N) : list N :=
  match l with [] => [] | y :: l' => if N.eqb x y then l else drop_until x l' end.

Fixpoint subseq_N (a l : list N) : bool :=
  match a, l with
  | [], _ => true
  | _ :: _, [] => false
  | x :: a', y :: l' => if N.eqb x y then subseq_N a' l' else subseq_N a l'
  end.

Definition find_pub (o : tobs) (u : N) : option tpub := find (fun p => N.eqb (tp_id p) u) (to_pubs o).

Definition pub_ok (c : trans_case) (o : tobs) (p : tpub) : bool :=
  let closing := negb (N.eqb (to_close_start o) 0) in
  (if tp_ok p then negb (tc_persistent c) || mem_N (tp_id p) (to_history o)
   else (* refused: only because of Close, and then without any effect *)
     closing && N.ltb (to_close_start o) (tp_end p) && negb (mem_N (tp_id p) (to_history o)) &&
     forallb (fun s => negb (mem_N (tp_id p) (ts_received s))) (to_subs o)) &&
  (* attempted after Close returned: rejected *)
  (negb (closing && N.ltb (to_close_end o) (tp_start p) && negb (N.eqb (to_close_end o) 0)) || negb (tp_ok p)).

Definition sub_ok (c : trans_case) (o : tobs) (i : nat) (s : tsub) : bool :=
  let closing := negb (N.eqb (to_close_start o) 0) in
  let mt := mt_of (tc_mt c) i in
  let recv := ts_received s in
  if ts_err s then
    closing && N.ltb (to_close_start o) (ts_end s) && match recv with [] => true | _ => false end
  else
    (negb (closing && negb (N.eqb (to_close_end o) 0) && N.ltb (to_close_end o) (ts_start s))) &&
    forallb mt recv && nodup_N recv &&
    (* nothing refused is ever delivered; with a history file everything delivered is in it *)
    (negb (tc_persistent c) || forallb (fun u => mem_N u (to_history o)) recv) &&
    (* registered before Close began: the stream is ended *)
    (negb (closing && N.ltb (ts_end s) (to_close_start o)) || ts_closed s) &&
    (let undisturbed := negb closing && N.eqb (ts_left s) 0 in
     let m := filter mt (to_history o) in
     if tc_persistent c then
       subseq_N recv (to_history o) &&
       match nth i (tc_reqs c) NoReq with
       | Earliest =>
           is_prefix_N recv m &&
           (negb undisturbed || (Ns_eqb recv (firstn (tc_cap c) m) && Bool.eqb (ts_closed s) (Nat.ltb (tc_cap c) (length m))))
       | ReqId r =>
           if mem_N r (tc_initial c) then
             let ideal := filter mt (tl (drop_until r (to_history o))) in
             is_prefix_N recv ideal &&
             (negb undisturbed || (Ns_eqb recv (firstn (tc_cap c) ideal) && Bool.eqb (ts_closed s) (Nat.ltb (tc_cap c) (length ideal))))
           else
             match recv with
             | [] => true
             | x :: _ => is_prefix_N recv (drop_until x m)
             end
       | NoReq =>
           match recv with
           | [] => true
           | x :: _ => is_prefix_N recv (drop_until x m)
           end
       end
     else true) &&
    (* timing: what was fully published before the registration began is not delivered (unless replayed);
       what was published after it returned is delivered (when nothing cut the stream) *)
    (let replay := match nth i (tc_reqs c) NoReq with
                   | Earliest => tc_persistent c
                   | ReqId r => tc_persistent c && mem_N r (tc_initial c)
                   | NoReq => false end in
     forallb (fun p =>
       (replay || negb (tp_ok p && N.ltb (tp_end p) (ts_start s)) || negb (mem_N (tp_id p) recv)) &&
       (negb (tp_ok p && mt (tp_id p) && N.ltb (ts_end s) (tp_start p) && negb closing && N.eqb (ts_left s) 0 && negb (ts_closed s))
        || mem_N (tp_id p) recv)) (to_pubs o) &&
     (replay || forallb (fun u => negb (mem_N u recv)) (tc_initial c))) &&
    (* real-time order: a fully published before b began => a before b *)
    forallb (fun a => forallb (fun b =>
      negb (N.ltb (tp_end a) (tp_start b) && mem_N (tp_id a) recv && mem_N (tp_id b) recv) ||
      mem_N (tp_id b) (tl (drop_until (tp_id a) recv))) (to_pubs o)) (to_pubs o).

Fixpoint forallb_i {A} (f : nat -> A -> bool) (i : nat) (l : list A) : bool :=
  match l with [] => true | x :: l' => f i x && forallb_i f (S i) l' end.

Definition obs_ok (c : trans_case) (o : tobs) : bool :=
  negb (to_panic o) && negb (to_deadlock o) && negb (to_open_after_close o) &&
  forallb (pub_ok c o) (to_pubs o) &&
  forallb_i (sub_ok c o) 0 (to_subs o) &&
  (* the stored history: the initial one, then the accepted publishes, each once *)
  (negb (tc_persistent c) ||
   (is_prefix_N (tc_initial c) (to_history o) && nodup_N (to_history o) &&
    forallb (fun u => mem_N u (tc_initial c) || existsb (fun p => N.eqb (tp_id p) u && tp_ok p) (to_pubs o)) (to_history o))) &&
  (* every pair of subscribers sees common updates in the same order *)
  forallb (fun s1 => forallb (fun s2 =>
    let common l := filter (fun u => mem_N u (ts_received s1) && mem_N u (ts_received s2)) l in
    Ns_eqb (common (ts_received s1)) (common (ts_received s2))) (to_subs o)) (to_subs o).

Definition trans_ok (c : trans_case) : bool := forallb (obs_ok c) (tc_obs c).
