(* SubLts.v — localsubscriber.go as a labelled transition system in which every lock
   operation, atomic load/store and channel operation is its own step. Any number of
   threads each run any sequence of the subscriber's methods (Dispatch live / from
   history, Ready, Disconnect) or consume the out channel; a schedule is a list of
   thread ids. Ghost fields record what the properties talk about. *)
From Mercure Require Export Base.

Inductive sop :=
| ODispatch (u : N) (hist : bool)
| OReady
| ODisconnect
| ORecv.                          (* the handler loop: one receive from Receive() *)

Inductive pc :=
| Idle
(* Dispatch *)
| D0 (u : N) (h : bool)           (* atomic load disconnected *)
| D1 (u : N) (h : bool)           (* atomic load ready (live only) *)
| D2 (u : N) (h : bool)           (* liveMutex.Lock *)
| D3 (u : N) (h : bool)           (* read ready under liveMutex; append to liveQueue *)
| D4q (u : N) (h : bool)          (* liveMutex.Unlock after queueing; return true *)
| D4 (u : N) (h : bool)           (* liveMutex.Unlock, go on to the out channel *)
| D5 (u : N) (h : bool)           (* outMutex.Lock *)
| D6 (u : N) (h : bool)           (* atomic load disconnected under outMutex *)
| D6u                             (* outMutex.Unlock; return false *)
| D7 (u : N) (h : bool)           (* select: send, or default -> handleFullChan *)
| D8                              (* outMutex.Unlock after a send; return true *)
(* handleFullChan (caller = Dispatch) *)
| F1 | F2 | F3                    (* store disconnected; close(out); outMutex.Unlock *)
(* Ready *)
| R0 | R1                         (* liveMutex.Lock; outMutex.Lock *)
| Rc                              (* atomic load disconnected *)
| Rx1 | Rx2                       (* disconnected: outMutex.Unlock; liveMutex.Unlock *)
| R2 (rest : list N)              (* flush the next queued update: send or overflow *)
| R3 | R4 | R5                    (* store ready; outMutex.Unlock; liveMutex.Unlock *)
| G1 | G2 | G3 | G4               (* handleFullChan inside Ready, then liveMutex.Unlock *)
(* Disconnect *)
| X1 | X2 | X3 | X4 | X5          (* outMutex.Lock; load disconnected; store; close; Unlock *)
| X2u.                            (* already disconnected: Unlock *)

Record thread := { t_pc : pc; t_todo : list sop; t_rets : list bool (* results of Dispatch, newest first *) }.

Record sstate := {
  disc : bool; ready : bool; closed : bool;
  out : list N;                   (* the buffered channel, oldest first *)
  liveq : list N;
  liveM : option nat; outM : option nat;
  cap : nat;
  sent : list N;                  (* ghost: everything ever placed in out, oldest first *)
  recvd : list N;                 (* ghost: everything a consumer received *)
  ended : bool;                   (* ghost: a consumer observed the closed channel *)
  panicked : bool;                (* ghost: close of closed channel, send on closed channel, bad unlock *)
  threads : list thread }.

Definition set_thread (s : sstate) (i : nat) (th : thread) : sstate :=
  {| disc := disc s; ready := ready s; closed := closed s; out := out s; liveq := liveq s;
     liveM := liveM s; outM := outM s; cap := cap s; sent := sent s; recvd := recvd s; ended := ended s;
     panicked := panicked s; threads := upd_nth i th (threads s) |}.

Definition goto (th : thread) (p : pc) : thread := {| t_pc := p; t_todo := t_todo th; t_rets := t_rets th |}.
Definition ret (th : thread) (b : bool) : thread := {| t_pc := Idle; t_todo := t_todo th; t_rets := b :: t_rets th |}.
Definition done (th : thread) : thread := {| t_pc := Idle; t_todo := t_todo th; t_rets := t_rets th |}.

(* shared-state updates *)
Definition w_disc (s : sstate) : sstate :=
  {| disc := true; ready := ready s; closed := closed s; out := out s; liveq := liveq s; liveM := liveM s; outM := outM s;
     cap := cap s; sent := sent s; recvd := recvd s; ended := ended s; panicked := panicked s; threads := threads s |}.
Definition w_ready (s : sstate) : sstate :=
  {| disc := disc s; ready := true; closed := closed s; out := out s; liveq := liveq s; liveM := liveM s; outM := outM s;
     cap := cap s; sent := sent s; recvd := recvd s; ended := ended s; panicked := panicked s; threads := threads s |}.
Definition w_close (s : sstate) : sstate :=
  {| disc := disc s; ready := ready s; closed := true; out := out s; liveq := liveq s; liveM := liveM s; outM := outM s;
     cap := cap s; sent := sent s; recvd := recvd s; ended := ended s;
     panicked := panicked s || closed s; threads := threads s |}.
Definition w_send (s : sstate) (u : N) : sstate :=
  {| disc := disc s; ready := ready s; closed := closed s; out := out s ++ [u]; liveq := liveq s; liveM := liveM s; outM := outM s;
     cap := cap s; sent := sent s ++ [u]; recvd := recvd s; ended := ended s;
     panicked := panicked s || closed s; threads := threads s |}.
Definition w_panic (s : sstate) : sstate :=
  {| disc := disc s; ready := ready s; closed := closed s; out := out s; liveq := liveq s; liveM := liveM s; outM := outM s;
     cap := cap s; sent := sent s; recvd := recvd s; ended := ended s; panicked := true; threads := threads s |}.
Definition w_queue (s : sstate) (u : N) : sstate :=
  {| disc := disc s; ready := ready s; closed := closed s; out := out s; liveq := liveq s ++ [u]; liveM := liveM s; outM := outM s;
     cap := cap s; sent := sent s; recvd := recvd s; ended := ended s; panicked := panicked s; threads := threads s |}.
Definition w_liveM (s : sstate) (v : option nat) : sstate :=
  {| disc := disc s; ready := ready s; closed := closed s; out := out s; liveq := liveq s; liveM := v; outM := outM s;
     cap := cap s; sent := sent s; recvd := recvd s; ended := ended s; panicked := panicked s; threads := threads s |}.
Definition w_outM (s : sstate) (v : option nat) : sstate :=
  {| disc := disc s; ready := ready s; closed := closed s; out := out s; liveq := liveq s; liveM := liveM s; outM := v;
     cap := cap s; sent := sent s; recvd := recvd s; ended := ended s; panicked := panicked s; threads := threads s |}.
Definition w_recv (s : sstate) : sstate :=
  match out s with
  | u :: o => {| disc := disc s; ready := ready s; closed := closed s; out := o; liveq := liveq s; liveM := liveM s; outM := outM s;
                 cap := cap s; sent := sent s; recvd := recvd s ++ [u]; ended := ended s; panicked := panicked s; threads := threads s |}
  | [] => {| disc := disc s; ready := ready s; closed := closed s; out := []; liveq := liveq s; liveM := liveM s; outM := outM s;
             cap := cap s; sent := sent s; recvd := recvd s; ended := true; panicked := panicked s; threads := threads s |}
  end.

Definition holds (l : option nat) (i : nat) : bool := match l with Some j => Nat.eqb i j | None => false end.

(* Unlock by thread i: a mutex that i does not hold is a fault *)
Definition unlock_liveM (s : sstate) (i : nat) : sstate := if holds (liveM s) i then w_liveM s None else w_panic s.
Definition unlock_outM (s : sstate) (i : nat) : sstate := if holds (outM s) i then w_outM s None else w_panic s.

(* one step of thread i (already looked up as th); None = blocked or finished *)
Definition thread_step (s : sstate) (i : nat) (th : thread) : option (sstate * thread) :=
  match t_pc th with
  | Idle =>
      match t_todo th with
      | [] => None
      | o :: todo =>
          let th' := {| t_pc := Idle; t_todo := todo; t_rets := t_rets th |} in
          match o with
          | ODispatch u h => Some (s, goto th' (D0 u h))
          | OReady => Some (s, goto th' R0)
          | ODisconnect => Some (s, goto th' X1)
          | ORecv =>
              match out s with
              | _ :: _ => Some (w_recv s, th')
              | [] => if closed s then Some (w_recv s, th') else None   (* blocks on an empty open channel *)
              end
          end
      end
  | D0 u h => Some (s, if disc s then ret th false else if h then goto th (D5 u h) else goto th (D1 u h))
  | D1 u h => Some (s, if ready s then goto th (D5 u h) else goto th (D2 u h))
  | D2 u h => match liveM s with None => Some (w_liveM s (Some i), goto th (D3 u h)) | Some _ => None end
  | D3 u h => if ready s then Some (s, goto th (D4 u h)) else Some (w_queue s u, goto th (D4q u h))
  | D4q u h => Some (unlock_liveM s i, ret th true)
  | D4 u h => Some (unlock_liveM s i, goto th (D5 u h))
  | D5 u h => match outM s with None => Some (w_outM s (Some i), goto th (D6 u h)) | Some _ => None end
  | D6 u h => Some (s, if disc s then goto th D6u else goto th (D7 u h))
  | D6u => Some (unlock_outM s i, ret th false)
  | D7 u h => if Nat.ltb (length (out s)) (cap s) then Some (w_send s u, goto th D8) else Some (s, goto th F1)
  | D8 => Some (unlock_outM s i, ret th true)
  | F1 => Some (w_disc s, goto th F2)
  | F2 => Some (w_close s, goto th F3)
  | F3 => Some (unlock_outM s i, ret th false)
  | R0 => match liveM s with None => Some (w_liveM s (Some i), goto th R1) | Some _ => None end
  | R1 => match outM s with None => Some (w_outM s (Some i), goto th Rc) | Some _ => None end
  | Rc => Some (s, if disc s then goto th Rx1 else goto th (R2 (liveq s)))
  | Rx1 => Some (unlock_outM s i, goto th Rx2)
  | Rx2 => Some (unlock_liveM s i, done th)
  | R2 rest =>
      match rest with
      | [] => Some (s, goto th R3)
      | u :: rest' => if Nat.ltb (length (out s)) (cap s) then Some (w_send s u, goto th (R2 rest')) else Some (s, goto th G1)
      end
  | R3 => Some (w_ready s, goto th R4)
  | R4 => Some (unlock_outM s i, goto th R5)
  | R5 => Some (unlock_liveM s i, done th)
  | G1 => Some (w_disc s, goto th G2)
  | G2 => Some (w_close s, goto th G3)
  | G3 => Some (unlock_outM s i, goto th G4)
  | G4 => Some (unlock_liveM s i, done th)
  | X1 => match outM s with None => Some (w_outM s (Some i), goto th X2) | Some _ => None end
  | X2 => Some (s, if disc s then goto th X2u else goto th X3)
  | X2u => Some (unlock_outM s i, done th)
  | X3 => Some (w_disc s, goto th X4)
  | X4 => Some (w_close s, goto th X5)
  | X5 => Some (unlock_outM s i, done th)
  end.

Definition step (s : sstate) (i : nat) : option sstate :=
  match nth_error (threads s) i with
  | None => None
  | Some th =>
      match thread_step s i th with
      | None => None
      | Some (s', th') => Some (set_thread s' i th')
      end
  end.

(* a schedule: blocked or finished picks are skipped *)
Definition step_or_stay (s : sstate) (i : nat) : sstate := match step s i with Some s' => s' | None => s end.
Definition run (s : sstate) (sched : list nat) : sstate := fold_left step_or_stay sched s.

Definition init (capacity : nat) (progs : list (list sop)) : sstate :=
  {| disc := false; ready := false; closed := false; out := []; liveq := []; liveM := None; outM := None;
     cap := capacity; sent := []; recvd := []; ended := false; panicked := false;
     threads := map (fun p => {| t_pc := Idle; t_todo := p; t_rets := [] |}) progs |}.
