(* HubCases.v — sequential histories at hub level (real HTTP handlers on both transports)
   replayed on Model/Hub.v through wstep only. *)
From Mercure Require Export Hub.

Inductive hop :=
| HPub (t : nat) (u : N)     (* a POST by publisher thread t (one thread per process epoch) *)
| HSub (i : nat)             (* subscriber i connects (its request is in the initial world) *)
| HLeave (i : nat)           (* the client of subscriber i goes away *)
| HClose                     (* Hub.Stop *)
| HRestart                   (* the process is replaced by a new one on the same history file *)
| HStall (i : nat)           (* the client of subscriber i stops reading: the handler's next write blocks *)
| HResume (i : nat)          (* ... and reads again *)
| HBurst (t : nat) (first : N) (count : nat).   (* count POSTs in a row: ids first, first+1, ... *)

Section C.
  Variable mt : nat -> N -> bool.
  Variable cap : nat.
  Variable tracking : bool.
  Notation wrun := (wrun mt cap tracking).

  Definition phase_of (w : world) (i : nat) : phase :=
    match nth_error (h_subs (w_st w)) i with Some s => hs_phase s | None => PGone end.

  (* the handler of subscriber i consumes whatever is buffered, and runs shutdown when it saw the end *)
  Definition settle1 (w : world) (i : nat) : world :=
    let n := match nth_error (h_subs (w_st w)) i with Some s => length (hs_out s) | None => O end in
    let w1 := wrun w (repeat (ARecv i) (S n)) in
    match phase_of w1 i with
    | PLeaving | PRemoved => wrun w1 [ASub i true; ASub i true; ASub i true]
    | _ => w1
    end.

  (* execution state: the world, the stalled subscribers, and those among them whose handler already holds
     the one update it is blocked writing *)
  Record xstate := { x_w : world; x_stalled : list nat; x_inflight : list nat }.

  Definition memn (i : nat) (l : list nat) : bool := existsb (Nat.eqb i) l.

  Definition settle1x (x : xstate) (i : nat) : xstate :=
    if memn i (x_stalled x) then
      if memn i (x_inflight x) then x
      else
        (* the handler takes one more update (and blocks writing it), or sees the end of the stream *)
        let had := match nth_error (h_subs (w_st (x_w x))) i with Some s => match hs_out s with [] => false | _ => true end | None => false end in
        let w1 := wrun (x_w x) [ARecv i] in
        let w2 := match phase_of w1 i with
                  | PLeaving | PRemoved => wrun w1 [ASub i true; ASub i true; ASub i true]
                  | _ => w1 end in
        {| x_w := w2; x_stalled := x_stalled x; x_inflight := if had then i :: x_inflight x else x_inflight x |}
    else {| x_w := settle1 (x_w x) i; x_stalled := x_stalled x; x_inflight := x_inflight x |}.

  Definition settle_once (x : xstate) : xstate := fold_left settle1x (seq 0 (length (h_subs (w_st (x_w x))))) x.
  Definition settle (x : xstate) : xstate := settle_once (settle_once (settle_once x)).
  Definition with_w (x : xstate) (w : world) : xstate := {| x_w := w; x_stalled := x_stalled x; x_inflight := x_inflight x |}.
  Definition without (i : nat) (l : list nat) : list nat := filter (fun j => negb (Nat.eqb j i)) l.

  Fixpoint burst (x : xstate) (t : nat) (u : N) (count : nat) : xstate :=
    match count with
    | O => x
    | S c => burst (settle (with_w x (wrun (x_w x) [APubCheck t; APublish t true]))) t (u + 1) c
    end.

  Definition exec_op (x : xstate) (o : hop) : xstate :=
    let w := x_w x in
    match o with
    | HPub t u => settle (with_w x (wrun w [APubCheck t; APublish t true]))
    | HSub i => settle (with_w x (wrun w (repeat (ASub i true) (12 + length (h_db (w_st w))))))
    | HLeave i => settle {| x_w := wrun w [ALeave i; ASub i true; ASub i true; ASub i true];
                            x_stalled := without i (x_stalled x); x_inflight := without i (x_inflight x) |}
    | HClose => settle (with_w x (wrun w [AClose; AClose; AClose]))
    | HRestart => {| x_w := wrun w [ACrash]; x_stalled := []; x_inflight := [] |}
    | HStall i => {| x_w := w; x_stalled := i :: x_stalled x; x_inflight := x_inflight x |}
    | HResume i => settle {| x_w := w; x_stalled := without i (x_stalled x); x_inflight := without i (x_inflight x) |}
    | HBurst t u count => burst x t u count
    end.

  Definition metrics_of (w : world) : Z * N * N := (h_gauge (w_st w), h_subs_total (w_st w), h_updates_total (w_st w)).

  Fixpoint exec_ops (x : xstate) (ops : list hop) : xstate * list (Z * N * N) * list nat :=
    match ops with
    | [] => (x, [], [])
    | o :: ops' =>
        let x1 := exec_op x o in
        let '(x2, ms, ls) := exec_ops x1 ops' in
        (x2, metrics_of (x_w x1) :: ms, length (h_index (w_st (x_w x1))) :: ls)
    end.
End C.

(* what is observed of one subscriber: refused?, Last-Event-ID answered, ids written to its stream, stream ended by the hub *)
Record sub_obs := { so_started : bool; so_accepted : bool; so_resp : option (option N); so_received : list N; so_ended : bool }.

Record hub_case := {
  hc_persistent : bool; hc_size : N; hc_tracking : bool; hc_cap : nat;
  hc_reqs : list req; hc_pubs : list (list N);
  hc_mt : list (nat * N);              (* oracle: which update matches which subscriber *)
  hc_ops : list hop;
  hc_subs : list sub_obs;
  hc_results : list (list (N * bool)); (* per publisher thread: (update, answered 200) *)
  hc_history : option (list N);        (* persistent: ids in the history file at the end *)
  hc_events : list (nat * bool);       (* subscription events found in the history, in order *)
  hc_metrics : list (Z * N * N);       (* gauge, subscribers total, updates total after every operation *)
  hc_listed : list nat }.              (* number of subscribers the transport lists after every operation *)

Definition mt_of (tbl : list (nat * N)) (i : nat) (u : N) : bool :=
  existsb (fun p => Nat.eqb (fst p) i && N.eqb (snd p) u) tbl.

Definition opt_eqb {A} (e : A -> A -> bool) := option_eqb e.

Definition obs_of (s : hsub) : sub_obs :=
  {| so_started := match hs_phase s with PNew => false | _ => true end;
     so_accepted := match hs_phase s with PNew | PAnnounced | PRefused => false | _ => true end;
     so_resp := hs_resp s; so_received := hs_recvd s; so_ended := hs_ended s |}.

Definition sub_obs_eqb (a b : sub_obs) : bool :=
  Bool.eqb (so_started a) (so_started b) && Bool.eqb (so_accepted a) (so_accepted b) &&
  option_eqb (option_eqb N.eqb) (so_resp a) (so_resp b) && Ns_eqb (so_received a) (so_received b) &&
  Bool.eqb (so_ended a) (so_ended b).

Definition res_eqb (a b : N * bool) : bool := N.eqb (fst a) (fst b) && Bool.eqb (snd a) (snd b).
Definition ev_eqb (a b : nat * bool) : bool := Nat.eqb (fst a) (fst b) && Bool.eqb (snd a) (snd b).
Definition met_eqb (a b : Z * N * N) : bool :=
  let '(g1, s1, u1) := a in let '(g2, s2, u2) := b in Z.eqb g1 g2 && N.eqb s1 s2 && N.eqb u1 u2.

Definition is_event (u : N) : bool := N.leb 1099511627776 u.

Definition hub_agree (c : hub_case) : bool :=
  let w0 := winit (hc_persistent c) (hc_size c) (hc_reqs c) (hc_pubs c) in
  let '(x, ms, ls) := exec_ops (mt_of (hc_mt c)) (hc_cap c) (hc_tracking c) {| x_w := w0; x_stalled := []; x_inflight := [] |} (hc_ops c) in
  let w := x_w x in
  list_eqb Nat.eqb ls (hc_listed c) &&
  list_eqb sub_obs_eqb (map obs_of (h_subs (w_st w))) (hc_subs c) &&
  list_eqb (list_eqb res_eqb) (map pb_results (w_pubs w)) (hc_results c) &&
  (match hc_history c with
   | Some h => Ns_eqb (filter (fun u => negb (is_event u)) (map snd (h_db (w_st w)))) h
   | None => true
   end) &&
  (negb (hc_persistent c) || list_eqb ev_eqb (h_events (w_st w)) (hc_events c)) &&
  list_eqb met_eqb ms (hc_metrics c).

(* ---- the abstract specification of a sequential hub history: a retained history list, the set of connected
   subscribers, and for each subscriber what it must have received (replay, then live). No index, no locks,
   no queues: this is what C01/C05/C06/C07/C08/C15/C17/C20 say, for one thing after the other. ---- *)
Record aspec := {
  as_hist : list N;                (* retained updates, oldest first *)
  as_closed : bool;
  as_live : list nat;
  as_exp : list (nat * sub_obs);   (* expected observation per started subscriber *)
  as_results : list (nat * (N * bool));
  as_events : list (nat * bool);
  as_gauge : Z; as_total : N; as_updates : N;
  as_pending : list (nat * nat);   (* stalled subscribers: updates delivered since they stopped reading *)
  as_cut : list nat }.             (* stalled subscribers the hub has cut off (buffer overflow) *)

Fixpoint after_first_N (x : N) (h : list N) : option (list N) :=
  match h with
  | [] => None
  | y :: h' => if N.eqb x y then Some h' else after_first_N x h'
  end.

Definition truncate (size : N) (h : list N) : list N :=
  if N.eqb size 0 then h else skipn (length h - N.to_nat size) h.

Definition upd_exp (f : sub_obs -> sub_obs) (i : nat) (l : list (nat * sub_obs)) : list (nat * sub_obs) :=
  map (fun p => if Nat.eqb (fst p) i then (fst p, f (snd p)) else p) l.

Definition push_recv (u : N) (o : sub_obs) : sub_obs :=
  {| so_started := so_started o; so_accepted := so_accepted o; so_resp := so_resp o; so_received := so_received o ++ [u]; so_ended := so_ended o |}.
Definition set_ended (o : sub_obs) : sub_obs :=
  {| so_started := so_started o; so_accepted := so_accepted o; so_resp := so_resp o; so_received := so_received o; so_ended := true |}.

Section S.
  Variable mt : nat -> N -> bool.
  Variable persistent tracking : bool.
  Variable size : N.
  Variable reqs : list req.
  Variable cap : nat.

  Definition mk (a : aspec) hist closed live exp results events gauge total updates pending cut : aspec :=
    {| as_hist := hist; as_closed := closed; as_live := live; as_exp := exp; as_results := results; as_events := events;
       as_gauge := gauge; as_total := total; as_updates := updates; as_pending := pending; as_cut := cut |}.

  Definition pending_of (a : aspec) (j : nat) : option nat :=
    match find (fun p => Nat.eqb (fst p) j) (as_pending a) with Some p => Some (snd p) | None => None end.

  (* deliver update u to connected subscriber j: a stalled subscriber holds one update in its handler and cap in its
     buffer; the next one cuts it off *)
  Definition deliver (u : N) (a : aspec) (j : nat) : aspec :=
    if negb (mt j u) || existsb (Nat.eqb j) (as_cut a) then a
    else match pending_of a j with
         | Some n =>
             if Nat.ltb cap n then
               mk a (as_hist a) (as_closed a) (as_live a) (as_exp a) (as_results a) (as_events a) (as_gauge a) (as_total a)
                  (as_updates a) (as_pending a) (j :: as_cut a)
             else
               mk a (as_hist a) (as_closed a) (as_live a) (upd_exp (push_recv u) j (as_exp a)) (as_results a) (as_events a)
                  (as_gauge a) (as_total a) (as_updates a)
                  (map (fun p => if Nat.eqb (fst p) j then (j, S (snd p)) else p) (as_pending a)) (as_cut a)
         | None =>
             mk a (as_hist a) (as_closed a) (as_live a) (upd_exp (push_recv u) j (as_exp a)) (as_results a) (as_events a)
                (as_gauge a) (as_total a) (as_updates a) (as_pending a) (as_cut a)
         end.

  Definition fan (a : aspec) (u : N) : aspec := fold_left (deliver u) (as_live a) a.

  Definition spec_event (a : aspec) (i : nat) (active : bool) : aspec :=
    if tracking && negb (as_closed a) then
      let a1 := fan a (ev_id i active) in
      mk a1 (if persistent then truncate size (as_hist a1 ++ [ev_id i active]) else as_hist a1) (as_closed a1) (as_live a1) (as_exp a1)
         (as_results a1) (as_events a1 ++ [(i, active)]) (as_gauge a1) (as_total a1) (as_updates a1) (as_pending a1) (as_cut a1)
    else a.

  Definition spec_pub (a : aspec) (t : nat) (u : N) : aspec :=
    if as_closed a then
      mk a (as_hist a) true (as_live a) (as_exp a) (as_results a ++ [(t, (u, false))]) (as_events a) (as_gauge a) (as_total a)
         (as_updates a) (as_pending a) (as_cut a)
    else
      let a1 := fan a u in
      mk a1 (if persistent then truncate size (as_hist a1 ++ [u]) else as_hist a1) false (as_live a1) (as_exp a1)
         (as_results a1 ++ [(t, (u, true))]) (as_events a1) (as_gauge a1) (as_total a1) (as_updates a1 + 1) (as_pending a1) (as_cut a1).

  Fixpoint spec_burst (a : aspec) (t : nat) (u : N) (count : nat) : aspec :=
    match count with O => a | S c => spec_burst (spec_pub a t u) t (u + 1) c end.

  (* subscriber i is gone (its handler ran shutdown) *)
  Definition spec_gone (a : aspec) (i : nat) : aspec :=
    let a1 := mk a (as_hist a) (as_closed a) (filter (fun j => negb (Nat.eqb j i)) (as_live a)) (as_exp a) (as_results a) (as_events a)
                 (as_gauge a - 1)%Z (as_total a) (as_updates a)
                 (filter (fun p => negb (Nat.eqb (fst p) i)) (as_pending a)) (filter (fun j => negb (Nat.eqb j i)) (as_cut a)) in
    spec_event a1 i false.

  Definition spec_op (a : aspec) (o : hop) : aspec :=
    match o with
    | HPub t u => spec_pub a t u
    | HBurst t u count => spec_burst a t u count
    | HSub i =>
        let a1 := spec_event a i true in
        if as_closed a1 then
          mk a1 (as_hist a1) true (as_live a1)
             (as_exp a1 ++ [(i, {| so_started := true; so_accepted := false; so_resp := None; so_received := []; so_ended := false |})])
             (as_results a1) (as_events a1) (as_gauge a1) (as_total a1) (as_updates a1) (as_pending a1) (as_cut a1)
        else
          let h := as_hist a1 in
          let '(resp, replay) :=
            match nth i reqs NoReq with
            | NoReq => (None, [])
            | Earliest => (Some None, if persistent then h else [])
            | ReqId r =>
                if persistent then
                  match after_first_N r h with
                  | Some rest => (Some (Some r), rest)
                  | None => (Some (match h with [] => None | _ => Some (last h 0) end), [])
                  end
                else (Some None, [])
            end in
          mk a1 h false (as_live a1 ++ [i])
             (as_exp a1 ++ [(i, {| so_started := true; so_accepted := true; so_resp := resp;
                                   so_received := filter (mt i) replay; so_ended := false |})])
             (as_results a1) (as_events a1) (as_gauge a1 + 1)%Z (as_total a1 + 1) (as_updates a1) (as_pending a1) (as_cut a1)
    | HLeave i => if existsb (Nat.eqb i) (as_live a) then spec_gone a i else a
    | HClose =>
        mk a (as_hist a) true [] (fold_left (fun e j => upd_exp set_ended j e) (as_live a) (as_exp a)) (as_results a) (as_events a)
           (as_gauge a - Z.of_nat (length (as_live a)))%Z (as_total a) (as_updates a) [] []
    | HRestart =>
        mk a (as_hist a) false [] (as_exp a) (as_results a) (as_events a) 0%Z 0 0 [] []
    | HStall i =>
        if existsb (Nat.eqb i) (as_live a) then
          mk a (as_hist a) (as_closed a) (as_live a) (as_exp a) (as_results a) (as_events a) (as_gauge a) (as_total a) (as_updates a)
             ((i, O) :: as_pending a) (as_cut a)
        else a
    | HResume i =>
        if existsb (Nat.eqb i) (as_cut a) then
          (* it reads what was buffered, sees the end of the stream: the hub has ended it *)
          spec_gone (mk a (as_hist a) (as_closed a) (as_live a) (upd_exp set_ended i (as_exp a)) (as_results a) (as_events a)
                        (as_gauge a) (as_total a) (as_updates a) (as_pending a) (as_cut a)) i
        else
          mk a (as_hist a) (as_closed a) (as_live a) (as_exp a) (as_results a) (as_events a) (as_gauge a) (as_total a) (as_updates a)
             (filter (fun p => negb (Nat.eqb (fst p) i)) (as_pending a)) (as_cut a)
    end.

  (* the number of listed subscribers is specified while the hub is open (a stopped hub keeps a stale list) *)
  Fixpoint spec_ops (a : aspec) (ops : list hop) : aspec * list (Z * N * N) * list (option nat) :=
    match ops with
    | [] => (a, [], [])
    | o :: ops' =>
        let a1 := spec_op a o in
        let '(a2, ms, ls) := spec_ops a1 ops' in
        (a2, (as_gauge a1, as_total a1, as_updates a1) :: ms, (if as_closed a1 then None else Some (length (as_live a1))) :: ls)
    end.
End S.

Definition a_init_spec : aspec :=
  {| as_hist := []; as_closed := false; as_live := []; as_exp := []; as_results := []; as_events := [];
     as_gauge := 0; as_total := 0; as_updates := 0; as_pending := []; as_cut := [] |}.

Definition not_started : sub_obs := {| so_started := false; so_accepted := false; so_resp := None; so_received := []; so_ended := false |}.

(* while the hub is open the list is exactly the live subscribers; a stopped hub keeps a stale list (removals are refused),
   but nothing is ever added to it: later registrations are rejected without effect *)
Fixpoint listed_ok_from (prev : nat) (e : list (option nat)) (o : list nat) : bool :=
  match e, o with
  | [], [] => true
  | x :: e', y :: o' => (match x with Some n => Nat.eqb n y | None => Nat.leb y prev end) && listed_ok_from y e' o'
  | _, _ => false
  end.
Definition listed_ok (e : list (option nat)) (o : list nat) : bool := listed_ok_from 0 e o.

Definition hub_spec_ok (c : hub_case) : bool :=
  let '(a, ms, ls) := spec_ops (mt_of (hc_mt c)) (hc_persistent c) (hc_tracking c) (hc_size c) (hc_reqs c) (hc_cap c) a_init_spec (hc_ops c) in
  let expected i := match find (fun p => Nat.eqb (fst p) i) (as_exp a) with Some p => snd p | None => not_started end in
  listed_ok ls (hc_listed c) &&
  list_eqb sub_obs_eqb (map expected (seq 0 (length (hc_subs c)))) (hc_subs c) &&
  list_eqb (list_eqb res_eqb)
    (map (fun t => map snd (filter (fun p => Nat.eqb (fst p) t) (as_results a))) (seq 0 (length (hc_results c)))) (hc_results c) &&
  (match hc_history c with
   | Some h => Ns_eqb (filter (fun u => negb (is_event u)) (as_hist a)) h
   | None => true
   end) &&
  (negb (hc_persistent c) || list_eqb ev_eqb (as_events a) (hc_events c)) &&
  list_eqb met_eqb ms (hc_metrics c).
