(* HubCases.v — sequential histories at hub level (real HTTP handlers on both transports)
   replayed on Model/Hub.v through wstep only. *)
From Mercure Require Export Hub.

Inductive hop :=
| HPub (t : nat) (u : N)     (* a POST by publisher thread t (one thread per process epoch) *)
| HSub (i : nat)             (* subscriber i connects (its request is in the initial world) *)
| HLeave (i : nat)           (* the client of subscriber i goes away *)
| HClose                     (* Hub.Stop *)
| HRestart.                  (* the process is replaced by a new one on the same history file *)

Section C.
  Variable mt : nat -> N -> bool.
  Variable cap : nat.
  Variable tracking : bool.
  Notation wrun := (wrun mt cap tracking).

  Definition phase_of (w : world) (i : nat) : phase :=
    match nth_error (h_subs (w_st w)) i with Some s => hs_phase s | None => PGone end.

  (* the handler of subscriber i consumes whatever is buffered, and runs shutdown when it saw the end *)
  Definition settle1 (w : world) (i : nat) : world :=
    let n := match nth_error (h_subs (w_st w)) i with Some s => length (hs_out s) | None => O end in
    let w1 := wrun w (repeat (ARecv i) (S n)) in
    match phase_of w1 i with
    | PLeaving | PRemoved => wrun w1 [ASub i true; ASub i true; ASub i true]
    | _ => w1
    end.

  Definition settle_once (w : world) : world := fold_left settle1 (seq 0 (length (h_subs (w_st w)))) w.
  Definition settle (w : world) : world := settle_once (settle_once (settle_once w)).

  Definition exec_op (w : world) (o : hop) : world :=
    match o with
    | HPub t u => settle (wrun w [APubCheck t; APublish t true])
    | HSub i => settle (wrun w (repeat (ASub i true) (12 + length (h_db (w_st w)))))
    | HLeave i => settle (wrun w [ALeave i; ASub i true; ASub i true; ASub i true])
    | HClose => settle (wrun w [AClose; AClose; AClose])
    | HRestart => wrun w [ACrash]
    end.

  Definition metrics_of (w : world) : Z * N * N := (h_gauge (w_st w), h_subs_total (w_st w), h_updates_total (w_st w)).

  Fixpoint exec_ops (w : world) (ops : list hop) : world * list (Z * N * N) :=
    match ops with
    | [] => (w, [])
    | o :: ops' => let w1 := exec_op w o in let '(w2, ms) := exec_ops w1 ops' in (w2, metrics_of w1 :: ms)
    end.
End C.

(* what is observed of one subscriber: refused?, Last-Event-ID answered, ids written to its stream, stream ended by the hub *)
Record sub_obs := { so_started : bool; so_accepted : bool; so_resp : option (option N); so_received : list N; so_ended : bool }.

Record hub_case := {
  hc_persistent : bool; hc_size : N; hc_tracking : bool; hc_cap : nat;
  hc_reqs : list req; hc_pubs : list (list N);
  hc_mt : list (nat * N);              (* oracle: which update matches which subscriber *)
  hc_ops : list hop;
  hc_subs : list sub_obs;
  hc_results : list (list (N * bool)); (* per publisher thread: (update, answered 200) *)
  hc_history : option (list N);        (* persistent: ids in the history file at the end *)
  hc_events : list (nat * bool);       (* subscription events found in the history, in order *)
  hc_metrics : list (Z * N * N) }.     (* gauge, subscribers total, updates total after every operation *)

Definition mt_of (tbl : list (nat * N)) (i : nat) (u : N) : bool :=
  existsb (fun p => Nat.eqb (fst p) i && N.eqb (snd p) u) tbl.

Definition opt_eqb {A} (e : A -> A -> bool) := option_eqb e.

Definition obs_of (s : hsub) : sub_obs :=
  {| so_started := match hs_phase s with PNew => false | _ => true end;
     so_accepted := match hs_phase s with PNew | PAnnounced | PRefused => false | _ => true end;
     so_resp := hs_resp s; so_received := hs_recvd s; so_ended := hs_ended s |}.

Definition sub_obs_eqb (a b : sub_obs) : bool :=
  Bool.eqb (so_started a) (so_started b) && Bool.eqb (so_accepted a) (so_accepted b) &&
  option_eqb (option_eqb N.eqb) (so_resp a) (so_resp b) && Ns_eqb (so_received a) (so_received b) &&
  Bool.eqb (so_ended a) (so_ended b).

Definition res_eqb (a b : N * bool) : bool := N.eqb (fst a) (fst b) && Bool.eqb (snd a) (snd b).
Definition ev_eqb (a b : nat * bool) : bool := Nat.eqb (fst a) (fst b) && Bool.eqb (snd a) (snd b).
Definition met_eqb (a b : Z * N * N) : bool :=
  let '(g1, s1, u1) := a in let '(g2, s2, u2) := b in Z.eqb g1 g2 && N.eqb s1 s2 && N.eqb u1 u2.

Definition is_event (u : N) : bool := N.leb 1099511627776 u.

Definition hub_agree (c : hub_case) : bool :=
  let w0 := winit (hc_persistent c) (hc_size c) (hc_reqs c) (hc_pubs c) in
  let '(w, ms) := exec_ops (mt_of (hc_mt c)) (hc_cap c) (hc_tracking c) w0 (hc_ops c) in
  list_eqb sub_obs_eqb (map obs_of (h_subs (w_st w))) (hc_subs c) &&
  list_eqb (list_eqb res_eqb) (map pb_results (w_pubs w)) (hc_results c) &&
  (match hc_history c with
   | Some h => Ns_eqb (filter (fun u => negb (is_event u)) (map snd (h_db (w_st w)))) h
   | None => true
   end) &&
  (negb (hc_persistent c) || list_eqb ev_eqb (h_events (w_st w)) (hc_events c)) &&
  list_eqb met_eqb ms (hc_metrics c).

(* ---- the abstract specification of a sequential hub history: a retained history list, the set of connected
   subscribers, and for each subscriber what it must have received (replay, then live). No index, no locks,
   no queues: this is what C01/C05/C06/C07/C08/C15/C17/C20 say, for one thing after the other. ---- *)
Record aspec := {
  as_hist : list N;                (* retained updates, oldest first *)
  as_closed : bool;
  as_live : list nat;
  as_exp : list (nat * sub_obs);   (* expected observation per started subscriber *)
  as_results : list (nat * (N * bool));
  as_events : list (nat * bool);
  as_gauge : Z; as_total : N; as_updates : N }.

Fixpoint after_first_N (x : N) (h : list N) : option (list N) :=
  match h with
  | [] => None
  | y :: h' => if N.eqb x y then Some h' else after_first_N x h'
  end.

Definition truncate (size : N) (h : list N) : list N :=
  if N.eqb size 0 then h else skipn (length h - N.to_nat size) h.

Definition upd_exp (f : sub_obs -> sub_obs) (i : nat) (l : list (nat * sub_obs)) : list (nat * sub_obs) :=
  map (fun p => if Nat.eqb (fst p) i then (fst p, f (snd p)) else p) l.

Definition push_recv (u : N) (o : sub_obs) : sub_obs :=
  {| so_started := so_started o; so_accepted := so_accepted o; so_resp := so_resp o; so_received := so_received o ++ [u]; so_ended := so_ended o |}.
Definition set_ended (o : sub_obs) : sub_obs :=
  {| so_started := so_started o; so_accepted := so_accepted o; so_resp := so_resp o; so_received := so_received o; so_ended := true |}.

Section S.
  Variable mt : nat -> N -> bool.
  Variable persistent tracking : bool.
  Variable size : N.
  Variable reqs : list req.

  Definition spec_event (a : aspec) (i : nat) (active : bool) : aspec :=
    if tracking && negb (as_closed a) then
      {| as_hist := if persistent then truncate size (as_hist a ++ [ev_id i active]) else as_hist a;
         as_closed := as_closed a; as_live := as_live a;
         as_exp := fold_left (fun e j => if mt j (ev_id i active) then upd_exp (push_recv (ev_id i active)) j e else e) (as_live a) (as_exp a);
         as_results := as_results a; as_events := as_events a ++ [(i, active)];
         as_gauge := as_gauge a; as_total := as_total a; as_updates := as_updates a |}
    else a.

  Definition spec_op (a : aspec) (o : hop) : aspec :=
    match o with
    | HPub t u =>
        if as_closed a then
          {| as_hist := as_hist a; as_closed := true; as_live := as_live a; as_exp := as_exp a;
             as_results := as_results a ++ [(t, (u, false))]; as_events := as_events a;
             as_gauge := as_gauge a; as_total := as_total a; as_updates := as_updates a |}
        else
          {| as_hist := if persistent then truncate size (as_hist a ++ [u]) else as_hist a;
             as_closed := false; as_live := as_live a;
             as_exp := fold_left (fun e j => if mt j u then upd_exp (push_recv u) j e else e) (as_live a) (as_exp a);
             as_results := as_results a ++ [(t, (u, true))]; as_events := as_events a;
             as_gauge := as_gauge a; as_total := as_total a; as_updates := as_updates a + 1 |}
    | HSub i =>
        let a1 := spec_event a i true in
        if as_closed a1 then
          {| as_hist := as_hist a1; as_closed := true; as_live := as_live a1;
             as_exp := as_exp a1 ++ [(i, {| so_started := true; so_accepted := false; so_resp := None; so_received := []; so_ended := false |})];
             as_results := as_results a1; as_events := as_events a1;
             as_gauge := as_gauge a1; as_total := as_total a1; as_updates := as_updates a1 |}
        else
          let h := as_hist a1 in
          let '(resp, replay) :=
            match nth i reqs NoReq with
            | NoReq => (None, [])
            | Earliest => (Some None, if persistent then h else [])
            | ReqId r =>
                if persistent then
                  match after_first_N r h with
                  | Some rest => (Some (Some r), rest)
                  | None => (Some (match h with [] => None | _ => Some (last h 0) end), [])
                  end
                else (Some None, [])
            end in
          {| as_hist := h; as_closed := false; as_live := as_live a1 ++ [i];
             as_exp := as_exp a1 ++ [(i, {| so_started := true; so_accepted := true; so_resp := resp;
                                            so_received := filter (mt i) replay; so_ended := false |})];
             as_results := as_results a1; as_events := as_events a1;
             as_gauge := (as_gauge a1 + 1)%Z; as_total := as_total a1 + 1; as_updates := as_updates a1 |}
    | HLeave i =>
        if existsb (Nat.eqb i) (as_live a) then
          let a1 := {| as_hist := as_hist a; as_closed := as_closed a; as_live := filter (fun j => negb (Nat.eqb j i)) (as_live a);
                       as_exp := as_exp a; as_results := as_results a; as_events := as_events a;
                       as_gauge := (as_gauge a - 1)%Z; as_total := as_total a; as_updates := as_updates a |} in
          spec_event a1 i false
        else a
    | HClose =>
        {| as_hist := as_hist a; as_closed := true; as_live := [];
           as_exp := fold_left (fun e j => upd_exp set_ended j e) (as_live a) (as_exp a);
           as_results := as_results a; as_events := as_events a;
           as_gauge := (as_gauge a - Z.of_nat (length (as_live a)))%Z; as_total := as_total a; as_updates := as_updates a |}
    | HRestart =>
        {| as_hist := as_hist a; as_closed := false; as_live := []; as_exp := as_exp a;
           as_results := as_results a; as_events := as_events a; as_gauge := 0; as_total := 0; as_updates := 0 |}
    end.

  Fixpoint spec_ops (a : aspec) (ops : list hop) : aspec * list (Z * N * N) :=
    match ops with
    | [] => (a, [])
    | o :: ops' => let a1 := spec_op a o in let '(a2, ms) := spec_ops a1 ops' in (a2, (as_gauge a1, as_total a1, as_updates a1) :: ms)
    end.
End S.

Definition a_init_spec : aspec :=
  {| as_hist := []; as_closed := false; as_live := []; as_exp := []; as_results := []; as_events := [];
     as_gauge := 0; as_total := 0; as_updates := 0 |}.

Definition not_started : sub_obs := {| so_started := false; so_accepted := false; so_resp := None; so_received := []; so_ended := false |}.

Definition hub_spec_ok (c : hub_case) : bool :=
  let '(a, ms) := spec_ops (mt_of (hc_mt c)) (hc_persistent c) (hc_tracking c) (hc_size c) (hc_reqs c) a_init_spec (hc_ops c) in
  let expected i := match find (fun p => Nat.eqb (fst p) i) (as_exp a) with Some p => snd p | None => not_started end in
  list_eqb sub_obs_eqb (map expected (seq 0 (length (hc_subs c)))) (hc_subs c) &&
  list_eqb (list_eqb res_eqb)
    (map (fun t => map snd (filter (fun p => Nat.eqb (fst p) t) (as_results a))) (seq 0 (length (hc_results c)))) (hc_results c) &&
  (match hc_history c with
   | Some h => Ns_eqb (filter (fun u => negb (is_event u)) (as_hist a)) h
   | None => true
   end) &&
  (negb (hc_persistent c) || list_eqb ev_eqb (as_events a) (hc_events c)) &&
  list_eqb met_eqb ms (hc_metrics c).
