(* Timers.v — the subscribe handler's timers (subscribe.go: getWriteDeadline, newResponseController,
   the select loop, write) as a timed automaton over Z (nanoseconds since the stream was opened).
   The handler is eager: a timer fires at the instant it is due; writing takes no time; a write
   succeeds iff the write deadline in effect has not passed. *)
From Mercure Require Export Base.
Open Scope Z_scope.

Record tcfg := {
  write_timeout : Z;      (* 0 = disabled *)
  dispatch_timeout : Z;   (* 0 = disabled *)
  heartbeat : Z;          (* 0 = disabled *)
  token_exp : option Z }. (* expiry of the subscriber's token, relative to the opening of the stream *)

(* getWriteDeadline: now + writeTimeout, or the token's expiry when earlier (absent terms dropped) *)
Definition write_deadline (c : tcfg) : option Z :=
  match (write_timeout c =? 0), token_exp c with
  | true, None => None
  | true, Some e => Some e
  | false, None => Some (write_timeout c)
  | false, Some e => Some (Z.min (write_timeout c) e)
  end.

(* the disconnection timer: armed only when a write timeout is configured *)
Definition disconnect_due (c : tcfg) : option Z :=
  if write_timeout c =? 0 then None
  else match write_deadline c with Some d => Some (d - dispatch_timeout c) | None => None end.

Inductive wkind := WUpdate | WHeartbeat.
Inductive tevent :=
| TWrite (t : Z) (k : wkind) (ok : bool)
| TEnd (t : Z) (by_timer : bool).   (* by_timer: the disconnection timer fired; otherwise a write failed *)

Definition write_ok (c : tcfg) (t : Z) : bool :=
  match write_deadline c with None => true | Some d => t <=? d end.

(* a <= b on instants, None = never *)
Definition ole (a b : option Z) : bool :=
  match a, b with Some x, Some y => x <=? y | Some _, None => true | None, _ => false end.

Definition hd_opt (l : list Z) : option Z := match l with a :: _ => Some a | [] => None end.
Definition next_hb (c : tcfg) (t : Z) : option Z := if heartbeat c =? 0 then None else Some (t + heartbeat c).

(* arrivals: times at which an update reaches the handler, increasing; hb_due: when the next heartbeat is due.
   The trace ends when the stream is ended by the hub, or when fuel / arrivals are exhausted and no timer is pending. *)
Fixpoint thandler (fuel : nat) (c : tcfg) (hb_due : option Z) (arrivals : list Z) : list tevent :=
  match fuel with
  | O => []
  | S f =>
      if ole (disconnect_due c) hb_due && ole (disconnect_due c) (hd_opt arrivals) then
        match disconnect_due c with Some t => [TEnd t true] | None => [] end
      else if ole (hd_opt arrivals) hb_due then
        match arrivals with
        | a :: rest =>
            if write_ok c a then TWrite a WUpdate true :: thandler f c (next_hb c a) rest
            else [TWrite a WUpdate false; TEnd a false]
        | [] => []
        end
      else
        match hb_due with
        | Some h =>
            if write_ok c h then TWrite h WHeartbeat true :: thandler f c (Some (h + heartbeat c)) arrivals
            else [TWrite h WHeartbeat false; TEnd h false]
        | None => []
        end
  end.

Definition trun (fuel : nat) (c : tcfg) (arrivals : list Z) : list tevent :=
  thandler fuel c (next_hb c 0) arrivals.

(* ---- observables and the spec predicate ---- *)
Definition ok_writes (tr : list tevent) : list Z :=
  flat_map (fun e => match e with TWrite t _ true => [t] | _ => [] end) tr.

Definition end_of (tr : list tevent) : option (Z * bool) :=
  match filter (fun e => match e with TEnd _ _ => true | _ => false end) tr with
  | TEnd t b :: _ => Some (t, b)
  | _ => None
  end.

Fixpoint gaps_le (bound : Z) (prev : Z) (l : list Z) : bool :=
  match l with [] => true | t :: l' => (t - prev <=? bound) && gaps_le bound t l' end.

(* a case: configuration, arrival times, what was observed: times of the successful writes after the initial
   comment, and when the handler returned (None = still open at the horizon) *)
Record timer_case := { tc_cfg : tcfg; tc_arrivals : list Z; tc_horizon : Z; tc_writes : list Z; tc_end : option Z }.

Definition Zs_eqb := list_eqb Z.eqb.

Definition timer_agree (c : timer_case) : bool :=
  let tr := trun 4000 (tc_cfg c) (tc_arrivals c) in
  let upto := filter (fun t => t <=? tc_horizon c) (ok_writes tr) in
  Zs_eqb upto (tc_writes c) &&
  match end_of tr, tc_end c with
  | Some (t, _), Some t' => (tc_horizon c <? t) || (Z.max 0 t =? t')   (* an instant already past when the connection opens: at once *)
  | Some (t, _), None => tc_horizon c <? t
  | None, None => true
  | None, Some _ => false
  end.

(* the property on the observed times *)
Definition timer_ok (c : timer_case) : bool :=
  let cfg := tc_cfg c in
  let last := match tc_end c with Some t => t | None => tc_horizon c end in
  (* at least one write per heartbeat interval while the stream is open *)
  ((heartbeat cfg =? 0) || (gaps_le (heartbeat cfg) 0 (tc_writes c) && (last - List.last (tc_writes c) 0 <=? heartbeat cfg))) &&
  (* nothing is written after the earlier of the maximum duration and the token's expiry *)
  forallb (fun t => write_ok cfg t) (tc_writes c) &&
  (* the hub ends the connection itself one dispatch timeout before, not earlier; or at its first write after expiry *)
  match disconnect_due cfg with
  | Some d => match tc_end c with Some t => t =? Z.max 0 d | None => tc_horizon c <? d end
  | None =>
      match write_deadline cfg, tc_end c with
      | Some e, Some t => e <? t
      | None, Some _ => false
      | _, None => true
      end
  end.
