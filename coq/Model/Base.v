(* Base.v — shared vocabulary of the mercure model.
   Strings are lists of byte values (N < 256); everything is executable. *)
From Coq Require Export List NArith ZArith Bool Lia.
Export ListNotations.
Open Scope N_scope.

Definition str := list N.

Fixpoint str_eqb (a b : str) : bool :=
  match a, b with
  | [], [] => true
  | x :: a', y :: b' => N.eqb x y && str_eqb a' b'
  | _, _ => false
  end.

(* bytewise lexicographic order: Go's string comparison *)
Fixpoint str_leb (a b : str) : bool :=
  match a, b with
  | [], _ => true
  | _ :: _, [] => false
  | x :: a', y :: b' => if N.ltb x y then true else if N.ltb y x then false else str_leb a' b'
  end.

Fixpoint insert_str (x : str) (l : list str) : list str :=
  match l with
  | [] => [x]
  | y :: l' => if str_leb x y then x :: l else y :: insert_str x l'
  end.

Definition sort_strs (l : list str) : list str := fold_right insert_str [] l.

Fixpoint list_eqb {A} (eqb : A -> A -> bool) (a b : list A) : bool :=
  match a, b with
  | [], [] => true
  | x :: a', y :: b' => eqb x y && list_eqb eqb a' b'
  | _, _ => false
  end.

Definition strs_eqb := list_eqb str_eqb.

Definition option_eqb {A} (eqb : A -> A -> bool) (a b : option A) : bool :=
  match a, b with
  | None, None => true
  | Some x, Some y => eqb x y
  | _, _ => false
  end.

Definition mem_str (x : str) (l : list str) : bool := existsb (str_eqb x) l.

Fixpoint concat_with (sep : str) (l : list str) : str :=
  match l with
  | [] => []
  | [x] => x
  | x :: l' => x ++ sep ++ concat_with sep l'
  end.

Fixpoint is_prefix (p s : str) : bool :=
  match p, s with
  | [], _ => true
  | _ :: _, [] => false
  | x :: p', y :: s' => N.eqb x y && is_prefix p' s'
  end.

Definition mem_N (x : N) (l : list N) : bool := existsb (N.eqb x) l.

(* decimal rendering of a natural number, as fmt's %d does *)
Definition digit (n : N) : N := 48 + n.

Fixpoint dec_fuel (fuel : nat) (n : N) (acc : str) : str :=
  match fuel with
  | O => acc
  | S f =>
      let acc' := digit (n mod 10) :: acc in
      if N.ltb n 10 then acc' else dec_fuel f (n / 10) acc'
  end.

(* log2 n + 1 bounds the number of decimal digits of n *)
Definition dec (n : N) : str := dec_fuel (S (N.to_nat (N.log2 n))) n [].

(* indices of the elements failing a boolean test: used by the case files *)
Fixpoint failing_from {A} (f : A -> bool) (i : N) (l : list A) : list N :=
  match l with
  | [] => []
  | x :: l' => if f x then failing_from f (N.succ i) l' else i :: failing_from f (N.succ i) l'
  end.
Definition failing {A} (f : A -> bool) (l : list A) : list N := failing_from f 0 l.

(* replace the n-th element *)
Fixpoint upd_nth {A} (n : nat) (x : A) (l : list A) : list A :=
  match l, n with
  | [], _ => []
  | _ :: l', O => x :: l'
  | y :: l', S n' => y :: upd_nth n' x l'
  end.

(* insertion sort on N, to compare recipient sets *)
Fixpoint insert_N (x : N) (l : list N) : list N :=
  match l with
  | [] => [x]
  | y :: l' => if N.leb x y then x :: l else y :: insert_N x l'
  end.
Definition sort_N (l : list N) : list N := fold_right insert_N [] l.

Definition Ns_eqb := list_eqb N.eqb.
Definition bools_eqb := list_eqb Bool.eqb.
