(* Match.v — topicselector.go (TopicSelectorStore.match with its cache) and
   subscriber.go (MatchTopics). The URI-template library is an oracle:
   tmatch sel = Some f when sel parses as a template, f its regexp matcher. *)
From Mercure Require Export Base.

Definition star : str := [42].
Definition LBRACE : N := 123.
Definition has_brace (s : str) : bool := mem_N LBRACE s.

Section M.
  Variable tmatch : str -> option (str -> bool).

  (* the protocol's rule: "*", or equal, or a valid template the topic matches *)
  Definition match_spec (topic sel : str) : bool :=
    str_eqb sel star || str_eqb topic sel ||
    match tmatch sel with Some f => f topic | None => false end.

  (* getRegexp: nil when the selector has no "{" (shortcut) or does not parse *)
  Definition get_regexp (sel : str) : option (str -> bool) :=
    if has_brace sel then tmatch sel else None.

  (* uncached evaluation as the code performs it *)
  Definition match_raw (topic sel : str) : bool :=
    str_eqb sel star || str_eqb topic sel ||
    match get_regexp sel with Some f => f topic | None => false end.

  (* the "m_" entries of the cache: key, and (since the fix for the key collision)
     the pair the result belongs to *)
  Record mentry := { me_key : str; me_sel : str; me_topic : str; me_val : bool }.
  Definition cache := list mentry.

  Definition key_m (sel topic : str) : str := [109; 95] ++ sel ++ [95] ++ topic.

  Fixpoint lookup (k : str) (c : cache) : option mentry :=
    match c with
    | [] => None
    | e :: c' => if str_eqb (me_key e) k then Some e else lookup k c'
    end.

  Fixpoint cache_set (e : mentry) (c : cache) : cache :=
    match c with
    | [] => [e]
    | e' :: c' => if str_eqb (me_key e') (me_key e) then e :: c' else e' :: cache_set e c'
    end.

  (* one call = one Get, then (on a miss with a regexp) one Set *)
  Definition cache_get (c : cache) (topic sel : str) : option bool :=
    match lookup (key_m sel topic) c with
    | Some e => if str_eqb (me_sel e) sel && str_eqb (me_topic e) topic then Some (me_val e) else None
    | None => None
    end.

  Definition match_cached (c : cache) (topic sel : str) : bool * cache :=
    if str_eqb sel star || str_eqb topic sel then (true, c)
    else match cache_get c topic sel with
         | Some b => (b, c)
         | None =>
             match get_regexp sel with
             | None => (false, c)
             | Some f =>
                 let r := f topic in
                 (r, cache_set {| me_key := key_m sel topic; me_sel := sel; me_topic := topic; me_val := r |} c)
             end
         end.

  (* a sequence of lookups against one store *)
  Fixpoint run_lookups (c : cache) (qs : list (str * str)) : list bool :=
    match qs with
    | [] => []
    | (topic, sel) :: qs' => let '(r, c') := match_cached c topic sel in r :: run_lookups c' qs'
    end.

  (* Subscriber.MatchTopics: the loop with its two flags *)
  Fixpoint match_topics_loop (m : str -> str -> bool) (subscribed allowed topics : list str) (sub can : bool) : bool :=
    match topics with
    | [] => sub && can
    | t :: ts =>
        let sub' := if sub then true else existsb (m t) subscribed in
        let can' := if can then true else existsb (m t) allowed in
        match_topics_loop m subscribed allowed ts sub' can'
    end.

  Definition match_topics_with (m : str -> str -> bool) (subscribed allowed topics : list str) (priv : bool) : bool :=
    match_topics_loop m subscribed allowed topics false (negb priv).

  Definition match_topics := match_topics_with match_raw.

  (* what MatchTopics is meant to compute *)
  Definition match_topics_spec (m : str -> str -> bool) (subscribed allowed topics : list str) (priv : bool) : bool :=
    existsb (fun t => existsb (m t) subscribed) topics &&
    (negb priv || existsb (fun t => existsb (m t) allowed) topics).
End M.

(* the oracle as a table, for evaluating cases: (selector, topics it matches) for every
   selector that parses as a template; selectors absent from the table do not parse *)
Definition tm_table := list (str * list str).
Fixpoint tmatch_of (tbl : tm_table) (sel : str) : option (str -> bool) :=
  match tbl with
  | [] => None
  | (s, ts) :: tbl' => if str_eqb s sel then Some (fun t => mem_str t ts) else tmatch_of tbl' sel
  end.

(* ---- concurrent evaluation: every cache access is its own atomic step ---- *)
Section Conc.
  Variable tmatch : str -> option (str -> bool).

  Inductive tphase := Idle | Computed (topic sel : str) (r : bool).
  Record cthread := { ct_todo : list (str * str); ct_phase : tphase; ct_done : list (str * str * bool) }.

  Definition mk_entry (topic sel : str) (r : bool) : mentry :=
    {| me_key := key_m sel topic; me_sel := sel; me_topic := topic; me_val := r |}.

  Definition thread_step (c : cache) (th : cthread) : cache * cthread :=
    match ct_phase th with
    | Computed t s r =>
        (cache_set (mk_entry t s r) c, {| ct_todo := ct_todo th; ct_phase := Idle; ct_done := (t, s, r) :: ct_done th |})
    | Idle =>
        match ct_todo th with
        | [] => (c, th)
        | (t, s) :: todo =>
            let fin r := {| ct_todo := todo; ct_phase := Idle; ct_done := (t, s, r) :: ct_done th |} in
            if str_eqb s star || str_eqb t s then (c, fin true)
            else match cache_get c t s with
                 | Some b => (c, fin b)
                 | None =>
                     match get_regexp tmatch s with
                     | None => (c, fin false)
                     | Some f => (c, {| ct_todo := todo; ct_phase := Computed t s (f t); ct_done := ct_done th |})
                     end
                 end
        end
    end.

  Inductive action := Run (tid : nat) | EvictM (keep : list bool).

  Fixpoint keep_entries (keep : list bool) (c : cache) : cache :=
    match c, keep with
    | [], _ => []
    | e :: c', [] => e :: c'
    | e :: c', b :: keep' => if b then e :: keep_entries keep' c' else keep_entries keep' c'
    end.

  Definition cstep (st : cache * list cthread) (a : action) : cache * list cthread :=
    let '(c, ths) := st in
    match a with
    | EvictM keep => (keep_entries keep c, ths)
    | Run tid =>
        match nth_error ths tid with
        | None => st
        | Some th => let '(c', th') := thread_step c th in (c', upd_nth tid th' ths)
        end
    end.

  Definition crun (st : cache * list cthread) (sched : list action) : cache * list cthread :=
    fold_left cstep sched st.

  Definition start_thread (qs : list (str * str)) : cthread := {| ct_todo := qs; ct_phase := Idle; ct_done := [] |}.
End Conc.
