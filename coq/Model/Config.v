(* Config.v — caddy/mercure.go (UnmarshalCaddyfile, populateJWTConfig, Provision), hub.go (the options' validation)
   and config.go (the legacy viper options): which effective options a list of directives yields, or that start-up fails. *)
From Mercure Require Export Base.

(* "HS256", "mercureAuthorization" *)
Definition s_hs256 : str := [72;83;50;53;54].
Definition s_default_cookie : str := [109;101;114;99;117;114;101;65;117;116;104;111;114;105;122;97;116;105;111;110].

Inductive transport_kind := TBolt | TLocal.

Inductive directive :=
| DAnonymous | DSubscriptions
| DPublisherJWT (key : str) (alg : option str)
| DSubscriberJWT (key : str) (alg : option str)
| DPublishOrigins (l : list str)
| DCorsOrigins (l : list str)
| DCookieName (n : str)
| DCompat (v : Z)
| DWriteTimeout (ns : Z) | DDispatchTimeout (ns : Z) | DHeartbeat (ns : Z)
| DTransport (k : transport_kind).

(* the module's fields after UnmarshalCaddyfile: each directive overwrites its field, flags are set *)
Record fields := {
  f_anonymous : bool; f_subscriptions : bool;
  f_pub : option (str * option str); f_sub : option (str * option str);
  f_publish_origins : list str; f_cors_origins : list str;
  f_cookie : str; f_compat : Z;
  f_write_timeout : option Z; f_dispatch_timeout : option Z; f_heartbeat : option Z;
  f_transport : option transport_kind }.

Definition f_init : fields :=
  {| f_anonymous := false; f_subscriptions := false; f_pub := None; f_sub := None; f_publish_origins := []; f_cors_origins := [];
     f_cookie := []; f_compat := 0; f_write_timeout := None; f_dispatch_timeout := None; f_heartbeat := None; f_transport := None |}.

Inductive result (A : Type) := Ok (a : A) | Err.
Arguments Ok {A} a.
Arguments Err {A}.

(* UnmarshalCaddyfile for one directive; the only parse-time refusal modelled is a compatibility version other than 7
   and an empty origin list *)
Definition apply_directive (f : fields) (d : directive) : result fields :=
  match d with
  | DAnonymous => Ok {| f_anonymous := true; f_subscriptions := f_subscriptions f; f_pub := f_pub f; f_sub := f_sub f; f_publish_origins := f_publish_origins f; f_cors_origins := f_cors_origins f; f_cookie := f_cookie f; f_compat := f_compat f; f_write_timeout := f_write_timeout f; f_dispatch_timeout := f_dispatch_timeout f; f_heartbeat := f_heartbeat f; f_transport := f_transport f |}
  | DSubscriptions => Ok {| f_anonymous := f_anonymous f; f_subscriptions := true; f_pub := f_pub f; f_sub := f_sub f; f_publish_origins := f_publish_origins f; f_cors_origins := f_cors_origins f; f_cookie := f_cookie f; f_compat := f_compat f; f_write_timeout := f_write_timeout f; f_dispatch_timeout := f_dispatch_timeout f; f_heartbeat := f_heartbeat f; f_transport := f_transport f |}
  | DPublisherJWT k a =>
      (* a second occurrence without algorithm keeps the algorithm given before *)
      let a' := match a with Some x => Some x | None => match f_pub f with Some (_, old) => old | None => None end end in
      Ok {| f_anonymous := f_anonymous f; f_subscriptions := f_subscriptions f; f_pub := Some (k, a'); f_sub := f_sub f; f_publish_origins := f_publish_origins f; f_cors_origins := f_cors_origins f; f_cookie := f_cookie f; f_compat := f_compat f; f_write_timeout := f_write_timeout f; f_dispatch_timeout := f_dispatch_timeout f; f_heartbeat := f_heartbeat f; f_transport := f_transport f |}
  | DSubscriberJWT k a =>
      let a' := match a with Some x => Some x | None => match f_sub f with Some (_, old) => old | None => None end end in
      Ok {| f_anonymous := f_anonymous f; f_subscriptions := f_subscriptions f; f_pub := f_pub f; f_sub := Some (k, a'); f_publish_origins := f_publish_origins f; f_cors_origins := f_cors_origins f; f_cookie := f_cookie f; f_compat := f_compat f; f_write_timeout := f_write_timeout f; f_dispatch_timeout := f_dispatch_timeout f; f_heartbeat := f_heartbeat f; f_transport := f_transport f |}
  | DPublishOrigins l => match l with [] => Err | _ => Ok {| f_anonymous := f_anonymous f; f_subscriptions := f_subscriptions f; f_pub := f_pub f; f_sub := f_sub f; f_publish_origins := l; f_cors_origins := f_cors_origins f; f_cookie := f_cookie f; f_compat := f_compat f; f_write_timeout := f_write_timeout f; f_dispatch_timeout := f_dispatch_timeout f; f_heartbeat := f_heartbeat f; f_transport := f_transport f |} end
  | DCorsOrigins l => match l with [] => Err | _ => Ok {| f_anonymous := f_anonymous f; f_subscriptions := f_subscriptions f; f_pub := f_pub f; f_sub := f_sub f; f_publish_origins := f_publish_origins f; f_cors_origins := l; f_cookie := f_cookie f; f_compat := f_compat f; f_write_timeout := f_write_timeout f; f_dispatch_timeout := f_dispatch_timeout f; f_heartbeat := f_heartbeat f; f_transport := f_transport f |} end
  | DCookieName n => Ok {| f_anonymous := f_anonymous f; f_subscriptions := f_subscriptions f; f_pub := f_pub f; f_sub := f_sub f; f_publish_origins := f_publish_origins f; f_cors_origins := f_cors_origins f; f_cookie := n; f_compat := f_compat f; f_write_timeout := f_write_timeout f; f_dispatch_timeout := f_dispatch_timeout f; f_heartbeat := f_heartbeat f; f_transport := f_transport f |}
  | DCompat v => if Z.eqb v 7 then Ok {| f_anonymous := f_anonymous f; f_subscriptions := f_subscriptions f; f_pub := f_pub f; f_sub := f_sub f; f_publish_origins := f_publish_origins f; f_cors_origins := f_cors_origins f; f_cookie := f_cookie f; f_compat := 7; f_write_timeout := f_write_timeout f; f_dispatch_timeout := f_dispatch_timeout f; f_heartbeat := f_heartbeat f; f_transport := f_transport f |} else Err
  | DWriteTimeout z => Ok {| f_anonymous := f_anonymous f; f_subscriptions := f_subscriptions f; f_pub := f_pub f; f_sub := f_sub f; f_publish_origins := f_publish_origins f; f_cors_origins := f_cors_origins f; f_cookie := f_cookie f; f_compat := f_compat f; f_write_timeout := Some z; f_dispatch_timeout := f_dispatch_timeout f; f_heartbeat := f_heartbeat f; f_transport := f_transport f |}
  | DDispatchTimeout z => Ok {| f_anonymous := f_anonymous f; f_subscriptions := f_subscriptions f; f_pub := f_pub f; f_sub := f_sub f; f_publish_origins := f_publish_origins f; f_cors_origins := f_cors_origins f; f_cookie := f_cookie f; f_compat := f_compat f; f_write_timeout := f_write_timeout f; f_dispatch_timeout := Some z; f_heartbeat := f_heartbeat f; f_transport := f_transport f |}
  | DHeartbeat z => Ok {| f_anonymous := f_anonymous f; f_subscriptions := f_subscriptions f; f_pub := f_pub f; f_sub := f_sub f; f_publish_origins := f_publish_origins f; f_cors_origins := f_cors_origins f; f_cookie := f_cookie f; f_compat := f_compat f; f_write_timeout := f_write_timeout f; f_dispatch_timeout := f_dispatch_timeout f; f_heartbeat := Some z; f_transport := f_transport f |}
  | DTransport k => Ok {| f_anonymous := f_anonymous f; f_subscriptions := f_subscriptions f; f_pub := f_pub f; f_sub := f_sub f; f_publish_origins := f_publish_origins f; f_cors_origins := f_cors_origins f; f_cookie := f_cookie f; f_compat := f_compat f; f_write_timeout := f_write_timeout f; f_dispatch_timeout := f_dispatch_timeout f; f_heartbeat := f_heartbeat f; f_transport := Some k |}
  end.

Fixpoint unmarshal (f : fields) (ds : list directive) : result fields :=
  match ds with
  | [] => Ok f
  | d :: ds' => match apply_directive f d with Ok f' => unmarshal f' ds' | Err => Err end
  end.

(* what the hub then runs with *)
Record effective := {
  e_anonymous : bool; e_subscriptions : bool;
  e_pub_key : str; e_pub_alg : str;
  e_sub : option (str * str);            (* None = no subscriber key: every subscriber is anonymous *)
  e_publish_origins : list str; e_cors_origins : list str;
  e_cookie : str; e_compat7 : bool;
  e_write_timeout : Z; e_dispatch_timeout : Z; e_heartbeat : Z;   (* nanoseconds *)
  e_transport : transport_kind }.

Section P.
  Variable key_ok : str -> str -> bool.    (* algorithm, key: the algorithm is supported and the key parses for it *)
  Variable origin_ok : str -> bool.         (* validateOrigins on one origin *)

  Definition alg_of (a : option str) : str := match a with Some ((_ :: _) as x) => x | _ => s_hs256 end.

  (* populateJWTConfig + Provision + NewHub *)
  Definition provision_fields (f : fields) : result effective :=
    if negb (Z.eqb (f_compat f) 0 || Z.eqb (f_compat f) 7) then Err      (* WithProtocolVersionCompatibility *)
    else
    match f_pub f with
    | None | Some ([], _) => Err                                   (* no publisher key *)
    | Some (pk, pa) =>
        let palg := alg_of pa in
        if negb (key_ok palg pk) then Err
        else
          let sub := match f_sub f with Some ((_ :: _) as sk, sa) => Some (sk, alg_of sa) | _ => None end in
          match sub, f_anonymous f with
          | None, false => Err                                      (* no subscriber key and anonymous mode off *)
          | _, _ =>
              if negb (match sub with Some (sk, sa) => key_ok sa sk | None => true end) then Err
              else if negb (forallb origin_ok (f_publish_origins f) && forallb origin_ok (f_cors_origins f)) then Err
              else Ok {| e_anonymous := f_anonymous f; e_subscriptions := f_subscriptions f;
                         e_pub_key := pk; e_pub_alg := palg; e_sub := sub;
                         e_publish_origins := f_publish_origins f; e_cors_origins := f_cors_origins f;
                         e_cookie := match f_cookie f with [] => s_default_cookie | n => n end;
                         e_compat7 := Z.eqb (f_compat f) 7;
                         e_write_timeout := match f_write_timeout f with Some z => z | None => 600000000000%Z end;
                         e_dispatch_timeout := match f_dispatch_timeout f with Some z => z | None => 5000000000%Z end;
                         e_heartbeat := match f_heartbeat f with Some z => z | None => 40000000000%Z end;
                         e_transport := match f_transport f with Some k => k | None => TBolt end |}
          end
    end.

  Definition provision (ds : list directive) : result effective :=
    match unmarshal f_init ds with Ok f => provision_fields f | Err => Err end.

  (* ---- the legacy (viper) options ---- *)
  Record legacy := {
    l_jwt_key : str; l_jwt_alg : str; l_pub_key : str; l_pub_alg : str; l_sub_key : str; l_sub_alg : str;
    l_anonymous : bool; l_subscriptions : bool; l_publish_origins : list str; l_cors_origins : list str }.

  Definition first_nonempty (a b : str) : str := match a with [] => b | _ => a end.

  Definition provision_legacy (l : legacy) : result effective :=
    let pk := first_nonempty (l_pub_key l) (l_jwt_key l) in
    let sk := first_nonempty (l_sub_key l) (l_jwt_key l) in
    match pk with
    | [] => Err
    | _ =>
        match sk, l_anonymous l with
        | [], false => Err      (* ValidateConfig: a subscriber key is required unless anonymous subscribers are allowed *)
        | _, _ =>
            let palg := first_nonempty (l_pub_alg l) (first_nonempty (l_jwt_alg l) s_hs256) in
            let salg := first_nonempty (l_sub_alg l) (first_nonempty (l_jwt_alg l) s_hs256) in
            if negb (key_ok palg pk) then Err
            else if negb (match sk with [] => true | _ => key_ok salg sk end) then Err
            else if negb (forallb origin_ok (l_publish_origins l) && forallb origin_ok (l_cors_origins l)) then Err
            else Ok {| e_anonymous := l_anonymous l; e_subscriptions := l_subscriptions l; e_pub_key := pk; e_pub_alg := palg;
                       e_sub := match sk with [] => None | _ => Some (sk, salg) end;
                       e_publish_origins := l_publish_origins l; e_cors_origins := l_cors_origins l;
                       e_cookie := s_default_cookie; e_compat7 := false;
                       e_write_timeout := 600000000000%Z; e_dispatch_timeout := 5000000000%Z; e_heartbeat := 40000000000%Z;
                       e_transport := TBolt |}
        end
    end.
End P.
