(* Sse.v — model of event.go (Event.String) and of the WHATWG event-stream
   interpretation algorithm (https://html.spec.whatwg.org/multipage/server-sent-events.html#event-stream-interpretation)
   that any conformant client applies to the bytes the hub writes. *)
From Mercure Require Export Base.

Definition CR : N := 13.
Definition LF : N := 10.
Definition COLON : N := 58.
Definition SP : N := 32.

Record event := { e_data : str; e_id : str; e_type : str; e_retry : N }.

(* "event: ", "retry: ", "id: ", "data: " *)
Definition s_event : str := [101;118;101;110;116].
Definition s_retry : str := [114;101;116;114;121].
Definition s_id    : str := [105;100].
Definition s_data  : str := [100;97;116;97].
Definition s_message : str := [109;101;115;115;97;103;101].
Definition nl_data : str := LF :: s_data ++ [COLON; SP].

(* strings.NewReplacer("\r\n", "\ndata: ", "\r", "\ndata: ", "\n", "\ndata: "):
   at each position the first pattern (in argument order) that matches wins. *)
Fixpoint replace_nl (d : str) : str :=
  match d with
  | [] => []
  | c :: d' =>
      if N.eqb c CR then
        match d' with
        | c2 :: d'' => if N.eqb c2 LF then nl_data ++ replace_nl d'' else nl_data ++ replace_nl d'
        | [] => nl_data
        end
      else if N.eqb c LF then nl_data ++ replace_nl d'
      else c :: replace_nl d'
  end.

(* Event.String() *)
Definition serialize (e : event) : str :=
  (match e_type e with [] => [] | _ => s_event ++ [COLON; SP] ++ e_type e ++ [LF] end) ++
  (if N.eqb (e_retry e) 0 then [] else s_retry ++ [COLON; SP] ++ dec (e_retry e) ++ [LF]) ++
  s_id ++ [COLON; SP] ++ e_id e ++ [LF] ++ s_data ++ [COLON; SP] ++ replace_nl (e_data e) ++ [LF; LF].

(* ---- the client side ---- *)

(* Lines of a stream; line ends are CRLF, LF or CR. The last element of the
   result is the unterminated remainder (possibly empty). *)
Fixpoint split_lines (s : str) : list str :=
  match s with
  | [] => [[]]
  | c :: s' =>
      if N.eqb c CR then
        match s' with
        | c2 :: s'' => if N.eqb c2 LF then [] :: split_lines s'' else [] :: split_lines s'
        | [] => [[]; []]
        end
      else if N.eqb c LF then [] :: split_lines s'
      else match split_lines s' with
           | l :: ls => (c :: l) :: ls
           | [] => [[c]]
           end
  end.

(* complete lines only: "Once the end of the file is reached, any pending data must be discarded" *)
Definition complete_lines (s : str) : list str := removelast (split_lines s).

Record pstate := { p_data : str; p_type : str; p_lastid : str; p_retry : option N }.
Record parsed := { pe_id : str; pe_type : str; pe_data : str; pe_retry : option N }.

Definition p_init : pstate := {| p_data := []; p_type := []; p_lastid := []; p_retry := None |}.

(* field name = everything before the first colon; value = the rest minus one leading space *)
Fixpoint split_colon (l : str) : str * option str :=
  match l with
  | [] => ([], None)
  | c :: l' =>
      if N.eqb c COLON then ([], Some l')
      else let '(f, v) := split_colon l' in (c :: f, v)
  end.

Definition strip_space (v : str) : str :=
  match v with
  | c :: v' => if N.eqb c SP then v' else v
  | [] => []
  end.

Definition is_digit (c : N) : bool := N.leb 48 c && N.leb c 57.

Fixpoint undec_acc (acc : N) (s : str) : N :=
  match s with
  | [] => acc
  | c :: s' => undec_acc (acc * 10 + (c - 48)) s'
  end.

Definition undec (s : str) : option N :=
  match s with
  | [] => None
  | _ => if forallb is_digit s then Some (undec_acc 0 s) else None
  end.

Definition process_field (st : pstate) (field value : str) : pstate :=
  if str_eqb field s_event then
    {| p_data := p_data st; p_type := value; p_lastid := p_lastid st; p_retry := p_retry st |}
  else if str_eqb field s_data then
    {| p_data := p_data st ++ value ++ [LF]; p_type := p_type st; p_lastid := p_lastid st; p_retry := p_retry st |}
  else if str_eqb field s_id then
    if mem_N 0 value then st
    else {| p_data := p_data st; p_type := p_type st; p_lastid := value; p_retry := p_retry st |}
  else if str_eqb field s_retry then
    match undec value with
    | Some n => {| p_data := p_data st; p_type := p_type st; p_lastid := p_lastid st; p_retry := Some n |}
    | None => st
    end
  else st.

Definition dispatch (st : pstate) : pstate * option parsed :=
  let st' := {| p_data := []; p_type := []; p_lastid := p_lastid st; p_retry := None |} in
  match p_data st with
  | [] => (st', None)
  | _ =>
      (st', Some {| pe_id := p_lastid st;
                    pe_type := match p_type st with [] => s_message | t => t end;
                    pe_data := removelast (p_data st);
                    pe_retry := p_retry st |})
  end.

Definition process_line (st : pstate) (l : str) : pstate * option parsed :=
  match l with
  | [] => dispatch st
  | c :: _ =>
      if N.eqb c COLON then (st, None)
      else
        let '(f, v) := split_colon l in
        (process_field st f (match v with Some v' => strip_space v' | None => [] end), None)
  end.

Fixpoint process_lines (st : pstate) (ls : list str) : pstate * list parsed :=
  match ls with
  | [] => (st, [])
  | l :: ls' =>
      let '(st1, o) := process_line st l in
      let '(st2, out) := process_lines st1 ls' in
      (st2, match o with Some e => e :: out | None => out end)
  end.

Definition sse_parse_from (st : pstate) (s : str) : pstate * list parsed :=
  process_lines st (complete_lines s).

Definition sse_parse (s : str) : list parsed := snd (sse_parse_from p_init s).

(* ---- the specification, over observables only ---- *)

Definition no_crlf (s : str) : bool := negb (mem_N CR s) && negb (mem_N LF s).

(* payload with every line end normalised to LF *)
Definition normalize (d : str) : str := concat_with [LF] (split_lines d).

Definition expected (e : event) : parsed :=
  {| pe_id := e_id e;
     pe_type := match e_type e with [] => s_message | t => t end;
     pe_data := normalize (e_data e);
     pe_retry := if N.eqb (e_retry e) 0 then None else Some (e_retry e) |}.

Definition parsed_eqb (a b : parsed) : bool :=
  str_eqb (pe_id a) (pe_id b) && str_eqb (pe_type a) (pe_type b) &&
  str_eqb (pe_data a) (pe_data b) && option_eqb N.eqb (pe_retry a) (pe_retry b).

(* the hypothesis of the property: id and type free of line breaks *)
Definition wf_event (e : event) : bool := no_crlf (e_id e) && no_crlf (e_type e).
(* what the theorem additionally needs on the pinned tree (see C12_roundtrip_refuted_nul):
   a conformant parser ignores an id field containing U+0000 *)
Definition id_nul_free (e : event) : bool := negb (mem_N 0 (e_id e)).

(* spec predicate over the bytes the implementation wrote *)
Definition c12_ok (e : event) (wire : str) : bool :=
  negb (wf_event e) || list_eqb parsed_eqb (sse_parse wire) [expected e].

(* what the correspondence check evaluates on each case *)
Definition c12_agree (e : event) (wire : str) : bool := str_eqb (serialize e) wire.
