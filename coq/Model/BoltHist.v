(* BoltHist.v — bolt.go's history: persist (append at the next bucket sequence)
   followed by cleanup (drop every key whose sequence is <= seq - size, when the
   probabilistic trigger fires). bbolt is modelled by its contract: an ordered map
   with a per-bucket sequence, both durable. *)
From Mercure Require Export Base.

Section B.
  Variable A : Type.

  Record db := { d_entries : list (N * A); d_seq : N }.

  Definition db_empty : db := {| d_entries := []; d_seq := 0 |}.

  (* run = the outcome of the cleanup trigger for this publication
     (always true for frequency 1, always false for frequency 0) *)
  Definition cleanup (size : N) (run : bool) (seq : N) (es : list (N * A)) : list (N * A) :=
    if N.eqb size 0 || negb run || N.leb seq size then es
    else filter (fun e => N.ltb (seq - size) (fst e)) es.

  Definition persist (size : N) (d : db) (rx : bool * A) : db :=
    let seq := d_seq d + 1 in
    {| d_entries := cleanup size (fst rx) seq (d_entries d ++ [(seq, snd rx)]); d_seq := seq |}.

  (* closing and reopening the file loses nothing: entries and sequence are durable *)
  Definition reopen (d : db) : db := d.

  Definition publish_all (size : N) (d : db) (rxs : list (bool * A)) : db := fold_left (persist size) rxs d.

  Definition seqs (d : db) : list N := map fst (d_entries d).
End B.

(* lo, lo+1, ..., lo+len-1 *)
Fixpoint nrange (lo : N) (len : nat) : list N :=
  match len with
  | O => []
  | S k => lo :: nrange (lo + 1) k
  end.

(* ---- what the correspondence check evaluates ---- *)

(* cleanup trigger per configuration: 0 = never (frequency 0), 1 = always (frequency 1), 2 = sometimes *)
Record c10_case := { c10_size : N; c10_freq : N; c10_steps : list (list N) }.

Definition unit_entries (l : list N) : list (N * unit) := map (fun s => (s, tt)) l.

(* one publish, from the retained set the implementation had before it *)
Definition c10_step_agree (size freq : N) (prev next : list N) (k : N) : bool :=
  let app := unit_entries prev ++ [(k, tt)] in
  (negb (N.eqb freq 1) || N.eqb size 0 || N.leb k size) && Ns_eqb (map fst (cleanup unit size false k app)) next
  || negb (N.eqb freq 0) && Ns_eqb (map fst (cleanup unit size true k app)) next.

Fixpoint c10_walk (f : list N -> list N -> N -> bool) (prev : list N) (k : N) (steps : list (list N)) : bool :=
  match steps with
  | [] => true
  | next :: steps' => f prev next k && c10_walk f next (k + 1) steps'
  end.

Definition c10_agree (c : c10_case) : bool :=
  c10_walk (c10_step_agree (c10_size c) (c10_freq c)) [] 1 (c10_steps c).

(* the property, on the retained sequence numbers after the k-th publish *)
Definition c10_step_ok (size freq : N) (_ next : list N) (k : N) : bool :=
  let len := length next in
  let lo := k + 1 - N.of_nat len in
  Ns_eqb next (nrange lo len) && N.leb (N.of_nat len) k &&
  (if N.eqb size 0 then N.eqb (N.of_nat len) k
   else N.leb (N.min k size) (N.of_nat len) &&
        (negb (N.eqb freq 1) || N.eqb (N.of_nat len) (N.min k size)) &&
        (negb (N.eqb freq 0) || N.eqb (N.of_nat len) k)).

Definition c10_ok (c : c10_case) : bool :=
  c10_walk (c10_step_ok (c10_size c) (c10_freq c)) [] 1 (c10_steps c).

(* ---- the same with a configuration that changes at restarts: each step carries the size and the trigger in force ---- *)
Record c10v_case := { c10v_steps : list (N * N * list N) }.
Fixpoint c10v_walk (f : N -> N -> list N -> list N -> N -> bool) (prev : list N) (k : N) (steps : list (N * N * list N)) : bool :=
  match steps with
  | [] => true
  | (size, freq, next) :: steps' => f size freq prev next k && c10v_walk f next (k + 1) steps'
  end.
Definition c10v_agree (c : c10v_case) : bool := c10v_walk c10_step_agree [] 1 (c10v_steps c).
(* the property, step by step: the retained numbers stay contiguous up to k; nothing is discarded while fewer than
   size newer updates exist (nothing at all when size = 0); when cleanup runs on every publication nothing older
   remains; when it never runs nothing is discarded *)
Definition c10v_step_ok (size freq : N) (prev next : list N) (k : N) : bool :=
  let app := prev ++ [k] in
  let recent s := N.eqb size 0 || N.ltb (k - size) s in
  Ns_eqb next (nrange (k + 1 - N.of_nat (length next)) (length next)) &&
  forallb (fun s => mem_N s app) next &&
  forallb (fun s => negb (recent s) || mem_N s next) app &&
  (negb (N.eqb freq 1) || forallb recent next) &&
  (negb (N.eqb freq 0) || Ns_eqb next app).
Definition c10v_ok (c : c10v_case) : bool := c10v_walk c10v_step_ok [] 1 (c10v_steps c).
