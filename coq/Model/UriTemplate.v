(* UriTemplate.v — what topicselector.go's getRegexp obtains from the URI-template library
   (github.com/yosida95/uritemplate/v3 v3.0.2): parse.go (parseURITemplate), expression.go
   (expression.init, expression.regexp, runeClassToRegexp, literals.regexp), uritemplate.go (Regexp),
   and the regular expression's meaning under Go's regexp.MatchString — as executable functions
   over byte strings. This is "layer B" of C11: with it the oracle tmatch of Match.v has a model.

   Bytes, not runes: a template is accepted only if it is valid UTF-8 without U+FFFD, the character
   classes of the generated expression are ASCII, and literals are matched rune by rune, so a byte
   string matches iff its byte-wise decomposition does (an invalid byte of the topic is decoded as
   U+FFFD by the regexp engine, which no literal contains and no class accepts). *)
From Mercure Require Export Base.

(* ---- characters ---- *)
Definition in_range (lo hi c : N) : bool := N.leb lo c && N.leb c hi.
Definition is_digit (c : N) : bool := in_range 48 57 c.
Definition is_alpha (c : N) : bool := in_range 65 90 c || in_range 97 122 c.
Definition is_hex (c : N) : bool := is_digit c || in_range 65 70 c || in_range 97 102 c.
(* reUnreserved: \x2d\x2e\x30-\x39\x41-\x5a\x5f\x61-\x7a\x7e *)
Definition unreserved (c : N) : bool :=
  is_alpha c || is_digit c || N.eqb c 45 || N.eqb c 46 || N.eqb c 95 || N.eqb c 126.
(* reReserved: \x21\x23\x24\x26-\x2c\x2f\x3a\x3b\x3d\x3f\x40\x5b\x5d *)
Definition reserved (c : N) : bool :=
  N.eqb c 33 || N.eqb c 35 || N.eqb c 36 || in_range 38 44 c || N.eqb c 47 || N.eqb c 58 || N.eqb c 59 ||
  N.eqb c 61 || N.eqb c 63 || N.eqb c 64 || N.eqb c 91 || N.eqb c 93.
Definition is_varchar (c : N) : bool := is_alpha c || is_digit c || N.eqb c 95.
(* rangeLiterals, over code points *)
Definition lit_ok (r : N) : bool :=
  N.eqb r 33 || in_range 35 36 r || in_range 38 59 r || N.eqb r 61 || in_range 63 91 r || N.eqb r 93 ||
  N.eqb r 95 || in_range 97 122 r || N.eqb r 126 ||
  in_range 160 55295 r || in_range 57344 63743 r || in_range 63744 64975 r || in_range 65008 65519 r ||
  (in_range 65536 917501 r && N.leb (r mod 65536) 65533) ||      (* planes 1-13: xxxx0000-xxxxFFFD *)
  in_range 921600 983037 r ||                                     (* E1000-EFFFD *)
  (in_range 983040 1114109 r && N.leb (r mod 65536) 65533).       (* planes 15-16 *)

(* utf8.DecodeRuneInString on a non-empty string: code point and rest, None when invalid *)
Definition is_cont (b : N) : bool := in_range 128 191 b.
Definition utf8_dec (s : str) : option (N * str) :=
  match s with
  | [] => None
  | b0 :: r =>
      if N.ltb b0 128 then Some (b0, r)
      else if in_range 194 223 b0 then
        match r with
        | b1 :: r1 => if is_cont b1 then Some ((b0 - 192) * 64 + (b1 - 128), r1) else None
        | _ => None
        end
      else if in_range 224 239 b0 then
        match r with
        | b1 :: b2 :: r2 =>
            if in_range (if N.eqb b0 224 then 160 else 128) (if N.eqb b0 237 then 159 else 191) b1 && is_cont b2
            then Some ((b0 - 224) * 4096 + (b1 - 128) * 64 + (b2 - 128), r2) else None
        | _ => None
        end
      else if in_range 240 244 b0 then
        match r with
        | b1 :: b2 :: b3 :: r3 =>
            if in_range (if N.eqb b0 240 then 144 else 128) (if N.eqb b0 244 then 143 else 191) b1 && is_cont b2 && is_cont b3
            then Some ((b0 - 240) * 262144 + (b1 - 128) * 4096 + (b2 - 128) * 64 + (b3 - 128), r3) else None
        | _ => None
        end
      else None
  end.

(* ---- parsed templates ---- *)
Inductive top := OpSimple | OpPlus | OpHash | OpDot | OpSlash | OpSemi | OpQuery | OpAmp.
Record varspec := { vs_name : str; vs_maxlen : N; vs_explode : bool }.
Inductive part := PLit (s : str) | PExpr (o : top) (vars : list varspec).

(* expression.init *)
Definition op_first (o : top) : option N :=
  match o with
  | OpSimple | OpPlus => None
  | OpHash => Some 35 | OpDot => Some 46 | OpSlash => Some 47 | OpSemi => Some 59 | OpQuery => Some 63 | OpAmp => Some 38
  end.
Definition op_sep (o : top) : N :=
  match o with
  | OpSimple | OpPlus | OpHash => 44 | OpDot => 46 | OpSlash => 47 | OpSemi => 59 | OpQuery | OpAmp => 38
  end.
Definition op_named (o : top) : bool := match o with OpSemi | OpQuery | OpAmp => true | _ => false end.
Definition op_allow_r (o : top) : bool := match o with OpPlus | OpHash => true | _ => false end.
(* ifemp: "=" for ? and &, "" otherwise *)
Definition op_ifemp (o : top) : str := match o with OpQuery | OpAmp => [61] | _ => [] end.

(* ---- parseURITemplate ---- *)
Inductive pstate := PDefault | POperator | PVarList | PVarName | PPrefix.
Record pacc := { pa_parts : list part;   (* reversed *)
                 pa_lit : str;           (* reversed: bytes of the pending literal *)
                 pa_op : top;
                 pa_vars : list varspec; (* reversed *)
                 pa_name : str;          (* reversed: bytes of the pending variable name *)
                 pa_max : N }.

Definition flush_lit (a : pacc) : list part :=
  match pa_lit a with [] => pa_parts a | l => PLit (rev l) :: pa_parts a end.

(* isValidVarname on a name the parser let through (no leading dot, no two dots in a row): not empty, no trailing dot *)
Definition name_valid (rname : str) : bool :=
  match rname with [] => false | c :: _ => negb (N.eqb c 46) end.

Definition push_var (a : pacc) (explode : bool) : pacc :=
  {| pa_parts := pa_parts a; pa_lit := pa_lit a; pa_op := pa_op a;
     pa_vars := {| vs_name := rev (pa_name a); vs_maxlen := 0; vs_explode := explode |} :: pa_vars a;
     pa_name := []; pa_max := 0 |}.

Definition set_max (a : pacc) (m : N) : pacc :=
  {| pa_parts := pa_parts a; pa_lit := pa_lit a; pa_op := pa_op a;
     pa_vars := match pa_vars a with
                | v :: vs => {| vs_name := vs_name v; vs_maxlen := m; vs_explode := vs_explode v |} :: vs
                | [] => []
                end;
     pa_name := pa_name a; pa_max := m |}.

Definition op_of_byte (c : N) : option top :=
  if N.eqb c 43 then Some OpPlus else if N.eqb c 35 then Some OpHash else if N.eqb c 46 then Some OpDot
  else if N.eqb c 47 then Some OpSlash else if N.eqb c 59 then Some OpSemi else if N.eqb c 63 then Some OpQuery
  else if N.eqb c 38 then Some OpAmp else None.
(* op-reserved: = , ! @ | *)
Definition op_reserved (c : N) : bool := N.eqb c 61 || N.eqb c 44 || N.eqb c 33 || N.eqb c 64 || N.eqb c 124.

(* One iteration of the parser's loop per unit of fuel ("unread" re-enters with the same input).
   None = an error of the library. The loop's first action - decoding one rune - is what rejects
   invalid UTF-8 (and U+FFFD itself) in every state. *)
Fixpoint parse_go (fuel : nat) (st : pstate) (a : pacc) (s : str) : option (list part) :=
  match fuel with
  | O => None
  | S fuel' =>
      match s with
      | [] => match st with PDefault => Some (rev (flush_lit a)) | _ => None end
      | c :: s' =>
          match utf8_dec s with
          | None => None
          | Some (r, rest) =>
              if N.eqb r 65533 then None else
              match st with
              | PDefault =>
                  if N.eqb c 123 then
                    parse_go fuel' POperator
                      {| pa_parts := flush_lit a; pa_lit := []; pa_op := OpSimple; pa_vars := []; pa_name := []; pa_max := 0 |} s'
                  else if N.eqb c 37 then
                    match s' with
                    | h1 :: h2 :: s3 =>
                        if is_hex h1 && is_hex h2 then
                          parse_go fuel' PDefault
                            {| pa_parts := pa_parts a; pa_lit := h2 :: h1 :: c :: pa_lit a; pa_op := pa_op a;
                               pa_vars := pa_vars a; pa_name := pa_name a; pa_max := pa_max a |} s3
                        else None
                    | _ => None
                    end
                  else if lit_ok r then
                    parse_go fuel' PDefault
                      {| pa_parts := pa_parts a;
                         pa_lit := rev (firstn (length s - length rest) s) ++ pa_lit a; pa_op := pa_op a;
                         pa_vars := pa_vars a; pa_name := pa_name a; pa_max := pa_max a |} rest
                  else None
              | POperator =>
                  match op_of_byte c with
                  | Some o =>
                      parse_go fuel' PVarName
                        {| pa_parts := pa_parts a; pa_lit := []; pa_op := o; pa_vars := []; pa_name := []; pa_max := 0 |} s'
                  | None =>
                      if op_reserved c then None
                      else parse_go fuel' PVarName
                             {| pa_parts := pa_parts a; pa_lit := []; pa_op := OpSimple; pa_vars := []; pa_name := []; pa_max := 0 |} s
                  end
              | PVarList =>
                  if N.eqb c 44 then parse_go fuel' PVarName a s'
                  else if N.eqb c 125 then
                    parse_go fuel' PDefault
                      {| pa_parts := PExpr (pa_op a) (rev (pa_vars a)) :: pa_parts a; pa_lit := []; pa_op := OpSimple;
                         pa_vars := []; pa_name := []; pa_max := 0 |} s'
                  else None
              | PVarName =>
                  if N.eqb c 58 || N.eqb c 42 then
                    if name_valid (pa_name a)
                    then parse_go fuel' (if N.eqb c 42 then PVarList else PPrefix) (push_var a (N.eqb c 42)) s'
                    else None
                  else if N.eqb c 44 || N.eqb c 125 then
                    if name_valid (pa_name a) then parse_go fuel' PVarList (push_var a false) s else None
                  else if N.eqb c 37 then
                    match s' with
                    | h1 :: h2 :: s3 =>
                        if is_hex h1 && is_hex h2 then
                          parse_go fuel' PVarName
                            {| pa_parts := pa_parts a; pa_lit := pa_lit a; pa_op := pa_op a; pa_vars := pa_vars a;
                               pa_name := h2 :: h1 :: c :: pa_name a; pa_max := pa_max a |} s3
                        else None
                    | _ => None
                    end
                  else if N.eqb c 46 then
                    match pa_name a with
                    | [] => None
                    | p :: _ =>
                        if N.eqb p 46 then None
                        else parse_go fuel' PVarName
                               {| pa_parts := pa_parts a; pa_lit := pa_lit a; pa_op := pa_op a; pa_vars := pa_vars a;
                                  pa_name := c :: pa_name a; pa_max := pa_max a |} s'
                    end
                  else if is_varchar c then
                    parse_go fuel' PVarName
                      {| pa_parts := pa_parts a; pa_lit := pa_lit a; pa_op := pa_op a; pa_vars := pa_vars a;
                         pa_name := c :: pa_name a; pa_max := pa_max a |} s'
                  else None
              | PPrefix =>
                  if is_digit c then
                    let m := pa_max a * 10 + (c - 48) in
                    if N.eqb m 0 || N.ltb 9999 m then None else parse_go fuel' PPrefix (set_max a m) s'
                  else if N.eqb (pa_max a) 0 then None
                  else parse_go fuel' PVarList a s
              end
          end
      end
  end.

Definition pacc0 : pacc := {| pa_parts := []; pa_lit := []; pa_op := OpSimple; pa_vars := []; pa_name := []; pa_max := 0 |}.

(* a variable name as the parser accepts it: varchars, dots and pct-triplets *)
Fixpoint name_chars_ok (n : str) : bool :=
  match n with
  | [] => true
  | c :: n' =>
      if N.eqb c 37 then match n' with h1 :: h2 :: n3 => is_hex h1 && is_hex h2 && name_chars_ok n3 | _ => false end
      else (is_varchar c || N.eqb c 46) && name_chars_ok n'
  end.

Definition wf_part (p : part) : bool :=
  match p with
  | PLit _ => true
  | PExpr _ vars => negb (Nat.eqb (length vars) 0) && forallb (fun v => name_chars_ok (vs_name v)) vars
  end.

(* uritemplate.New. The final test never fails on what parse_go returns (the parser lets only such names
   through); it is there so that the theorems can use it without an invariant of the loop, and the
   correspondence check would show a disagreement with the library if it ever rejected anything. *)
Definition ut_parse (t : str) : option (list part) :=
  match parse_go (2 * length t + 4) PDefault pacc0 t with
  | Some ps => if forallb wf_part ps then Some ps else None
  | None => None
  end.

(* ---- Template.Regexp(): the structure of the generated expression ---- *)
(* runeClassToRegexp's bracket: class R absent -> ',' and (named) '=' are added to the unreserved set *)
Definition rx_class (allow_r named : bool) (c : N) : bool :=
  if allow_r then unreserved c || reserved c
  else N.eqb c 44 || (named && N.eqb c 61) || unreserved c.

(* (?:first( C1* (?:sep C2* ){0,max} ))?   with max = None for '*', Some 0 when the group is absent *)
Record rexpr := { rx_first : option N; rx_sep : N; rx_cls1 : N -> bool; rx_cls2 : N -> bool; rx_max : option nat }.
Inductive rpart := RLit (s : str) | RExpr (e : rexpr).

Definition head_explode (vars : list varspec) : bool :=
  match vars with v :: _ => vs_explode v | [] => false end.
Definition any_explode (vars : list varspec) : bool := existsb vs_explode vars.

Definition rx_of_expr (o : top) (vars : list varspec) : rexpr :=
  let grp := Nat.ltb 1 (length vars) || head_explode vars in
  let unbounded := any_explode vars in
  {| rx_first := op_first o; rx_sep := op_sep o;
     rx_cls1 := rx_class (op_allow_r o) (op_named o || head_explode vars);
     rx_cls2 := rx_class (op_allow_r o) (op_named o || unbounded);
     rx_max := if grp then (if unbounded then None else Some (length vars - 1)%nat) else Some O |}.

Definition rx_of_part (p : part) : rpart :=
  match p with PLit s => RLit s | PExpr o vars => RExpr (rx_of_expr o vars) end.

(* regexp.MustCompile panics on a repetition count above 1000 ("invalid repeat count") *)
Definition compile_ok (ps : list part) : bool :=
  forallb (fun p => match p with
                    | PLit _ => true
                    | PExpr _ vars => any_explode vars || Nat.leb (length vars) 1001
                    end) ps.

(* ---- the meaning of the expression: MatchString ---- *)
(* remainders are de-duplicated at every step: a separator that also belongs to the class makes the
   decomposition ambiguous, and the lists would grow exponentially *)
Fixpoint dedup (l : list str) : list str :=
  match l with
  | [] => []
  | x :: l' => if mem_str x l' then dedup l' else x :: dedup l'
  end.

Definition dec_k (k : option nat) : option (option nat) :=
  match k with None => Some None | Some O => None | Some (S k') => Some (Some k') end.

(* all remainders of s after a prefix in  C* (?:sep C* ){0,k}  *)
Fixpoint m_tail (cls : N -> bool) (sep : N) (k : option nat) (s : str) : list str :=
  s :: match s with
       | [] => []
       | c :: s' =>
           dedup ((if cls c then m_tail cls sep k s' else []) ++
                  (if N.eqb c 37 then
                     match s' with
                     | h1 :: h2 :: s3 => if is_hex h1 && is_hex h2 then m_tail cls sep k s3 else []
                     | _ => []
                     end
                   else []) ++
                  (if N.eqb c sep then
                     match k with
                     | None => m_tail cls sep None s'
                     | Some O => []
                     | Some (S k') => m_tail cls sep (Some k') s'
                     end
                   else []))
       end.

(* all remainders of s after a prefix in  C1* (?:sep C2* ){0,k}  *)
Fixpoint m_body (cls1 cls2 : N -> bool) (sep : N) (k : option nat) (s : str) : list str :=
  s :: match s with
       | [] => []
       | c :: s' =>
           dedup ((if cls1 c then m_body cls1 cls2 sep k s' else []) ++
                  (if N.eqb c 37 then
                     match s' with
                     | h1 :: h2 :: s3 => if is_hex h1 && is_hex h2 then m_body cls1 cls2 sep k s3 else []
                     | _ => []
                     end
                   else []) ++
                  (if N.eqb c sep then
                     match k with
                     | None => m_tail cls2 sep None s'
                     | Some O => []
                     | Some (S k') => m_tail cls2 sep (Some k') s'
                     end
                   else []))
       end.

Definition m_expr (e : rexpr) (s : str) : list str :=
  s :: match rx_first e with
       | None => m_body (rx_cls1 e) (rx_cls2 e) (rx_sep e) (rx_max e) s
       | Some f =>
           match s with
           | c :: s' => if N.eqb c f then m_body (rx_cls1 e) (rx_cls2 e) (rx_sep e) (rx_max e) s' else []
           | [] => []
           end
       end.

Definition m_part (p : rpart) (s : str) : list str :=
  match p with
  | RLit l => if is_prefix l s then [skipn (length l) s] else []
  | RExpr e => m_expr e s
  end.

Fixpoint m_parts (ps : list rpart) (sufs : list str) : list str :=
  match ps with
  | [] => sufs
  | p :: ps' => m_parts ps' (dedup (flat_map (m_part p) sufs))
  end.

Definition is_nil (s : str) : bool := match s with [] => true | _ => false end.

(* ^...$ : the whole topic *)
Definition rx_match (ps : list rpart) (s : str) : bool := existsb is_nil (m_parts ps [s]).

(* What getRegexp + MatchString compute for a selector: None = "not a template" (parse error, or - since the
   repair of the panic - an expression the regexp package refuses to compile). *)
Definition ut_tmatch (sel : str) : option (str -> bool) :=
  match ut_parse sel with
  | Some ps => if compile_ok ps then Some (rx_match (map rx_of_part ps)) else None
  | None => None
  end.

(* ---- RFC 6570 expansion (the specification side), string and list values ---- *)
(* A string is a list of characters, each given by its UTF-8 bytes. *)
Definition uchar := str.
Definition hexd (n : N) : N := if N.ltb n 10 then 48 + n else 55 + n.
Definition pct (b : N) : str := [37; hexd ((b / 16) mod 16); hexd (b mod 16)].

Definition esc_u_char (c : uchar) : str :=
  match c with
  | [b] => if unreserved b then [b] else pct b
  | _ => flat_map pct c
  end.
Definition esc_u (v : list uchar) : str := flat_map esc_u_char v.

(* U+R: reserved characters and pct-triplets pass through *)
Fixpoint esc_ur (v : list uchar) : str :=
  match v with
  | [] => []
  | c :: v' =>
      match c with
      | [b] =>
          if unreserved b || reserved b then b :: esc_ur v'
          else if N.eqb b 37 then
            match v' with
            | [h1] :: [h2] :: v3 => if is_hex h1 && is_hex h2 then 37 :: h1 :: h2 :: esc_ur v3 else pct b ++ esc_ur v'
            | _ => pct b ++ esc_ur v'
            end
          else pct b ++ esc_ur v'
      | _ => flat_map pct c ++ esc_ur v'
      end
  end.

Definition esc_for (o : top) (v : list uchar) : str := if op_allow_r o then esc_ur v else esc_u v.

Definition take_prefix (m : N) (v : list uchar) : list uchar :=
  if N.eqb m 0 then v else firstn (N.to_nat m) v.

(* A variable is undefined, a string, or a list of strings (RFC 6570 section 2.3; a list without members is
   undefined, section 3.2.1; a prefix modifier does not apply to a list, section 2.4.1: no expansion is defined,
   the variable is skipped here). Associative arrays are not modelled. *)
Inductive uvalue := VStr (v : list uchar) | VList (l : list (list uchar)).

(* one defined string variable *)
Definition expand_var (o : top) (vs : varspec) (v : list uchar) : str :=
  if op_named o then
    match v with
    | [] => vs_name vs ++ op_ifemp o
    | _ => vs_name vs ++ [61] ++ esc_for o (take_prefix (vs_maxlen vs) v)
    end
  else esc_for o (take_prefix (vs_maxlen vs) v).

Fixpoint join_sep (sep : N) (items : list str) : str :=
  match items with
  | [] => []
  | [x] => x
  | x :: l => x ++ sep :: join_sep sep l
  end.

(* the items one variable contributes: none, one, or - an exploded list - one per member *)
Definition var_items (o : top) (vs : varspec) (val : option uvalue) : list str :=
  match val with
  | None => []
  | Some (VStr v) => [expand_var o vs v]
  | Some (VList []) => []
  | Some (VList l) =>
      if negb (N.eqb (vs_maxlen vs) 0) then []
      else if vs_explode vs then
        map (fun m => if op_named o
                      then match m with [] => vs_name vs ++ op_ifemp o | _ => vs_name vs ++ [61] ++ esc_for o m end
                      else esc_for o m) l
      else [let j := join_sep 44 (map (esc_for o) l) in
            if op_named o then match j with [] => vs_name vs ++ op_ifemp o | _ => vs_name vs ++ [61] ++ j end else j]
  end.

Definition defined_items (o : top) (vars : list varspec) (env : str -> option uvalue) : list str :=
  flat_map (fun vs => var_items o vs (env (vs_name vs))) vars.

Definition expand_expr (o : top) (vars : list varspec) (env : str -> option uvalue) : str :=
  match defined_items o vars env with
  | [] => []
  | items => match op_first o with Some f => f :: join_sep (op_sep o) items | None => join_sep (op_sep o) items end
  end.

Definition expand_part (env : str -> option uvalue) (p : part) : str :=
  match p with PLit s => s | PExpr o vars => expand_expr o vars env end.

Definition ut_expand (ps : list part) (env : str -> option uvalue) : str := flat_map (expand_part env) ps.

(* ---- what the correspondence check evaluates (driver URITPL) ---- *)
(* selector, whether the library parsed it, whether the expression compiled, then (topic, MatchString) pairs and the
   answers of the hub's own matcher (Subscriber.MatchTopics through a fresh store) *)
Record ut_case := { uc_sel : str; uc_parsed : bool; uc_compiled : bool;
                    uc_topics : list (str * bool); uc_hub : list bool;
                    (* topics the driver built as RFC 6570 expansions for string and list values: must match *)
                    uc_expansions : list str }.

Definition ut_model_parsed (c : ut_case) : bool := match ut_parse (uc_sel c) with Some _ => true | None => false end.
Definition ut_model_compiled (c : ut_case) : bool :=
  match ut_parse (uc_sel c) with Some ps => compile_ok ps | None => false end.
Definition ut_model_answer (c : ut_case) (topic : str) : bool :=
  match ut_tmatch (uc_sel c) with Some f => f topic | None => false end.

Definition ut_agree (c : ut_case) : bool :=
  Bool.eqb (ut_model_parsed c) (uc_parsed c) &&
  Bool.eqb (ut_model_compiled c) (uc_compiled c) &&
  (negb (uc_compiled c) ||
   bools_eqb (map (fun q => ut_model_answer c (fst q)) (uc_topics c)) (map snd (uc_topics c))).

(* the rule, on observations alone: the hub's answer is "*" / equality / the library's fresh answer when the
   selector is a template the library handles, equality otherwise - and never a panic (a panic is reported by
   the driver as an answer list of the wrong length); expansions match *)
Definition star_b : str := [42].

(* Topics that are provably not expansions (Proofs/UriTemplateProofs.v: nonexp_sound): a template made of one
   named expression with one variable expands to nothing or to first ++ name ++ ...; and the witness "{x:3}" / "abcd". *)
Definition nonexp_named (ps : list part) (t : str) : bool :=
  match ps with
  | [PExpr o [v]] =>
      match op_first o with
      | Some f => op_named o && negb (is_nil t) && negb (is_prefix (f :: vs_name v) t)
      | None => false
      end
  | _ => false
  end.
Definition w_sel2 : str := [123; 120; 58; 51; 125].
Definition w_topic2 : str := [97; 98; 99; 100].
Definition nonexp (sel t : str) : bool :=
  match ut_parse sel with Some ps => nonexp_named ps t | None => false end ||
  (str_eqb sel w_sel2 && str_eqb t w_topic2).

Definition ut_ok (c : ut_case) : bool :=
  bools_eqb (uc_hub c)
    (map (fun q => str_eqb (uc_sel c) star_b || str_eqb (fst q) (uc_sel c) ||
                   (uc_parsed c && uc_compiled c && snd q)) (uc_topics c)) &&
  (negb (uc_parsed c && uc_compiled c) ||
   forallb (fun e => existsb (fun q => str_eqb (fst q) e && snd q) (uc_topics c)) (uc_expansions c)) &&
  (* "only if": a topic that is not an expansion is not matched *)
  forallb (fun q => negb (snd q && nonexp (uc_sel c) (fst q))) (uc_topics c).

(* ---- the language of the generated expression, as a specification (Prop) ---- *)
(* C* (?:sep C* ){0,k} as a right-linear grammar: class characters and pct-triplets, and at most k separators
   (each of which may also be read as a class character when the class contains it) *)
Inductive TailL (cls : N -> bool) (sep : N) : option nat -> str -> Prop :=
| TNil : forall k, TailL cls sep k []
| TChr : forall k c s, cls c = true -> TailL cls sep k s -> TailL cls sep k (c :: s)
| TPct : forall k h1 h2 s, is_hex h1 = true -> is_hex h2 = true -> TailL cls sep k s -> TailL cls sep k (37 :: h1 :: h2 :: s)
| TSepN : forall s, TailL cls sep None s -> TailL cls sep None (sep :: s)
| TSepS : forall k s, TailL cls sep (Some k) s -> TailL cls sep (Some (S k)) (sep :: s).

(* C1* (?:sep C2* ){0,k} *)
Inductive BodyL (cls1 cls2 : N -> bool) (sep : N) : option nat -> str -> Prop :=
| BNil : forall k, BodyL cls1 cls2 sep k []
| BChr : forall k c s, cls1 c = true -> BodyL cls1 cls2 sep k s -> BodyL cls1 cls2 sep k (c :: s)
| BPct : forall k h1 h2 s, is_hex h1 = true -> is_hex h2 = true -> BodyL cls1 cls2 sep k s -> BodyL cls1 cls2 sep k (37 :: h1 :: h2 :: s)
| BSepN : forall s, TailL cls2 sep None s -> BodyL cls1 cls2 sep None (sep :: s)
| BSepS : forall k s, TailL cls2 sep (Some k) s -> BodyL cls1 cls2 sep (Some (S k)) (sep :: s).

Definition ExprL (e : rexpr) (s : str) : Prop :=
  s = [] \/
  match rx_first e with
  | None => BodyL (rx_cls1 e) (rx_cls2 e) (rx_sep e) (rx_max e) s
  | Some f => exists b, s = f :: b /\ BodyL (rx_cls1 e) (rx_cls2 e) (rx_sep e) (rx_max e) b
  end.

Definition PartL (p : rpart) (s : str) : Prop :=
  match p with RLit l => s = l | RExpr e => ExprL e s end.

Inductive PartsL : list rpart -> str -> Prop :=
| PsNil : PartsL [] []
| PsCons : forall p ps s1 s2, PartL p s1 -> PartsL ps s2 -> PartsL (p :: ps) (s1 ++ s2).

(* The same languages written the way the expression is: a run of class characters / pct-triplets, then at most k
   groups "separator, run" (Proofs/UriTemplateProofs.v: TailL_is_the_expression, BodyL_is_the_expression). *)
Inductive UnitsL (cls : N -> bool) : str -> Prop :=
| ULNil : UnitsL cls []
| ULChr : forall c s, cls c = true -> UnitsL cls s -> UnitsL cls (c :: s)
| ULPct : forall h1 h2 s, is_hex h1 = true -> is_hex h2 = true -> UnitsL cls s -> UnitsL cls (37 :: h1 :: h2 :: s).

Inductive SepsL (cls : N -> bool) (sep : N) : option nat -> str -> Prop :=
| SLNil : forall k, SepsL cls sep k []
| SLConsN : forall u s, UnitsL cls u -> SepsL cls sep None s -> SepsL cls sep None (sep :: u ++ s)
| SLConsS : forall k u s, UnitsL cls u -> SepsL cls sep (Some k) s -> SepsL cls sep (Some (S k)) (sep :: u ++ s).
