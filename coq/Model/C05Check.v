(* C05Check.v / C11 cases — what the correspondence check evaluates per case. *)
From Mercure Require Export SubIndex.

Record c05_case := { c5_tbl : tm_table; c5_ops : list op; c5_impl : list (option (list N)) }.

Definition norm_out (o : option (list N)) : option (list N) :=
  match o with Some l => Some (sort_N l) | None => None end.

Definition outs_eqb (a b : list (option (list N))) : bool :=
  list_eqb (option_eqb Ns_eqb) (map norm_out a) (map norm_out b).

Definition c05_agree (c : c05_case) : bool :=
  outs_eqb (snd (ix_run (tmatch_of (c5_tbl c)) ix_empty (c5_ops c))) (c5_impl c).

Definition c05_ok (c : c05_case) : bool :=
  negb (ops_ok [] (c5_ops c)) ||
  outs_eqb (spec_run (tmatch_of (c5_tbl c)) [] (c5_ops c)) (c5_impl c).

Inductive c11_case :=
| C11Seq (tbl : tm_table) (qs : list (str * str)) (answers : list bool)
  (* several goroutines sharing one store *)
| C11Conc (tbl : tm_table) (qss : list (list (str * str))) (answers : list (list bool)).

Definition spec_answers (tbl : tm_table) (qs : list (str * str)) : list bool :=
  map (fun q => match_spec (tmatch_of tbl) (fst q) (snd q)) qs.

Definition c11_agree (c : c11_case) : bool :=
  match c with
  | C11Seq tbl qs ans => bools_eqb (run_lookups (tmatch_of tbl) [] qs) ans
  | C11Conc tbl qss anss => list_eqb bools_eqb (map (fun qs => map (fun q => match_raw (tmatch_of tbl) (fst q) (snd q)) qs) qss) anss
  end.

Definition c11_ok (c : c11_case) : bool :=
  match c with
  | C11Seq tbl qs ans => bools_eqb (spec_answers tbl qs) ans
  | C11Conc tbl qss anss => list_eqb bools_eqb (map (spec_answers tbl) qss) anss
  end.
