(* UrlEsc.v — net/url's QueryEscape / QueryUnescape as used for subscription ids, and the
   /.well-known/mercure/subscriptions/{topic}/{subscriber} URL and its routing (subscription.go, subscriber.go). *)
From Mercure Require Export Base.

Definition is_alnum (c : N) : bool :=
  (N.leb 48 c && N.leb c 57) || (N.leb 65 c && N.leb c 90) || (N.leb 97 c && N.leb c 122).

(* shouldEscape(c, encodeQueryComponent) = false *)
Definition unreserved (c : N) : bool :=
  is_alnum c || N.eqb c 45 || N.eqb c 95 || N.eqb c 46 || N.eqb c 126.

Definition hexdigit (d : N) : N := if N.ltb d 10 then 48 + d else 55 + d.   (* upper case *)

Fixpoint query_escape (s : str) : str :=
  match s with
  | [] => []
  | c :: s' =>
      if unreserved c then c :: query_escape s'
      else if N.eqb c 32 then 43 :: query_escape s'
      else 37 :: hexdigit (c / 16) :: hexdigit (c mod 16) :: query_escape s'
  end.

Definition unhex (c : N) : option N :=
  if N.leb 48 c && N.leb c 57 then Some (c - 48)
  else if N.leb 65 c && N.leb c 70 then Some (c - 55)
  else if N.leb 97 c && N.leb c 102 then Some (c - 87)
  else None.

(* fuel = length of the input: each step consumes at least one byte *)
Fixpoint query_unescape_fuel (fuel : nat) (s : str) : option str :=
  match fuel with
  | O => match s with [] => Some [] | _ => None end
  | S f =>
      match s with
      | [] => Some []
      | c :: s' =>
          if N.eqb c 37 then
            match s' with
            | h :: l :: s'' =>
                match unhex h, unhex l, query_unescape_fuel f s'' with
                | Some a, Some b, Some r => Some ((16 * a + b) :: r)
                | _, _, _ => None
                end
            | _ => None
            end
          else if N.eqb c 43 then option_map (cons 32) (query_unescape_fuel f s')
          else option_map (cons c) (query_unescape_fuel f s')
      end
  end.

Definition query_unescape (s : str) : option str := query_unescape_fuel (length s) s.

(* "/.well-known/mercure/subscriptions/" *)
Definition subs_prefix : str :=
  [47;46;119;101;108;108;45;107;110;111;119;110;47;109;101;114;99;117;114;101;47;115;117;98;115;99;114;105;112;116;105;111;110;115;47].

Definition SLASH : N := 47.

Definition sub_url (sel sid : str) : str := subs_prefix ++ query_escape sel ++ [SLASH] ++ query_escape sid.

Fixpoint strip_prefix (p s : str) : option str :=
  match p, s with
  | [], _ => Some s
  | x :: p', y :: s' => if N.eqb x y then strip_prefix p' s' else None
  | _ :: _, [] => None
  end.

Fixpoint split_slash (s : str) : str * option str :=
  match s with
  | [] => ([], None)
  | c :: s' => if N.eqb c SLASH then ([], Some s') else let '(a, b) := split_slash s' in (c :: a, b)
  end.

(* the router on the encoded path: {topic}/{subscriber}, both non-empty, no further slash; the handler unescapes them *)
Definition route_sub_url (path : str) : option (str * str) :=
  match strip_prefix subs_prefix path with
  | None => None
  | Some rest =>
      match split_slash rest with
      | (t, Some s) =>
          match t, s with
          | [], _ | _, [] => None
          | _, _ =>
              if mem_N SLASH s then None
              else match query_unescape t, query_unescape s with
                   | Some t', Some s' => Some (t', s')
                   | _, _ => None
                   end
          end
      | (_, None) => None
      end
  end.
