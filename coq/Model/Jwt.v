(* Jwt.v — the decision pipeline of validateJWT (authorization.go) + createJWTKeyfunc (jwtkeyfunc.go) +
   golang-jwt's ParseWithClaims, with every primitive an oracle: base64url decoding, JSON decoding of
   header and claims, the signature check under the configured key. What is modelled is which checks are
   made, in which order, and that any failure refuses the token. *)
From Mercure Require Export Handler.
Open Scope N_scope.

Definition DOT : N := 46.

(* strings.Split(token, ".") must give exactly three segments *)
Fixpoint split_dot (s : str) : list str :=
  match s with
  | [] => [[]]
  | c :: s' => if N.eqb c DOT then [] :: split_dot s'
               else match split_dot s' with l :: ls => (c :: l) :: ls | [] => [[c]] end
  end.

Record jclaims := { jc_claims : claims; jc_exp : option Z; jc_nbf : option Z }.

Section J.
  Variable b64 : str -> option str.                 (* base64 raw URL decoding *)
  Variable header_alg : str -> option str.          (* header JSON -> its "alg" *)
  Variable parse_claims : str -> option jclaims.    (* payload JSON -> mercure claims, exp, nbf (seconds) *)
  Variable known_alg : str -> bool.                 (* jwt.GetSigningMethod(alg) <> nil *)
  Variable sig_ok : str -> str -> str -> bool.      (* algorithm, signing input, signature: verifies under the configured key *)

  Definition time_ok (now : Z) (c : jclaims) : bool :=
    (match jc_exp c with Some e => Z.ltb now e | None => true end) &&
    (match jc_nbf c with Some n => Z.leb n now | None => true end).

  Definition validate_jwt (cfg_alg : str) (now : Z) (tok : str) : option claims :=
    match split_dot tok with
    | [h; p; s] =>
        match b64 h with
        | None => None
        | Some hj =>
            match header_alg hj with
            | None => None
            | Some alg =>
                match b64 p with
                | None => None
                | Some pj =>
                    match parse_claims pj with
                    | None => None
                    | Some c =>
                        if negb (known_alg alg) then None
                        else if negb (str_eqb alg cfg_alg) then None   (* keyfunc: unexpected signing method *)
                        else match b64 s with
                             | None => None
                             | Some sg =>
                                 if negb (sig_ok cfg_alg (h ++ [DOT] ++ p) sg) then None
                                 else if negb (time_ok now c) then None
                                 else Some (jc_claims c)
                             end
                    end
                end
            end
        end
    | _ => None
    end.
End J.

(* ---- cases: the primitives' results are supplied per token by an independent verifier ---- *)
Record jwt_case := {
  jw_cfg_alg : str; jw_now : Z; jw_token : str;
  jw_b64 : list (str * option str);          (* segment -> decoding *)
  jw_alg : option str;                        (* header's alg, when the header decodes *)
  jw_claims : option jclaims;
  jw_known : bool;                            (* the header's algorithm is one golang-jwt knows *)
  jw_sig_ok : bool;                           (* signature verifies under the configured key and algorithm *)
  jw_granted : bool }.                        (* the hub honoured the token (2xx) rather than answering 401 *)

Definition jw_assoc (l : list (str * option str)) (k : str) : option str :=
  match find (fun p => str_eqb (fst p) k) l with Some p => snd p | None => None end.

Definition jwt_model (c : jwt_case) : bool :=
  match validate_jwt (jw_assoc (jw_b64 c)) (fun _ => jw_alg c) (fun _ => jw_claims c) (fun _ => jw_known c)
                     (fun _ _ _ => jw_sig_ok c) (jw_cfg_alg c) (jw_now c) (jw_token c) with
  | Some _ => true | None => false end.

Definition jwt_agree (c : jwt_case) : bool := Bool.eqb (jwt_model c) (jw_granted c).

(* the property on observables: rights are granted only if the signature verifies under the configured key with exactly
   the configured algorithm and exp/nbf are satisfied *)
Definition jwt_ok (c : jwt_case) : bool :=
  negb (jw_granted c) ||
  (jw_sig_ok c && option_eqb str_eqb (jw_alg c) (Some (jw_cfg_alg c)) &&
   match jw_claims c with Some cl => time_ok (jw_now c) cl | None => false end &&
   Nat.eqb (length (split_dot (jw_token c))) 3).
