(* BoltPersist.v — bolt.go's persist() seen from the transport: the write transaction either commits or fails as a
   whole (the key is refused, the commit cannot be written), and the in-memory fields lastSeq / lastEventID the
   subscribers' cut-off and the subscription API read. Since 3127a7e the fields are assigned after the commit;
   step_old is the code before it (assigned inside the transaction, before the Put). *)
From Mercure Require Export BoltHist.

Section P.
  Variable A : Type.   (* update ids *)

  Record tstate := { t_db : db A; t_last_seq : N; t_last_id : option A }.

  (* Commit run x: the transaction of update x commits (run = the cleanup trigger fired); Fail x: it fails *)
  Inductive attempt := Commit (run : bool) (x : A) | Fail (x : A).

  Definition step (size : N) (t : tstate) (a : attempt) : tstate :=
    match a with
    | Commit run x =>
        let d' := persist A size (t_db t) (run, x) in
        {| t_db := d'; t_last_seq := d_seq A d'; t_last_id := Some x |}
    | Fail _ => t    (* bbolt rolls entries and sequence back; the fields were not touched *)
    end.

  Definition step_old (size : N) (t : tstate) (a : attempt) : tstate :=
    match a with
    | Commit run x =>
        let d' := persist A size (t_db t) (run, x) in
        {| t_db := d'; t_last_seq := d_seq A d'; t_last_id := Some x |}
    | Fail x => {| t_db := t_db t; t_last_seq := d_seq A (t_db t) + 1; t_last_id := Some x |}
    end.

  Definition run (size : N) (t : tstate) (l : list attempt) : tstate := fold_left (step size) l t.
  Definition run_old (size : N) (t : tstate) (l : list attempt) : tstate := fold_left (step_old size) l t.

  (* opening the file: lastSeq and lastEventID are read from the newest key (461aa30) *)
  Definition t_open (d : db A) : tstate :=
    {| t_db := d; t_last_seq := d_seq A d; t_last_id := match rev (d_entries A d) with (_, x) :: _ => Some x | [] => None end |}.

  (* the ids of the committed updates of a list of attempts, oldest first *)
  Fixpoint committed (l : list attempt) : list A :=
    match l with
    | [] => []
    | Commit _ x :: l' => x :: committed l'
    | Fail _ :: l' => committed l'
    end.
End P.
