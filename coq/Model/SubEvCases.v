(* SubEvCases.v — subscription events as seen by watchers (C17; C01 for the event path). *)
From Mercure Require Export UrlEsc.

Record sev := { se_id : str; se_subscriber : str; se_topic : str; se_active : bool; se_payload_ok : bool; se_type_ok : bool }.

Record subject := { sj_urn : str; sj_selectors : list str; sj_left : bool }.

Record subev_case := {
  sc_tracking : bool;
  sc_subjects : list subject;
  sc_all : list sev;            (* what the watcher authorized for every subscription event received, in order *)
  sc_only : str;                (* the selector the second watcher is authorized for *)
  sc_only_events : list sev }.  (* what the second watcher received *)

Definition count_ev (urn topic : str) (active : bool) (l : list sev) : nat :=
  length (filter (fun e => str_eqb (se_subscriber e) urn && str_eqb (se_topic e) topic && Bool.eqb (se_active e) active) l).

(* position of the first event (urn, topic, active) *)
Fixpoint pos_ev (urn topic : str) (active : bool) (l : list sev) : nat :=
  match l with
  | [] => O
  | e :: l' => if str_eqb (se_subscriber e) urn && str_eqb (se_topic e) topic && Bool.eqb (se_active e) active then O else S (pos_ev urn topic active l')
  end.

Fixpoint count_str (x : str) (l : list str) : nat :=
  match l with [] => O | y :: l' => (if str_eqb x y then 1 else 0) + count_str x l' end.

Definition subject_ok (l : list sev) (s : subject) : bool :=
  forallb (fun t =>
    (* a selector given twice gives two subscriptions with the same id: counted with multiplicity *)
    let k := count_str t (sj_selectors s) in
    Nat.eqb (count_ev (sj_urn s) t true l) k &&
    Nat.eqb (count_ev (sj_urn s) t false l) (if sj_left s then k else O) &&
    (negb (sj_left s) || Nat.ltb (pos_ev (sj_urn s) t true l) (pos_ev (sj_urn s) t false l))) (sj_selectors s).

Definition doc_ok (e : sev) : bool :=
  str_eqb (se_id e) (sub_url (se_topic e) (se_subscriber e)) && se_payload_ok e && se_type_ok e.

Definition subev_ok (c : subev_case) : bool :=
  if sc_tracking c then
    forallb doc_ok (sc_all c) &&
    forallb (subject_ok (sc_all c)) (sc_subjects c) &&
    (* every event is about a known subject and one of its selectors *)
    forallb (fun e => existsb (fun s => str_eqb (sj_urn s) (se_subscriber e) && mem_str (se_topic e) (sj_selectors s)) (sc_subjects c)) (sc_all c) &&
    (* the watcher authorized for one selector's events sees those and no other *)
    forallb (fun e => str_eqb (se_topic e) (sc_only c)) (sc_only_events c) &&
    Nat.eqb (length (sc_only_events c)) (length (filter (fun e => str_eqb (se_topic e) (sc_only c)) (sc_all c)))
  else
    match sc_all c, sc_only_events c with [], [] => true | _, _ => false end.

(* the model's share: the document id is the escaped URL *)
Definition subev_agree (c : subev_case) : bool := forallb (fun e => str_eqb (se_id e) (sub_url (se_topic e) (se_subscriber e))) (sc_all c).
