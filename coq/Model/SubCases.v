(* SubCases.v — what the correspondence check evaluates against localsubscriber.go. *)
From Mercure Require Export SubLts.

(* sequential histories: one thread runs the operations one after the other *)
Record sub_seq_case := {
  sq_ops : list sop;
  sq_rets : list bool;       (* results of the Dispatch calls, in call order *)
  sq_received : list N;      (* what the consumer got: the Recv operations, then a final drain *)
  sq_closed : bool }.        (* the channel was found closed at the end *)

Definition seq_fuel (ops : list sop) : nat := 16 * length ops + 2 * length ops * 4 + 4200.

Definition run_seq (ops : list sop) : sstate :=
  run (init 1000 [ops]) (repeat 0%nat (seq_fuel ops + length ops * 0)).

Definition sub_seq_agree (c : sub_seq_case) : bool :=
  let s := run (init 1000 [sq_ops c]) (repeat 0%nat (16 * length (sq_ops c) + 4200)) in
  match threads s with
  | [th] =>
      match t_pc th, t_todo th with
      | Idle, [] =>
          bools_eqb (rev (t_rets th)) (sq_rets c) && Ns_eqb (sent s) (sq_received c) &&
          Bool.eqb (closed s) (sq_closed c) && negb (panicked s)
      | _, _ => false
      end
  | _ => false
  end.

Fixpoint nodup_N (l : list N) : bool :=
  match l with [] => true | x :: l' => negb (mem_N x l') && nodup_N l' end.

Definition dispatched (ops : list sop) : list N :=
  flat_map (fun o => match o with ODispatch u _ => [u] | _ => [] end) ops.

(* observable consequences of the property on a sequential history *)
Definition sub_seq_ok (c : sub_seq_case) : bool :=
  nodup_N (sq_received c) &&
  forallb (fun u => mem_N u (dispatched (sq_ops c))) (sq_received c) &&
  Nat.leb (length (sq_received c)) (length (dispatched (sq_ops c))) &&
  (negb (existsb (fun o => match o with ODisconnect => true | _ => false end) (sq_ops c)) || sq_closed c).

(* ---- the subscriber's methods as atomic operations (their linearization), used to predict
   the set of outcomes of small concurrent scenarios ---- *)
Record astate := { a_disc : bool; a_ready : bool; a_closed : bool; a_out : list N; a_liveq : list N; a_sent : list N }.

Definition a_init : astate := {| a_disc := false; a_ready := false; a_closed := false; a_out := []; a_liveq := []; a_sent := [] |}.

Definition a_overflow (st : astate) : astate :=
  {| a_disc := true; a_ready := a_ready st; a_closed := true; a_out := a_out st; a_liveq := a_liveq st; a_sent := a_sent st |}.

Definition a_send (st : astate) (u : N) : astate :=
  {| a_disc := a_disc st; a_ready := a_ready st; a_closed := a_closed st; a_out := a_out st ++ [u]; a_liveq := a_liveq st; a_sent := a_sent st ++ [u] |}.

(* Dispatch: the possible (state, result) pairs *)
Definition a_dispatch (capacity : nat) (st : astate) (u : N) (hist : bool) : list (astate * bool) :=
  if negb hist && negb (a_ready st) then
    (* not live yet: queued - unless the early test saw it disconnected *)
    ({| a_disc := a_disc st; a_ready := a_ready st; a_closed := a_closed st; a_out := a_out st; a_liveq := a_liveq st ++ [u]; a_sent := a_sent st |}, true)
      :: (if a_disc st then [(st, false)] else [])
  else if a_disc st then [(st, false)]
  else if Nat.ltb (length (a_out st)) capacity then [(a_send st u, true)]
  else [(a_overflow st, false)].

Fixpoint a_flush (capacity : nat) (st : astate) (q : list N) : astate * bool :=
  match q with
  | [] => (st, true)
  | u :: q' => if Nat.ltb (length (a_out st)) capacity then a_flush capacity (a_send st u) q' else (a_overflow st, false)
  end.

Definition a_do_ready (capacity : nat) (st : astate) : astate :=
  if a_disc st then st
  else let '(st', ok) := a_flush capacity st (a_liveq st) in
       if ok then {| a_disc := a_disc st'; a_ready := true; a_closed := a_closed st'; a_out := a_out st'; a_liveq := a_liveq st'; a_sent := a_sent st' |}
       else st'.

Definition a_disconnect (st : astate) : astate := if a_disc st then st else a_overflow st.

(* an outcome: per-thread Dispatch results (in call order), everything sent, closed *)
Definition outcome := (list (list bool) * list N * bool)%type.

Definition outcome_eqb (a b : outcome) : bool :=
  let '(ra, sa, ca) := a in let '(rb, sb, cb) := b in
  list_eqb bools_eqb ra rb && Ns_eqb sa sb && Bool.eqb ca cb.

Fixpoint add_ret {A} (i : nat) (x : A) (l : list (list A)) : list (list A) :=
  match l, i with
  | [], _ => []
  | r :: l', O => (r ++ [x]) :: l'
  | r :: l', S i' => r :: add_ret i' x l'
  end.

(* all interleavings of the threads' atomic operations; fuel = total number of operations *)
Fixpoint a_explore (fuel : nat) (capacity : nat) (st : astate) (progs : list (list sop)) (rets : list (list bool)) : list outcome :=
  match fuel with
  | O => [(rets, a_sent st, a_closed st)]
  | S f =>
      if forallb (fun p => match p with [] => true | _ => false end) progs then [(rets, a_sent st, a_closed st)]
      else
        flat_map (fun i =>
          match nth_error progs i with
          | Some (o :: rest) =>
              let progs' := upd_nth i rest progs in
              match o with
              | ODispatch u h =>
                  flat_map (fun sr => a_explore f capacity (fst sr) progs' (add_ret i (snd sr) rets)) (a_dispatch capacity st u h)
              | OReady => a_explore f capacity (a_do_ready capacity st) progs' rets
              | ODisconnect => a_explore f capacity (a_disconnect st) progs' rets
              | ORecv => a_explore f capacity st progs' rets
              end
          | _ => []
          end) (seq 0 (length progs))
  end.

Definition a_outcomes (capacity : nat) (progs : list (list sop)) : list outcome :=
  a_explore (length (concat progs)) capacity a_init progs (map (fun _ => []) progs).

(* a concurrent scenario explored under the steered scheduler: the distinct outcomes observed *)
Record obs := { ob_rets : list (list bool); ob_received : list N; ob_closed : bool; ob_panic : bool; ob_deadlock : bool }.
Record sub_sched_case := { ss_cap : nat; ss_progs : list (list sop); ss_obs : list obs }.

Definition sub_sched_agree (c : sub_sched_case) : bool :=
  let outs := a_outcomes (ss_cap c) (ss_progs c) in
  forallb (fun o => negb (ob_panic o) && negb (ob_deadlock o) &&
                    existsb (outcome_eqb (ob_rets o, ob_received o, ob_closed o)) outs) (ss_obs c).

Definition has_disconnect (progs : list (list sop)) : bool :=
  existsb (existsb (fun o => match o with ODisconnect => true | _ => false end)) progs.

Definition disp_of (prog : list sop) : list (N * bool) :=
  concat (map (fun o => match o with ODispatch u h => [(u, h)] | _ => [] end) prog).
Definition has_ready (progs : list (list sop)) : bool :=
  existsb (existsb (fun o => match o with OReady => true | _ => false end)) progs.
(* restricted to one thread's dispatches of one kind, the delivery order is the program order *)
Definition order_ok (received : list N) (prog : list sop) (hist : bool) : bool :=
  let l := map fst (filter (fun p => Bool.eqb (snd p) hist) (disp_of prog)) in
  list_eqb N.eqb (filter (fun u => mem_N u l) received) (filter (fun u => mem_N u received) l).

(* the properties' observable consequences on every explored schedule *)
Definition sub_sched_ok (c : sub_sched_case) : bool :=
  let all_disp := dispatched (concat (ss_progs c)) in
  forallb (fun o =>
    negb (ob_panic o) && negb (ob_deadlock o) &&
    nodup_N (ob_received o) && forallb (fun u => mem_N u all_disp) (ob_received o) &&
    (negb (has_disconnect (ss_progs c)) || ob_closed o) &&
    (* never more in flight than the buffer holds (nothing is consumed during the scenario) *)
    Nat.leb (length (ob_received o)) (ss_cap c) &&
    (* cut off, not starved: if some Dispatch was refused or the channel is open, bookkeeping is consistent *)
    (ob_closed o || Nat.eqb (length (filter (fun b => negb b) (concat (ob_rets o)))) 0) &&
    (* C06: the live (resp. history) dispatches one thread makes one after the other are delivered in that order *)
    forallb (fun prog => order_ok (ob_received o) prog true && order_ok (ob_received o) prog false) (ss_progs c) &&
    (* C06/C07: once Ready has run and the subscriber was not cut off, every accepted update has been delivered *)
    (negb (has_ready (ss_progs c)) || ob_closed o ||
     forallb (fun pr => forallb (fun ur => negb (snd ur) || mem_N (fst (fst ur)) (ob_received o)) (combine (disp_of (fst pr)) (snd pr)))
             (combine (ss_progs c) (ob_rets o)))) (ss_obs c).
