(* Handler.v — the decisions of publish.go, subscribe.go (registerSubscriber,
   retrieveLastEventID) and subscription.go (initSubscription) as pure functions
   of the request, the configuration and the oracles of Auth.v. *)
From Mercure Require Export Auth.

Record config := {
  cfg_anonymous : bool;
  cfg_compat7 : bool;
  cfg_publish_origins : list str;
  cfg_subscriber_keyed : bool   (* a subscriber key function is configured *)
}.

(* the POST body after net/http's ParseForm (an oracle: None = ParseForm failed) *)
Record form := {
  f_topics : list str;
  f_retry : str;
  f_private : bool;         (* the key "private" is present, whatever its values *)
  f_data : str; f_id : str; f_type : str }.

Record update := { u_topics : list str; u_private : bool; u_data : str; u_id : str; u_type : str; u_retry : N }.

Definition two64 : N := 18446744073709551616.

(* strconv.ParseUint(s, 10, 64) on a non-empty string *)
Definition parse_uint64 (s : str) : option N :=
  match s with
  | [] => None
  | _ => if forallb (fun c => N.leb 48 c && N.leb c 57) s
         then let v := fold_left (fun a c => a * 10 + (c - 48)) s 0 in
              if N.ltb v two64 then Some v else None
         else None
  end.

(* the "retry" form value: absent/empty = 0 *)
Definition parse_retry (s : str) : option N :=
  match s with [] => Some 0 | _ => parse_uint64 s end.

Section H.
  Variable validate : str -> option claims.
  Variable referer_origin : str -> option str.
  Variable tmatch : str -> option (str -> bool).

  (* PublishHandler: status and, when accepted, the update handed to the transport
     (its id still as submitted: empty = the transport assigns a fresh urn:uuid) *)
  Definition publish_decision (cfg : config) (r : request) (f : option form) : N * option update :=
    match authorize validate referer_origin (cfg_publish_origins cfg) r with
    | AuthErr | AuthAnon => (401, None)
    | AuthOk c =>
        match c_publish c with
        | None => (401, None)
        | Some sels =>
            match f with
            | None => (400, None)
            | Some f =>
                match f_topics f with
                | [] => (400, None)
                | topics =>
                    match parse_retry (f_retry f) with
                    | None => (400, None)
                    | Some retry =>
                        if can_dispatch tmatch topics sels || (negb (f_private f) && cfg_compat7 cfg)
                        then (200, Some {| u_topics := topics; u_private := f_private f; u_data := f_data f;
                                           u_id := f_id f; u_type := f_type f; u_retry := retry |})
                        else (401, None)
                    end
                end
            end
        end
    end.

  (* registerSubscriber up to the point where the subscriber is handed to the transport:
     status, and when accepted the verified claims' subscribe selectors (None = anonymous) *)
  Definition subscribe_decision (cfg : config) (r : request) (topics : list str) : N * option (option (list str)) :=
    let a := if cfg_subscriber_keyed cfg then authorize validate referer_origin [] r else AuthAnon in
    match a with
    | AuthErr => (401, None)
    | AuthAnon =>
        if cfg_subscriber_keyed cfg && negb (cfg_anonymous cfg) then (401, None)
        else match topics with [] => (400, None) | _ => (200, Some None) end
    | AuthOk c =>
        match topics with [] => (400, None) | _ => (200, Some (c_subscribe c)) end
    end.

  (* initSubscription's authorization of a subscription-API request for URL url *)
  Definition subscription_api_allowed (cfg : config) (r : request) (url : str) : bool :=
    if cfg_subscriber_keyed cfg then
      match authorize validate referer_origin [] r with
      | AuthOk c => match c_subscribe c with
                    | Some sels => can_receive tmatch [url] sels
                    | None => false
                    end
      | _ => false
      end
    else true.
End H.

(* retrieveLastEventID: header, else "lastEventID", else (compat 7 only) the first
   value of the legacy "Last-Event-ID" query key *)
Definition retrieve_last_event_id (hdr qry : str) (legacy : option (list str)) (compat7 : bool) : str :=
  match hdr with
  | [] => match qry with
          | [] => match legacy with
                  | Some (v :: _) => if compat7 then v else []
                  | _ => []
                  end
          | q => q
          end
  | h => h
  end.
