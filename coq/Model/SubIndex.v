(* SubIndex.v — subscriberlist.go: the filter-key codec (encode/decode) and the
   skipfilter index by its contract: an ordered set of (id, subscriber) with
   monotone ids and, per filter key, a memo (scanned-up-to, id set) that is
   extended incrementally and purged of stale ids. The LRU holding the memos
   may drop any entry at any time. *)
From Mercure Require Export Match.

Definition ESC : N := 0.
Definition DELIM : N := 1.

Fixpoint escape_topic (t : str) : str :=
  match t with
  | [] => []
  | c :: t' =>
      if N.eqb c ESC then ESC :: ESC :: escape_topic t'
      else if N.eqb c DELIM then ESC :: DELIM :: escape_topic t'
      else c :: escape_topic t'
  end.

Definition priv_tag (p : bool) : str := if p then [49] else [48].

Definition encode (topics : list str) (priv : bool) : str :=
  concat_with [DELIM] (priv_tag priv :: map escape_topic (sort_strs topics)).

(* decode's state machine; cur and topics are accumulated in reverse *)
Fixpoint decode_aux (f : str) (pe esc priv : bool) (cur : str) (topics : list str) : list str * bool :=
  match f with
  | [] => (rev (rev cur :: topics), priv)
  | c :: f' =>
      if esc then decode_aux f' pe false priv (c :: cur) topics
      else if N.eqb c ESC then decode_aux f' pe true priv cur topics
      else if N.eqb c DELIM then
        if pe then decode_aux f' pe false priv [] (rev cur :: topics)
        else decode_aux f' true false (str_eqb (rev cur) [49]) [] topics
      else decode_aux f' pe false priv (c :: cur) topics
  end.

Definition decode (f : str) : list str * bool := decode_aux f false false false [] [].

Record sub := { s_label : N; s_topics : list str; s_allowed : list str }.

Record fentry := { f_key : str; f_scanned : N; f_ids : list N }.

Record index := { ix_next : N; ix_live : list (N * sub); ix_cache : list fentry }.

Definition ix_empty : index := {| ix_next := 0; ix_live := []; ix_cache := [] |}.

Section I.
  Variable tmatch : str -> option (str -> bool).

  Definition sub_matches (s : sub) (topics : list str) (priv : bool) : bool :=
    match_topics tmatch (s_topics s) (s_allowed s) topics priv.

  (* the test function given to skipfilter.New *)
  Definition test (s : sub) (key : str) : bool :=
    let '(ts, p) := decode key in sub_matches s ts p.

  Definition ix_add (ix : index) (s : sub) : index :=
    {| ix_next := N.succ (ix_next ix); ix_live := ix_live ix ++ [(ix_next ix, s)]; ix_cache := ix_cache ix |}.

  Definition ix_remove (ix : index) (label : N) : index :=
    {| ix_next := ix_next ix;
       ix_live := filter (fun e => negb (N.eqb (s_label (snd e)) label)) (ix_live ix);
       ix_cache := ix_cache ix |}.

  Fixpoint f_lookup (k : str) (c : list fentry) : option fentry :=
    match c with
    | [] => None
    | f :: c' => if str_eqb (f_key f) k then Some f else f_lookup k c'
    end.

  Fixpoint f_set (f : fentry) (c : list fentry) : list fentry :=
    match c with
    | [] => [f]
    | f' :: c' => if str_eqb (f_key f') (f_key f) then f :: c' else f' :: f_set f c'
    end.

  (* getFilter: extend the memo with the subscribers added since it was last brought up to date *)
  Definition get_filter (ix : index) (key : str) : fentry :=
    let f := match f_lookup key (ix_cache ix) with
             | Some f => f
             | None => {| f_key := key; f_scanned := 0; f_ids := [] |}
             end in
    if N.ltb (f_scanned f) (ix_next ix) then
      {| f_key := key; f_scanned := ix_next ix;
         f_ids := f_ids f ++ map fst (filter (fun e => N.leb (f_scanned f) (fst e) && test (snd e) key) (ix_live ix)) |}
    else f.

  (* MatchAny for one key: values found (in id order), stale ids purged from the memo *)
  Definition ix_match_any (ix : index) (key : str) : list sub * index :=
    let f := get_filter ix key in
    let values := filter (fun e => mem_N (fst e) (f_ids f)) (ix_live ix) in
    let f' := {| f_key := key; f_scanned := f_scanned f;
                 f_ids := filter (fun id => mem_N id (map fst (ix_live ix))) (f_ids f) |} in
    (map snd values,
     {| ix_next := ix_next ix; ix_live := ix_live ix; ix_cache := f_set f' (ix_cache ix) |}).

  (* the LRU may forget: keep.(i) says whether the i-th memo survives *)
  Fixpoint keep_some {A} (keep : list bool) (l : list A) : list A :=
    match l, keep with
    | [], _ => []
    | x :: l', [] => x :: l'
    | x :: l', b :: keep' => if b then x :: keep_some keep' l' else keep_some keep' l'
    end.

  Definition ix_evict (ix : index) (keep : list bool) : index :=
    {| ix_next := ix_next ix; ix_live := ix_live ix; ix_cache := keep_some keep (ix_cache ix) |}.

  Inductive op :=
  | Add (s : sub)
  | Remove (label : N)
  | Dispatch (topics : list str) (priv : bool)
  | Evict (keep : list bool).

  (* one step; Dispatch reports the recipients' labels *)
  Definition ix_step (ix : index) (o : op) : index * option (list N) :=
    match o with
    | Add s => (ix_add ix s, None)
    | Remove l => (ix_remove ix l, None)
    | Dispatch ts p => let '(r, ix') := ix_match_any ix (encode ts p) in (ix', Some (map s_label r))
    | Evict k => (ix_evict ix k, None)
    end.

  Fixpoint ix_run (ix : index) (ops : list op) : index * list (option (list N)) :=
    match ops with
    | [] => (ix, [])
    | o :: ops' =>
        let '(ix1, out) := ix_step ix o in
        let '(ix2, outs) := ix_run ix1 ops' in
        (ix2, out :: outs)
    end.

  (* the specification: who must receive a dispatch, computed naively from the
     history with no index at all *)
  Definition connected_after (live : list sub) (o : op) : list sub :=
    match o with
    | Add s => live ++ [s]
    | Remove l => filter (fun s => negb (N.eqb (s_label s) l)) live
    | _ => live
    end.

  Definition expected_recipients (live : list sub) (ts : list str) (p : bool) : list N :=
    map s_label (filter (fun s => match_topics_spec (match_spec tmatch) (s_topics s) (s_allowed s) ts p) live).

  Fixpoint spec_run (live : list sub) (ops : list op) : list (option (list N)) :=
    match ops with
    | [] => []
    | o :: ops' =>
        (match o with Dispatch ts p => Some (expected_recipients live ts p) | _ => None end)
          :: spec_run (connected_after live o) ops'
    end.

  (* well-formed histories: non-empty topic lists (the handlers reject empty ones)
     and no subscriber added while it is already connected *)
  Fixpoint ops_ok (live : list sub) (ops : list op) : bool :=
    match ops with
    | [] => true
    | o :: ops' =>
        (match o with
         | Add s => negb (mem_N (s_label s) (map s_label live))
         | Dispatch ts _ => match ts with [] => false | _ => true end
         | _ => true
         end) && ops_ok (connected_after live o) ops'
    end.
End I.
