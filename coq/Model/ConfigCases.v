(* ConfigCases.v — C19 cases: a configuration (Caddyfile directives, the JSON form, or the legacy options), the oracles as
   tables, and what the provisioned hub was observed to do. *)
From Mercure Require Export Config.

Inductive cfg_input := CICaddyfile (ds : list directive) | CIJson (f : fields) | CILegacy (l : legacy).

Record cfg_obs := {
  o_anonymous : bool; o_subscriptions : bool; o_has_sub : bool;
  o_publish_origins : list str; o_cors_origins : list str; o_cookie : str; o_compat7 : bool;
  o_wt : Z; o_dt : Z; o_hb : Z; o_transport : transport_kind;
  (* probes against the provisioned handler *)
  o_pub_accept : list bool;      (* per candidate (key, alg): a publish signed with it is accepted *)
  o_sub_accept : list bool;      (* per candidate: a subscription carrying a token signed with it is accepted *)
  o_anon_ok : bool;              (* a subscription without token is accepted *)
  o_subs_api : bool;             (* the subscription API answers (not 404) *)
  o_cookie_valid : list bool;    (* per cookie name: subscription with a valid token in that cookie accepted *)
  o_cookie_invalid : list bool;  (* per cookie name: subscription with a garbage token in that cookie accepted *)
  o_cors : list bool;            (* per origin: the response carries Access-Control-Allow-Origin *)
  o_pubo : list bool;            (* per origin: a cookie-authenticated publish from that origin is accepted *)
  o_compat_pub : bool            (* a public update to a topic outside the publish claim is accepted *)
}.

Record cfg_case := {
  cc_input : cfg_input;
  cc_keytab : list (str * str * bool);     (* algorithm, key, usable *)
  cc_origtab : list (str * bool);
  cc_cands : list (str * str);             (* key, algorithm *)
  cc_names : list str;
  cc_origins : list str;
  cc_env : option transport_kind;          (* MERCURE_TRANSPORT_URL in the environment (deprecated): consulted by the Caddyfile form only,
                                              and only when no transport is configured *)
  cc_obs : option cfg_obs }.

Definition tab_key_ok (t : list (str * str * bool)) (a k : str) : bool :=
  match find (fun e => str_eqb (fst (fst e)) a && str_eqb (snd (fst e)) k) t with Some e => snd e | None => false end.
Definition tab_origin_ok (t : list (str * bool)) (o : str) : bool :=
  match find (fun e => str_eqb (fst e) o) t with Some e => snd e | None => false end.

Definition s_star : str := [42].

Definition model_result (c : cfg_case) : result effective :=
  let ko := tab_key_ok (cc_keytab c) in
  let oo := tab_origin_ok (cc_origtab c) in
  match cc_input c with
  | CICaddyfile ds => provision ko oo (match cc_env c with Some k => DTransport k :: ds | None => ds end)   (* lowest priority *)
  | CIJson f => provision_fields ko oo f
  | CILegacy l => provision_legacy ko oo l
  end.

Definition pair_eqb (a b : str * str) : bool := str_eqb (fst a) (fst b) && str_eqb (snd a) (snd b).
Definition strs_eqb (a b : list str) : bool := list_eqb str_eqb a b.
Definition tk_eqb (a b : transport_kind) : bool := match a, b with TBolt, TBolt | TLocal, TLocal => true | _, _ => false end.

Definition anon_ok (e : effective) : bool := match e_sub e with None => true | Some _ => e_anonymous e end.
Definition origin_allowed (l : list str) (o : str) : bool := mem_str o l || mem_str s_star l.

(* the probes' predicted outcomes *)
Definition predict (c : cfg_case) (e : effective) : cfg_obs :=
  let has_token := match e_sub e with Some p => existsb (pair_eqb p) (cc_cands c) | None => false end in
  let has_pub_token := existsb (pair_eqb (e_pub_key e, e_pub_alg e)) (cc_cands c) in
  {| o_anonymous := e_anonymous e; o_subscriptions := e_subscriptions e;
     o_has_sub := match e_sub e with Some _ => true | None => false end;
     o_publish_origins := e_publish_origins e; o_cors_origins := e_cors_origins e; o_cookie := e_cookie e; o_compat7 := e_compat7 e;
     o_wt := e_write_timeout e; o_dt := e_dispatch_timeout e; o_hb := e_heartbeat e; o_transport := e_transport e;
     o_pub_accept := map (fun p => pair_eqb p (e_pub_key e, e_pub_alg e)) (cc_cands c);
     o_sub_accept := map (fun p => match e_sub e with Some q => pair_eqb p q | None => true end) (cc_cands c);
     o_anon_ok := anon_ok e;
     o_subs_api := e_subscriptions e;
     o_cookie_valid := if has_token then map (fun n => str_eqb n (e_cookie e) || anon_ok e) (cc_names c) else [];
     o_cookie_invalid := if has_token then map (fun n => negb (str_eqb n (e_cookie e)) && anon_ok e) (cc_names c) else [];
     o_cors := map (origin_allowed (e_cors_origins e)) (cc_origins c);
     o_pubo := map (fun o => has_pub_token && origin_allowed (e_publish_origins e) o) (cc_origins c);
     o_compat_pub := has_pub_token && e_compat7 e |}.

Definition obs_eqb (a b : cfg_obs) : bool :=
  Bool.eqb (o_anonymous a) (o_anonymous b) && Bool.eqb (o_subscriptions a) (o_subscriptions b) && Bool.eqb (o_has_sub a) (o_has_sub b) &&
  strs_eqb (o_publish_origins a) (o_publish_origins b) && strs_eqb (o_cors_origins a) (o_cors_origins b) &&
  str_eqb (o_cookie a) (o_cookie b) && Bool.eqb (o_compat7 a) (o_compat7 b) &&
  Z.eqb (o_wt a) (o_wt b) && Z.eqb (o_dt a) (o_dt b) && Z.eqb (o_hb a) (o_hb b) && tk_eqb (o_transport a) (o_transport b) &&
  bools_eqb (o_pub_accept a) (o_pub_accept b) && bools_eqb (o_sub_accept a) (o_sub_accept b) &&
  Bool.eqb (o_anon_ok a) (o_anon_ok b) && Bool.eqb (o_subs_api a) (o_subs_api b) &&
  bools_eqb (o_cookie_valid a) (o_cookie_valid b) && bools_eqb (o_cookie_invalid a) (o_cookie_invalid b) &&
  bools_eqb (o_cors a) (o_cors b) && bools_eqb (o_pubo a) (o_pubo b) && Bool.eqb (o_compat_pub a) (o_compat_pub b).

Definition cfg_agree (c : cfg_case) : bool :=
  match model_result c, cc_obs c with
  | Err, None => true
  | Ok e, Some o => obs_eqb (predict c e) o
  | _, _ => false
  end.

(* ---- the property, stated on the input and the observation alone ---- *)
(* what the input asks for, read off syntactically *)
Definition in_anonymous (i : cfg_input) : bool :=
  match i with CICaddyfile ds => existsb (fun d => match d with DAnonymous => true | _ => false end) ds | CIJson f => f_anonymous f | CILegacy l => l_anonymous l end.
Definition in_subscriptions (i : cfg_input) : bool :=
  match i with CICaddyfile ds => existsb (fun d => match d with DSubscriptions => true | _ => false end) ds | CIJson f => f_subscriptions f | CILegacy l => l_subscriptions l end.
Definition in_compat (i : cfg_input) : bool :=
  match i with CICaddyfile ds => existsb (fun d => match d with DCompat _ => true | _ => false end) ds | CIJson f => Z.eqb (f_compat f) 7 | CILegacy _ => false end.
Definition in_bad_compat (i : cfg_input) : bool :=
  match i with CICaddyfile ds => existsb (fun d => match d with DCompat v => negb (Z.eqb v 7) | _ => false end) ds
             | CIJson f => negb (Z.eqb (f_compat f) 0 || Z.eqb (f_compat f) 7) | CILegacy _ => false end.
Definition in_publish_origins (i : cfg_input) : list str :=
  match i with CICaddyfile ds => concat (map (fun d => match d with DPublishOrigins l => l | _ => [] end) ds) | CIJson f => f_publish_origins f | CILegacy l => l_publish_origins l end.
Definition in_cors_origins (i : cfg_input) : list str :=
  match i with CICaddyfile ds => concat (map (fun d => match d with DCorsOrigins l => l | _ => [] end) ds) | CIJson f => f_cors_origins f | CILegacy l => l_cors_origins l end.
Definition in_pub_keys (i : cfg_input) : list str :=
  match i with CICaddyfile ds => concat (map (fun d => match d with DPublisherJWT k _ => [k] | _ => [] end) ds)
             | CIJson f => match f_pub f with Some (k, _) => [k] | None => [] end | CILegacy l => [l_pub_key l; l_jwt_key l] end.
Definition in_sub_keys (i : cfg_input) : list str :=
  match i with CICaddyfile ds => concat (map (fun d => match d with DSubscriberJWT k _ => [k] | _ => [] end) ds)
             | CIJson f => match f_sub f with Some (k, _) => [k] | None => [] end | CILegacy l => [l_sub_key l; l_jwt_key l] end.
Definition in_cookie_names (i : cfg_input) : list str :=
  match i with CICaddyfile ds => concat (map (fun d => match d with DCookieName n => [n] | _ => [] end) ds) | CIJson f => [f_cookie f] | CILegacy _ => [] end.

(* is (key, algorithm) what some directive / the options ask for, for the publisher (pub = true) or subscriber role *)
Definition jwt_of (pub : bool) (d : directive) : option (str * option str) :=
  match d, pub with DPublisherJWT k a, true => Some (k, a) | DSubscriberJWT k a, false => Some (k, a) | _, _ => None end.
Definition in_pair_ok (pub : bool) (i : cfg_input) (p : str * str) : bool :=
  let '(k, a) := p in
  match i with
  | CICaddyfile ds =>
      (* an algorithm written with the key, or - when the directive gives none - the default or one written earlier *)
      let inherited := str_eqb a s_hs256 ||
                       existsb (fun d => match jwt_of pub d with Some (_, Some a') => str_eqb a a' | _ => false end) ds in
      existsb (fun d => match jwt_of pub d with
                        | Some (k', Some ((_ :: _) as a')) => str_eqb k k' && str_eqb a a'
                        | Some (k', _) => str_eqb k k' && inherited
                        | None => false
                        end) ds
  | CIJson f => match (if pub then f_pub f else f_sub f) with Some (k', a') => str_eqb k k' && str_eqb a (alg_of a') | None => false end
  | CILegacy l =>
      str_eqb k (first_nonempty (if pub then l_pub_key l else l_sub_key l) (l_jwt_key l)) &&
      str_eqb a (first_nonempty (if pub then l_pub_alg l else l_sub_alg l) (first_nonempty (l_jwt_alg l) s_hs256))
  end.

Definition in_last_transport (i : cfg_input) : option transport_kind :=
  match i with
  | CICaddyfile ds => fold_left (fun acc d => match d with DTransport k => Some k | _ => acc end) ds None
  | CIJson f => f_transport f
  | CILegacy _ => None
  end.

(* the timeouts the configuration asks for (the last directive of each kind; an explicit zero disables the timer and is not
   "unset"); 0 = write timeout, 1 = dispatch timeout, 2 = heartbeat *)
Definition in_last_timeout (which : nat) (i : cfg_input) : option Z :=
  match i with
  | CICaddyfile ds =>
      fold_left (fun acc d => match which, d with
                              | O, DWriteTimeout z => Some z
                              | 1%nat, DDispatchTimeout z => Some z
                              | 2%nat, DHeartbeat z => Some z
                              | _, _ => acc end) ds None
  | CIJson f => match which with O => f_write_timeout f | 1%nat => f_dispatch_timeout f | _ => f_heartbeat f end
  | CILegacy _ => None
  end.

(* the (key, algorithm) the configuration asks for, when it can be read off without interpretation: the last directive
   of the role with an explicit algorithm, or the only one of its role without algorithm (HS256) *)
Definition in_expected_pair (pub : bool) (i : cfg_input) : option (str * str) :=
  match i with
  | CICaddyfile ds =>
      let l := concat (map (fun d => match jwt_of pub d with Some p => [p] | None => [] end) ds) in
      match rev l with
      | (k, Some ((_ :: _) as a)) :: _ => Some (k, a)
      | [(k, _)] => Some (k, s_hs256)
      | _ => None
      end
  | CIJson f => match (if pub then f_pub f else f_sub f) with Some (k, a) => Some (k, alg_of a) | None => None end
  | CILegacy l =>
      Some (first_nonempty (if pub then l_pub_key l else l_sub_key l) (l_jwt_key l),
            first_nonempty (if pub then l_pub_alg l else l_sub_alg l) (first_nonempty (l_jwt_alg l) s_hs256))
  end.

Definition implb' (a b : bool) : bool := negb a || b.
Definition nonempty (s : str) : bool := match s with [] => false | _ => true end.

Definition accepted_keys (cands : list (str * str)) (acc : list bool) : list (str * str) :=
  map fst (filter snd (combine cands acc)).

Definition cfg_spec_ok (c : cfg_case) : bool :=
  let i := cc_input c in
  let nopub := negb (existsb nonempty (in_pub_keys i)) in
  let nosub := negb (existsb nonempty (in_sub_keys i)) in
  match cc_obs c with
  | None => true      (* a refusal is always safe; that valid configurations are accepted is the agreement's business *)
  | Some o =>
      (* must have been refused *)
      negb nopub && negb (nosub && negb (in_anonymous i)) && negb (in_bad_compat i) &&
      (* every permission in effect was asked for *)
      implb' (o_anonymous o) (in_anonymous i) &&
      implb' (o_anon_ok o) (in_anonymous i) &&
      implb' (negb (o_has_sub o)) (in_anonymous i) &&
      implb' (o_subscriptions o || o_subs_api o) (in_subscriptions i) &&
      implb' (o_compat7 o || o_compat_pub o) (in_compat i) &&
      forallb (fun x => mem_str x (in_publish_origins i) && tab_origin_ok (cc_origtab c) x) (o_publish_origins o) &&
      forallb (fun x => mem_str x (in_cors_origins i) && tab_origin_ok (cc_origtab c) x) (o_cors_origins o) &&
      forallb (fun p => implb' (snd p) (origin_allowed (in_publish_origins i) (fst p))) (combine (cc_origins c) (o_pubo o)) &&
      forallb (fun p => implb' (snd p) (origin_allowed (in_cors_origins i) (fst p))) (combine (cc_origins c) (o_cors o)) &&
      (* only configured, usable (key, algorithm) pairs verify tokens; without subscriber key every token is ignored only in anonymous mode *)
      forallb (fun p => in_pair_ok true i p && tab_key_ok (cc_keytab c) (snd p) (fst p)) (accepted_keys (cc_cands c) (o_pub_accept o)) &&
      (if o_has_sub o
       then forallb (fun p => in_pair_ok false i p && tab_key_ok (cc_keytab c) (snd p) (fst p)) (accepted_keys (cc_cands c) (o_sub_accept o))
       else in_anonymous i) &&
      (* the configured keys are in effect: a token signed with the configured key and algorithm is accepted *)
      (match in_expected_pair true i with
       | Some p => forallb (fun ca => implb' (pair_eqb (fst ca) p) (snd ca)) (combine (cc_cands c) (o_pub_accept o))
       | None => true end) &&
      (match in_expected_pair false i with
       | Some p => negb (o_has_sub o) || negb (nonempty (fst p)) ||
                   forallb (fun ca => implb' (pair_eqb (fst ca) p) (snd ca)) (combine (cc_cands c) (o_sub_accept o))
       | None => true end) &&
      (* a configured transport is the one in effect (the last one written) *)
      (match in_last_transport i with Some k => tk_eqb (o_transport o) k | None => true end) &&
      (* configured timeouts are the ones in effect *)
      (match in_last_timeout 0 i with Some z => Z.eqb (o_wt o) z | None => true end) &&
      (match in_last_timeout 1 i with Some z => Z.eqb (o_dt o) z | None => true end) &&
      (match in_last_timeout 2 i with Some z => Z.eqb (o_hb o) z | None => true end) &&
      (* the cookie consulted is a configured one or the default *)
      (mem_str (o_cookie o) (in_cookie_names i) || str_eqb (o_cookie o) s_default_cookie)
  end.

(* two blocks naming the same Bolt file: the second is refused, or runs with its own retention size *)
Record path_case := { pc_size_b : N; pc_published : N; pc_b_refused : bool; pc_b_retained : N }.
Definition path_ok (c : path_case) : bool :=
  pc_b_refused c ||
  N.eqb (pc_b_retained c) (if N.eqb (pc_size_b c) 0 then pc_published c else N.min (pc_published c) (pc_size_b c)).
