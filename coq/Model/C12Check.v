(* C12Check.v — what the correspondence check evaluates on each C12 case:
   agreement of the model with the bytes the implementation produced, and the
   spec predicate applied to the implementation's bytes. *)
From Mercure Require Export Sse.

(* "urn:uuid:" *)
Definition s_urn_uuid : str := [117;114;110;58;117;117;105;100;58].
Definition s_ctype : str := [116;101;120;116;47;101;118;101;110;116;45;115;116;114;101;97;109].
(* "private, no-cache, no-store, must-revalidate, max-age=0" *)
Definition s_cache : str :=
  [112;114;105;118;97;116;101;44;32;110;111;45;99;97;99;104;101;44;32;110;111;45;115;116;111;114;101;44;32;
   109;117;115;116;45;114;101;118;97;108;105;100;97;116;101;44;32;109;97;120;45;97;103;101;61;48].

Inductive c12_case :=
| C12Unit (e : event) (wire : str)
  (* publishes: submitted event, (status, body of the publish response); then what one subscriber saw *)
| C12Stream (pubs : list (event * (N * str))) (status : N) (ctype cache : str) (wire : str).

Definition with_id (e : event) (i : str) : event :=
  {| e_data := e_data e; e_id := i; e_type := e_type e; e_retry := e_retry e |}.

(* hub model for the id: the event carries the id returned to the publisher *)
Definition delivered (p : event * (N * str)) : event := with_id (fst p) (snd (snd p)).

Fixpoint ids_ok (seen : list str) (pubs : list (event * (N * str))) : bool :=
  match pubs with
  | [] => true
  | (e, (st, body)) :: ps =>
      N.eqb st 200 &&
      (match e_id e with
       | [] => is_prefix s_urn_uuid body && negb (mem_str body seen)
       | i => str_eqb body i
       end) && ids_ok (body :: seen) ps
  end.

Definition c12_case_agree (c : c12_case) : bool :=
  match c with
  | C12Unit e wire => c12_agree e wire
  | C12Stream pubs status ctype cache wire =>
      str_eqb ([COLON; LF] ++ concat (map (fun p => serialize (delivered p)) pubs)) wire
  end.

Definition c12_case_ok (c : c12_case) : bool :=
  match c with
  | C12Unit e wire => c12_ok e wire
  | C12Stream pubs status ctype cache wire =>
      negb (forallb (fun p => wf_event (delivered p)) pubs) ||
      (N.eqb status 200 && str_eqb ctype s_ctype && str_eqb cache s_cache && ids_ok [] pubs &&
       list_eqb parsed_eqb (sse_parse wire) (map (fun p => expected (delivered p)) pubs))
  end.
