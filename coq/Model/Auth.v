(* Auth.v — authorization.go: credential carriers and their precedence, the cookie
   CSRF rule, canDispatch / canReceive. Token validation (signature, exp/nbf, claim
   extraction) and Referer parsing are oracles (Section variables). *)
From Mercure Require Export Match.

Record claims := { c_publish : option (list str); c_subscribe : option (list str) }.

Inductive auth := AuthErr | AuthAnon | AuthOk (c : claims).

(* what authorize() looks at in a request.
   r_auth_hdr / r_auth_qry: Some vs = the key is present with values vs *)
Record request := {
  r_post : bool;
  r_auth_hdr : option (list str);
  r_auth_qry : option (list str);
  r_cookie : option str;
  r_origin : str;
  r_referer : str }.

(* "Bearer " *)
Definition s_bearer : str := [66;101;97;114;101;114;32].

Section A.
  Variable validate : str -> option claims.          (* None = validateJWT returns an error *)
  Variable referer_origin : str -> option str.       (* url.Parse(referer) -> scheme://host, None = parse error *)
  Variable tmatch : str -> option (str -> bool).

  Definition of_validate (tok : str) : auth :=
    match validate tok with Some c => AuthOk c | None => AuthErr end.

  Definition origin_allowed (origins : list str) (origin : str) : bool :=
    existsb (fun a => str_eqb a star || str_eqb origin a) origins.

  Definition authorize (origins : list str) (r : request) : auth :=
    match r_auth_hdr r with
    | Some vs =>
        match vs with
        | [v] => if Nat.leb 48 (length v) && is_prefix s_bearer v then of_validate (skipn 7 v) else AuthErr
        | _ => AuthErr
        end
    | None =>
        match r_auth_qry r with
        | Some vs =>
            match vs with
            | [v] => if Nat.leb 41 (length v) then of_validate v else AuthErr
            | _ => AuthErr
            end
        | None =>
            match r_cookie r with
            | None => AuthAnon
            | Some c =>
                if negb (r_post r) then of_validate c
                else
                  let origin :=
                    match r_origin r with
                    | [] => match r_referer r with
                            | [] => None
                            | ref => referer_origin ref
                            end
                    | o => Some o
                    end in
                  match origin with
                  | None => AuthErr
                  | Some o => if origin_allowed origins o then of_validate c else AuthErr
                  end
            end
        end
    end.

  Definition tm := match_raw tmatch.

  (* canReceive: some topic matches some selector *)
  Definition can_receive (topics sels : list str) : bool :=
    existsb (fun t => existsb (tm t) sels) topics.

  (* canDispatch: the nested loop with its early "return true" on "*" *)
  Fixpoint can_dispatch_inner (t : str) (sels : list str) : option bool :=
    (* Some true = return true from the whole function; Some false = matched; None = not matched *)
    match sels with
    | [] => None
    | s :: sels' =>
        if str_eqb s star then Some true
        else if tm t s then Some false
        else can_dispatch_inner t sels'
    end.

  Fixpoint can_dispatch (topics sels : list str) : bool :=
    match topics with
    | [] => true
    | t :: ts =>
        match can_dispatch_inner t sels with
        | Some true => true
        | Some false => can_dispatch ts sels
        | None => false
        end
    end.

  (* what it is meant to compute *)
  Definition can_dispatch_spec (topics sels : list str) : bool :=
    forallb (fun t => existsb (fun s => str_eqb s star || tm t s) sels) topics.
End A.
