(* MassCases.v — Hub.Stop with more connected subscribers than any batch a transport might process at a time: the
   observable consequences of C15 (Proofs/HubProofs3.v streams_end holds for any number of subscribers). *)
From Mercure Require Export Base.

Record mass_case := {
  mc_n : nat;
  mc_ended : list bool;                 (* per subscriber: the hub ended the stream (or the client had left before) *)
  mc_late_sub : nat;                    (* status of a subscription attempted after Stop returned (0: nothing written) *)
  mc_late_sub_received : bool;
  mc_late_pub : nat }.                  (* status of a publish attempted after Stop returned *)

Definition mass_ok (c : mass_case) : bool :=
  Nat.eqb (length (mc_ended c)) (mc_n c) && forallb (fun b => b) (mc_ended c) &&
  negb (Nat.eqb (mc_late_sub c) 200) && negb (mc_late_sub_received c) && negb (Nat.eqb (mc_late_pub c) 200).

(* Updates are distinct even when publishers give them the same id: the subscriber's stream (live, and replayed from the
   whole history with the persistent transport) carries every accepted matching update once, in order - identified here
   by their payloads. *)
Record dup_case := {
  dc_published : list N;        (* payloads, in publish order (every publish was accepted) *)
  dc_live : list N;             (* payloads on the stream of a subscriber connected before the first publish *)
  dc_replayed : option (list N) (* payloads on the stream of a subscriber asking for "earliest" afterwards (Bolt) *)
}.

Definition dup_ok (c : dup_case) : bool :=
  Ns_eqb (dc_live c) (dc_published c) &&
  match dc_replayed c with Some l => Ns_eqb l (dc_published c) | None => true end.

(* C20 at quiescent points after simultaneous arrivals, publishes and departures *)
Record gauge_wave := {
  gw_open : nat; gw_gauge_open : Z;       (* streams open after the arrivals; the gauge then *)
  gw_total : N; gw_total_seen : N;         (* subscriptions accepted so far; the counter *)
  gw_updates : N; gw_updates_seen : N;     (* updates accepted so far; the counter *)
  gw_gauge_closed : Z; gw_total_after : N  (* after the departures: gauge (must be 0) and counter (unchanged) *)
}.
Record gauge_case := { gc_waves : list gauge_wave }.

Definition gauge_ok (c : gauge_case) : bool :=
  forallb (fun w => Z.eqb (gw_gauge_open w) (Z.of_nat (gw_open w)) && N.eqb (gw_total_seen w) (gw_total w) &&
                    N.eqb (gw_updates_seen w) (gw_updates w) && Z.eqb (gw_gauge_closed w) 0 && N.eqb (gw_total_after w) (gw_total w))
          (gc_waves c).

(* C01 with ids reused across private and public updates. Three subscribers to topic t: anonymous, a token covering only
   the alternate topic u, a token covering t. Streams identified by payloads, live and (Bolt) replayed from "earliest". *)
Record priv_upd := { pu_payload : N; pu_private : bool; pu_alt : bool (* the update's topics are [t; u] rather than [t] *) }.
Record priv_case := {
  pv_pubs : list priv_upd;
  pv_anon : list N; pv_partial : list N; pv_full : list N;
  pv_replay : option (list N * list N * list N)
}.
Definition pv_expect (who : nat) (l : list priv_upd) : list N :=
  map pu_payload (filter (fun u => match who with
                                   | O => negb (pu_private u)
                                   | 1%nat => negb (pu_private u) || pu_alt u
                                   | _ => true
                                   end) l).
Definition priv_ok (c : priv_case) : bool :=
  Ns_eqb (pv_anon c) (pv_expect 0 (pv_pubs c)) && Ns_eqb (pv_partial c) (pv_expect 1 (pv_pubs c)) &&
  Ns_eqb (pv_full c) (pv_expect 2 (pv_pubs c)) &&
  match pv_replay c with
  | Some (a, p, f) => Ns_eqb a (pv_expect 0 (pv_pubs c)) && Ns_eqb p (pv_expect 1 (pv_pubs c)) && Ns_eqb f (pv_expect 2 (pv_pubs c))
  | None => true
  end.

(* C02 with update fields in the URL's query string: only the body is a publish request. Events seen by a witness of
   everything and by a witness of a topic the publisher's claim does not cover, as (id, data, type) codes:
   1 = the body's value, 2 = the query string's, 0 = anything else. *)
Record qt_case := { qt_status : N; qt_body_topic : bool; qt_all : list (N * N * N); qt_secret : list (N * N * N) }.
Definition qt_ok (c : qt_case) : bool :=
  match qt_secret c with [] => true | _ => false end &&
  (if N.eqb (qt_status c) 200
   then qt_body_topic c && match qt_all c with [(1, 1, 1)] => true | _ => false end
   else N.leb 400 (qt_status c) && N.ltb (qt_status c) 500 && match qt_all c with [] => true | _ => false end).

(* C09: a publish whose write transaction fails. Acknowledged or handed to a subscriber implies stored (in the file as a
   process killed at that instant would find it); a success status means acknowledged; the neighbours are unaffected. *)
Record fw_case := { fw_status : N; fw_acked : bool; fw_delivered : bool; fw_stored : bool; fw_others_stored : bool;
                    (* right after the refusal the hub still reports the previous update's id as its last event id *)
                    fw_last_is_previous : bool }.
Definition fw_ok (c : fw_case) : bool :=
  implb (fw_acked c) (fw_stored c) && implb (fw_delivered c) (fw_stored c) &&
  implb (N.leb 200 (fw_status c) && N.ltb (fw_status c) 300) (fw_stored c) && fw_others_stored c &&
  implb (negb (fw_stored c)) (fw_last_is_previous c).
