(* MassCases.v — Hub.Stop with more connected subscribers than any batch a transport might process at a time: the
   observable consequences of C15 (Proofs/HubProofs3.v streams_end holds for any number of subscribers). *)
From Mercure Require Export Base.

Record mass_case := {
  mc_n : nat;
  mc_ended : list bool;                 (* per subscriber: the hub ended the stream (or the client had left before) *)
  mc_late_sub : nat;                    (* status of a subscription attempted after Stop returned (0: nothing written) *)
  mc_late_sub_received : bool;
  mc_late_pub : nat }.                  (* status of a publish attempted after Stop returned *)

Definition mass_ok (c : mass_case) : bool :=
  Nat.eqb (length (mc_ended c)) (mc_n c) && forallb (fun b => b) (mc_ended c) &&
  negb (Nat.eqb (mc_late_sub c) 200) && negb (mc_late_sub_received c) && negb (Nat.eqb (mc_late_pub c) 200).

(* Updates are distinct even when publishers give them the same id: the subscriber's stream (live, and replayed from the
   whole history with the persistent transport) carries every accepted matching update once, in order - identified here
   by their payloads. *)
Record dup_case := {
  dc_published : list N;        (* payloads, in publish order (every publish was accepted) *)
  dc_live : list N;             (* payloads on the stream of a subscriber connected before the first publish *)
  dc_replayed : option (list N) (* payloads on the stream of a subscriber asking for "earliest" afterwards (Bolt) *)
}.

Definition dup_ok (c : dup_case) : bool :=
  Ns_eqb (dc_live c) (dc_published c) &&
  match dc_replayed c with Some l => Ns_eqb l (dc_published c) | None => true end.
