(* MassCases.v — Hub.Stop with more connected subscribers than any batch a transport might process at a time: the
   observable consequences of C15 (Proofs/HubProofs3.v streams_end holds for any number of subscribers). *)
From Mercure Require Export Base.

Record mass_case := {
  mc_n : nat;
  mc_ended : list bool;                 (* per subscriber: the hub ended the stream (or the client had left before) *)
  mc_late_sub : nat;                    (* status of a subscription attempted after Stop returned (0: nothing written) *)
  mc_late_sub_received : bool;
  mc_late_pub : nat }.                  (* status of a publish attempted after Stop returned *)

Definition mass_ok (c : mass_case) : bool :=
  Nat.eqb (length (mc_ended c)) (mc_n c) && forallb (fun b => b) (mc_ended c) &&
  negb (Nat.eqb (mc_late_sub c) 200) && negb (mc_late_sub_received c) && negb (Nat.eqb (mc_late_pub c) 200).
