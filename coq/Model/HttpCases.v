(* HttpCases.v — what the correspondence check evaluates for C02 and C04. *)
From Mercure Require Export Handler.

Fixpoint assoc {A} (k : str) (l : list (str * A)) : option A :=
  match l with
  | [] => None
  | (k', v) :: l' => if str_eqb k' k then Some v else assoc k l'
  end.

Definition validate_of (tokens : list (str * claims)) (t : str) : option claims := assoc t tokens.
Definition referer_of (refs : list (str * option str)) (r : str) : option str :=
  match assoc r refs with Some o => o | None => None end.

Record env := { e_tbl : tm_table; e_tokens : list (str * claims); e_refs : list (str * option str) }.

Definition e_authorize (e : env) := authorize (validate_of (e_tokens e)) (referer_of (e_refs e)).

(* ---- C02 ---- *)
Record c02_case := {
  c2_env : env; c2_cfg : config; c2_req : request; c2_form : option form;
  c2_status : N; c2_body : str;
  c2_delivered : list str;          (* ids a witness subscriber on every topic with every right received because of the request *)
  c2_stored : option (list str) }.  (* persistent transport: ids the request appended to the history *)

Definition no_effect (c : c02_case) : bool :=
  match c2_delivered c with [] => match c2_stored c with None | Some [] => true | _ => false end | _ => false end.

Definition effect_is (c : c02_case) (id : str) : bool :=
  strs_eqb (c2_delivered c) [id] && match c2_stored c with None => true | Some l => strs_eqb l [id] end.

Definition c02_agree (c : c02_case) : bool :=
  let e := c2_env c in
  let '(st, ou) := publish_decision (validate_of (e_tokens e)) (referer_of (e_refs e)) (tmatch_of (e_tbl e)) (c2_cfg c) (c2_req c) (c2_form c) in
  N.eqb st (c2_status c) &&
  match ou with
  | None => no_effect c
  | Some u => effect_is c (c2_body c) && match u_id u with [] => true | i => str_eqb i (c2_body c) end
  end.

(* the property: 200 only for an authorized publisher; anything else is a 4xx without any effect *)
Definition c02_ok (c : c02_case) : bool :=
  let e := c2_env c in
  if N.eqb (c2_status c) 200 then
    match e_authorize e (cfg_publish_origins (c2_cfg c)) (c2_req c), c2_form c with
    | AuthOk cl, Some f =>
        match c_publish cl, f_topics f with
        | Some sels, _ :: _ =>
            (can_dispatch_spec (tmatch_of (e_tbl e)) (f_topics f) sels || (cfg_compat7 (c2_cfg c) && negb (f_private f))) &&
            negb (str_eqb (c2_body c) []) && effect_is c (c2_body c)
        | _, _ => false
        end
    | _, _ => false
    end
  else N.leb 400 (c2_status c) && N.ltb (c2_status c) 500 && no_effect c.

(* ---- C04 ---- *)
Inductive endpoint := EPublish | ESubscribe | ESubscriptions.

(* three probes per request, one per credential's rights (topics / URLs h, q, c) *)
Record c04_case := {
  c4_env : env; c4_cfg : config; c4_req : request; c4_ep : endpoint;
  c4_probes : list str;          (* publish: topics; subscribe: private topics published by an admin; subscriptions: URLs *)
  c4_status : list N;            (* publish/subscriptions: one status per probe; subscribe: [status] *)
  c4_delivered : list bool }.    (* subscribe: per probe, whether it reached the subscriber *)

Definition mk_form (t : str) : form :=
  {| f_topics := [t]; f_retry := []; f_private := false; f_data := []; f_id := []; f_type := [] |}.

Definition c04_expected (c : c04_case) : list N * list bool :=
  let e := c4_env c in
  let v := validate_of (e_tokens e) in let ro := referer_of (e_refs e) in let tmx := tmatch_of (e_tbl e) in
  match c4_ep c with
  | EPublish => (map (fun t => fst (publish_decision v ro tmx (c4_cfg c) (c4_req c) (Some (mk_form t)))) (c4_probes c), [])
  | ESubscribe =>
      match subscribe_decision v ro (c4_cfg c) (c4_req c) [star] with
      | (st, Some (Some sels)) => ([st], map (fun t => can_receive tmx [t] sels) (c4_probes c))
      | (st, _) => ([st], map (fun _ => false) (c4_probes c))
      end
  | ESubscriptions => (map (fun u => if subscription_api_allowed v ro tmx (c4_cfg c) (c4_req c) u then 200 else 401) (c4_probes c), [])
  end.

Definition c04_agree (c : c04_case) : bool :=
  let '(sts, del) := c04_expected c in
  Ns_eqb sts (c4_status c) && bools_eqb del (c4_delivered c).

(* the property, declaratively: which credential counts, and what it may do *)
Definition c04_identity (c : c04_case) : auth :=
  let e := c4_env c in let r := c4_req c in
  let v t := match validate_of (e_tokens e) t with Some cl => AuthOk cl | None => AuthErr end in
  match r_auth_hdr r with
  | Some [h] => if Nat.leb 48 (length h) && is_prefix s_bearer h then v (skipn 7 h) else AuthErr
  | Some _ => AuthErr
  | None =>
      match r_auth_qry r with
      | Some [q] => if Nat.leb 41 (length q) then v q else AuthErr
      | Some _ => AuthErr
      | None =>
          match r_cookie r with
          | None => AuthAnon
          | Some ck =>
              if negb (r_post r) then v ck
              else
                let origins := match c4_ep c with EPublish => cfg_publish_origins (c4_cfg c) | _ => [] end in
                let o := match r_origin r with
                         | [] => match r_referer r with [] => None | ref => referer_of (e_refs e) ref end
                         | o => Some o end in
                match o with
                | Some o => if existsb (fun a => str_eqb a star || str_eqb a o) origins then v ck else AuthErr
                | None => AuthErr
                end
          end
      end
  end.

Definition lit_in (t : str) (sels : option (list str)) : bool :=
  match sels with Some l => mem_str star l || mem_str t l | None => false end.

(* some selector is "*", equals the URL, or is a template the URL matches (oracle) *)
Definition sel_in (tbl : tm_table) (u : str) (sels : option (list str)) : bool :=
  match sels with Some l => existsb (match_spec (tmatch_of tbl) u) l | None => false end.

Definition c04_ok (c : c04_case) : bool :=
  let id := c04_identity c in
  match c4_ep c with
  | EPublish =>
      Ns_eqb (c4_status c)
        (map (fun t => match id with AuthOk cl => if lit_in t (c_publish cl) then 200 else 401 | _ => 401 end) (c4_probes c))
  | ESubscribe =>
      match id with
      | AuthErr => Ns_eqb (c4_status c) [401] && negb (existsb (fun b => b) (c4_delivered c))
      | AuthAnon => Ns_eqb (c4_status c) [if cfg_anonymous (c4_cfg c) then 200 else 401] && negb (existsb (fun b => b) (c4_delivered c))
      | AuthOk cl => Ns_eqb (c4_status c) [200] && bools_eqb (c4_delivered c) (map (fun t => lit_in t (c_subscribe cl)) (c4_probes c))
      end
  | ESubscriptions =>
      Ns_eqb (c4_status c)
        (map (fun u => match id with AuthOk cl => if sel_in (e_tbl (c4_env c)) u (c_subscribe cl) then 200 else 401 | _ => 401 end) (c4_probes c))
  end.
