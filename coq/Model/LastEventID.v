(* LastEventID.v — the history scan of BoltTransport.dispatchHistory as far as the
   Last-Event-ID negotiation is concerned: which id is reported back and which
   stored entries are candidates for replay. *)
From Mercure Require Export Handler.

(* "earliest" *)
Definition s_earliest : str := [101;97;114;108;105;101;115;116].

(* search phase: returns the response id and, once the requested id has been seen,
   the entries that follow its first occurrence *)
Fixpoint scan_from (h : list str) (req resp : str) : str * list str :=
  match h with
  | [] => (resp, [])
  | id :: h' => if str_eqb id req then (id, h') else scan_from h' req id
  end.

Definition history_scan (h : list str) (req : str) : str * list str :=
  if str_eqb req s_earliest then (s_earliest, h) else scan_from h req s_earliest.

(* what a subscriber with a request for `req` gets back: the Last-Event-ID response
   header (None = no header) and the ids replayed, when every stored update matches *)
Definition negotiate (persistent : bool) (h : list str) (req : str) : option str * list str :=
  match req with
  | [] => (None, [])
  | _ => if persistent then let '(resp, replay) := history_scan h req in (Some resp, replay)
         else (Some s_earliest, [])
  end.

(* everything after the first occurrence of x *)
Fixpoint after_first (x : str) (h : list str) : list str :=
  match h with
  | [] => []
  | id :: h' => if str_eqb id x then h' else after_first x h'
  end.

(* ---- cases ---- *)
Record c08_case := {
  c8_compat7 : bool; c8_persistent : bool; c8_history : list str;
  c8_hdr : str; c8_qry : str; c8_legacy : option (list str);
  c8_resp : option str;        (* observed Last-Event-ID response header *)
  c8_replayed : list str }.    (* observed ids replayed before anything live *)

Definition c08_agree (c : c08_case) : bool :=
  let req := retrieve_last_event_id (c8_hdr c) (c8_qry c) (c8_legacy c) (c8_compat7 c) in
  let '(resp, rep) := negotiate (c8_persistent c) (c8_history c) req in
  option_eqb str_eqb resp (c8_resp c) && strs_eqb rep (c8_replayed c).

(* the property over observables: carriers' precedence, header iff requested, truthfulness *)
Definition c08_requested (c : c08_case) : str :=
  match c8_hdr c with
  | [] => match c8_qry c with
          | [] => if c8_compat7 c then match c8_legacy c with Some (v :: _) => v | _ => [] end else []
          | q => q
          end
  | h => h
  end.

Definition c08_ok (c : c08_case) : bool :=
  let r := c08_requested c in
  let h := if c8_persistent c then c8_history c else [] in
  match r, c8_resp c with
  | [], None => match c8_replayed c with [] => true | _ => false end
  | [], Some _ => false
  | _ :: _, None => false
  | _ :: _, Some rho =>
      if str_eqb r s_earliest then str_eqb rho s_earliest && strs_eqb (c8_replayed c) h
      else if mem_str r h then str_eqb rho r && strs_eqb (c8_replayed c) (after_first r h)
      else negb (str_eqb rho r) &&
           (match h with [] => str_eqb rho s_earliest | _ => true end) &&
           match c8_replayed c with [] => true | _ => false end
  end.
