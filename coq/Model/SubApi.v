(* SubApi.v — subscription.go: the subscription API's documents, filtering, dereferencing, ETag. *)
From Mercure Require Export UrlEsc Handler.

(* a connected subscriber as the API sees it: its id and its topic selectors, in order *)
Definition asub := (str * list str)%type.

(* getSubscriptions over every subscriber: one document (selector, subscriber id) per (subscriber, selector),
   restricted to one selector when requested *)
Definition listing (subs : list asub) (only : option str) : list (str * str) :=
  flat_map (fun s => map (fun sel => (sel, fst s))
                         (filter (fun sel => match only with None => true | Some t => str_eqb sel t end) (snd s))) subs.

(* SubscriptionHandler: found iff some connected subscriber has that id and that selector *)
Definition deref (subs : list asub) (sel sid : str) : bool :=
  existsb (fun s => str_eqb (fst s) sid && mem_str sel (snd s)) subs.

Definition doc_id (d : str * str) : str := sub_url (fst d) (snd d).

(* initSubscription after authorization: 304 when If-None-Match equals the last event id, else 200 with ETag = it *)
Definition api_status (last_event_id if_none_match : str) : N := if str_eqb if_none_match last_event_id then 304 else 200.

(* ---- cases ---- *)
Record api_probe := { ap_sel : str; ap_sid : str; ap_status : N; ap_doc_id : str }.   (* a dereference *)
Record subapi_case := {
  sa_subs : list asub;                        (* connected subscribers, in connection order *)
  sa_all : list str;                          (* ids listed by the collection endpoint *)
  sa_per_topic : list (str * list str);       (* (selector, ids listed by the per-topic endpoint) *)
  sa_probes : list api_probe;                 (* dereferences of listed ids and of unknown pairs *)
  sa_last : str; sa_etag : str; sa_body_last : str;   (* transport's last event id; ETag header; lastEventID field *)
  sa_inm_status : N;                          (* status with If-None-Match = last event id *)
  sa_inm_other : list (str * N);              (* (another If-None-Match value, status): stale validators *)
  sa_head : list (bool * N);                  (* HEAD on a single-subscription URL: (the pair is listed, status) *)
  sa_tbl : tm_table;
  sa_auth : list (option (list str) * str * bool * N) }.   (* caller's subscribe claim (None = no token), URL, If-None-Match with the current validator, status *)

Definition ids_of (l : list (str * str)) : list str := map doc_id l.

Definition subapi_ok (c : subapi_case) : bool :=
  strs_eqb (ids_of (listing (sa_subs c) None)) (sa_all c) &&
  forallb (fun p => strs_eqb (ids_of (listing (sa_subs c) (Some (fst p)))) (snd p)) (sa_per_topic c) &&
  forallb (fun p =>
    if deref (sa_subs c) (ap_sel p) (ap_sid p)
    then N.eqb (ap_status p) 200 && str_eqb (ap_doc_id p) (sub_url (ap_sel p) (ap_sid p))
    else N.eqb (ap_status p) 404) (sa_probes c) &&
  str_eqb (sa_etag c) (sa_last c) && str_eqb (sa_body_last c) (sa_last c) && N.eqb (sa_inm_status c) 304 &&
  forallb (fun p => N.eqb (snd p) (if str_eqb (fst p) (sa_last c) then 304 else 200)) (sa_inm_other c) &&
  (* whatever the method: an unknown subscription is never answered as if it existed (HEAD may be refused outright) *)
  forallb (fun p : bool * N => N.eqb (snd p) 405 || N.eqb (snd p) (if fst p then 200 else 404)) (sa_head c) &&
  forallb (fun a =>
    let '(claim, u, inm, st) := a in
    let allowed := match claim with Some sels => can_receive (tmatch_of (sa_tbl c)) [u] sels | None => false end in
    N.eqb st (if allowed then (if (inm : bool) then 304 else 200) else 401)) (sa_auth c).

(* every listed id routes back (through the router and QueryUnescape) to the pair it was built from *)
Definition subapi_agree (c : subapi_case) : bool :=
  forallb (fun d => match route_sub_url (doc_id d) with
                    | Some (sel, sid) => str_eqb sel (fst d) && str_eqb sid (snd d)
                    | None => false end) (listing (sa_subs c) None) &&
  N.eqb (api_status (sa_last c) (sa_last c)) (sa_inm_status c) &&
  forallb (fun p => N.eqb (api_status (sa_last c) (fst p)) (snd p)) (sa_inm_other c).
