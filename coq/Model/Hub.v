(* Hub.v — the hub at transport level: bolt.go / local.go / subscribe.go (registerSubscriber,
   the handler loop, shutdown) / publish.go, as a transition system over threads.

   Granularity. A LocalSubscriber method is one step (its linearization; the fine-grained
   system is Model/SubLts.v), except Ready, which flushes one queued update per step so that
   the consumer can interleave. A critical section under the transport lock is one step:
   publish = commit + fan-out, registration = index + read of the cut-off, close = disconnect
   every indexed subscriber. (Reduction: inside a critical section each subscriber is touched
   once, and every thread running outside the lock touches a single subscriber, so the
   fan-out steps can be commuted together.) Everything outside the lock is interleaved freely:
   the history scan (one stored entry per step), Ready, the consumer, Disconnect/Remove. *)
From Mercure Require Export Base.

Inductive req := NoReq | Earliest | ReqId (id : N).

(* per-subscriber registration / handler phase *)
Inductive phase :=
| PNew                              (* handler not started *)
| PAnnounced                        (* active=true subscription events dispatched (when enabled) *)
| PIndexed                          (* bolt: in the index, cut-off read, lock released *)
| PScan (snap : list (N * N)) (found : bool) (resp : option N)   (* remaining snapshot entries (seq, id) *)
| PHistDone                         (* HistoryDispatched called *)
| PFlush (rest : list N)            (* Ready: flushing the live queue *)
| PLive (left : nat)                (* handler loop; left = receives before the client goes away *)
| PLeaving                          (* shutdown: Disconnect done, Remove pending *)
| PRemoved                          (* removed from the index; active=false events pending *)
| PGone
| PRefused.                         (* AddSubscriber failed (transport closed) *)

Record hsub := {
  hs_req : req;
  hs_phase : phase;
  hs_disc : bool; hs_ready : bool; hs_closed : bool;
  hs_out : list N; hs_liveq : list N;
  hs_sent : list N;                 (* ghost: everything ever placed in out *)
  hs_recvd : list N;                (* ghost: what the handler wrote to the client *)
  hs_cut : N;                       (* bolt: lastSeq read at registration *)
  hs_resp : option (option N);      (* Last-Event-ID answered: Some None = "earliest" *)
  hs_ended : bool }.                (* the handler observed the end of the stream *)

Record hstate := {
  h_persistent : bool;
  h_close : nat;                    (* Close: 0 not begun; 1 closed channel closed; 2 every indexed subscriber
                                       disconnected (lock still held, bolt waits for open read transactions);
                                       3 database closed, lock released *)
  h_db : list (N * N);              (* (sequence, update id), retained part *)
  h_committed : list N;             (* ghost: every update ever committed, in commit order *)
  h_seq : N;                        (* bucket sequence (durable) *)
  h_lastseq : N;                    (* bolt: lastSeq. local transport: ghost, number of updates dispatched *)
  h_index : list nat;               (* indexed subscribers, in insertion order *)
  h_subs : list hsub;
  h_acked : list N;                 (* ghost: publishes answered with success *)
  h_events : list (nat * bool);     (* ghost: subscription events (subscriber, active) in dispatch order *)
  h_gauge : Z; h_subs_total : N; h_updates_total : N;   (* metrics *)
  h_size : N }.                     (* retention *)

Section H.
  (* mt s u: update u matches subscriber s (topic selectors, and claims when u is private) *)
  Variable mt : nat -> N -> bool.
  Variable cap : nat.
  Variable tracking : bool.         (* subscription events enabled *)

  Definition get_sub (st : hstate) (i : nat) : option hsub := nth_error (h_subs st) i.
  Definition h_closed (st : hstate) : bool := Nat.leb 1%nat (h_close st).
  Definition h_closed_done (st : hstate) : bool := Nat.leb 3%nat (h_close st).

  Definition set_subs (st : hstate) (subs : list hsub) : hstate :=
    {| h_persistent := h_persistent st; h_close := h_close st; h_db := h_db st;
       h_committed := h_committed st; h_seq := h_seq st; h_lastseq := h_lastseq st; h_index := h_index st; h_subs := subs;
       h_acked := h_acked st; h_events := h_events st; h_gauge := h_gauge st; h_subs_total := h_subs_total st;
       h_updates_total := h_updates_total st; h_size := h_size st |}.

  Definition set_sub (st : hstate) (i : nat) (s : hsub) : hstate := set_subs st (upd_nth i s (h_subs st)).

  (* ---- LocalSubscriber methods, atomically ---- *)
  Definition with_phase (s : hsub) (p : phase) : hsub :=
    {| hs_req := hs_req s; hs_phase := p; hs_disc := hs_disc s; hs_ready := hs_ready s; hs_closed := hs_closed s; hs_out := hs_out s;
       hs_liveq := hs_liveq s; hs_sent := hs_sent s; hs_recvd := hs_recvd s; hs_cut := hs_cut s; hs_resp := hs_resp s; hs_ended := hs_ended s |}.

  Definition s_cutoff (s : hsub) : hsub :=     (* overflow or Disconnect: flag + close *)
    {| hs_req := hs_req s; hs_phase := hs_phase s; hs_disc := true; hs_ready := hs_ready s; hs_closed := true; hs_out := hs_out s;
       hs_liveq := hs_liveq s; hs_sent := hs_sent s; hs_recvd := hs_recvd s; hs_cut := hs_cut s; hs_resp := hs_resp s; hs_ended := hs_ended s |}.

  Definition s_send (s : hsub) (u : N) : hsub :=
    {| hs_req := hs_req s; hs_phase := hs_phase s; hs_disc := hs_disc s; hs_ready := hs_ready s; hs_closed := hs_closed s; hs_out := hs_out s ++ [u];
       hs_liveq := hs_liveq s; hs_sent := hs_sent s ++ [u]; hs_recvd := hs_recvd s; hs_cut := hs_cut s; hs_resp := hs_resp s; hs_ended := hs_ended s |}.

  Definition s_queue (s : hsub) (u : N) : hsub :=
    {| hs_req := hs_req s; hs_phase := hs_phase s; hs_disc := hs_disc s; hs_ready := hs_ready s; hs_closed := hs_closed s; hs_out := hs_out s;
       hs_liveq := hs_liveq s ++ [u]; hs_sent := hs_sent s; hs_recvd := hs_recvd s; hs_cut := hs_cut s; hs_resp := hs_resp s; hs_ended := hs_ended s |}.

  (* Dispatch(u, fromHistory): new subscriber state and result *)
  Definition s_dispatch (s : hsub) (u : N) (hist : bool) : hsub * bool :=
    if hs_disc s then (s, false)
    else if negb hist && negb (hs_ready s) then (s_queue s u, true)
    else if Nat.ltb (length (hs_out s)) cap then (s_send s u, true)
    else (s_cutoff s, false).

  Definition s_disconnect (s : hsub) : hsub := if hs_disc s then s else s_cutoff s.

  Definition s_set_ready (s : hsub) : hsub :=
    {| hs_req := hs_req s; hs_phase := hs_phase s; hs_disc := hs_disc s; hs_ready := true; hs_closed := hs_closed s; hs_out := hs_out s;
       hs_liveq := hs_liveq s; hs_sent := hs_sent s; hs_recvd := hs_recvd s; hs_cut := hs_cut s; hs_resp := hs_resp s; hs_ended := hs_ended s |}.

  (* ---- the transport ---- *)

  (* fan-out of update u to the indexed subscribers that match it *)
  Fixpoint fan_out (subs : list hsub) (idx : list nat) (u : N) : list hsub :=
    match idx with
    | [] => subs
    | i :: idx' =>
        match nth_error subs i with
        | Some s => if mt i u then fan_out (upd_nth i (fst (s_dispatch s u false)) subs) idx' u else fan_out subs idx' u
        | None => fan_out subs idx' u
        end
    end.

  (* cleanup as in Model/BoltHist.v, on (seq, id) entries *)
  Definition retain (size : N) (run : bool) (seq : N) (es : list (N * N)) : list (N * N) :=
    if N.eqb size 0 || negb run || N.leb seq size then es
    else filter (fun e => N.ltb (seq - size) (fst e)) es.

  (* is a flush of subscriber i in progress (Ready holds its mutexes: publishers wait) *)
  Definition flushing (s : hsub) : bool := match hs_phase s with PFlush _ => true | _ => false end.

  Inductive pub_result := PubOk | PubClosed | PubBlocked.

  (* the publisher's critical section: commit (persistent transport), then fan-out *)
  Definition publish (st : hstate) (u : N) (coin : bool) : hstate * pub_result :=
    if h_closed_done st && h_persistent st then (st, PubClosed)    (* the database is closed: bolt error *)
    else if Nat.eqb (h_close st) 2%nat then (st, PubBlocked)           (* Close holds the transport lock *)
    else if existsb (fun i => match nth_error (h_subs st) i with Some s => mt i u && flushing s | None => false end) (h_index st)
    then (st, PubBlocked)
    else
      let seq := h_seq st + 1 in
      let st1 :=
        if h_persistent st then
          {| h_persistent := true; h_close := h_close st;
             h_db := retain (h_size st) coin seq (h_db st ++ [(seq, u)]); h_committed := h_committed st ++ [u];
             h_seq := seq; h_lastseq := seq; h_index := h_index st; h_subs := h_subs st; h_acked := h_acked st;
             h_events := h_events st; h_gauge := h_gauge st; h_subs_total := h_subs_total st;
             h_updates_total := h_updates_total st; h_size := h_size st |}
        else
          {| h_persistent := false; h_close := h_close st;
             h_db := h_db st; h_committed := h_committed st ++ [u];
             (* local transport: lastseq is ghost here - the number of updates dispatched so far, i.e. the position in the
                dispatch order at which a subscriber registers (the code keeps no such counter and nothing reads it) *)
             h_seq := h_seq st; h_lastseq := h_lastseq st + 1; h_index := h_index st; h_subs := h_subs st; h_acked := h_acked st;
             h_events := h_events st; h_gauge := h_gauge st; h_subs_total := h_subs_total st;
             h_updates_total := h_updates_total st; h_size := h_size st |} in
      (set_subs st1 (fan_out (h_subs st1) (h_index st1) u), PubOk).

  Definition ack (st : hstate) (u : N) : hstate :=
    {| h_persistent := h_persistent st; h_close := h_close st; h_db := h_db st;
       h_committed := h_committed st; h_seq := h_seq st; h_lastseq := h_lastseq st; h_index := h_index st; h_subs := h_subs st;
       h_acked := h_acked st ++ [u]; h_events := h_events st; h_gauge := h_gauge st; h_subs_total := h_subs_total st;
       h_updates_total := h_updates_total st + 1; h_size := h_size st |}.

  Definition set_index (st : hstate) (idx : list nat) : hstate :=
    {| h_persistent := h_persistent st; h_close := h_close st; h_db := h_db st;
       h_committed := h_committed st; h_seq := h_seq st; h_lastseq := h_lastseq st; h_index := idx; h_subs := h_subs st;
       h_acked := h_acked st; h_events := h_events st; h_gauge := h_gauge st; h_subs_total := h_subs_total st;
       h_updates_total := h_updates_total st; h_size := h_size st |}.

  Definition log_event (st : hstate) (i : nat) (active : bool) : hstate :=
    {| h_persistent := h_persistent st; h_close := h_close st; h_db := h_db st;
       h_committed := h_committed st; h_seq := h_seq st; h_lastseq := h_lastseq st; h_index := h_index st; h_subs := h_subs st;
       h_acked := h_acked st; h_events := h_events st ++ [(i, active)]; h_gauge := h_gauge st;
       h_subs_total := h_subs_total st; h_updates_total := h_updates_total st; h_size := h_size st |}.

  (* the id of the subscription event of subscriber i (publishers use ids below 2^40) *)
  Definition ev_id (i : nat) (active : bool) : N := 1099511627776 + 2 * N.of_nat i + (if active then 1 else 0).

  (* dispatchSubscriptionUpdate: a private update dispatched through the transport like any other
     (refused - and only logged - when the transport is closed); None = waits for the transport lock *)
  Definition add_event (st : hstate) (i : nat) (active coin : bool) : option hstate :=
    if negb tracking then Some st
    else if h_closed st then Some st
    else match publish st (ev_id i active) coin with
         | (st', PubOk) => Some (log_event st' i active)
         | (_, PubClosed) => Some st
         | (_, PubBlocked) => None
         end.

  Definition set_phase (st : hstate) (i : nat) (p : phase) : hstate :=
    match nth_error (h_subs st) i with Some s => set_sub st i (with_phase s p) | None => st end.

  Definition metrics (st : hstate) (dg : Z) (dt : N) : hstate :=
    {| h_persistent := h_persistent st; h_close := h_close st; h_db := h_db st;
       h_committed := h_committed st; h_seq := h_seq st; h_lastseq := h_lastseq st; h_index := h_index st; h_subs := h_subs st;
       h_acked := h_acked st; h_events := h_events st; h_gauge := (h_gauge st + dg)%Z;
       h_subs_total := h_subs_total st + dt; h_updates_total := h_updates_total st; h_size := h_size st |}.

  Definition set_close (st : hstate) (ph : nat) : hstate :=
    {| h_persistent := h_persistent st; h_close := ph; h_db := h_db st;
       h_committed := h_committed st; h_seq := h_seq st; h_lastseq := h_lastseq st; h_index := h_index st; h_subs := h_subs st;
       h_acked := h_acked st; h_events := h_events st; h_gauge := h_gauge st; h_subs_total := h_subs_total st;
       h_updates_total := h_updates_total st; h_size := h_size st |}.

  (* Close's critical section: disconnect every indexed subscriber *)
  Fixpoint disconnect_all (subs : list hsub) (idx : list nat) : list hsub :=
    match idx with
    | [] => subs
    | i :: idx' =>
        match nth_error subs i with
        | Some s => disconnect_all (upd_nth i (s_disconnect s) subs) idx'
        | None => disconnect_all subs idx'
        end
    end.

  (* ---- actions (a schedule is a list of actions; an action that is not enabled is a no-op) ---- *)
  Inductive action :=
  | APubCheck (t : nat)              (* publisher t: test the closed channel *)
  | APublish (t : nat) (coin : bool) (* publisher t: critical section for its next update *)
  | ASub (i : nat) (coin : bool)     (* subscriber i's handler: its next registration / shutdown step *)
  | ARecv (i : nat)                  (* subscriber i's handler loop: one receive *)
  | ALeave (i : nat)                 (* subscriber i's handler returns (client gone, write error, timer) *)
  | AClose                           (* Close: its next step *)
  | ACrash.                          (* the process dies and restarts: volatile state is lost *)

  (* publishers: remaining updates, whether the closed test passed for the next one, results *)
  Record publisher := { pb_todo : list N; pb_checked : bool; pb_results : list (N * bool) }.

  Record world := { w_st : hstate; w_pubs : list publisher }.

  Definition set_pub (w : world) (t : nat) (p : publisher) (st : hstate) : world :=
    {| w_st := st; w_pubs := upd_nth t p (w_pubs w) |}.

  (* one step of subscriber i's handler *)
  Definition sub_step (st : hstate) (i : nat) (s : hsub) (coin : bool) : option hstate :=
    match hs_phase s with
    | PNew => option_map (fun st1 => set_phase st1 i PAnnounced) (add_event st i true coin)
    | PAnnounced =>
        (* AddSubscriber: closed test, then the critical section: index + cut-off *)
        if h_closed st then option_map (fun st1 => set_phase st1 i PRefused) (add_event st i false coin)
        else
          let s1 := {| hs_req := hs_req s; hs_phase := PIndexed; hs_disc := hs_disc s; hs_ready := hs_ready s; hs_closed := hs_closed s;
                       hs_out := hs_out s; hs_liveq := hs_liveq s; hs_sent := hs_sent s; hs_recvd := hs_recvd s;
                       hs_cut := h_lastseq st; hs_resp := hs_resp s; hs_ended := hs_ended s |} in
          Some (set_sub (set_index st (h_index st ++ [i])) i s1)
    | PIndexed =>
        if h_persistent st then
          match hs_req s with
          | NoReq => Some (set_sub st i (with_phase s PHistDone))
          | Earliest =>
              if h_closed_done st then option_map (fun st1 => set_phase st1 i PRefused) (add_event st i false coin)   (* View on a closed db fails *)
              else Some (set_sub st i (with_phase s (PScan (h_db st) true None)))
          | ReqId _ =>
              if h_closed_done st then option_map (fun st1 => set_phase st1 i PRefused) (add_event st i false coin)
              else Some (set_sub st i (with_phase s (PScan (h_db st) false None)))
          end
        else
          match hs_req s with
          | NoReq => Some (set_sub st i (with_phase s PHistDone))
          | _ => Some (set_sub st i (with_phase {| hs_req := hs_req s; hs_phase := hs_phase s; hs_disc := hs_disc s; hs_ready := hs_ready s;
                         hs_closed := hs_closed s; hs_out := hs_out s; hs_liveq := hs_liveq s; hs_sent := hs_sent s; hs_recvd := hs_recvd s;
                         hs_cut := hs_cut s; hs_resp := Some None; hs_ended := hs_ended s |} PHistDone))
          end
    | PScan snap found resp =>
        match snap with
        | [] => Some (set_sub st i (with_phase {| hs_req := hs_req s; hs_phase := hs_phase s; hs_disc := hs_disc s; hs_ready := hs_ready s;
                         hs_closed := hs_closed s; hs_out := hs_out s; hs_liveq := hs_liveq s; hs_sent := hs_sent s; hs_recvd := hs_recvd s;
                         hs_cut := hs_cut s; hs_resp := Some resp; hs_ended := hs_ended s |} PHistDone))
        | (sq, id) :: snap' =>
            if negb found then
              Some (set_sub st i (with_phase s (PScan snap' (match hs_req s with ReqId r => N.eqb r id | _ => false end) (Some id))))
            else if N.ltb (hs_cut s) sq then
              (* stored after the registration: the live dispatch delivers it; the scan stops *)
              Some (set_sub st i (with_phase s (PScan [] found resp)))
            else if mt i id then
              let '(s', ok) := s_dispatch s id true in
              if ok then Some (set_sub st i (with_phase s' (PScan snap' found resp)))
              else Some (set_sub st i (with_phase s' (PScan [] found resp)))
            else Some (set_sub st i (with_phase s (PScan snap' found resp)))
        end
    | PHistDone =>
        (* Ready: take the mutexes; nothing to do if already disconnected *)
        if hs_disc s then Some (metrics (set_sub st i (with_phase s (PLive 0%nat))) 1 1)
        else Some (set_sub st i (with_phase s (PFlush (hs_liveq s))))
    | PFlush rest =>
        match rest with
        | [] => Some (metrics (set_sub st i (with_phase (s_set_ready s) (PLive 0%nat))) 1 1)
        | u :: rest' =>
            if Nat.ltb (length (hs_out s)) cap then Some (set_sub st i (with_phase (s_send s u) (PFlush rest')))
            else Some (metrics (set_sub st i (with_phase (s_cutoff s) (PLive 0%nat))) 1 1)
        end
    | PLive _ => None     (* driven by ARecv / ALeave below *)
    | PLeaving =>
        (* RemoveSubscriber: refused on a closed transport, else removed from the index *)
        if h_closed st then Some (set_sub st i (with_phase s PRemoved))
        else Some (set_sub (set_index st (filter (fun j => negb (Nat.eqb j i)) (h_index st))) i (with_phase s PRemoved))
    | PRemoved => option_map (fun st1 => metrics (set_phase st1 i PGone) (-1) 0) (add_event st i false coin)
    | PGone | PRefused => None
    end.

  (* the handler loop: receive one update / observe the end; or leave (client gone, write error, timer) *)
  Definition recv_step (st : hstate) (i : nat) (s : hsub) : option hstate :=
    match hs_phase s with
    | PLive _ =>
        match hs_out s with
        | u :: o =>
            Some (set_sub st i {| hs_req := hs_req s; hs_phase := hs_phase s; hs_disc := hs_disc s; hs_ready := hs_ready s; hs_closed := hs_closed s;
                                  hs_out := o; hs_liveq := hs_liveq s; hs_sent := hs_sent s; hs_recvd := hs_recvd s ++ [u];
                                  hs_cut := hs_cut s; hs_resp := hs_resp s; hs_ended := hs_ended s |})
        | [] =>
            if hs_closed s then
              (* end of stream: shutdown starts with Disconnect *)
              Some (set_sub st i (with_phase {| hs_req := hs_req s; hs_phase := hs_phase s; hs_disc := hs_disc s; hs_ready := hs_ready s;
                                  hs_closed := hs_closed s; hs_out := []; hs_liveq := hs_liveq s; hs_sent := hs_sent s; hs_recvd := hs_recvd s;
                                  hs_cut := hs_cut s; hs_resp := hs_resp s; hs_ended := true |} PLeaving))
            else None
        end
    | _ => None
    end.

  Definition leave_step (st : hstate) (i : nat) (s : hsub) : option hstate :=
    match hs_phase s with
    | PLive _ => Some (set_sub st i (with_phase (s_disconnect s) PLeaving))
    | _ => None
    end.

  (* Close, step by step *)
  Definition close_step (st : hstate) : option hstate :=
    match h_close st with
    | O => Some (set_close st 1%nat)
    | 1%nat =>
        (* take the transport lock, disconnect every indexed subscriber (waits for a flush in progress: it holds outMutex) *)
        if existsb (fun i => match nth_error (h_subs st) i with Some s => flushing s | None => false end) (h_index st) then None
        else Some (set_close (set_subs st (disconnect_all (h_subs st) (h_index st))) 2%nat)
    | 2%nat =>
        (* bolt: db.Close waits for the open read transactions (history scans) *)
        if h_persistent st && existsb (fun s => match hs_phase s with PScan _ _ _ => true | _ => false end) (h_subs st) then None
        else Some (set_close st 3%nat)
    | _ => None
    end.

  (* a crash: every thread vanishes; the database (entries, bucket sequence) survives; lastSeq is reloaded from
     the last key; subscribers and publishers of the old process are gone *)
  Definition crash (st : hstate) : hstate :=
    {| h_persistent := h_persistent st; h_close := 0%nat;
       h_db := if h_persistent st then h_db st else [];
       h_committed := h_committed st; h_seq := if h_persistent st then h_seq st else 0;
       h_lastseq := if h_persistent st then last (map fst (h_db st)) 0 else N.of_nat (length (h_committed st));   (* ghost for the local transport *)
       h_index := [];
       h_subs := map (fun s => match hs_phase s with PNew | PRefused => s | _ => with_phase s PGone end) (h_subs st);
       h_acked := h_acked st; h_events := h_events st; h_gauge := 0; h_subs_total := 0; h_updates_total := 0; h_size := h_size st |}.

  Definition wstep (w : world) (a : action) : world :=
    let st := w_st w in
    match a with
    | APubCheck t =>
        match nth_error (w_pubs w) t with
        | Some p =>
            match pb_todo p, pb_checked p with
            | u :: todo, false =>
                if h_closed st then set_pub w t {| pb_todo := todo; pb_checked := false; pb_results := pb_results p ++ [(u, false)] |} st
                else set_pub w t {| pb_todo := pb_todo p; pb_checked := true; pb_results := pb_results p |} st
            | _, _ => w
            end
        | None => w
        end
    | APublish t coin =>
        match nth_error (w_pubs w) t with
        | Some p =>
            match pb_todo p, pb_checked p with
            | u :: todo, true =>
                match publish st u coin with
                | (st', PubOk) => set_pub w t {| pb_todo := todo; pb_checked := false; pb_results := pb_results p ++ [(u, true)] |} (ack st' u)
                | (_, PubClosed) => set_pub w t {| pb_todo := todo; pb_checked := false; pb_results := pb_results p ++ [(u, false)] |} st
                | (_, PubBlocked) => w
                end
            | _, _ => w
            end
        | None => w
        end
    | ASub i coin =>
        match nth_error (h_subs st) i with
        | Some s => match sub_step st i s coin with Some st' => {| w_st := st'; w_pubs := w_pubs w |} | None => w end
        | None => w
        end
    | ARecv i =>
        match nth_error (h_subs st) i with
        | Some s => match recv_step st i s with Some st' => {| w_st := st'; w_pubs := w_pubs w |} | None => w end
        | None => w
        end
    | ALeave i =>
        match nth_error (h_subs st) i with
        | Some s => match leave_step st i s with Some st' => {| w_st := st'; w_pubs := w_pubs w |} | None => w end
        | None => w
        end
    | AClose => match close_step st with Some st' => {| w_st := st'; w_pubs := w_pubs w |} | None => w end
    | ACrash =>
        (* a request in flight dies with the process; requests not yet made go to the new process *)
        {| w_st := crash st;
           w_pubs := map (fun p => if pb_checked p
                                   then match pb_todo p with
                                        | u :: todo => {| pb_todo := todo; pb_checked := false; pb_results := pb_results p ++ [(u, false)] |}
                                        | [] => p
                                        end
                                   else p) (w_pubs w) |}
    end.

  Definition wrun (w : world) (sched : list action) : world := fold_left wstep sched w.

  Definition new_sub (r : req) : hsub :=
    {| hs_req := r; hs_phase := PNew; hs_disc := false; hs_ready := false; hs_closed := false; hs_out := []; hs_liveq := [];
       hs_sent := []; hs_recvd := []; hs_cut := 0; hs_resp := None; hs_ended := false |}.

  Definition winit (persistent : bool) (size : N) (reqs : list req) (pubs : list (list N)) : world :=
    {| w_st := {| h_persistent := persistent; h_close := 0%nat; h_db := []; h_committed := []; h_seq := 0; h_lastseq := 0;
                  h_index := []; h_subs := map new_sub reqs; h_acked := []; h_events := []; h_gauge := 0;
                  h_subs_total := 0; h_updates_total := 0; h_size := size |};
       w_pubs := map (fun us => {| pb_todo := us; pb_checked := false; pb_results := [] |}) pubs |}.
End H.
