// Package coqemit prints Go values as Gallina terms for the case files that
// coqc evaluates (strings are lists of byte values in N).
package coqemit

import (
	"fmt"
	"strings"
)

func Str(s string) string {
	if len(s) == 0 {
		return "[]"
	}
	var b strings.Builder
	b.Grow(len(s)*4 + 2)
	b.WriteByte('[')
	for i := 0; i < len(s); i++ {
		if i > 0 {
			b.WriteByte(';')
		}
		fmt.Fprintf(&b, "%d", s[i])
	}
	b.WriteByte(']')
	return b.String()
}

func Strs(l []string) string {
	parts := make([]string, len(l))
	for i, s := range l {
		parts[i] = Str(s)
	}
	return List(parts)
}

func List(parts []string) string {
	if len(parts) == 0 {
		return "[]"
	}
	return "[" + strings.Join(parts, "; ") + "]"
}

func Bool(b bool) string {
	if b {
		return "true"
	}
	return "false"
}

func N(n uint64) string { return fmt.Sprintf("%d", n) }

func Nat(n int) string { return fmt.Sprintf("%d%%nat", n) }

func OptStr(s *string) string {
	if s == nil {
		return "None"
	}
	return "(Some " + Str(*s) + ")"
}

func OptStrs(s []string, present bool) string {
	if !present {
		return "None"
	}
	return "(Some " + Strs(s) + ")"
}

func Some(t string) string { return "(Some " + t + ")" }

func Pair(a, b string) string { return "(" + a + ", " + b + ")" }

func App(f string, args ...string) string {
	return "(" + f + " " + strings.Join(args, " ") + ")"
}
