package hx

import (
	"regexp"
	"sort"

	"github.com/yosida95/uritemplate/v3"

	ce "verifh/coqemit"
)

// TemplateTable evaluates the URI-template library afresh (never through
// mercure's store): for every selector that parses as a template, the topics
// (among the given ones) its regexp matches. Emitted as a Gallina tm_table.
func TemplateTable(selectors, topics []string) string {
	sels := uniq(selectors)
	tops := uniq(topics)
	var rows []string
	for _, sel := range sels {
		tpl, err := uritemplate.New(sel)
		if err != nil {
			continue
		}
		re := SafeRegexp(tpl)
		if re == nil {
			continue
		}
		var m []string
		for _, t := range tops {
			if re.MatchString(t) {
				m = append(m, t)
			}
		}
		rows = append(rows, ce.Pair(ce.Str(sel), ce.Strs(m)))
	}
	return ce.List(rows)
}

// OracleMatch is the protocol's rule evaluated afresh.
func OracleMatch(topic, sel string) bool {
	if sel == "*" || topic == sel {
		return true
	}
	tpl, err := uritemplate.New(sel)
	if err != nil {
		return false
	}
	re := SafeRegexp(tpl)
	return re != nil && re.MatchString(topic)
}

// SafeRegexp is nil when the expression generated from the template does not compile (the library panics).
func SafeRegexp(tpl *uritemplate.Template) (re *regexp.Regexp) {
	defer func() {
		if recover() != nil {
			re = nil
		}
	}()
	return tpl.Regexp()
}

func uniq(l []string) []string {
	m := map[string]bool{}
	var r []string
	for _, s := range l {
		if !m[s] {
			m[s] = true
			r = append(r, s)
		}
	}
	sort.Strings(r)
	return r
}
