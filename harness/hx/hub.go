package hx

import (
	"fmt"
	"os"
	"path/filepath"
	"sync/atomic"

	"github.com/dunglas/mercure"
	"go.uber.org/zap"
)

var workCounter int64

// WorkDir returns a scratch directory (removed by the caller).
func WorkDir() string {
	base := os.Getenv("VERIF_WORK")
	if base == "" {
		if st, err := os.Stat("/dev/shm"); err == nil && st.IsDir() {
			base = "/dev/shm"
		} else {
			base = os.TempDir()
		}
	}
	d, err := os.MkdirTemp(base, "verifh-")
	if err != nil {
		panic(err)
	}
	return d
}

// Env is a hub on one of the two transports, with its scratch files.
type Env struct {
	Hub       *mercure.Hub
	Transport mercure.Transport
	Kind      string // "local" | "bolt"
	Dir       string
	DBPath    string
}

var Logger = zap.NewNop()

// NewTransport creates a transport of the given kind; bolt files live in dir.
func NewTransport(kind, dir string, size uint64, freq float64) (mercure.Transport, string) {
	switch kind {
	case "local":
		return mercure.NewLocalTransport(), ""
	case "bolt":
		p := filepath.Join(dir, fmt.Sprintf("h%d.db", atomic.AddInt64(&workCounter, 1)))
		t, err := mercure.NewBoltTransport(Logger, p, "", size, freq)
		if err != nil {
			panic(err)
		}
		return t, p
	}
	panic("unknown transport " + kind)
}

// NewEnv builds a hub; opts come after the defaults (no heartbeat, no timeouts,
// HS256 keys for both roles).
func NewEnv(kind string, opts ...mercure.Option) *Env {
	dir := WorkDir()
	t, p := NewTransport(kind, dir, 0, 1)
	return NewEnvWith(kind, dir, p, t, opts...)
}

func NewEnvWith(kind, dir, dbpath string, t mercure.Transport, opts ...mercure.Option) *Env {
	all := []mercure.Option{
		mercure.WithLogger(Logger),
		mercure.WithTransport(t),
		mercure.WithHeartbeat(0),
		mercure.WithWriteTimeout(0),
		mercure.WithDispatchTimeout(0),
		mercure.WithPublisherJWT([]byte(HSKey), "HS256"),
		mercure.WithSubscriberJWT([]byte(HSKey), "HS256"),
	}
	all = append(all, opts...)
	h, err := mercure.NewHub(all...)
	if err != nil {
		panic(err)
	}
	return &Env{Hub: h, Transport: t, Kind: kind, Dir: dir, DBPath: dbpath}
}

func (e *Env) Close() {
	_ = e.Hub.Stop()
	if e.Dir != "" {
		_ = os.RemoveAll(e.Dir)
	}
}
