package hx

import (
	"math/rand"
	"net/http"
	"net/http/httptest"
	"net/url"
	"strings"

	"github.com/golang-jwt/jwt/v5"
)

// Rng is the single PRNG every random choice of a run derives from.
type Rng struct{ *rand.Rand }

func NewRng(seed int64) *Rng { return &Rng{rand.New(rand.NewSource(seed))} }

func (r *Rng) Pick(l []string) string { return l[r.Intn(len(l))] }

func (r *Rng) Chance(p float64) bool { return r.Float64() < p }

// StringFrom builds a string of 0..maxLen pieces drawn from alphabet.
func (r *Rng) StringFrom(alphabet []string, maxLen int) string {
	n := r.Intn(maxLen + 1)
	var b strings.Builder
	for i := 0; i < n; i++ {
		b.WriteString(alphabet[r.Intn(len(alphabet))])
	}
	return b.String()
}

const HSKey = "!ChangeThisMercureHubJWTSecretKey!"

// MercureClaims builds the "mercure" claim. nil slices are omitted keys.
func Token(key []byte, method jwt.SigningMethod, mercure map[string]any, extra map[string]any) string {
	c := jwt.MapClaims{}
	if mercure != nil {
		c["mercure"] = mercure
	}
	for k, v := range extra {
		c[k] = v
	}
	t := jwt.NewWithClaims(method, c)
	s, err := t.SignedString(key)
	if err != nil {
		panic(err)
	}
	return s
}

func HSToken(mercure map[string]any) string {
	return Token([]byte(HSKey), jwt.SigningMethodHS256, mercure, nil)
}

// Post sends a form-encoded publish request and returns status and body.
func Post(h http.Handler, form url.Values, hdr http.Header) (int, string) {
	r := httptest.NewRequest(http.MethodPost, "/.well-known/mercure", strings.NewReader(form.Encode()))
	r.Header.Set("Content-Type", "application/x-www-form-urlencoded")
	for k, v := range hdr {
		r.Header[k] = v
	}
	w := httptest.NewRecorder()
	h.ServeHTTP(w, r)
	return w.Code, w.Body.String()
}
