package hx

import (
	"github.com/dunglas/mercure"
)

// RetainedUpdates returns every update in the history of t, in history order, observed through the
// public API: a subscriber asking for "earliest". Only valid while fewer than 1000 updates are retained.
func RetainedUpdates(t mercure.Transport) []*mercure.Update {
	s := mercure.NewLocalSubscriber(mercure.EarliestLastEventID, Logger, &mercure.TopicSelectorStore{})
	s.SetTopics([]string{"*"}, []string{"*"})
	if err := t.AddSubscriber(s); err != nil {
		panic(err)
	}
	var us []*mercure.Update
	for {
		select {
		case u, ok := <-s.Receive():
			if !ok {
				return us
			}
			us = append(us, u)
		default:
			_ = t.RemoveSubscriber(s)
			return us
		}
	}
}

// Retained returns the ids of every update in the history of t, in history order.
func Retained(t mercure.Transport) []string {
	var ids []string
	for _, u := range RetainedUpdates(t) {
		ids = append(ids, u.ID)
	}
	return ids
}
