package hx

import (
	"github.com/dunglas/mercure"
)

// Retained returns the ids of every update in the history of t, in history
// order, observed through the public API: a subscriber asking for "earliest".
// Only valid while fewer than 1000 updates are retained.
func Retained(t mercure.Transport) []string {
	s := mercure.NewLocalSubscriber(mercure.EarliestLastEventID, Logger, &mercure.TopicSelectorStore{})
	s.SetTopics([]string{"*"}, []string{"*"})
	if err := t.AddSubscriber(s); err != nil {
		panic(err)
	}
	var ids []string
	for {
		select {
		case u, ok := <-s.Receive():
			if !ok {
				return ids
			}
			ids = append(ids, u.ID)
		default:
			_ = t.RemoveSubscriber(s)
			return ids
		}
	}
}
