package hx

import (
	"encoding/json"
	"os"
	"time"

	"github.com/dunglas/mercure"
	bolt "go.etcd.io/bbolt"
)

// RetainedUpdates returns every update in the history of t, in history order, observed through the
// public API: a subscriber asking for "earliest". Only valid while fewer than 1000 updates are retained.
func RetainedUpdates(t mercure.Transport) []*mercure.Update {
	s := mercure.NewLocalSubscriber(mercure.EarliestLastEventID, Logger, &mercure.TopicSelectorStore{})
	s.SetTopics([]string{"*"}, []string{"*"})
	if err := t.AddSubscriber(s); err != nil {
		panic(err)
	}
	var us []*mercure.Update
	for {
		select {
		case u, ok := <-s.Receive():
			if !ok {
				return us
			}
			us = append(us, u)
		default:
			_ = t.RemoveSubscriber(s)
			return us
		}
	}
}

// Retained returns the ids of every update in the history of t, in history order.
func Retained(t mercure.Transport) []string {
	var ids []string
	for _, u := range RetainedUpdates(t) {
		ids = append(ids, u.ID)
	}
	return ids
}

// BoltIDs reads the ids stored in a (closed) history file directly with bbolt, in key order.
func BoltIDs(path string) ([]string, error) {
	db, err := bolt.Open(path, 0o600, &bolt.Options{ReadOnly: true, Timeout: time.Second})
	if err != nil {
		return nil, err
	}
	defer db.Close()
	var ids []string
	err = db.View(func(tx *bolt.Tx) error {
		b := tx.Bucket([]byte("updates"))
		if b == nil {
			return nil
		}
		return b.ForEach(func(k, _ []byte) error {
			if len(k) >= 8 {
				ids = append(ids, string(k[8:]))
			}
			return nil
		})
	})
	return ids, err
}

// StoredUpdate is what the history file holds for one update.
type StoredUpdate struct {
	ID   string
	Data string
}

// BoltUpdates reads a (closed) history file directly with bbolt, in key order.
func BoltUpdates(path string) ([]StoredUpdate, error) {
	db, err := bolt.Open(path, 0o600, &bolt.Options{ReadOnly: true, Timeout: time.Second})
	if err != nil {
		return nil, err
	}
	defer db.Close()
	var us []StoredUpdate
	err = db.View(func(tx *bolt.Tx) error {
		b := tx.Bucket([]byte("updates"))
		if b == nil {
			return nil
		}
		return b.ForEach(func(k, v []byte) error {
			var u struct {
				ID   string
				Data string
			}
			if err := json.Unmarshal(v, &u); err != nil {
				return err
			}
			us = append(us, StoredUpdate{ID: u.ID, Data: u.Data})
			return nil
		})
	})
	return us, err
}

// BoltIDsOfCopy copies the (open, quiescent) history file and reads the ids of the copy directly with bbolt.
func BoltIDsOfCopy(path string) ([]string, error) {
	b, err := os.ReadFile(path)
	if err != nil {
		return nil, err
	}
	cp := path + ".copy"
	if err := os.WriteFile(cp, b, 0o600); err != nil {
		return nil, err
	}
	defer os.Remove(cp)
	return BoltIDs(cp)
}

// BoltNestedBucketAtZero creates a history file whose updates bucket holds, under sequence number 0, a nested bucket:
// a key that Bucket.Delete refuses (ErrIncompatibleValue), so that the first history trimming fails.
func BoltNestedBucketAtZero(path string) error {
	db, err := bolt.Open(path, 0o600, &bolt.Options{Timeout: time.Second})
	if err != nil {
		return err
	}
	defer db.Close()
	return db.Update(func(tx *bolt.Tx) error {
		b, err := tx.CreateBucketIfNotExists([]byte("updates"))
		if err != nil {
			return err
		}
		_, err = b.CreateBucket(append(make([]byte, 8), 'x'))
		return err
	})
}
