package hx

import (
	"bytes"
	"context"
	"errors"
	"net/http"
	"net/http/httptest"
	"sync"
	"time"
)

// Writer is an http.ResponseWriter that supports Flush and SetWriteDeadline
// (the subscribe handler needs both), records everything and can inject
// write / flush errors at a chosen write index.
type Writer struct {
	mu        sync.Mutex
	hdr       http.Header
	Status    int
	buf       bytes.Buffer
	Writes    int
	WriteAt   []time.Time
	Deadlines []time.Time
	FailWrite int // 1-based index of the Write that fails; 0 = never
	FailFlush int // 1-based index of the Flush that fails; 0 = never
	Flushes   int
	cond      *sync.Cond
	gated     bool        // while gated, Write blocks: a client that stopped reading
	Sent      http.Header // snapshot of headers at first write
}

func NewWriter() *Writer {
	w := &Writer{hdr: http.Header{}}
	w.cond = sync.NewCond(&w.mu)
	return w
}

func (w *Writer) Header() http.Header { return w.hdr }

func (w *Writer) WriteHeader(code int) {
	w.mu.Lock()
	defer w.mu.Unlock()
	if w.Status == 0 {
		w.Status = code
		w.Sent = w.hdr.Clone()
	}
}

var ErrInjected = errors.New("injected write error")

// Gate makes the following Write calls block (on) or releases them (off).
func (w *Writer) Gate(on bool) {
	w.mu.Lock()
	w.gated = on
	w.cond.Broadcast()
	w.mu.Unlock()
}

func (w *Writer) Write(b []byte) (int, error) {
	w.mu.Lock()
	defer w.mu.Unlock()
	for w.gated {
		w.cond.Wait()
	}
	if w.Status == 0 {
		w.Status = 200
		w.Sent = w.hdr.Clone()
	}
	w.Writes++
	w.WriteAt = append(w.WriteAt, time.Now())
	if w.FailWrite != 0 && w.Writes >= w.FailWrite {
		w.cond.Broadcast()
		return 0, ErrInjected
	}
	w.buf.Write(b)
	w.cond.Broadcast()
	return len(b), nil
}

func (w *Writer) FlushError() error {
	w.mu.Lock()
	defer w.mu.Unlock()
	w.Flushes++
	if w.FailFlush != 0 && w.Flushes >= w.FailFlush {
		return ErrInjected
	}
	return nil
}

func (w *Writer) Flush() { _ = w.FlushError() }

func (w *Writer) SetWriteDeadline(t time.Time) error {
	w.mu.Lock()
	defer w.mu.Unlock()
	w.Deadlines = append(w.Deadlines, t)
	return nil
}

func (w *Writer) Body() string {
	w.mu.Lock()
	defer w.mu.Unlock()
	return w.buf.String()
}

func (w *Writer) NumWrites() int {
	w.mu.Lock()
	defer w.mu.Unlock()
	return w.Writes
}

// WaitWrites blocks until at least n writes happened or the timeout elapses.
func (w *Writer) WaitWrites(n int, d time.Duration) bool {
	deadline := time.Now().Add(d)
	t := time.AfterFunc(d, func() { w.mu.Lock(); w.cond.Broadcast(); w.mu.Unlock() })
	defer t.Stop()
	w.mu.Lock()
	defer w.mu.Unlock()
	for w.Writes < n {
		if time.Now().After(deadline) {
			return false
		}
		w.cond.Wait()
	}
	return true
}

// Stream is one running subscribe request.
type Stream struct {
	W      *Writer
	Cancel context.CancelFunc
	Done   chan struct{}
	Panic  any
}

// Subscribe starts handler(w, GET target) in its own goroutine.
func Subscribe(h http.Handler, target string, hdr http.Header) *Stream {
	return SubscribeW(h, target, hdr, NewWriter())
}

func SubscribeW(h http.Handler, target string, hdr http.Header, w *Writer) *Stream {
	ctx, cancel := context.WithCancel(context.Background())
	r := httptest.NewRequest(http.MethodGet, target, nil).WithContext(ctx)
	for k, v := range hdr {
		r.Header[k] = v
	}
	s := &Stream{W: w, Cancel: cancel, Done: make(chan struct{})}
	go func() {
		defer close(s.Done)
		defer func() {
			if p := recover(); p != nil {
				s.Panic = p
			}
		}()
		h.ServeHTTP(w, r)
	}()
	return s
}

// SubscribeReq starts handler(w, r) in its own goroutine; r gets a cancellable context.
func SubscribeReq(h http.Handler, r *http.Request, w *Writer) *Stream {
	ctx, cancel := context.WithCancel(context.Background())
	r = r.WithContext(ctx)
	s := &Stream{W: w, Cancel: cancel, Done: make(chan struct{})}
	go func() {
		defer close(s.Done)
		defer func() {
			if p := recover(); p != nil {
				s.Panic = p
			}
		}()
		h.ServeHTTP(w, r)
	}()
	return s
}

// Finished reports whether the handler returned within d.
func (s *Stream) Finished(d time.Duration) bool {
	select {
	case <-s.Done:
		return true
	default:
	}
	if d <= 0 {
		return false
	}
	select {
	case <-s.Done:
		return true
	case <-time.After(d):
		return false
	}
}

// Close cancels the request and waits for the handler.
func (s *Stream) Close() bool {
	s.Cancel()
	return s.Finished(5 * time.Second)
}
