// Package hx holds what the per-property drivers share: the case-file writer,
// a purpose-built http.ResponseWriter, stream helpers, token helpers.
package hx

import (
	"crypto/sha256"
	"encoding/hex"
	"encoding/json"
	"fmt"
	"os"
	"path/filepath"
	"sort"
	"strings"
)

// Out collects cases and writes them as Coq files (shards) plus meta.json.
type Out struct {
	Dir       string
	Imports   string // e.g. "Sse"
	CaseType  string // Gallina type of one case
	AgreeFn   string // case -> bool : model output == implementation output
	SpecFn    string // case -> bool : spec predicate on the implementation output
	ShardSize int
	Prelude   string // Gallina definitions the case terms refer to, emitted before them in every shard

	terms      []string
	descs      []any
	dist       map[string]int
	distinct   map[string]bool
	nontrivial map[string]bool
	Extra      map[string]any
}

func NewOut(dir, imports, caseType, agreeFn, specFn string) *Out {
	return &Out{Dir: dir, Imports: imports, CaseType: caseType, AgreeFn: agreeFn, SpecFn: specFn,
		ShardSize: 250, dist: map[string]int{}, distinct: map[string]bool{}, nontrivial: map[string]bool{}, Extra: map[string]any{}}
}

// Add records one case. nontrivial says whether the case reaches the
// property's interesting branch (rule stated by the driver); tags feed the
// input-distribution histogram.
func (o *Out) Add(term string, desc any, nontrivial bool, tags ...string) {
	o.terms = append(o.terms, term)
	o.descs = append(o.descs, desc)
	h := sha256.Sum256([]byte(term))
	k := hex.EncodeToString(h[:8])
	o.distinct[k] = true
	if nontrivial {
		o.nontrivial[k] = true
	}
	for _, t := range tags {
		o.dist[t]++
	}
}

func (o *Out) Len() int { return len(o.terms) }

func (o *Out) Tag(t string) { o.dist[t]++ }

func (o *Out) Flush() error {
	if err := os.MkdirAll(o.Dir, 0o755); err != nil {
		return err
	}
	nsh := 0
	for start := 0; start < len(o.terms); start += o.ShardSize {
		end := start + o.ShardSize
		if end > len(o.terms) {
			end = len(o.terms)
		}
		var b strings.Builder
		fmt.Fprintf(&b, "From Mercure Require Import %s.\nOpen Scope N_scope.\n", o.Imports)
		b.WriteString(o.Prelude)
		fmt.Fprintf(&b, "Definition cases : list (%s) := [\n", o.CaseType)
		for i := start; i < end; i++ {
			b.WriteString("  ")
			b.WriteString(o.terms[i])
			if i+1 < end {
				b.WriteString(";")
			}
			b.WriteString("\n")
		}
		b.WriteString("].\n")
		fmt.Fprintf(&b, "Definition R_model := Eval vm_compute in failing %s cases.\n", o.AgreeFn)
		fmt.Fprintf(&b, "Definition R_spec := Eval vm_compute in failing %s cases.\n", o.SpecFn)
		b.WriteString("Print R_model.\nPrint R_spec.\n")
		if err := os.WriteFile(filepath.Join(o.Dir, fmt.Sprintf("cases_%04d.v", nsh)), []byte(b.String()), 0o644); err != nil {
			return err
		}
		nsh++
	}
	keys := make([]string, 0, len(o.dist))
	for k := range o.dist {
		keys = append(keys, k)
	}
	sort.Strings(keys)
	meta := map[string]any{
		"evaluations":         len(o.terms),
		"distinct":            len(o.distinct),
		"distinct_nontrivial": len(o.nontrivial),
		"distribution":        o.dist,
		"shards":              nsh,
		"shard_size":          o.ShardSize,
		"descs":               o.descs,
	}
	for k, v := range o.Extra {
		meta[k] = v
	}
	j, err := json.Marshal(meta)
	if err != nil {
		return err
	}
	return os.WriteFile(filepath.Join(o.Dir, "meta.json"), j, 0o644)
}
