// verifr: unsteered stress of the public transport and handler API, built with -race.
// The race detector reports unsynchronised accesses (exit status 66); panics and hangs are reported too.
// usage: verifr -seed N -dur 5s
package main

import (
	"flag"
	"fmt"
	"math/rand"
	"os"
	"sync"
	"sync/atomic"
	"time"

	"github.com/dunglas/mercure"

	"verifh/hx"
)

func stress(kind string, seed int64, dur time.Duration) (ops int64, err error) {
	dir := hx.WorkDir()
	defer os.RemoveAll(dir)
	t, _ := hx.NewTransport(kind, dir, 5, 0.5)
	tss, _ := mercure.NewTopicSelectorStoreLRU(100, 4)
	var wg sync.WaitGroup
	stop := make(chan struct{})
	var n int64
	var panicked atomic.Value
	guard := func(f func(r *rand.Rand)) {
		wg.Add(1)
		go func(id int64) {
			defer wg.Done()
			defer func() {
				if p := recover(); p != nil {
					panicked.Store(fmt.Sprint(p))
				}
			}()
			r := rand.New(rand.NewSource(seed + id))
			for {
				select {
				case <-stop:
					return
				default:
				}
				f(r)
				atomic.AddInt64(&n, 1)
			}
		}(int64(wg_counter()))
	}
	topics := []string{"a", "b", "https://example.com/{id}", "*"}
	for p := 0; p < 3; p++ {
		guard(func(r *rand.Rand) {
			_ = t.Dispatch(&mercure.Update{Topics: []string{[]string{"a", "b", "https://example.com/1"}[r.Intn(3)]}, Private: r.Intn(4) == 0, Event: mercure.Event{Data: "d"}})
		})
	}
	for s := 0; s < 4; s++ {
		guard(func(r *rand.Rand) {
			req := []string{"", "", mercure.EarliestLastEventID, "unknown"}[r.Intn(4)]
			sub := mercure.NewLocalSubscriber(req, hx.Logger, tss)
			sub.SetTopics([]string{topics[r.Intn(len(topics))]}, []string{topics[r.Intn(len(topics))]})
			if err := t.AddSubscriber(sub); err != nil {
				return
			}
			for k := r.Intn(4); k > 0; k-- {
				select {
				case <-sub.Receive():
				default:
				}
			}
			if r.Intn(3) == 0 {
				go sub.Disconnect() // the hub side and the client side may both end it
			}
			sub.Disconnect()
			_ = t.RemoveSubscriber(sub)
		})
	}
	guard(func(r *rand.Rand) {
		if ts, ok := t.(mercure.TransportSubscribers); ok {
			_, _, _ = ts.GetSubscribers()
		}
		time.Sleep(50 * time.Microsecond)
	})
	time.Sleep(dur)
	// closing races with everything that is in flight
	closed := make(chan struct{})
	go func() { _ = t.Close(); _ = t.Close(); close(closed) }()
	time.Sleep(dur / 10)
	close(stop)
	done := make(chan struct{})
	go func() { wg.Wait(); close(done) }()
	select {
	case <-done:
	case <-time.After(20 * time.Second):
		return n, fmt.Errorf("HANG: operations did not complete within 20s after close on %s", kind)
	}
	select {
	case <-closed:
	case <-time.After(20 * time.Second):
		return n, fmt.Errorf("HANG: Close did not return on %s", kind)
	}
	if p := panicked.Load(); p != nil {
		return n, fmt.Errorf("PANIC on %s: %v", kind, p)
	}
	return n, nil
}

var wgc int64

func wg_counter() int { return int(atomic.AddInt64(&wgc, 1)) }

func main() {
	seed := flag.Int64("seed", 1, "seed")
	dur := flag.Duration("dur", 3*time.Second, "duration per transport")
	flag.Parse()
	rc := 0
	for _, kind := range []string{"local", "bolt"} {
		n, err := stress(kind, *seed, *dur)
		fmt.Printf("STRESS %s ops=%d\n", kind, n)
		if err != nil {
			fmt.Println(err)
			rc = 3
		}
	}
	os.Exit(rc)
}
