package main

import (
	"fmt"
	"math/rand"
	"os"
	"sort"
	"strings"
	"time"

	"github.com/dunglas/mercure"
)

// Run is one controlled execution of a scenario.
type RunResult struct {
	Outcome   string
	Choices   []int    // chosen goroutine at each decision
	EnabledAt [][]int  // enabled goroutines at each decision
	Labels    []string // where the chosen goroutine was
	Deadlock  bool
	Panics    []string
	Steps     int
}

// Scenario builds fresh state and returns the goroutine bodies plus a function that reads the outcome.
type Scenario func() (threads []func(), collect func(deadlock bool, panics []string) string)

const maxSteps = 20000

// execute runs the scenario following prefix, then the default policy (stay on the current goroutine,
// else the lowest enabled one), or random choices when rng != nil.
func execute(sc Scenario, prefix []int, rng *rand.Rand) *RunResult {
	threads, collect := sc()
	vs := mercure.VSchedNew()
	vs.Watchdog = 30 * time.Millisecond
	for _, fn := range threads {
		vs.Go(fn)
	}
	res := &RunResult{}
	cur := -1
	disabled := map[int]bool{}
	for res.Steps < maxSteps {
		enabled := []int{}
		for _, id := range vs.Enabled() {
			if !disabled[id] {
				enabled = append(enabled, id)
			}
		}
		if len(enabled) == 0 {
			notDone, stuck := vs.Live()
			if notDone == 0 {
				break
			}
			if stuck > 0 {
				vs.WaitStuck(200 * time.Millisecond)
				if len(vs.Enabled()) > 0 {
					disabled = map[int]bool{}
					continue
				}
			}
			res.Deadlock = true
			break
		}
		var choice int
		k := len(res.Choices)
		switch {
		case k < len(prefix) && contains(enabled, prefix[k]):
			choice = prefix[k]
		case rng != nil:
			choice = enabled[rng.Intn(len(enabled))]
		case contains(enabled, cur):
			choice = cur
		default:
			choice = enabled[0]
		}
		res.Choices = append(res.Choices, choice)
		res.EnabledAt = append(res.EnabledAt, enabled)
		res.Labels = append(res.Labels, vs.Label(choice))
		progressed := vs.Step(choice)
		res.Steps++
		if progressed {
			disabled = map[int]bool{}
		} else {
			disabled[choice] = true
		}
		cur = choice
	}
	for i := range threads {
		if p := vs.PanicOf(i); p != nil {
			res.Panics = append(res.Panics, fmt.Sprint(p))
			if os.Getenv("VERIF_DEBUG") != "" {
				fmt.Fprintln(os.Stderr, "PANIC in goroutine", i, p, vs.PanicStackOf(i))
			}
		}
	}
	vs.Stop()
	sort.Strings(res.Panics)
	res.Outcome = collect(res.Deadlock, res.Panics)
	return res
}

func contains(l []int, x int) bool {
	for _, y := range l {
		if y == x {
			return true
		}
	}
	return false
}

func preemptions(choices []int, enabledAt [][]int) int {
	n := 0
	for k := 1; k < len(choices); k++ {
		if choices[k] != choices[k-1] && contains(enabledAt[k], choices[k-1]) {
			n++
		}
	}
	return n
}

// Exploration collects distinct outcomes with one witness schedule each.
type Exploration struct {
	Outcomes  map[string]*RunResult
	Schedules int
	Exhausted bool // the bounded space was enumerated completely
}

// explore enumerates every schedule with at most `bound` preemptions (up to maxRuns executions),
// then adds `random` uniformly random schedules.
func explore(sc Scenario, bound, maxRuns, random int, seed int64) *Exploration {
	ex := &Exploration{Outcomes: map[string]*RunResult{}}
	record := func(r *RunResult) {
		ex.Schedules++
		if _, ok := ex.Outcomes[r.Outcome]; !ok {
			ex.Outcomes[r.Outcome] = r
		}
	}
	type item struct{ prefix []int }
	stack := []item{{nil}}
	seen := map[string]bool{}
	ex.Exhausted = true
	for len(stack) > 0 {
		if ex.Schedules >= maxRuns {
			ex.Exhausted = false
			break
		}
		it := stack[len(stack)-1]
		stack = stack[:len(stack)-1]
		r := execute(sc, it.prefix, nil)
		record(r)
		// children: deviate at every decision point after the prefix
		for k := len(it.prefix); k < len(r.Choices); k++ {
			for _, alt := range r.EnabledAt[k] {
				if alt == r.Choices[k] {
					continue
				}
				np := append(append([]int{}, r.Choices[:k]...), alt)
				en := append(append([][]int{}, r.EnabledAt[:k]...), r.EnabledAt[k])
				if preemptions(np, en) > bound {
					continue
				}
				key := fmt.Sprint(np)
				if seen[key] {
					continue
				}
				seen[key] = true
				stack = append(stack, item{np})
			}
		}
	}
	rng := rand.New(rand.NewSource(seed))
	for i := 0; i < random; i++ {
		record(execute(sc, nil, rng))
	}
	return ex
}

func schedString(r *RunResult) string {
	var b strings.Builder
	for i, c := range r.Choices {
		fmt.Fprintf(&b, "%d@%s ", c, r.Labels[i])
	}
	return b.String()
}
