package main

import (
	"fmt"
	"math/rand"
	"os"
	"sort"
	"strings"
	"time"

	"github.com/dunglas/mercure"
)

// Run is one controlled execution of a scenario.
type RunResult struct {
	Decision  []bool // coarse mode: whether step k was a real decision point (an operation boundary)
	Outcome   string
	Choices   []int    // chosen goroutine at each decision
	EnabledAt [][]int  // enabled goroutines at each decision
	Labels    []string // where the chosen goroutine was
	Deadlock  bool
	Panics    []string
	Steps     int
}

// Scenario builds fresh state and returns the goroutine bodies plus a function that reads the outcome.
type Scenario func() (threads []func(), collect func(deadlock bool, panics []string) string)

const maxSteps = 20000

// execute runs the scenario following prefix, then the default policy (stay on the current goroutine,
// else the lowest enabled one), or random choices when rng != nil.
// stick is the probability (percent) that a random run stays on the current goroutine
var stick = 0

// coarse: schedule only at operation boundaries (label "op"), when the current goroutine blocks or finishes
var coarse = false

func execute(sc Scenario, prefix []int, rng *rand.Rand) *RunResult {
	threads, collect := sc()
	vs := mercure.VSchedNew()
	vs.Watchdog = 30 * time.Millisecond
	for _, fn := range threads {
		vs.Go(fn)
	}
	res := &RunResult{}
	cur := -1
	disabled := map[int]bool{}
	for res.Steps < maxSteps {
		enabled := []int{}
		for _, id := range vs.Enabled() {
			if !disabled[id] {
				enabled = append(enabled, id)
			}
		}
		if len(enabled) == 0 {
			notDone, stuck := vs.Live()
			if notDone == 0 {
				break
			}
			if stuck > 0 {
				// goroutines blocked in uninstrumented code (bbolt, sync.Once, a channel): give them a chance to arrive
				// (an fsync or a page fault can take long when the machine is loaded: a deadlock is declared only
				// after 3 s without any of them arriving)
				arrived := false
				for w := 0; w < 30 && !arrived; w++ {
					vs.WaitStuck(100 * time.Millisecond)
					if _, stuck2 := vs.Live(); stuck2 < stuck {
						arrived = true
					}
				}
				if arrived {
					disabled = map[int]bool{}
					continue
				}
			}
			// a goroutine that was running late may have parked between the two observations above: with nothing
			// stuck any more the set of parked goroutines is stable, so look again before concluding
			again := false
			for _, id := range vs.Enabled() {
				if !disabled[id] {
					again = true
				}
			}
			if again {
				continue
			}
			res.Deadlock = true
			break
		}
		var choice int
		k := len(res.Choices)
		decision := true
		if coarse && contains(enabled, cur) && vs.Label(cur) != "op" {
			decision = false
		}
		switch {
		case k < len(prefix) && contains(enabled, prefix[k]):
			choice = prefix[k]
		case !decision:
			choice = cur
		case rng != nil:
			// sticky random: mostly run to the next blocking point, switch at random places
			if contains(enabled, cur) && rng.Intn(100) < stick {
				choice = cur
			} else {
				choice = enabled[rng.Intn(len(enabled))]
			}
		case contains(enabled, cur):
			choice = cur
		default:
			choice = enabled[0]
		}
		res.Choices = append(res.Choices, choice)
		res.Decision = append(res.Decision, decision)
		res.EnabledAt = append(res.EnabledAt, enabled)
		res.Labels = append(res.Labels, vs.Label(choice))
		progressed := vs.Step(choice)
		res.Steps++
		if progressed {
			disabled = map[int]bool{}
		} else {
			disabled[choice] = true
		}
		cur = choice
	}
	for i := range threads {
		if p := vs.PanicOf(i); p != nil {
			res.Panics = append(res.Panics, fmt.Sprint(p))
			if os.Getenv("VERIF_DEBUG") != "" {
				fmt.Fprintln(os.Stderr, "PANIC in goroutine", i, p, vs.PanicStackOf(i))
			}
		}
	}
	vs.Stop()
	sort.Strings(res.Panics)
	res.Outcome = collect(res.Deadlock, res.Panics)
	return res
}

func contains(l []int, x int) bool {
	for _, y := range l {
		if y == x {
			return true
		}
	}
	return false
}

func preemptions(choices []int, enabledAt [][]int) int {
	n := 0
	for k := 1; k < len(choices); k++ {
		if choices[k] != choices[k-1] && contains(enabledAt[k], choices[k-1]) {
			n++
		}
	}
	return n
}

// Exploration collects distinct outcomes with one witness schedule each.
type Exploration struct {
	CoarseRuns      int
	CoarseExhausted bool
	Outcomes        map[string]*RunResult
	Schedules       int
	Exhausted       bool // the bounded space was enumerated completely
}

// explore enumerates every schedule with at most `bound` preemptions (up to maxRuns executions),
// then adds `random` uniformly random schedules.
func explore(sc Scenario, bound, maxRuns, random int, seed int64) *Exploration {
	ex := &Exploration{Outcomes: map[string]*RunResult{}}
	started := time.Now()
	budget := 8 * time.Second
	record := func(r *RunResult) {
		ex.Schedules++
		if _, ok := ex.Outcomes[r.Outcome]; !ok {
			ex.Outcomes[r.Outcome] = r
		}
	}
	type item struct{ prefix []int }
	// phase A: every interleaving at operation granularity (each API call runs until it returns or blocks)
	coarse = true
	{
		stack := []item{{nil}}
		seen := map[string]bool{}
		for len(stack) > 0 && ex.Schedules < maxRuns {
			it := stack[len(stack)-1]
			stack = stack[:len(stack)-1]
			r := execute(sc, it.prefix, nil)
			record(r)
			if r.Deadlock || len(r.Panics) > 0 || time.Since(started) > budget {
				coarse = false
				ex.Exhausted = false
				return ex
			}
			for k := len(it.prefix); k < len(r.Choices); k++ {
				if !r.Decision[k] {
					continue
				}
				for _, alt := range r.EnabledAt[k] {
					if alt == r.Choices[k] {
						continue
					}
					np := append(append([]int{}, r.Choices[:k]...), alt)
					key := fmt.Sprint(np)
					if !seen[key] {
						seen[key] = true
						stack = append(stack, item{np})
					}
				}
			}
		}
		ex.CoarseRuns = ex.Schedules
		ex.CoarseExhausted = len(stack) == 0
	}
	coarse = false
	maxRuns += ex.Schedules
	// phase B: statement granularity, bounded preemptions
	stack := []item{{nil}}
	seen := map[string]bool{}
	ex.Exhausted = true
	for len(stack) > 0 {
		if ex.Schedules >= maxRuns {
			ex.Exhausted = false
			break
		}
		it := stack[len(stack)-1]
		stack = stack[:len(stack)-1]
		r := execute(sc, it.prefix, nil)
		record(r)
		// children: deviate at every decision point after the prefix
		for k := len(it.prefix); k < len(r.Choices); k++ {
			for _, alt := range r.EnabledAt[k] {
				if alt == r.Choices[k] {
					continue
				}
				np := append(append([]int{}, r.Choices[:k]...), alt)
				en := append(append([][]int{}, r.EnabledAt[:k]...), r.EnabledAt[k])
				if preemptions(np, en) > bound {
					continue
				}
				key := fmt.Sprint(np)
				if seen[key] {
					continue
				}
				seen[key] = true
				stack = append(stack, item{np})
			}
		}
	}
	rng := rand.New(rand.NewSource(seed))
	for i := 0; i < random; i++ {
		record(execute(sc, nil, rng))
	}
	return ex
}

func schedString(r *RunResult) string {
	var b strings.Builder
	for i, c := range r.Choices {
		fmt.Fprintf(&b, "%d@%s ", c, r.Labels[i])
	}
	return b.String()
}
