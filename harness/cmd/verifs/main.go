// verifs drives the implementation under the cooperative scheduler (built with
// -tags verif -overlay <instrumented sources>): schedule-controlled scenarios.
package main

import (
	"flag"
	"fmt"
	"os"
)

type args struct {
	seed int64
	n    int
	out  string
	tier string
	only int
}

var drivers = map[string]func(a args) error{}

func main() {
	if len(os.Args) < 2 {
		fmt.Fprintln(os.Stderr, "usage: verifs <driver> [flags]")
		os.Exit(2)
	}
	prop := os.Args[1]
	fs := flag.NewFlagSet(prop, flag.ExitOnError)
	var a args
	fs.Int64Var(&a.seed, "seed", 1, "PRNG seed")
	fs.IntVar(&a.n, "n", 100, "number of scenarios")
	fs.StringVar(&a.out, "out", "", "output directory")
	fs.StringVar(&a.tier, "tier", "quick", "quick|thorough")
	fs.IntVar(&a.only, "only", -1, "emit only this case index (replay)")
	_ = fs.Parse(os.Args[2:])
	d, ok := drivers[prop]
	if !ok {
		fmt.Fprintln(os.Stderr, "unknown driver", prop)
		os.Exit(2)
	}
	if err := d(a); err != nil {
		fmt.Fprintln(os.Stderr, "driver error:", err)
		os.Exit(3)
	}
}
