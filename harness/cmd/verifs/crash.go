package main

import (
	"fmt"
	"io"
	"os"
	"path/filepath"
	"strconv"
	"strings"
	"syscall"
	"time"

	"github.com/dunglas/mercure"

	ce "verifh/coqemit"
	"verifh/hx"
)

func init() { drivers["CRASH"] = runCrash }

// One publisher, one or two subscribers, a Bolt transport with an initial history: the process is "killed" at every
// scheduling point of the publish sequence (all goroutines frozen for ever), the history file is copied as the kill
// left it and reopened.
type crashScenario struct {
	Size    uint64
	Initial int
	Pubs    int
	Subs    int
}

type crashObs struct {
	KillAt    int
	Label     string
	Acked     []int
	Delivered []int
	History   []int
	LastID    string
	OpenErr   string
}

func copyFile(src, dst string) error {
	in, err := os.Open(src)
	if err != nil {
		return err
	}
	defer in.Close()
	out, err := os.Create(dst)
	if err != nil {
		return err
	}
	defer out.Close()
	_, err = io.Copy(out, in)
	return err
}

func runCrashOnce(sc crashScenario, dir string, killAt int) (obs crashObs, steps int, finished bool) {
	path := filepath.Join(dir, fmt.Sprintf("c%d.db", time.Now().UnixNano()))
	bt, err := mercure.NewBoltTransport(hx.Logger, path, "", sc.Size, 1)
	if err != nil {
		panic(err)
	}
	id := 0
	for i := 0; i < sc.Initial; i++ {
		id++
		_ = bt.Dispatch(&mercure.Update{Topics: []string{"t"}, Event: mercure.Event{ID: strconv.Itoa(id)}})
	}
	tss := &mercure.TopicSelectorStore{}
	var subs []*mercure.LocalSubscriber
	for i := 0; i < sc.Subs; i++ {
		s := mercure.NewLocalSubscriber("", hx.Logger, tss)
		s.SetTopics([]string{"*"}, nil)
		_ = bt.AddSubscriber(s)
		subs = append(subs, s)
	}
	var acked, delivered []int
	drain := func() {
		for _, s := range subs {
			for {
				select {
				case u, ok := <-s.Receive():
					if !ok {
						goto next
					}
					n, _ := strconv.Atoi(u.ID)
					delivered = append(delivered, n)
					continue
				default:
				}
				break
			}
		next:
		}
	}
	vs := mercure.VSchedNew()
	vs.Watchdog = 100 * time.Millisecond
	base := id
	vs.Go(func() {
		for k := 1; k <= sc.Pubs; k++ {
			n := base + k
			if bt.Dispatch(&mercure.Update{Topics: []string{"t"}, Event: mercure.Event{ID: strconv.Itoa(n)}}) == nil {
				acked = append(acked, n)
			}
			mercure.VSchedOpBoundary()
		}
	})
	label := "end"
	for {
		en := vs.Enabled()
		if len(en) == 0 {
			nd, stuck := vs.Live()
			if nd == 0 {
				finished = true
				break
			}
			if stuck > 0 {
				vs.WaitStuck(200 * time.Millisecond)
				continue
			}
			break
		}
		if steps == killAt {
			label = vs.Label(0)
			break
		}
		vs.Step(en[0])
		steps++
	}
	obs.KillAt, obs.Label = killAt, label
	if finished {
		vs.Stop()
	} else {
		vs.Abandon() // kill -9: nothing runs any more
	}
	drain()
	obs.Acked, obs.Delivered = acked, delivered
	cp := path + ".after-kill"
	if err := copyFile(path, cp); err != nil {
		obs.OpenErr = err.Error()
		return
	}
	if finished {
		_ = bt.Close()
	}
	nt, err := mercure.NewBoltTransport(hx.Logger, cp, "", sc.Size, 1)
	if err != nil {
		obs.OpenErr = err.Error() // the database does not reopen
		return
	}
	last, _, _ := nt.GetSubscribers()
	obs.LastID = last
	_ = nt.Close()
	ids, err := hx.BoltIDs(cp)
	if err != nil {
		obs.OpenErr = err.Error()
	}
	for _, s := range ids {
		n, _ := strconv.Atoi(s)
		obs.History = append(obs.History, n)
	}
	_ = os.Remove(cp)
	if finished {
		_ = os.Remove(path)
	}
	return
}

func runCrash(a args) error {
	var lim syscall.Rlimit
	if syscall.Getrlimit(syscall.RLIMIT_NOFILE, &lim) == nil {
		lim.Cur = lim.Max
		_ = syscall.Setrlimit(syscall.RLIMIT_NOFILE, &lim)
	}
	out := hx.NewOut(a.out, "CrashCases", "crash_case", "crash_ok", "crash_ok")
	out.ShardSize = 60
	dir := hx.WorkDir()
	defer os.RemoveAll(dir)
	scs := []crashScenario{
		{Size: 0, Initial: 0, Pubs: 2, Subs: 1},
		{Size: 0, Initial: 2, Pubs: 2, Subs: 2},
		{Size: 3, Initial: 3, Pubs: 2, Subs: 1}, // the history is full: every publish also cleans up
		{Size: 2, Initial: 1, Pubs: 3, Subs: 1},
	}
	if a.tier == "thorough" {
		for size := uint64(0); size <= 4; size++ {
			for init := 0; init <= 5; init++ {
				scs = append(scs, crashScenario{Size: size, Initial: init, Pubs: 4, Subs: 2})
			}
		}
	}
	points := 0
	for _, sc := range scs {
		// a complete run gives the number of scheduling points; then one run per kill point
		_, total, _ := runCrashOnce(sc, dir, -1)
		for k := 0; k <= total; k++ {
			obs, _, _ := runCrashOnce(sc, dir, k)
			points++
			ints := func(l []int) string {
				s := make([]string, len(l))
				for i, x := range l {
					s[i] = strconv.Itoa(x)
				}
				return "[" + strings.Join(s, ";") + "]"
			}
			last := "None"
			if obs.LastID != "earliest" {
				last = ce.Some(ce.Str(obs.LastID))
			}
			if n, err := strconv.Atoi(obs.LastID); err == nil {
				last = fmt.Sprintf("(Some (Some %d))", n)
			} else if obs.LastID == "earliest" {
				last = "(Some None)"
			} else {
				last = "None"
			}
			term := fmt.Sprintf("{| cr_size := %d; cr_initial := %d%%nat; cr_pubs := %d%%nat; cr_acked := %s; cr_delivered := %s; cr_reopened := %s; cr_history := %s; cr_last := %s |}",
				sc.Size, sc.Initial, sc.Pubs, ints(obs.Acked), ints(obs.Delivered), ce.Bool(obs.OpenErr == ""), ints(obs.History), last)
			out.Add(term, map[string]any{"scenario": sc, "kill_point": k, "of": total, "at": obs.Label, "acked": obs.Acked, "delivered": obs.Delivered,
				"history_after_restart": obs.History, "last_event_id": obs.LastID, "open_error": obs.OpenErr},
				k > 0 && k < total, fmt.Sprintf("size:%d", sc.Size), "at:"+strings.Split(obs.Label, ":")[0])
		}
	}
	out.Extra["kill_points"] = points
	out.Extra["exhaustive"] = true
	return out.Flush()
}
