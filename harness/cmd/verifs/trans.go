package main

import (
	"encoding/json"
	"fmt"
	"os"
	"path/filepath"
	"sort"
	"strconv"
	"strings"
	"sync/atomic"
	"time"

	"github.com/dunglas/mercure"

	ce "verifh/coqemit"
	"verifh/hx"
)

func init() { drivers["TRANS"] = runTrans }

type tUpd struct {
	ID      int
	Topics  []string
	Private bool
}

type tSubSpec struct {
	Topics  []string
	Allowed []string
	Req     string // "", "earliest", or an id
	Leave   bool   // Disconnect + RemoveSubscriber once registered
}

type tScenario struct {
	Kind    string // bolt | local
	Initial []tUpd // history written before the scenario starts (bolt)
	Restart bool   // the transport is closed and reopened on the file before the scenario starts
	Refused bool   // after the initial history, a publish the database refuses (key larger than bbolt accepts): it must leave no trace
	Pubs    [][]tUpd
	Subs    []tSubSpec
	Close   bool
	Close2  bool // a second, concurrent call of Close
}

type tPubObs struct {
	ID         int
	OK         bool
	Start, End int
}

type tSubObs struct {
	Err        bool
	Start, End int
	LeftAt     int // 0 = did not leave
	Received   []int
	Closed     bool
}

type tObs struct {
	Pubs           []tPubObs
	OpenAfterClose bool // a call of Close returned while a subscriber registered before it began still had an open stream
	Subs           []tSubObs
	History        []int
	CloseStart     int
	CloseEnd       int
	Panic          bool
	Deadlock       bool
	Panics         []string `json:",omitempty"`
}

var transCounter int64

func tMatches(s tSubSpec, u tUpd) bool {
	sub, can := false, !u.Private
	for _, t := range u.Topics {
		for _, x := range s.Topics {
			if x == "*" || x == t {
				sub = true
			}
		}
		for _, x := range s.Allowed {
			if x == "*" || x == t {
				can = true
			}
		}
	}
	return sub && can
}

func transScenario(sc tScenario, dir string) Scenario {
	return func() ([]func(), func(bool, []string) string) {
		var t mercure.Transport
		var path string
		if sc.Kind == "bolt" {
			path = filepath.Join(dir, fmt.Sprintf("t%d.db", atomic.AddInt64(&transCounter, 1)))
			bt, err := mercure.NewBoltTransport(hx.Logger, path, "", 0, 1)
			if err != nil {
				panic(err)
			}
			for _, u := range sc.Initial {
				if err := bt.Dispatch(&mercure.Update{Topics: append([]string{}, u.Topics...), Private: u.Private, Event: mercure.Event{ID: strconv.Itoa(u.ID)}}); err != nil {
					panic(err)
				}
			}
			if sc.Refused {
				if err := bt.Dispatch(&mercure.Update{Topics: []string{"a"}, Event: mercure.Event{ID: strings.Repeat("k", 40000)}}); err == nil {
					panic("an update with a 40000-byte id was accepted")
				}
			}
			if sc.Restart {
				_ = bt.Close()
				bt, err = mercure.NewBoltTransport(hx.Logger, path, "", 0, 1)
				if err != nil {
					panic(err)
				}
			}
			t = bt
		} else {
			t = mercure.NewLocalTransport()
		}
		tss := &mercure.TopicSelectorStore{}
		clock := 0
		tick := func() int { clock++; return clock }
		obs := &tObs{Subs: make([]tSubObs, len(sc.Subs))}
		subs := make([]*mercure.LocalSubscriber, len(sc.Subs))
		pubObs := make([][]tPubObs, len(sc.Pubs))
		var threads []func()
		for pi, ups := range sc.Pubs {
			pi, ups := pi, ups
			threads = append(threads, func() {
				for k, u := range ups {
					if k > 0 {
						mercure.VSchedOpBoundary()
					}
					st := tick()
					err := t.Dispatch(&mercure.Update{Topics: append([]string{}, u.Topics...), Private: u.Private, Event: mercure.Event{ID: strconv.Itoa(u.ID)}})
					pubObs[pi] = append(pubObs[pi], tPubObs{ID: u.ID, OK: err == nil, Start: st, End: tick()})
				}
			})
		}
		for si, sp := range sc.Subs {
			si, sp := si, sp
			s := mercure.NewLocalSubscriber(sp.Req, hx.Logger, tss)
			s.SetTopics(append([]string{}, sp.Topics...), append([]string(nil), sp.Allowed...))
			subs[si] = s
			threads = append(threads, func() {
				obs.Subs[si].Start = tick()
				err := t.AddSubscriber(s)
				obs.Subs[si].End = tick()
				obs.Subs[si].Err = err != nil
				if err == nil && sp.Leave {
					mercure.VSchedOpBoundary()
					obs.Subs[si].LeftAt = tick()
					s.Disconnect()
					mercure.VSchedOpBoundary()
					_ = t.RemoveSubscriber(s)
				}
			})
		}
		// Close, possibly called twice concurrently: CloseStart is when the first call began, CloseEnd when the first of
		// them RETURNED - from then on every operation must be rejected
		ncl := 0
		if sc.Close {
			ncl = 1
			if sc.Close2 {
				ncl = 2
			}
		}
		clStart, clEnd := make([]int, ncl), make([]int, ncl)
		drainSub := func(si int) {
			s := subs[si]
			if obs.Subs[si].Received == nil {
				obs.Subs[si].Received = []int{}
			}
			if s == nil || obs.Subs[si].Closed {
				return
			}
			for {
				select {
				case u, ok := <-s.Receive():
					if !ok {
						obs.Subs[si].Closed = true
						return
					}
					id, _ := strconv.Atoi(u.ID)
					obs.Subs[si].Received = append(obs.Subs[si].Received, id)
				default:
					return
				}
			}
		}
		for ci := 0; ci < ncl; ci++ {
			ci := ci
			threads = append(threads, func() {
				clStart[ci] = tick()
				_ = t.Close()
				clEnd[ci] = tick()
				// every stream registered before this call began is over now (draining here changes nothing for the
				// transport: nothing is sent to a disconnected subscriber)
				for si := range subs {
					if o := &obs.Subs[si]; o.End != 0 && o.End < clStart[ci] && !o.Err && o.LeftAt == 0 {
						drainSub(si)
						if !o.Closed {
							obs.OpenAfterClose = true
						}
					}
				}
			})
		}
		collect := func(deadlock bool, panics []string) string {
			for ci := 0; ci < ncl; ci++ {
				if clStart[ci] != 0 && (obs.CloseStart == 0 || clStart[ci] < obs.CloseStart) {
					obs.CloseStart = clStart[ci]
				}
				if clEnd[ci] != 0 && (obs.CloseEnd == 0 || clEnd[ci] < obs.CloseEnd) {
					obs.CloseEnd = clEnd[ci]
				}
			}
			obs.Deadlock = deadlock
			obs.Panic = len(panics) > 0
			obs.Panics = panics
			for _, p := range pubObs {
				obs.Pubs = append(obs.Pubs, p...)
			}
			if !deadlock && len(panics) == 0 {
				for si := range subs {
					drainSub(si)
				}
				_ = t.Close()
				obs.History = []int{}
				if sc.Kind == "bolt" {
					if ids, err := hx.BoltIDs(path); err == nil {
						for _, id := range ids {
							n, _ := strconv.Atoi(id)
							obs.History = append(obs.History, n)
						}
					}
				}
			} else if !deadlock {
				// never touch a transport whose goroutines are blocked for good
				done := make(chan struct{})
				go func() { _ = t.Close(); close(done) }()
				select {
				case <-done:
				case <-time.After(2 * time.Second):
				}
			}
			if path != "" {
				_ = os.Remove(path)
			}
			canonTimes(obs)
			j, _ := json.Marshal(obs)
			return string(j)
		}
		return threads, collect
	}
}

// canonTimes replaces the logical time-stamps by their ranks: only their order matters.
func canonTimes(o *tObs) {
	var all []int
	add := func(x int) {
		if x != 0 {
			all = append(all, x)
		}
	}
	for _, p := range o.Pubs {
		add(p.Start)
		add(p.End)
	}
	for _, s := range o.Subs {
		add(s.Start)
		add(s.End)
		add(s.LeftAt)
	}
	add(o.CloseStart)
	add(o.CloseEnd)
	sort.Ints(all)
	rank := map[int]int{0: 0}
	for _, x := range all {
		if _, ok := rank[x]; !ok {
			rank[x] = len(rank)
		}
	}
	for i := range o.Pubs {
		o.Pubs[i].Start, o.Pubs[i].End = rank[o.Pubs[i].Start], rank[o.Pubs[i].End]
	}
	for i := range o.Subs {
		o.Subs[i].Start, o.Subs[i].End, o.Subs[i].LeftAt = rank[o.Subs[i].Start], rank[o.Subs[i].End], rank[o.Subs[i].LeftAt]
	}
	o.CloseStart, o.CloseEnd = rank[o.CloseStart], rank[o.CloseEnd]
}

func genTrans(r *hx.Rng) tScenario {
	sc := tScenario{Kind: []string{"bolt", "bolt", "local"}[r.Intn(3)]}
	id := 0
	mk := func() tUpd {
		id++
		return tUpd{ID: id, Topics: []string{r.Pick([]string{"a", "a", "b"})}, Private: r.Chance(0.25)}
	}
	if sc.Kind == "bolt" {
		for k := r.Intn(4); k > 0; k-- {
			sc.Initial = append(sc.Initial, mk())
		}
		sc.Restart = len(sc.Initial) > 0 && r.Chance(0.4)
		sc.Refused = r.Chance(0.3)
	}
	npub := 1 + r.Intn(2)
	for p := 0; p < npub; p++ {
		var ups []tUpd
		for k := 0; k <= r.Intn(2); k++ {
			ups = append(ups, mk())
		}
		sc.Pubs = append(sc.Pubs, ups)
	}
	nsub := 1 + r.Intn(2)
	if npub == 2 {
		nsub = 1
	}
	for s := 0; s < nsub; s++ {
		sp := tSubSpec{Topics: []string{r.Pick([]string{"a", "*"})}, Leave: r.Chance(0.2)}
		if r.Chance(0.6) {
			sp.Allowed = []string{r.Pick([]string{"a", "*"})}
		}
		switch r.Intn(4) {
		case 1:
			sp.Req = "earliest"
		case 2:
			if len(sc.Initial) > 0 {
				sp.Req = strconv.Itoa(sc.Initial[r.Intn(len(sc.Initial))].ID)
			} else {
				sp.Req = "earliest"
			}
		case 3:
			if r.Chance(0.3) {
				sp.Req = "424242"
			}
		}
		sc.Subs = append(sc.Subs, sp)
	}
	sc.Close = len(sc.Pubs)+len(sc.Subs) < 4 && r.Chance(0.3)
	sc.Close2 = sc.Close && len(sc.Pubs)+len(sc.Subs) < 3 && r.Chance(0.4)
	return sc
}

func coqInts(l []int) string {
	s := make([]string, len(l))
	for i, x := range l {
		s[i] = strconv.Itoa(x)
	}
	return "[" + strings.Join(s, ";") + "]"
}

func runTrans(a args) error {
	r := hx.NewRng(a.seed)
	out := hx.NewOut(a.out, "TransCases", "trans_case", "trans_ok", "trans_ok")
	out.ShardSize = 10
	dir := hx.WorkDir()
	defer os.RemoveAll(dir)
	bound, maxRuns, random := 2, 200, 80
	if a.tier == "thorough" {
		bound, maxRuns, random = 3, 3000, 400
	}
	// corpus: a publish racing the registration of a subscriber that replays after a restart (the cut-off defect)
	corpus := []tScenario{
		{Kind: "bolt", Initial: []tUpd{{1, []string{"a"}, false}, {2, []string{"a"}, false}}, Restart: true,
			Pubs: [][]tUpd{{{3, []string{"a"}, false}}}, Subs: []tSubSpec{{Topics: []string{"a"}, Req: "1"}}},
		{Kind: "bolt", Pubs: [][]tUpd{{{1, []string{"a"}, false}, {2, []string{"a"}, false}}}, Subs: []tSubSpec{{Topics: []string{"a"}, Req: "earliest"}}},
		// a refused publish, then a publish racing the registration of a subscriber that replays (the stale cut-off defect)
		{Kind: "bolt", Initial: []tUpd{{1, []string{"a"}, false}}, Refused: true,
			Pubs: [][]tUpd{{{2, []string{"a"}, false}}}, Subs: []tSubSpec{{Topics: []string{"a"}, Req: "1"}}},
		{Kind: "bolt", Initial: []tUpd{{1, []string{"a"}, false}}, Refused: true,
			Pubs: [][]tUpd{{{2, []string{"a"}, false}, {3, []string{"b"}, false}}}, Subs: []tSubSpec{{Topics: []string{"*"}, Req: "earliest"}}},
		{Kind: "local", Pubs: [][]tUpd{{{1, []string{"a"}, false}}, {{2, []string{"a"}, false}}}, Subs: []tSubSpec{{Topics: []string{"*"}}}},
		{Kind: "bolt", Pubs: [][]tUpd{{{1, []string{"a"}, false}}}, Subs: []tSubSpec{{Topics: []string{"a"}}}, Close: true},
		// two publishers and a connected subscriber on the persistent transport: the live order is the stored order
		{Kind: "bolt", Pubs: [][]tUpd{{{1, []string{"a"}, false}}, {{2, []string{"a"}, false}}}, Subs: []tSubSpec{{Topics: []string{"*"}}}},
		{Kind: "bolt", Initial: []tUpd{{1, []string{"a"}, false}}, Pubs: [][]tUpd{{{2, []string{"a"}, false}}, {{3, []string{"a"}, false}}}, Subs: []tSubSpec{{Topics: []string{"a"}, Req: "earliest"}}},
		{Kind: "local", Pubs: [][]tUpd{{{1, []string{"a"}, false}}}, Subs: []tSubSpec{{Topics: []string{"a"}, Leave: true}}, Close: true},
		// Close while an already disconnected subscriber is still listed, with live ones registered after it
		{Kind: "local", Subs: []tSubSpec{{Topics: []string{"a"}, Leave: true}, {Topics: []string{"a"}}, {Topics: []string{"*"}}}, Close: true},
		{Kind: "bolt", Subs: []tSubSpec{{Topics: []string{"a"}, Leave: true}, {Topics: []string{"a"}}, {Topics: []string{"*"}}}, Close: true},
		// two concurrent calls of Close: none may return before the transport is closed
		{Kind: "local", Pubs: [][]tUpd{{{1, []string{"a"}, false}}}, Subs: []tSubSpec{{Topics: []string{"a"}}}, Close: true, Close2: true},
		{Kind: "bolt", Pubs: [][]tUpd{{{1, []string{"a"}, false}}}, Subs: []tSubSpec{{Topics: []string{"a"}}}, Close: true, Close2: true},
	}
	total := 0
	for i := 0; i < len(corpus)+a.n; i++ {
		var sc tScenario
		if i < len(corpus) {
			sc = corpus[i]
		} else {
			sc = genTrans(r)
		}
		t0 := time.Now()
		ex := explore(transScenario(sc, dir), bound, maxRuns, random, a.seed+int64(i))
		total += ex.Schedules
		if os.Getenv("VERIF_DEBUG") != "" {
			fmt.Fprintf(os.Stderr, "scenario %d: %d schedules, %d outcomes, %v\n", i, ex.Schedules, len(ex.Outcomes), time.Since(t0))
		}
		keys := make([]string, 0, len(ex.Outcomes))
		for k := range ex.Outcomes {
			keys = append(keys, k)
		}
		sort.Strings(keys)
		var all []tUpd
		all = append(all, sc.Initial...)
		for _, p := range sc.Pubs {
			all = append(all, p...)
		}
		var mt []string
		for si, sp := range sc.Subs {
			for _, u := range all {
				if tMatches(sp, u) {
					mt = append(mt, fmt.Sprintf("(%s, %d)", ce.Nat(si), u.ID))
				}
			}
		}
		var reqs []string
		for _, sp := range sc.Subs {
			switch sp.Req {
			case "":
				reqs = append(reqs, "NoReq")
			case "earliest":
				reqs = append(reqs, "Earliest")
			default:
				reqs = append(reqs, "ReqId "+sp.Req)
			}
		}
		var initial []int
		for _, u := range sc.Initial {
			initial = append(initial, u.ID)
		}
		var obsTerms []string
		var obsDesc []any
		for _, k := range keys {
			var o tObs
			_ = json.Unmarshal([]byte(k), &o)
			var ps, ss []string
			for _, p := range o.Pubs {
				ps = append(ps, fmt.Sprintf("{| tp_id := %d; tp_ok := %s; tp_start := %d; tp_end := %d |}", p.ID, ce.Bool(p.OK), p.Start, p.End))
			}
			for _, s := range o.Subs {
				ss = append(ss, fmt.Sprintf("{| ts_err := %s; ts_start := %d; ts_end := %d; ts_left := %d; ts_received := %s; ts_closed := %s |}",
					ce.Bool(s.Err), s.Start, s.End, s.LeftAt, coqInts(s.Received), ce.Bool(s.Closed)))
			}
			obsTerms = append(obsTerms, fmt.Sprintf("{| to_pubs := %s; to_subs := %s; to_history := %s; to_close_start := %d; to_close_end := %d; to_panic := %s; to_deadlock := %s; to_open_after_close := %s |}",
				ce.List(ps), ce.List(ss), coqInts(o.History), o.CloseStart, o.CloseEnd, ce.Bool(o.Panic), ce.Bool(o.Deadlock), ce.Bool(o.OpenAfterClose)))
			obsDesc = append(obsDesc, map[string]any{"outcome": o, "schedule": schedString(ex.Outcomes[k])})
		}
		term := fmt.Sprintf("{| tc_persistent := %s; tc_cap := 2%%nat; tc_initial := %s; tc_reqs := %s; tc_mt := %s; tc_obs := %s |}",
			ce.Bool(sc.Kind == "bolt"), coqInts(initial), ce.List(reqs), ce.List(mt), ce.List(obsTerms))
		out.Add(term, map[string]any{"scenario": sc, "schedules": ex.Schedules, "exhausted_bound": ex.Exhausted, "op_granularity_runs": ex.CoarseRuns, "op_granularity_exhaustive": ex.CoarseExhausted, "preemption_bound": bound, "outcomes": obsDesc},
			len(keys) > 1, "transport:"+sc.Kind, fmt.Sprintf("outcomes:%d", min(len(keys), 8)), fmt.Sprintf("close:%v", sc.Close), fmt.Sprintf("restart:%v", sc.Restart), fmt.Sprintf("refused-publish-before:%v", sc.Refused))
	}
	out.Extra["schedules_explored"] = total
	out.Extra["preemption_bound"] = bound
	return out.Flush()
}
