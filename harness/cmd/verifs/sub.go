package main

import (
	"encoding/json"
	"fmt"
	"sort"
	"strings"

	"github.com/dunglas/mercure"

	ce "verifh/coqemit"
	"verifh/hx"
)

func init() { drivers["SUB"] = runSub }

// subOp is one LocalSubscriber method call.
type subOp struct {
	Kind string // dispatch | ready | disconnect
	U    int
	Hist bool
}

func (o subOp) Coq() string {
	switch o.Kind {
	case "dispatch":
		return fmt.Sprintf("ODispatch %d %s", o.U, ce.Bool(o.Hist))
	case "ready":
		return "OReady"
	}
	return "ODisconnect"
}

type subObs struct {
	Rets     [][]bool
	Received []int
	Closed   bool
	Panic    bool
	Deadlock bool
	Panics   []string `json:",omitempty"`
}

// subScenario: each thread runs its operations on one shared subscriber; at the end the channel is drained.
func subScenario(progs [][]subOp) Scenario {
	return func() ([]func(), func(bool, []string) string) {
		s := mercure.NewLocalSubscriber("", hx.Logger, &mercure.TopicSelectorStore{})
		s.SetTopics([]string{"t"}, nil)
		rets := make([][]bool, len(progs))
		threads := make([]func(), len(progs))
		for i := range progs {
			i := i
			rets[i] = []bool{}
			threads[i] = func() {
				for _, o := range progs[i] {
					switch o.Kind {
					case "dispatch":
						r := s.Dispatch(&mercure.Update{Topics: []string{"t"}, Event: mercure.Event{ID: fmt.Sprint(o.U)}}, o.Hist)
						rets[i] = append(rets[i], r)
					case "ready":
						s.Ready()
					case "disconnect":
						s.Disconnect()
					}
				}
			}
		}
		collect := func(deadlock bool, panics []string) string {
			o := subObs{Rets: rets, Received: []int{}, Deadlock: deadlock, Panic: len(panics) > 0, Panics: panics}
			if !deadlock && len(panics) == 0 {
			drain:
				for {
					select {
					case u, ok := <-s.Receive():
						if !ok {
							o.Closed = true
							break drain
						}
						var id int
						fmt.Sscan(u.ID, &id)
						o.Received = append(o.Received, id)
					default:
						break drain
					}
				}
			}
			j, _ := json.Marshal(o)
			return string(j)
		}
		return threads, collect
	}
}

func genSubProgs(r *hx.Rng) [][]subOp {
	nthreads := 2 + r.Intn(2)
	progs := make([][]subOp, nthreads)
	u := 0
	hasReady := false
	for i := range progs {
		for k := 0; k <= r.Intn(3); k++ {
			switch x := r.Intn(10); {
			case x < 5:
				u++
				progs[i] = append(progs[i], subOp{Kind: "dispatch", U: u, Hist: r.Chance(0.3)})
			case x < 8 && !hasReady: // Ready is called once, by the registering goroutine
				hasReady = true
				progs[i] = append(progs[i], subOp{Kind: "ready"})
			case x < 8:
				u++
				progs[i] = append(progs[i], subOp{Kind: "dispatch", U: u, Hist: false})
			default:
				progs[i] = append(progs[i], subOp{Kind: "disconnect"})
			}
		}
	}
	return progs
}

func coqObs(o subObs) string {
	rs := make([]string, len(o.Rets))
	for i, r := range o.Rets {
		b := make([]string, len(r))
		for k, x := range r {
			b[k] = ce.Bool(x)
		}
		rs[i] = ce.List(b)
	}
	rec := make([]string, len(o.Received))
	for i, x := range o.Received {
		rec[i] = fmt.Sprint(x)
	}
	return fmt.Sprintf("{| ob_rets := %s; ob_received := [%s]; ob_closed := %s; ob_panic := %s; ob_deadlock := %s |}",
		ce.List(rs), strings.Join(rec, ";"), ce.Bool(o.Closed), ce.Bool(o.Panic), ce.Bool(o.Deadlock))
}

func runSub(a args) error {
	r := hx.NewRng(a.seed)
	out := hx.NewOut(a.out, "SubCases", "sub_sched_case", "sub_sched_agree", "sub_sched_ok")
	out.ShardSize = 40
	capacity := 2 // the instrumented build sets outBufferLength to this value
	if got := cap(mercure.NewLocalSubscriber("", hx.Logger, &mercure.TopicSelectorStore{}).Receive()); got != capacity {
		return fmt.Errorf("instrumented buffer capacity is %d, expected %d", got, capacity)
	}
	bound, maxRuns, random := 2, 400, 30
	if a.tier == "thorough" {
		bound, maxRuns, random = 3, 5000, 300
	}
	totalSched := 0
	corpus := [][][]subOp{
		// two concurrent Disconnect calls (close of closed channel on the pinned tree)
		{{{Kind: "disconnect"}}, {{Kind: "disconnect"}}},
		// publish between "indexed" and "go live", hub closes meanwhile (send on closed channel on the pinned tree)
		{{{Kind: "dispatch", U: 1}}, {{Kind: "disconnect"}}, {{Kind: "ready"}}},
		// overflow during the flush of the queue, and live
		{{{Kind: "dispatch", U: 1}, {Kind: "dispatch", U: 2}, {Kind: "dispatch", U: 3}}, {{Kind: "ready"}, {Kind: "dispatch", U: 4}}},
		{{{Kind: "ready"}, {Kind: "dispatch", U: 1}, {Kind: "dispatch", U: 2}}, {{Kind: "dispatch", U: 3}, {Kind: "disconnect"}}},
		{{{Kind: "dispatch", U: 1, Hist: true}, {Kind: "dispatch", U: 2, Hist: true}, {Kind: "dispatch", U: 3, Hist: true}, {Kind: "ready"}}, {{Kind: "dispatch", U: 4}}},
	}
	for i := 0; i < len(corpus)+a.n; i++ {
		var progs [][]subOp
		if i < len(corpus) {
			progs = corpus[i]
		} else {
			progs = genSubProgs(r)
		}
		ex := explore(subScenario(progs), bound, maxRuns, random, a.seed+int64(i))
		totalSched += ex.Schedules
		keys := make([]string, 0, len(ex.Outcomes))
		for k := range ex.Outcomes {
			keys = append(keys, k)
		}
		sort.Strings(keys)
		var obsTerms []string
		var obsDesc []any
		for _, k := range keys {
			var o subObs
			_ = json.Unmarshal([]byte(k), &o)
			obsTerms = append(obsTerms, coqObs(o))
			obsDesc = append(obsDesc, map[string]any{"outcome": o, "schedule": schedString(ex.Outcomes[k])})
		}
		pts := make([]string, len(progs))
		for t, p := range progs {
			ops := make([]string, len(p))
			for k, o := range p {
				ops[k] = o.Coq()
			}
			pts[t] = ce.List(ops)
		}
		term := fmt.Sprintf("{| ss_cap := %s; ss_progs := %s; ss_obs := %s |}", ce.Nat(capacity), ce.List(pts), ce.List(obsTerms))
		out.Add(term, map[string]any{"capacity": capacity, "threads": progs, "schedules": ex.Schedules, "exhausted_bound": ex.Exhausted,
			"preemption_bound": bound, "outcomes": obsDesc}, len(keys) > 1,
			fmt.Sprintf("threads:%d", len(progs)), fmt.Sprintf("outcomes:%d", min(len(keys), 6)), fmt.Sprintf("exhausted:%v", ex.Exhausted))
	}
	out.Extra["schedules_explored"] = totalSched
	out.Extra["preemption_bound"] = bound
	return out.Flush()
}
