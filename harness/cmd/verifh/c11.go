package main

import (
	"fmt"
	"hash/fnv"
	"strings"
	"sync"

	"github.com/dunglas/mercure"
	"github.com/yosida95/uritemplate/v3"

	ce "verifh/coqemit"
	"verifh/hx"
)

func init() { drivers["C11"] = runC11 }

// selectors: literals, every RFC 6570 operator and modifier, malformed templates,
// and shapes built to collide under the cache key "m_"+selector+"_"+topic
var c11Selectors = []string{
	"*", "a", "a_b", "https://example.com/books/1",
	"{x}", "{x}_y", "{x}_{y}", "a_{x}", "{x}_", "_{x}", "x_{y}_z",
	"/books/{id}", "/{a}/{b}", "{+path}", "{#frag}", "{.ext}", "{/seg}", "{;p}", "{?q}", "{&q}",
	"{x,y}", "{+x,y}", "{/x,y}", "{?x,y}", "{x:3}", "{x*}", "{/list*}", "{;list*}", "{?list*}", "/a{.x,y}", "{x}{y}",
	"{", "}", "{}", "{x", "x}", "{x}}", "{{x}}", "{!x}", "{x:0}", "{x:abc}", "{ x }", "a{", "{=x}", "%zz{x}", "é{x}",
	// valid templates only after trimming: as written they match nothing but themselves
	"/books/{id} ", " /books/{id}", "\t{x}", "{x}\n", "{x} ",
}

func c11Values(r *hx.Rng) uritemplate.Values {
	// unreserved, reserved (gen-delims and sub-delims: copied verbatim by {+x} and {#x}, escaped elsewhere) and characters
	// that are never literal in a template
	pieces := []string{"a", "b", "_", "y", "z", "1", "/", ".", " ", "é", "%", "x_y",
		"'", "!", "$", "&", "(", ")", "*", "+", ",", ";", "=", ":", "@", "?", "#", "[", "]", "~", "-", "\"", "<", ">", "|", "^", "`", "\\"}
	v := uritemplate.Values{}
	for _, name := range []string{"x", "y", "id", "a", "b", "path", "frag", "ext", "seg", "p", "q"} {
		v.Set(name, uritemplate.String(r.StringFrom(pieces, 3)))
	}
	v.Set("list", uritemplate.List(r.StringFrom(pieces, 2), r.StringFrom(pieces, 2)))
	return v
}

func c11Topic(r *hx.Rng, sel string) string {
	switch r.Intn(6) {
	case 0, 1: // an expansion of the selector
		if tpl, err := uritemplate.New(sel); err == nil {
			if s, err := tpl.Expand(c11Values(r)); err == nil {
				return s
			}
		}
		return sel
	case 2: // near miss
		t := c11Topic(r, sel)
		if r.Chance(0.35) { // the case of one letter flipped: selectors, literal or templates, are case-sensitive
			b := []byte(t)
			var letters []int
			for i, c := range b {
				if (c >= 'a' && c <= 'z') || (c >= 'A' && c <= 'Z') {
					letters = append(letters, i)
				}
			}
			if len(letters) > 0 {
				i := letters[r.Intn(len(letters))]
				b[i] ^= 0x20
				return string(b)
			}
		}
		if len(t) > 0 && r.Chance(0.5) {
			return t[:len(t)-1]
		}
		return t + r.Pick([]string{"/", "_", "x", "?"})
	case 3: // built around the key separator
		return r.StringFrom([]string{"_", "y", "z", "x", "a", "{x}", "b"}, 4)
	case 4:
		return r.Pick(c11Selectors)
	}
	if r.Chance(0.3) { // a literal prefix of the selector followed by reserved characters
		if i := strings.IndexByte(sel, '{'); i >= 0 {
			return sel[:i] + r.StringFrom([]string{"it's", "a", "!", "(", ")", "*", ";", "=", ",", "$", "&", "+", ":", "@", "/"}, 3)
		}
	}
	return r.StringFrom([]string{"a", "b", "/", "_", "1"}, 4)
}

func c11Store(r *hx.Rng) (*mercure.TopicSelectorStore, string) {
	switch r.Intn(4) {
	case 0:
		return &mercure.TopicSelectorStore{}, "nocache"
	case 1:
		s, _ := mercure.NewTopicSelectorStoreLRU(0, 0)
		return s, "size0"
	case 2:
		s, _ := mercure.NewTopicSelectorStoreLRU(int64(1+r.Intn(3)), int64(1+r.Intn(2)))
		return s, "tiny"
	}
	s, _ := mercure.NewTopicSelectorStoreLRU(mercure.DefaultTopicSelectorStoreLRUMaxEntriesPerShard, mercure.DefaultTopicSelectorStoreLRUShardCount)
	return s, "default"
}

func implMatch(tss *mercure.TopicSelectorStore, topic, sel string) bool {
	s := mercure.NewSubscriber(hx.Logger, tss)
	s.SetTopics([]string{sel}, nil)
	return s.MatchTopics([]string{topic}, false)
}

type c11Q struct{ Topic, Sel string }

// a dense universe around the separator: whatever concatenation scheme keys the cache,
// distinct pairs over these few strings collide under it
var c11DenseSel = []string{"{x}", "{x}_", "{x}__", "_{x}", "__{x}", "{x}_b", "{x}__b", "{x}_{y}", "b_{x}", "{x}b", "{x}_b_", "b{x}"}

func c11Dense(r *hx.Rng, n int) []c11Q {
	var qs []c11Q
	for len(qs) < n {
		qs = append(qs, c11Q{r.StringFrom([]string{"_", "b", "_", "__"}, 4), r.Pick(c11DenseSel)})
		if r.Chance(0.3) {
			qs = append(qs, qs[r.Intn(len(qs))])
		}
	}
	return qs
}

func c11Queries(r *hx.Rng, n int) []c11Q {
	if r.Chance(0.4) {
		return c11Dense(r, n)
	}
	var qs []c11Q
	for len(qs) < n {
		sel := r.Pick(c11Selectors)
		q := c11Q{c11Topic(r, sel), sel}
		qs = append(qs, q)
		if r.Chance(0.35) {
			// a second pair with the same concatenation sel+"_"+topic, split elsewhere
			full := sel + "_" + q.Topic
			var cuts []int
			for i := 0; i < len(full); i++ {
				if full[i] == '_' && i != len(sel) {
					cuts = append(cuts, i)
				}
			}
			if len(cuts) > 0 {
				c := cuts[r.Intn(len(cuts))]
				qs = append(qs, c11Q{full[c+1:], full[:c]})
			}
		}
		if r.Chance(0.3) && len(qs) > 1 {
			qs = append(qs, qs[r.Intn(len(qs))]) // repeat an earlier pair (cache hit)
		}
	}
	return qs
}

func coqQs(qs []c11Q) string {
	p := make([]string, len(qs))
	for i, q := range qs {
		p[i] = ce.Pair(ce.Str(q.Topic), ce.Str(q.Sel))
	}
	return ce.List(p)
}

func coqBools(b []bool) string {
	p := make([]string, len(b))
	for i, x := range b {
		p[i] = ce.Bool(x)
	}
	return ce.List(p)
}

func c11Table(qs []c11Q) string {
	var sels, tops []string
	for _, q := range qs {
		sels = append(sels, q.Sel)
		tops = append(tops, q.Topic)
	}
	return hx.TemplateTable(sels, tops)
}

func runC11(a args) error {
	r := hx.NewRng(a.seed)
	out := hx.NewOut(a.out, "C05Check", "c11_case", "c11_agree", "c11_ok")
	out.ShardSize = 100
	// corpus: the key collision "m_{x}_y_z"
	{
		tss, _ := mercure.NewTopicSelectorStoreLRU(10, 1)
		qs := []c11Q{{"y_z", "{x}"}, {"z", "{x}_y"}, {"y_z", "{x}"}}
		var ans []bool
		for _, q := range qs {
			ans = append(ans, implMatch(tss, q.Topic, q.Sel))
		}
		out.Add(ce.App("C11Seq", c11Table(qs), coqQs(qs), coqBools(ans)), map[string]any{"kind": "seq", "store": "tiny", "queries": qs, "answers": ans, "corpus": true}, true, "kind:seq", "corpus")
	}
	// corpus: two templates whose compiled-template cache keys ("t_"+selector) share a 32-bit FNV-1a hash - the hash that picks
	// the shard. Found by a birthday search; harmless as long as a shard compares whole keys.
	{
		seen := map[uint32]string{}
		var s1, s2 string
		for n := 0; s1 == ""; n++ {
			sel := fmt.Sprintf("https://example.com/c%d/{id}", n)
			h := fnv.New32a()
			_, _ = h.Write([]byte("t_" + sel))
			if o, ok := seen[h.Sum32()]; ok {
				s1, s2 = o, sel
			} else {
				seen[h.Sum32()] = sel
			}
		}
		topic := func(sel string) string { return strings.Replace(sel, "{id}", "1", 1) }
		for _, size := range [][2]int64{{2, 1}, {16, 4}, {mercure.DefaultTopicSelectorStoreLRUMaxEntriesPerShard, mercure.DefaultTopicSelectorStoreLRUShardCount}} {
			for _, order := range [][2]string{{s1, s2}, {s2, s1}} {
				tss, _ := mercure.NewTopicSelectorStoreLRU(size[0], size[1])
				x, y := order[0], order[1]
				qs := []c11Q{{topic(x), x}, {topic(y), y}, {topic(x), y}, {topic(y), x}, {topic(x), x}}
				var ans []bool
				for _, q := range qs {
					ans = append(ans, implMatch(tss, q.Topic, q.Sel))
				}
				out.Add(ce.App("C11Seq", c11Table(qs), coqQs(qs), coqBools(ans)), map[string]any{"kind": "seq", "store": fmt.Sprint(size), "queries": qs, "answers": ans, "corpus": "cache keys sharing a hash"}, true, "kind:seq", "corpus")
			}
		}
	}
	for i := 0; i < a.n; i++ {
		tss, kind := c11Store(r)
		if i%5 == 4 {
			// concurrent evaluation against one store
			g := 2 + r.Intn(3)
			qss := make([][]c11Q, g)
			anss := make([][]bool, g)
			var all []c11Q
			shared := c11Queries(r, 6)
			for j := range qss {
				qss[j] = append(c11Queries(r, 4), shared...)
				r.Shuffle(len(qss[j]), func(x, y int) { qss[j][x], qss[j][y] = qss[j][y], qss[j][x] })
				all = append(all, qss[j]...)
				anss[j] = make([]bool, len(qss[j]))
			}
			var wg sync.WaitGroup
			for j := range qss {
				wg.Add(1)
				go func(j int) {
					defer wg.Done()
					for k, q := range qss[j] {
						anss[j][k] = implMatch(tss, q.Topic, q.Sel)
					}
				}(j)
			}
			wg.Wait()
			tbl := c11Table(all)
			qp := make([]string, g)
			ap := make([]string, g)
			for j := range qss {
				qp[j] = coqQs(qss[j])
				ap[j] = coqBools(anss[j])
			}
			out.Add(ce.App("C11Conc", tbl, ce.List(qp), ce.List(ap)), map[string]any{"kind": "conc", "store": kind, "queries": qss, "answers": anss}, true, "kind:conc", "store:"+kind)
			continue
		}
		qs := c11Queries(r, 5+r.Intn(25))
		ans := make([]bool, len(qs))
		nt, nf := 0, 0
		for k, q := range qs {
			ans[k] = implMatch(tss, q.Topic, q.Sel)
			if ans[k] {
				nt++
			} else {
				nf++
			}
		}
		out.Add(ce.App("C11Seq", c11Table(qs), coqQs(qs), coqBools(ans)), map[string]any{"kind": "seq", "store": kind, "queries": qs, "answers": ans}, nt > 0 && nf > 0,
			"kind:seq", "store:"+kind, fmt.Sprintf("true:%d%%", (nt*100/len(qs))/25*25))
	}
	return out.Flush()
}
