package main

import (
	"fmt"
	"sort"
	"strings"

	"github.com/dunglas/mercure"

	ce "verifh/coqemit"
	"verifh/hx"
)

func init() { drivers["C05"] = runC05 }

// topic alphabet from the property's quantifier: the internal delimiter and escape
// characters, empty strings, duplicates, template metacharacters
var c05Pieces = []string{"a", "b", "0", "1", "\x00", "\x01", "{", "}", "*", "/", "é"}
var c05Selectors = []string{"*", "a", "b", "{x}", "a{x}", "{x}b", "/{x}/{y}", "{", "a}", "{x", "\x00", "\x01", "\x00\x01", "0", "1", "", "a\x01b", "é{x}"}

func c05Topic(r *hx.Rng) string {
	if r.Chance(0.15) {
		return r.Pick(c05Selectors)
	}
	return r.StringFrom(c05Pieces, 3)
}

type c05Sub struct {
	Label   int
	Topics  []string
	Allowed []string
}

type c05Op struct {
	Kind    string // add | remove | dispatch
	Label   int
	Topics  []string
	Private bool
	Got     []int
}

func runC05(a args) error {
	r := hx.NewRng(a.seed)
	out := hx.NewOut(a.out, "C05Check", "c05_case", "c05_agree", "c05_ok")
	out.ShardSize = 100
	for i := 0; i < a.n; i++ {
		// index cache sizes: tiny (so that more signatures than it holds are used) and default
		size := []int{1, 2, 3, 100000}[r.Intn(4)]
		var tss *mercure.TopicSelectorStore
		if r.Chance(0.5) {
			tss, _ = mercure.NewTopicSelectorStoreLRU(int64(1+r.Intn(3)), int64(1+r.Intn(2)))
		} else {
			tss = &mercure.TopicSelectorStore{}
		}
		sl := mercure.NewSubscriberList(size)
		nsubs := 2 + r.Intn(4)
		subs := make([]c05Sub, nsubs)
		impl := make([]*mercure.LocalSubscriber, nsubs)
		var allSel, allTop []string
		for j := range subs {
			subs[j].Label = j + 1
			for k := 0; k <= r.Intn(3); k++ {
				if r.Chance(0.7) {
					subs[j].Topics = append(subs[j].Topics, r.Pick(c05Selectors))
				} else {
					subs[j].Topics = append(subs[j].Topics, c05Topic(r))
				}
			}
			if r.Chance(0.5) {
				for k := 0; k <= r.Intn(2); k++ {
					subs[j].Allowed = append(subs[j].Allowed, r.Pick(c05Selectors))
				}
			}
			allSel = append(allSel, subs[j].Topics...)
			allSel = append(allSel, subs[j].Allowed...)
			s := mercure.NewLocalSubscriber("", hx.Logger, tss)
			s.SetTopics(append([]string{}, subs[j].Topics...), append([]string(nil), subs[j].Allowed...))
			impl[j] = s
		}
		byPtr := map[*mercure.LocalSubscriber]int{}
		for j, s := range impl {
			byPtr[s] = j + 1
		}
		live := map[int]bool{}
		nops := 4 + r.Intn(27)
		var ops []c05Op
		var terms, outs []string
		nontrivial := false
		var pool [][]string // previously dispatched topic lists, re-dispatched permuted
		for k := 0; k < nops; k++ {
			switch x := r.Intn(10); {
			case x < 3: // add a subscriber that is not connected
				var cand []int
				for j := 1; j <= nsubs; j++ {
					if !live[j] {
						cand = append(cand, j)
					}
				}
				if len(cand) == 0 {
					continue
				}
				l := cand[r.Intn(len(cand))]
				sl.Add(impl[l-1])
				live[l] = true
				ops = append(ops, c05Op{Kind: "add", Label: l})
				s := subs[l-1]
				terms = append(terms, fmt.Sprintf("Add {| s_label := %d; s_topics := %s; s_allowed := %s |}", l, ce.Strs(s.Topics), ce.Strs(s.Allowed)))
				outs = append(outs, "None")
			case x < 5: // remove (connected or not)
				l := 1 + r.Intn(nsubs)
				sl.Remove(impl[l-1])
				delete(live, l)
				ops = append(ops, c05Op{Kind: "remove", Label: l})
				terms = append(terms, fmt.Sprintf("Remove %d", l))
				outs = append(outs, "None")
			default:
				var topics []string
				if len(pool) > 0 && r.Chance(0.4) {
					topics = append([]string{}, pool[r.Intn(len(pool))]...)
					r.Shuffle(len(topics), func(i, j int) { topics[i], topics[j] = topics[j], topics[i] })
				} else {
					for t := 0; t <= r.Intn(4); t++ {
						if r.Chance(0.25) && len(topics) > 0 {
							topics = append(topics, topics[r.Intn(len(topics))]) // duplicate
						} else {
							topics = append(topics, c05Topic(r))
						}
					}
					pool = append(pool, append([]string{}, topics...))
				}
				priv := r.Chance(0.4)
				allTop = append(allTop, topics...)
				u := &mercure.Update{Topics: append([]string{}, topics...), Private: priv}
				got := []int{}
				for _, s := range sl.MatchAny(u) {
					got = append(got, byPtr[s])
				}
				sort.Ints(got)
				if len(got) > 0 && len(got) < len(live) {
					nontrivial = true
				}
				ops = append(ops, c05Op{Kind: "dispatch", Topics: topics, Private: priv, Got: got})
				terms = append(terms, fmt.Sprintf("Dispatch %s %s", ce.Strs(topics), ce.Bool(priv)))
				gs := make([]string, len(got))
				for i, g := range got {
					gs[i] = fmt.Sprint(g)
				}
				outs = append(outs, "Some ["+strings.Join(gs, ";")+"]")
			}
		}
		// the oracle must know every (selector, topic) pair the case can compare
		tbl := hx.TemplateTable(allSel, append(allTop, allSel...))
		term := fmt.Sprintf("{| c5_tbl := %s; c5_ops := %s; c5_impl := %s |}", tbl, ce.List(terms), ce.List(outs))
		out.Add(term, map[string]any{"index_cache": size, "subs": subs, "ops": ops}, nontrivial,
			fmt.Sprintf("cache:%d", size), fmt.Sprintf("ops:%d", (len(ops)/10)*10))
	}
	return out.Flush()
}
