package main

import (
	"fmt"
	"strings"

	"github.com/dunglas/mercure"
	"github.com/yosida95/uritemplate/v3"

	ce "verifh/coqemit"
	"verifh/hx"
)

// URITPL: the URI-template library as the hub uses it (New, Regexp, MatchString) against Model/UriTemplate.v,
// and the hub's own matcher on the same pairs.
func init() { drivers["URITPL"] = runURITPL }

var utOps = []string{"", "+", "#", ".", "/", ";", "?", "&"}
var utNames = []string{"x", "y", "id", "a", "b", "q", "list", "a.b", "a_1", "A9", "%41", "a%2Eb", "x.y.z"}
var utLits = []string{"/", "a", "books", "/books/", "https://example.com/", "_", "-", ".", "~", "b", "1", "?", "&", "=", ",", ";", "#", "!", "$",
	"'", "(", ")", "*", "+", ":", "@", "[", "]", "%41", "%2f", "é", "日本", "\U0001F600", " ", "﷯", "￯"}

// bytes and runes the parser must refuse, wherever they are
var utBad = []string{"{", "}", " ", "\"", "<", ">", "\\", "^", "`", "|", "%", "%4", "%zz", "\xff", "\xc3", "\xed\xa0\x80", "�", "﷐", "￰", "\t", "\n", "\x00", "\x7f", "\xc0\x80", "\xf4\x90\x80\x80", "\U0001FFFE"}

func utExpr(r *hx.Rng) string {
	n := 1 + r.Intn(3)
	if r.Chance(0.1) {
		n = 4 + r.Intn(3)
	}
	var vs []string
	for i := 0; i < n; i++ {
		v := r.Pick(utNames)
		switch r.Intn(6) {
		case 0:
			v += "*"
		case 1:
			v += ":" + r.Pick([]string{"1", "3", "10", "9999", "03", "0", "10000", "", "x"})
		}
		vs = append(vs, v)
	}
	return "{" + r.Pick(utOps) + strings.Join(vs, ",") + "}"
}

func utSelector(r *hx.Rng) string {
	switch r.Intn(12) {
	case 0:
		return r.Pick(c11Selectors)
	case 1: // the compile limit of the regexp package: 1001 variables is the last expression that compiles
		n := r.Pick([]string{"999", "1000", "1001", "1002", "1003", "1500"})
		var k int
		fmt.Sscan(n, &k)
		names := make([]string, k)
		for i := range names {
			names[i] = "a"
		}
		if r.Chance(0.25) {
			names[r.Intn(k)] += "*"
		}
		return r.Pick([]string{"", "/x", "https://example.com/"}) + "{" + r.Pick(utOps) + strings.Join(names, ",") + "}"
	}
	var b strings.Builder
	for i, n := 0, 1+r.Intn(4); i < n; i++ {
		if r.Chance(0.5) {
			b.WriteString(r.Pick(utLits))
		} else {
			b.WriteString(utExpr(r))
		}
	}
	s := b.String()
	if r.Chance(0.3) { // a mutation: something dropped, inserted or doubled
		i := 0
		if len(s) > 0 {
			i = r.Intn(len(s))
		}
		switch r.Intn(4) {
		case 0:
			if len(s) > 0 {
				s = s[:i] + s[i+1:]
			}
		case 1:
			s = s[:i] + r.Pick(utBad) + s[i:]
		case 2:
			s = s[:i] + r.Pick([]string{".", "..", ",", ",,", ":", "*", "=", "!", "@", "|", "+", "{x}", "é"}) + s[i:]
		case 3:
			s += r.Pick(utBad)
		}
	}
	return s
}

var utValPieces = []string{"a", "b", "1", "Z", "-", ".", "_", "~", "/", "?", "#", "&", "=", ",", ";", ":", "@", "!", "$", "'", "(", ")", "*", "+", "[", "]",
	" ", "%", "%41", "\"", "<", "|", "{", "}"}

func utValues(r *hx.Rng, lists, kv bool) uritemplate.Values {
	v := uritemplate.Values{}
	for _, name := range utNames {
		switch {
		case r.Chance(0.25): // undefined
		case lists && r.Chance(0.3):
			v.Set(name, uritemplate.List(r.StringFrom(utValPieces, 3), r.StringFrom(utValPieces, 2)))
		case kv && r.Chance(0.15):
			v.Set(name, uritemplate.KV("k", r.StringFrom(utValPieces, 2), "k2", "v"))
		default:
			v.Set(name, uritemplate.String(r.StringFrom(utValPieces, 4)))
		}
	}
	return v
}

func utTopics(r *hx.Rng, sel string, tpl *uritemplate.Template) (topics, expansions []string) {
	add := func(t string) { topics = append(topics, t) }
	add(sel)
	if tpl != nil {
		for i := 0; i < 3; i++ { // RFC 6570 expansions for string values (ASCII: the library's Expand is exact there)
			if s, err := tpl.Expand(utValues(r, false, false)); err == nil && len(s) < 400 {
				add(s)
				expansions = append(expansions, s)
			}
		}
		// string and list values: still within C11_expansions_match
		if s, err := tpl.Expand(utValues(r, true, false)); err == nil && len(s) < 400 {
			add(s)
			expansions = append(expansions, s)
		}
		// associative arrays too: compared with the model, not required to match
		if s, err := tpl.Expand(utValues(r, true, true)); err == nil && len(s) < 400 {
			add(s)
		}
	}
	base := sel
	if len(expansions) > 0 {
		base = expansions[r.Intn(len(expansions))]
	}
	if len(base) > 400 {
		base = base[:40]
	}
	// near misses
	for i := 0; i < 3; i++ {
		t := base
		p := 0
		if len(t) > 0 {
			p = r.Intn(len(t) + 1)
		}
		switch r.Intn(4) {
		case 0:
			if p < len(t) {
				t = t[:p] + t[p+1:]
			}
		case 1:
			t = t[:p] + r.Pick([]string{"/", ",", "=", ".", ";", "&", "?", "#", "%", "%4", "%41", "%zz", "é", "\xff", " ", "x", "\n", "{", "}"}) + t[p:]
		case 2:
			t += r.Pick([]string{"/", ",x", "&y=1", ";y", ".z", "/1/2/3", "\n"})
		case 3: // another variable name in a named expansion
			t = strings.NewReplacer("x=", "zz=", "a=", "admin=", "id=", "uid=", "q=", "other=").Replace(t)
		}
		add(t)
	}
	add(r.StringFrom([]string{"a", ",", "=", "/", ".", ";", "&", "?", "#", "%41", "x", "1", "é"}, 6))
	if i := strings.IndexByte(sel, '{'); i >= 0 && i < 300 {
		add(sel[:i] + r.StringFrom([]string{"a", ",", "=", "/", ".", ";", "&", "?", "#", "%41", "%", "x=1", "b"}, 5))
	}
	return uniqStrings(topics), uniqStrings(expansions)
}

func uniqStrings(l []string) []string {
	seen := map[string]bool{}
	var out []string
	for _, s := range l {
		if !seen[s] {
			seen[s] = true
			out = append(out, s)
		}
	}
	return out
}

func utCompile(tpl *uritemplate.Template) (ok bool, match func(string) bool) {
	defer func() {
		if recover() != nil {
			ok, match = false, nil
		}
	}()
	re := tpl.Regexp()
	return true, re.MatchString
}

// the hub's matcher on every topic; a panic ends the list early
func utHub(sel string, topics []string, cached bool) (ans []bool, panicked string) {
	defer func() {
		if p := recover(); p != nil {
			panicked = fmt.Sprintf("%.120v", p)
		}
	}()
	tss := &mercure.TopicSelectorStore{}
	if cached {
		tss, _ = mercure.NewTopicSelectorStoreLRU(8, 1)
	}
	for _, t := range topics {
		ans = append(ans, implMatch(tss, t, sel))
	}
	return ans, ""
}

func utCase(out *hx.Out, r *hx.Rng, sel string, extra []string, corpus string) {
	tpl, err := uritemplate.New(sel)
	parsed := err == nil
	compiled := false
	var m func(string) bool
	if parsed {
		compiled, m = utCompile(tpl)
	} else {
		tpl = nil
	}
	var tplForTopics *uritemplate.Template
	if compiled {
		tplForTopics = tpl
	}
	topics, exps := utTopics(r, sel, tplForTopics)
	topics = uniqStrings(append(extra, topics...))
	pairs := make([]string, len(topics))
	lib := make([]bool, len(topics))
	nt := 0
	for i, t := range topics {
		if compiled {
			lib[i] = m(t)
		}
		if lib[i] {
			nt++
		}
		pairs[i] = ce.Pair(ce.Str(t), ce.Bool(lib[i]))
	}
	hub, panicked := utHub(sel, topics, r.Chance(0.5))
	hb := make([]string, len(hub))
	for i, x := range hub {
		hb[i] = ce.Bool(x)
	}
	kind := "valid"
	if !parsed {
		kind = "unparsable"
	} else if !compiled {
		kind = "uncompilable"
	}
	shown := sel
	if len(shown) > 200 {
		shown = fmt.Sprintf("%s... (%d bytes, %d commas)", sel[:60], len(sel), strings.Count(sel, ","))
	}
	desc := map[string]any{"kind": "template", "selector": shown, "selector_bytes": len(sel), "parsed": parsed, "compiled": compiled, "topics": topics,
		"library": lib, "hub": hub, "hub_panic": panicked, "expansions": exps, "variables_in_largest_expression": strings.Count(sel, ",") + 1}
	if corpus != "" {
		desc["corpus"] = corpus
	}
	out.Add(ce.App("Build_ut_case", ce.Str(sel), ce.Bool(parsed), ce.Bool(compiled), ce.List(pairs), ce.List(hb), ce.Strs(exps)),
		desc, parsed && compiled && nt > 0 && nt < len(topics), "kind:"+kind, fmt.Sprintf("matching:%d%%", (nt*100/len(topics))/25*25))
}

func runURITPL(a args) error {
	r := hx.NewRng(a.seed)
	out := hx.NewOut(a.out, "UriTemplate", "ut_case", "ut_agree", "ut_ok")
	out.ShardSize = 60
	// corpus: the shapes the protocol's rule and the generated expression disagree or might disagree on, the compile limit
	many := func(n int) string { return "{" + strings.TrimSuffix(strings.Repeat("a,", n), ",") + "}" }
	for _, c := range []struct {
		sel    string
		topics []string
	}{
		{"{?a}", []string{"?a=1", "?b=1", "?a", "?a=", ""}},
		{"{x:3}", []string{"abc", "abcd", "ab", "%41%42%43"}},
		{"{;x}", []string{";x=1", ";y=1", ";x"}},
		{"{x*}", []string{"a=b", "a,b", "k=v,k2=v"}},
		{"{/a,b*}", []string{"/1/k=v", "/k=v", "/1/2/3"}},
		{"/a{/x,y}", []string{"/a", "/a/1", "/a/1/2", "/a/1/2/3", "/a/"}},
		{"{+x,y}", []string{"a,b,c", "a/b,c?d", "a b"}},
		{"{x}{y}{z}", []string{"", "abc", "a,b,c,d", "a/b"}},
		{many(1001), []string{"x", "x,y", ""}},
		{many(1002), []string{"x", "x,y", "", many(1002)}},
		{"/t" + many(1500), []string{"/tx", "/t"}},
		{"é{x}", []string{"éa", "é", "\xc3a", "e\xcc\x81a"}},
		{"a%41{x}", []string{"a%41b", "aAb", "a%41"}},
	} {
		utCase(out, r, c.sel, c.topics, "rule vs generated expression / compile limit")
	}
	for i := 0; i < a.n; i++ {
		utCase(out, r, utSelector(r), nil, "")
	}
	return out.Flush()
}
