package main

import (
	"fmt"
	"net/http"
	"net/http/httptest"
	"net/url"
	"strings"
	"sync"
	"time"

	"github.com/dunglas/mercure"

	"verifh/hx"
)

func init() { drivers["MASSCLOSE"] = runMassClose }

// runMassClose: more connected subscribers than any batch a transport might process at a time (the buffer size, 1024,
// 2048...), some of them already cut off or gone, then Hub.Stop: every stream must be ended by the hub, and what comes
// later must be refused. The hub model would take minutes to replay a thousand registrations step by step; the case is
// judged by the specification predicate alone (Model/MassCases.v), which is what C15_streams_end says for any number
// of subscribers.
func runMassClose(a args) error {
	r := hx.NewRng(a.seed)
	out := hx.NewOut(a.out, "MassCases", "mass_case", "mass_ok", "mass_ok")
	out.ShardSize = 4
	for ci := 0; ci < a.n; ci++ {
		kind := []string{"bolt", "local"}[ci%2]
		n := []int{1030, 1100, 2060, 1025}[r.Intn(4)]
		env := hx.NewEnv(kind, mercure.WithAnonymous())
		streams := make([]*hx.Stream, n)
		var wg sync.WaitGroup
		for lo := 0; lo < n; lo += 64 { // connect in batches: each waits for its first write (the registration is complete)
			for i := lo; i < lo+64 && i < n; i++ {
				i := i
				wg.Add(1)
				go func() {
					defer wg.Done()
					streams[i] = hx.Subscribe(env.Hub, "/.well-known/mercure?topic="+url.QueryEscape(fmt.Sprintf("t%d", i%7)), nil)
					streams[i].W.WaitWrites(1, 10*time.Second)
				}()
			}
			wg.Wait()
		}
		for i, st := range streams {
			if st.W.Status != 200 {
				return fmt.Errorf("subscriber %d not accepted: %d", i, st.W.Status)
			}
		}
		// a few leave on their own before the hub stops
		gone := map[int]bool{}
		for k := 0; k < 5; k++ {
			i := r.Intn(n)
			gone[i] = true
			streams[i].Close()
		}
		_ = env.Hub.Stop()
		ended := make([]string, n)
		nEnded := 0
		for i, s := range streams {
			ok := gone[i] || s.Finished(5*time.Second)
			if ok {
				nEnded++
			}
			ended[i] = fmt.Sprint(ok)
		}
		// later operations
		req := httptest.NewRequest(http.MethodGet, "/.well-known/mercure?topic=late", nil)
		late := hx.SubscribeReq(env.Hub, req, hx.NewWriter())
		late.Finished(2 * time.Second)
		lateSub := late.W.Status
		lateRecv := strings.Contains(late.W.Body(), "id:")
		late.Close()
		tok := hx.HSToken(map[string]any{"publish": []string{"*"}})
		latePub := 0
		func() {
			defer func() {
				if recover() != nil {
					latePub = 500
				}
			}()
			latePub, _ = hx.Post(env.Hub, url.Values{"topic": {"t0"}, "data": {"d"}}, http.Header{"Authorization": {"Bearer " + tok}})
		}()
		for i, s := range streams {
			if !gone[i] {
				s.Close()
			}
		}
		env.Close()
		term := fmt.Sprintf("{| mc_n := %d%%nat; mc_ended := [%s]; mc_late_sub := %d%%nat; mc_late_sub_received := %v; mc_late_pub := %d%%nat |}",
			n, strings.Join(ended, ";"), lateSub, lateRecv, latePub)
		out.Add(term, map[string]any{"transport": kind, "subscribers": n, "ended_by_the_hub_or_gone": nEnded, "late_subscribe_status": lateSub, "late_publish_status": latePub},
			true, "transport:"+kind, fmt.Sprintf("subscribers:%d", n))
	}
	return out.Flush()
}
