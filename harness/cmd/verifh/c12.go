package main

import (
	"fmt"
	"net/http"
	"net/url"
	"strings"
	"time"

	"github.com/dunglas/mercure"

	ce "verifh/coqemit"
	"verifh/hx"
)

func init() { drivers["C12"] = runC12 }

var c12DataAlphabet = []string{"\r", "\n", "\r\n", ":", " ", "d", "a", "t", "i", "data", "id: x", "event: y", "retry: 1",
	"\x00", " ", "é", "😀", "data:", "\n\n", "x"}
var c12IDAlphabet = []string{"a", "1", ":", " ", "urn:uuid:", "é", "/", "-", "id", " ", "\t"}
var c12Retry = []uint64{0, 0, 0, 1, 10, 1500, 1 << 63, ^uint64(0), 4294967296}

func c12Event(r *hx.Rng, malformed bool) mercure.Event {
	e := mercure.Event{
		Data:  r.StringFrom(c12DataAlphabet, 8),
		ID:    r.StringFrom(c12IDAlphabet, 4),
		Retry: c12Retry[r.Intn(len(c12Retry))],
	}
	if r.Chance(0.5) {
		e.Type = r.StringFrom(c12IDAlphabet, 3)
	}
	if malformed {
		switch r.Intn(3) {
		case 0:
			e.ID += r.Pick([]string{"\r", "\n", "\r\n"}) + "x"
		case 1:
			e.Type += r.Pick([]string{"\r", "\n"}) + "data: injected"
		case 2:
			e.ID = "a\x00b"
		}
	}
	return e
}

func coqEvent(e mercure.Event) string {
	return fmt.Sprintf("{| e_data := %s; e_id := %s; e_type := %s; e_retry := %d |}", ce.Str(e.Data), ce.Str(e.ID), ce.Str(e.Type), e.Retry)
}

func evTags(e mercure.Event) []string {
	t := []string{fmt.Sprintf("datalen:%d", min(len(e.Data)/8, 5)*8)}
	if strings.ContainsAny(e.Data, "\r\n") {
		t = append(t, "data:multiline")
	}
	if strings.Contains(e.Data, "\r\n") {
		t = append(t, "data:crlf")
	}
	if e.Type != "" {
		t = append(t, "type:set")
	}
	if e.Retry != 0 {
		t = append(t, "retry:set")
	}
	if e.ID == "" {
		t = append(t, "id:empty")
	}
	if strings.ContainsAny(e.ID+e.Type, "\r\n") {
		t = append(t, "malformed:linebreak-in-id-or-type")
	}
	if strings.Contains(e.ID, "\x00") {
		t = append(t, "malformed:nul-in-id")
	}
	return t
}

func runC12(a args) error {
	r := hx.NewRng(a.seed)
	out := hx.NewOut(a.out, "Sse C12Check", "c12_case", "c12_case_agree", "c12_case_ok")
	// corpus: directed cases, always first
	corpus := []mercure.Event{
		{Data: "", ID: "i"},
		{Data: "\r", ID: "i"},
		{Data: "\r\n", ID: "i"},
		{Data: "\n\r", ID: "i"},
		{Data: "a\r\n\r\nb", ID: "i", Type: "t", Retry: 1},
		{Data: "data: x\nid: y\n\nevent: z", ID: "i"},
		{Data: "x", ID: " lead", Type: " lead"},
		{Data: "x", ID: "a:b", Type: ":"},
		{Data: "x", ID: "", Type: ""},
		{Data: "x", ID: "i", Retry: ^uint64(0)},
		{Data: "x", ID: "a\x00b"}, // the recorded finding (id ignored by a conformant parser)
	}
	for _, e := range corpus {
		out.Add(ce.App("C12Unit", coqEvent(e), ce.Str(e.String())), map[string]any{"kind": "unit", "event": e, "corpus": true}, true, append(evTags(e), "kind:unit")...)
	}
	// unit cases: Event.String() bytes
	for i := 0; i < a.n; i++ {
		e := c12Event(r, i%10 == 9)
		nontrivial := strings.ContainsAny(e.Data, "\r\n") || e.Type != "" || e.Retry != 0
		out.Add(ce.App("C12Unit", coqEvent(e), ce.Str(e.String())), map[string]any{"kind": "unit", "event": e}, nontrivial, append(evTags(e), "kind:unit")...)
	}
	// end-to-end: POST (form encoding) -> stream bytes, both transports, live and replay paths
	ne2e := a.n / 10
	for i := 0; i < ne2e; i++ {
		kind := []string{"local", "bolt"}[i%2]
		replay := kind == "bolt" && (i/2)%2 == 1
		k := 1 + r.Intn(3)
		evs := make([]mercure.Event, k)
		for j := range evs {
			evs[j] = c12Event(r, false)
			evs[j].Data = strings.ToValidUTF8(evs[j].Data, "")
			if r.Chance(0.3) {
				evs[j].ID = ""
			}
			// the same publisher-chosen id for two different updates in a row (a resource's IRI, version after version):
			// each goes out with its own type, retry and data
			if j > 0 && evs[j-1].ID != "" && r.Chance(0.3) {
				evs[j].ID = evs[j-1].ID
			}
		}
		c, desc, err := c12Stream(kind, replay, evs)
		if err != nil {
			return err
		}
		out.Add(c, desc, true, "kind:stream", "transport:"+kind, fmt.Sprintf("replay:%v", replay))
	}
	return out.Flush()
}

// c12Stream publishes evs through the HTTP handler and returns the case built
// from what one subscriber's stream carried.
func c12Stream(kind string, replay bool, evs []mercure.Event) (string, any, error) {
	env := hx.NewEnv(kind, mercure.WithAnonymous())
	defer env.Close()
	pub := hx.HSToken(map[string]any{"publish": []string{"*"}})
	hdr := http.Header{"Authorization": {"Bearer " + pub}}
	var st *hx.Stream
	if !replay {
		st = hx.Subscribe(env.Hub, "/.well-known/mercure?topic=t", nil)
		if !st.W.WaitWrites(1, 5*time.Second) {
			return "", nil, fmt.Errorf("subscriber did not start")
		}
	}
	type pubrec struct {
		Submitted mercure.Event
		Status    int
		Returned  string
	}
	var recs []pubrec
	var pubs []string
	for _, e := range evs {
		form := url.Values{"topic": {"t"}, "data": {e.Data}}
		if e.ID != "" {
			form.Set("id", e.ID)
		}
		if e.Type != "" {
			form.Set("type", e.Type)
		}
		if e.Retry != 0 {
			form.Set("retry", fmt.Sprint(e.Retry))
			if len(recs)%2 == 1 || len(e.Data)%2 == 1 {
				form.Set("retry", "00"+fmt.Sprint(e.Retry)) // decimal with leading zeros: the same number
			}
		}
		code, body := hx.Post(env.Hub, form, hdr)
		recs = append(recs, pubrec{e, code, body})
		pubs = append(pubs, ce.Pair(coqEvent(e), ce.Pair(ce.N(uint64(code)), ce.Str(body))))
	}
	if replay {
		st = hx.Subscribe(env.Hub, "/.well-known/mercure?topic=t&lastEventID=earliest", nil)
	}
	st.W.WaitWrites(1+len(evs), 3*time.Second)
	st.Close()
	w := st.W
	term := ce.App("C12Stream", ce.List(pubs), ce.N(uint64(w.Status)), ce.Str(w.Sent.Get("Content-Type")), ce.Str(w.Sent.Get("Cache-Control")), ce.Str(w.Body()))
	desc := map[string]any{"kind": "stream", "transport": kind, "replay": replay, "publishes": recs, "status": w.Status, "body": w.Body()}
	return term, desc, nil
}
