package main

import (
	"fmt"
	"os"
	"path/filepath"
	"strconv"
	"strings"

	"github.com/dunglas/mercure"

	ce "verifh/coqemit"
	"verifh/hx"
)

func init() { drivers["C10"] = runC10 }

func runC10(a args) error {
	r := hx.NewRng(a.seed)
	out := hx.NewOut(a.out, "BoltHist", "c10_case", "c10_agree", "c10_ok")
	out.ShardSize = 100
	dir := hx.WorkDir()
	defer os.RemoveAll(dir)
	freqs := []float64{0, 0.3, 0.5, 0.9, 1}
	for i := 0; i < a.n; i++ {
		size := uint64(r.Intn(13)) // 0 = keep everything
		if i%10 == 9 {             // sizes around 2^63 and the largest one ("keep everything" written as a number): nothing is ever discarded
			size = []uint64{1 << 63, 1<<63 - 1, 1<<63 + 5, 1<<64 - 1}[(i/10)%4]
		}
		freq := freqs[r.Intn(len(freqs))]
		n := 1 + r.Intn(40)
		// payload sizes chosen so that the keys span an inline bucket, one leaf, several pages
		pay := []int{10, 10, 200, 2000, 8192}[r.Intn(5)]
		p := filepath.Join(dir, fmt.Sprintf("c10-%d.db", i))
		t, err := mercure.NewBoltTransport(hx.Logger, p, "", size, freq)
		if err != nil {
			return err
		}
		var steps []string
		var stepsDesc [][]int
		reopens := 0
		rejected := 0
		commitFaults := 0
		deletedSeveral := false
		prevLen := 0
		for k := 1; k <= n; k++ {
			if r.Chance(0.08) {
				// a publish the database refuses (the key would exceed bbolt's maximum key size): it must leave no trace,
				// in particular no hole in the sequence numbers the retention arithmetic relies on
				bad := &mercure.Update{Topics: []string{"t"}, Event: mercure.Event{ID: strings.Repeat("k", 40000), Data: "x"}}
				if err := t.Dispatch(bad); err == nil {
					return fmt.Errorf("an update with a 40000-byte id was accepted")
				}
				rejected++
			}
			if k > 1 && r.Chance(0.08) {
				// a publish whose transaction fails when it is committed (the file cannot be written at that instant): the
				// deletions of its cleanup are rolled back with it, and it must leave no trace either
				restore, err := breakWritesTemporarily(p)
				if err != nil {
					return err
				}
				err = t.Dispatch(&mercure.Update{Topics: []string{"t"}, Event: mercure.Event{ID: "unwritten", Data: strings.Repeat("x", pay)}})
				restore()
				if err == nil {
					return fmt.Errorf("a publish whose commit could not be written was accepted")
				}
				rejected++
				commitFaults++
			}
			u := &mercure.Update{Topics: []string{"t"}, Event: mercure.Event{ID: strconv.Itoa(k), Data: strings.Repeat("x", pay)}}
			if err := t.Dispatch(u); err != nil {
				return err
			}
			ids := hx.Retained(t)
			var ns []string
			var ni []int
			for _, id := range ids {
				v, _ := strconv.Atoi(id)
				ns = append(ns, strconv.Itoa(v))
				ni = append(ni, v)
			}
			if prevLen+1-len(ids) >= 2 {
				deletedSeveral = true
			}
			prevLen = len(ids)
			steps = append(steps, "["+strings.Join(ns, ";")+"]")
			stepsDesc = append(stepsDesc, ni)
			if r.Chance(0.15) { // restart in between
				if err := t.Close(); err != nil {
					return err
				}
				t, err = mercure.NewBoltTransport(hx.Logger, p, "", size, freq)
				if err != nil {
					return err
				}
				reopens++
			}
		}
		_ = t.Close()
		_ = os.Remove(p)
		fk := 2
		if freq == 0 {
			fk = 0
		} else if freq == 1 {
			fk = 1
		}
		term := fmt.Sprintf("{| c10_size := %d; c10_freq := %d; c10_steps := %s |}", size, fk, ce.List(steps))
		out.Add(term, map[string]any{"size": size, "frequency": freq, "publishes": n, "payload": pay, "reopens": reopens, "rejected_publishes": rejected, "of_which_failed_at_commit": commitFaults, "retained_after_each": stepsDesc},
			deletedSeveral || (size > 0 && uint64(n) > size), fmt.Sprintf("freq:%v", freq), fmt.Sprintf("payload:%d", pay),
			fmt.Sprintf("several-keys-in-one-cleanup:%v", deletedSeveral), fmt.Sprintf("reopens:%d", min(reopens, 3)), fmt.Sprintf("rejected:%d", min(rejected, 3)))
	}
	return out.Flush()
}
