// verifh drives the implementation in /repo for the correspondence checks.
// usage: verifh <property> -seed N -n K -out DIR [-only IDX]
package main

import (
	"flag"
	"fmt"
	"os"
)

type args struct {
	seed int64
	n    int
	out  string
	tier string
	only int
}

var drivers = map[string]func(a args) error{}

func main() {
	if len(os.Args) < 2 {
		fmt.Fprintln(os.Stderr, "usage: verifh <property> [flags]")
		os.Exit(2)
	}
	prop := os.Args[1]
	fs := flag.NewFlagSet(prop, flag.ExitOnError)
	var a args
	fs.Int64Var(&a.seed, "seed", 1, "PRNG seed")
	fs.IntVar(&a.n, "n", 100, "number of generated cases (scale)")
	fs.StringVar(&a.out, "out", "", "output directory")
	fs.StringVar(&a.tier, "tier", "quick", "quick|thorough")
	fs.IntVar(&a.only, "only", -1, "emit only this case index (replay)")
	_ = fs.Parse(os.Args[2:])
	d, ok := drivers[prop]
	if !ok {
		fmt.Fprintln(os.Stderr, "unknown property", prop)
		os.Exit(2)
	}
	if err := d(a); err != nil {
		fmt.Fprintln(os.Stderr, "driver error:", err)
		os.Exit(3)
	}
}
