package main

import (
	"fmt"
	"net/http"
	"net/url"
	"strconv"
	"strings"
	"time"

	"github.com/dunglas/mercure"

	"verifh/hx"
)

func init() { drivers["PRIVID"] = runPrivID }

// runPrivID: private and public updates that reuse ids (publishers choose ids freely), with one or two topics. Three
// subscribers to topic t: an anonymous one, one whose token only covers the alternate topic u, one whose token covers t.
// What each stream carries - live, and replayed from "earliest" with the persistent transport - is identified by payload:
// a private payload must never show up on a stream that is not authorised for one of that update's topics.
func runPrivID(a args) error {
	r := hx.NewRng(a.seed)
	out := hx.NewOut(a.out, "MassCases", "priv_case", "priv_ok", "priv_ok")
	out.ShardSize = 50
	tok := hx.HSToken(map[string]any{"publish": []string{"*"}})
	auth := http.Header{"Authorization": {"Bearer " + tok}}
	hdrFor := func(claim []string, last string) http.Header {
		h := http.Header{}
		if claim != nil {
			h.Set("Authorization", "Bearer "+hx.HSToken(map[string]any{"subscribe": claim}))
		}
		if last != "" {
			h.Set("Last-Event-ID", last)
		}
		return h
	}
	claimsOf := [][]string{nil, {"u", "T"}, {"t"}} // "T" is not "t": it grants nothing
	for ci := 0; ci < a.n; ci++ {
		kind := []string{"bolt", "local"}[ci%2]
		env := hx.NewEnv(kind, mercure.WithAnonymous())
		var live [3]*hx.Stream
		for i := range live {
			live[i] = hx.Subscribe(env.Hub, "/.well-known/mercure?topic=t", hdrFor(claimsOf[i], ""))
			live[i].W.WaitWrites(1, 5*time.Second)
		}
		n := 2 + r.Intn(8)
		pool := []string{"x", "y", "urn:uuid:00000000-0000-0000-0000-000000000001"}
		var terms []string
		var desc []map[string]any
		want := [3]int{}
		last := ""
		shared := false
		prevPrivate := map[string]bool{}
		for k := 0; k < n; k++ {
			id := r.Pick(pool)
			if k > 0 && r.Chance(0.5) {
				id = last
			}
			last = id
			private := r.Chance(0.5)
			alt := r.Chance(0.4)
			if was, seen := prevPrivate[id]; seen && was != private {
				shared = true // a private and a public update under one id
			}
			prevPrivate[id] = private
			form := url.Values{"topic": {"t"}, "data": {strconv.Itoa(k + 1)}, "id": {id}}
			if alt {
				form.Add("topic", "u")
			}
			if private {
				form.Set("private", "on")
			}
			code, _ := hx.Post(env.Hub, form, auth)
			if code != 200 {
				return fmt.Errorf("publish refused: %d", code)
			}
			if !private {
				want[0]++
			}
			if !private || alt {
				want[1]++
			}
			want[2]++
			terms = append(terms, fmt.Sprintf("{| pu_payload := %d; pu_private := %v; pu_alt := %v |}", k+1, private, alt))
			desc = append(desc, map[string]any{"id": id, "private": private, "topics_t_and_u": alt, "payload": k + 1})
		}
		wait := func(ss [3]*hx.Stream) [3][]string {
			var got [3][]string
			for i, s := range ss {
				deadline := time.Now().Add(3 * time.Second)
				for len(dataLines(s.W.Body())) < want[i] && time.Now().Before(deadline) {
					s.W.WaitWrites(s.W.NumWrites()+1, 50*time.Millisecond)
				}
			}
			time.Sleep(10 * time.Millisecond)
			for i, s := range ss {
				got[i] = dataLines(s.W.Body())
			}
			return got
		}
		liveGot := wait(live)
		replayT := "None"
		var replayGot [3][]string
		if kind == "bolt" {
			var rp [3]*hx.Stream
			for i := range rp {
				rp[i] = hx.Subscribe(env.Hub, "/.well-known/mercure?topic=t", hdrFor(claimsOf[i], "earliest"))
			}
			replayGot = wait(rp)
			for _, s := range rp {
				s.Close()
			}
			replayT = fmt.Sprintf("(Some ([%s], [%s], [%s]))", strings.Join(replayGot[0], ";"), strings.Join(replayGot[1], ";"), strings.Join(replayGot[2], ";"))
		}
		for _, s := range live {
			s.Close()
		}
		env.Close()
		term := fmt.Sprintf("{| pv_pubs := [%s]; pv_anon := [%s]; pv_partial := [%s]; pv_full := [%s]; pv_replay := %s |}",
			strings.Join(terms, "; "), strings.Join(liveGot[0], ";"), strings.Join(liveGot[1], ";"), strings.Join(liveGot[2], ";"), replayT)
		out.Add(term, map[string]any{"transport": kind, "updates": desc, "anonymous_stream": liveGot[0], "token_for_u_stream": liveGot[1], "token_for_t_stream": liveGot[2],
			"replayed": replayGot}, shared, "transport:"+kind, fmt.Sprintf("private-and-public-under-one-id:%v", shared))
	}
	return out.Flush()
}
