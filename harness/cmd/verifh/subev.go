package main

import (
	"encoding/json"
	"fmt"
	"net/http"
	"net/url"
	"strings"
	"time"

	"github.com/dunglas/mercure"

	ce "verifh/coqemit"
	"verifh/hx"
)

func init() { drivers["SUBEV"] = runSubEv }

var subevSelectors = []string{"a", "b", "https://example.com/books/{id}", "a b", "é", "x/y?z#w", "%", "+", "*", "{x}", "/.well-known/mercure", "a%2Fb", "..", "~tilde_-.", "日本"}

type subevDoc struct {
	ID         string `json:"id"`
	Type       string `json:"type"`
	Subscriber string `json:"subscriber"`
	Topic      string `json:"topic"`
	Active     bool   `json:"active"`
	Payload    any    `json:"payload"`
}

// sseDatas returns the data payloads of the events of a stream body.
func sseDatas(body string) []string {
	var out []string
	for _, ev := range strings.Split(body, "\n\n") {
		var lines []string
		for _, l := range strings.Split(ev, "\n") {
			if strings.HasPrefix(l, "data: ") {
				lines = append(lines, l[6:])
			} else if l == "data:" {
				lines = append(lines, "")
			}
		}
		if len(lines) > 0 {
			out = append(out, strings.Join(lines, "\n"))
		}
	}
	return out
}

func runSubEv(a args) error {
	r := hx.NewRng(a.seed)
	out := hx.NewOut(a.out, "SubEvCases", "subev_case", "subev_agree", "subev_ok")
	out.ShardSize = 20
	for ci := 0; ci < a.n; ci++ {
		kind := []string{"local", "bolt"}[ci%2]
		tracking := ci%7 != 6
		opts := []mercure.Option{mercure.WithAnonymous()}
		if tracking {
			opts = append(opts, mercure.WithSubscriptions())
		}
		env := hx.NewEnv(kind, opts...)
		only := r.Pick(subevSelectors)
		onlySel := "/.well-known/mercure/subscriptions/" + url.QueryEscape(only) + "/{subscriber}"
		type subj struct {
			sels    []string
			left    bool
			payload map[string]any
			stream  *hx.Stream
		}
		// the two watchers are subscribers too: subjects 0 and 1
		// watcher 1 sees every private update (selector and claim "*"); the documented template
		// {/topic}{/subscriber} would miss the ids of selectors containing a space: QueryEscape writes "+", which is not an expansion
		w1 := &subj{sels: []string{"*"}}
		w2 := &subj{sels: []string{onlySel}}
		connect := func(s *subj, claim []string) {
			q := url.Values{"topic": s.sels}
			hdr := http.Header{}
			if claim != nil {
				m := map[string]any{"subscribe": claim}
				if s.payload != nil {
					m["payload"] = s.payload
				}
				hdr.Set("Authorization", "Bearer "+hx.HSToken(m))
			}
			s.stream = hx.Subscribe(env.Hub, "/.well-known/mercure?"+q.Encode(), hdr)
			s.stream.W.WaitWrites(1, 2*time.Second)
			time.Sleep(2 * time.Millisecond)
		}
		connect(w1, []string{"*"})
		connect(w2, []string{onlySel})
		// watcher 1 cannot see its own announcement (dispatched before it is registered): not a subject
		subjects := []*subj{w2}
		n := 1 + r.Intn(4)
		for k := 0; k < n; k++ {
			s := &subj{}
			for j := 0; j <= r.Intn(3); j++ {
				s.sels = append(s.sels, r.Pick(subevSelectors))
			}
			if r.Chance(0.3) {
				s.sels = append(s.sels, only)
			}
			var claim []string
			if r.Chance(0.6) {
				claim = []string{r.Pick(subevSelectors)}
				if r.Chance(0.5) {
					s.payload = map[string]any{"user": fmt.Sprintf("u%d", k), "n": k}
				}
			}
			connect(s, claim)
			subjects = append(subjects, s)
			if r.Chance(0.6) {
				s.left = true
				s.stream.Close()
				time.Sleep(2 * time.Millisecond)
			}
		}
		// let the watchers drain, then read them
		for _, w := range []*subj{w1, w2} {
			last := -1
			for i := 0; i < 50 && w.stream.W.NumWrites() != last; i++ {
				last = w.stream.W.NumWrites()
				time.Sleep(2 * time.Millisecond)
			}
		}
		parse := func(s *subj) ([]subevDoc, []string) {
			var docs []subevDoc
			var terms []string
			for _, d := range sseDatas(s.stream.W.Body()) {
				var doc subevDoc
				if json.Unmarshal([]byte(d), &doc) != nil {
					continue
				}
				docs = append(docs, doc)
			}
			return docs, terms
		}
		all, _ := parse(w1)
		onlyEv, _ := parse(w2)
		// subscriber urns by order of first appearance = order of connection
		var urns []string
		seen := map[string]bool{}
		for _, d := range all {
			if !seen[d.Subscriber] {
				seen[d.Subscriber] = true
				urns = append(urns, d.Subscriber)
			}
		}
		payloadOf := map[string]map[string]any{}
		var subjTerms []string
		var subjDesc []any
		for i, s := range subjects {
			urn := fmt.Sprintf("unknown-%d", i)
			if i < len(urns) {
				urn = urns[i]
			}
			payloadOf[urn] = s.payload
			subjTerms = append(subjTerms, fmt.Sprintf("{| sj_urn := %s; sj_selectors := %s; sj_left := %s |}", ce.Str(urn), ce.Strs(s.sels), ce.Bool(s.left)))
			subjDesc = append(subjDesc, map[string]any{"selectors": s.sels, "left": s.left, "payload": s.payload})
		}
		evTerm := func(d subevDoc) string {
			pj, _ := json.Marshal(d.Payload)
			want, _ := json.Marshal(payloadOf[d.Subscriber])
			if payloadOf[d.Subscriber] == nil {
				want = []byte("null")
			}
			return fmt.Sprintf("{| se_id := %s; se_subscriber := %s; se_topic := %s; se_active := %s; se_payload_ok := %s; se_type_ok := %s |}",
				ce.Str(d.ID), ce.Str(d.Subscriber), ce.Str(d.Topic), ce.Bool(d.Active), ce.Bool(string(pj) == string(want)), ce.Bool(d.Type == "Subscription"))
		}
		var allT, onlyT []string
		for _, d := range all {
			allT = append(allT, evTerm(d))
		}
		for _, d := range onlyEv {
			onlyT = append(onlyT, evTerm(d))
		}
		w1.stream.Close()
		for _, s := range subjects {
			if !s.left {
				s.stream.Close()
			}
		}
		env.Close()
		term := fmt.Sprintf("{| sc_tracking := %s; sc_subjects := %s; sc_all := %s; sc_only := %s; sc_only_events := %s |}",
			ce.Bool(tracking), ce.List(subjTerms), ce.List(allT), ce.Str(only), ce.List(onlyT))
		out.Add(term, map[string]any{"transport": kind, "tracking": tracking, "subjects": subjDesc, "events": all, "only_selector": only, "only_events": onlyEv},
			tracking && len(all) > 4, "transport:"+kind, fmt.Sprintf("tracking:%v", tracking), fmt.Sprintf("events:%d", min(len(all)/4*4, 20)))
	}
	return out.Flush()
}
