package main

import (
	"fmt"
	"net/http"
	"net/url"
	"strings"
	"sync"
	"time"

	"verifh/hx"
)

func init() { drivers["GAUGE"] = runGauge }

// runGauge (40 waves per hub): the metrics at quiescent points when streams are accepted, ended and updates published SIMULTANEOUSLY
// (the hub histories drive one operation at a time). k clients connect at the same moment, publishers post at the same
// moment, the clients leave at the same moment; after each wave the gauge must be the number of open streams and the
// counters the numbers of accepted subscriptions and updates. Unsteered concurrency: a supporting search for C20, whose
// theorems cover every schedule of the model.
func runGauge(a args) error {
	out := hx.NewOut(a.out, "MassCases", "gauge_case", "gauge_ok", "gauge_ok")
	out.ShardSize = 100
	dir := hx.WorkDir()
	tok := hx.HSToken(map[string]any{"publish": []string{"*"}})
	auth := http.Header{"Authorization": {"Bearer " + tok}}
	for ci := 0; ci < a.n; ci++ {
		kind := []string{"local", "bolt"}[ci%2]
		hub := hsNewHub(kind, dir, fmt.Sprintf("%s/g-%d-%d.db", dir, a.seed, ci), 0, false)
		var waves []string
		total, updates := 0, 0
		for w := 0; w < 40; w++ {
			k := 8
			streams := make([]*hx.Stream, k)
			var wg sync.WaitGroup
			start := make(chan struct{})
			for i := 0; i < k; i++ {
				i := i
				wg.Add(1)
				go func() {
					defer wg.Done()
					<-start
					streams[i] = hx.Subscribe(hub.env.Hub, "/.well-known/mercure?topic=t", nil)
					streams[i].W.WaitWrites(1, 5*time.Second)
				}()
			}
			close(start)
			wg.Wait()
			total += k
			time.Sleep(200 * time.Microsecond)
			g1, st1, _ := hub.metrics()
			// simultaneous publishes
			start2 := make(chan struct{})
			npub := 0
			if w%8 == 0 {
				npub = 4
			}
			for i := 0; i < npub; i++ {
				wg.Add(1)
				go func() {
					defer wg.Done()
					<-start2
					safePost(hub, url.Values{"topic": {"t"}, "data": {"d"}}, auth)
				}()
			}
			close(start2)
			wg.Wait()
			updates += npub
			_, _, ut1 := hub.metrics()
			// simultaneous departures
			start3 := make(chan struct{})
			for i := 0; i < k; i++ {
				i := i
				wg.Add(1)
				go func() {
					defer wg.Done()
					<-start3
					streams[i].Close()
				}()
			}
			close(start3)
			wg.Wait()
			time.Sleep(200 * time.Microsecond)
			g2, st2, _ := hub.metrics()
			waves = append(waves, fmt.Sprintf("{| gw_open := %d%%nat; gw_gauge_open := (%d)%%Z; gw_total := %d; gw_total_seen := %d; gw_updates := %d; gw_updates_seen := %d; gw_gauge_closed := (%d)%%Z; gw_total_after := %d |}",
				k, g1, total, st1, updates, ut1, g2, st2))
		}
		hub.env.Close()
		out.Add(fmt.Sprintf("{| gc_waves := [%s] |}", strings.Join(waves, "; ")), map[string]any{"transport": kind, "waves": 40, "clients_per_wave": 8}, true, "transport:"+kind)
	}
	return out.Flush()
}
