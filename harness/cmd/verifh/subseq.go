package main

import (
	"fmt"
	"strings"

	"github.com/dunglas/mercure"

	ce "verifh/coqemit"
	"verifh/hx"
)

func init() { drivers["SUBSEQ"] = runSubSeq }

// Sequential histories of LocalSubscriber method calls (the real buffer of 1000): counts of pending
// updates around the capacity, overflow live / from history / while flushing the queue.
func runSubSeq(a args) error {
	r := hx.NewRng(a.seed)
	out := hx.NewOut(a.out, "SubCases", "sub_seq_case", "sub_seq_agree", "sub_seq_ok")
	out.ShardSize = 8
	type plan struct {
		name string
		gen  func() []string // compact op codes: "L" live dispatch, "H" history dispatch, "R" ready, "X" disconnect, "C" recv
	}
	rep := func(op string, n int) []string {
		l := make([]string, n)
		for i := range l {
			l[i] = op
		}
		return l
	}
	cat := func(ls ...[]string) []string {
		var o []string
		for _, l := range ls {
			o = append(o, l...)
		}
		return o
	}
	var plans []plan
	for _, n := range []int{999, 1000, 1001, 1500} {
		n := n
		plans = append(plans,
			plan{fmt.Sprintf("live-%d", n), func() []string { return cat([]string{"R"}, rep("L", n), []string{"L", "X", "L"}) }},
			plan{fmt.Sprintf("history-%d", n), func() []string { return cat(rep("H", n), []string{"R", "L"}) }},
			plan{fmt.Sprintf("queued-%d", n), func() []string { return cat(rep("L", n), []string{"R", "L", "L"}) }},
			plan{fmt.Sprintf("history-%d-queued-5", n-3), func() []string { return cat(rep("H", n-3), rep("L", 5), []string{"R", "L"}) }},
			plan{fmt.Sprintf("consumed-%d", n), func() []string { return cat([]string{"R"}, rep("L", n), rep("C", 10), rep("L", 12), []string{"X"}) }},
		)
	}
	for i := 0; i < a.n; i++ {
		plans = append(plans, plan{"random", func() []string {
			var o []string
			for k := 0; k < 3+r.Intn(40); k++ {
				o = append(o, r.Pick([]string{"L", "L", "L", "H", "H", "R", "X", "C", "C"}))
			}
			return o
		}})
	}
	for _, p := range plans {
		codes := p.gen()
		s := mercure.NewLocalSubscriber("", hx.Logger, &mercure.TopicSelectorStore{})
		s.SetTopics([]string{"t"}, nil)
		var ops, rets, received []string
		u := 0
		ready := false
		closed := false
		overflow := false
		for _, c := range codes {
			switch c {
			case "L", "H":
				u++
				ok := s.Dispatch(&mercure.Update{Topics: []string{"t"}, Event: mercure.Event{ID: fmt.Sprint(u)}}, c == "H")
				ops = append(ops, fmt.Sprintf("ODispatch %d %s", u, ce.Bool(c == "H")))
				rets = append(rets, ce.Bool(ok))
			case "R":
				if ready {
					continue // Ready is called once per subscriber
				}
				ready = true
				s.Ready()
				ops = append(ops, "OReady")
			case "X":
				s.Disconnect()
				ops = append(ops, "ODisconnect")
			case "C":
				select {
				case v, ok := <-s.Receive():
					if ok {
						received = append(received, v.ID)
					} else {
						closed = true
					}
					ops = append(ops, "ORecv")
				default: // empty and open: the consumer would block, not an operation
				}
			}
		}
	drain:
		for {
			select {
			case v, ok := <-s.Receive():
				if !ok {
					closed = true
					break drain
				}
				received = append(received, v.ID)
			default:
				break drain
			}
		}
		for _, x := range rets {
			if x == "false" {
				overflow = true
			}
		}
		term := fmt.Sprintf("{| sq_ops := %s; sq_rets := %s; sq_received := [%s]; sq_closed := %s |}", ce.List(ops), ce.List(rets), strings.Join(received, ";"), ce.Bool(closed))
		out.Add(term, map[string]any{"plan": p.name, "ops": len(ops), "received": len(received), "closed": closed, "some_dispatch_refused": overflow, "codes": strings.Join(codes, "")[:min(len(codes), 120)]},
			overflow || closed, "plan:"+strings.Split(p.name, "-")[0], fmt.Sprintf("closed:%v", closed))
	}
	return out.Flush()
}
