package main

import (
	"fmt"
	"os"
	"path/filepath"
	"strconv"
	"strings"

	"github.com/dunglas/mercure"

	"verifh/hx"
)

func init() { drivers["C10V"] = runC10V }

// runC10V: as C10, but the retention size and the cleanup frequency may change when the hub is restarted on the same
// file (an operator edits the configuration): each publication is judged with the configuration then in force.
func runC10V(a args) error {
	r := hx.NewRng(a.seed)
	out := hx.NewOut(a.out, "BoltHist", "c10v_case", "c10v_agree", "c10v_ok")
	out.ShardSize = 100
	dir := hx.WorkDir()
	defer os.RemoveAll(dir)
	freqs := []float64{0, 0.5, 1, 1}
	for i := 0; i < a.n; i++ {
		size := uint64(r.Intn(13))
		freq := freqs[r.Intn(len(freqs))]
		n := 6 + r.Intn(40)
		p := filepath.Join(dir, fmt.Sprintf("c10v-%d.db", i))
		t, err := mercure.NewBoltTransport(hx.Logger, p, "", size, freq)
		if err != nil {
			return err
		}
		var steps []string
		var desc []map[string]any
		raised, lowered, freqRaised := false, false, false
		for k := 1; k <= n; k++ {
			u := &mercure.Update{Topics: []string{"t"}, Event: mercure.Event{ID: strconv.Itoa(k), Data: "x"}}
			if err := t.Dispatch(u); err != nil {
				return err
			}
			var ns []string
			for _, id := range hx.Retained(t) {
				v, _ := strconv.Atoi(id)
				ns = append(ns, strconv.Itoa(v))
			}
			fk := 2
			if freq == 0 {
				fk = 0
			} else if freq == 1 {
				fk = 1
			}
			steps = append(steps, fmt.Sprintf("(%d, %d, [%s])", size, fk, strings.Join(ns, ";")))
			desc = append(desc, map[string]any{"size": size, "frequency": freq, "retained": ns})
			if r.Chance(0.2) { // restart, possibly with another configuration
				if err := t.Close(); err != nil {
					return err
				}
				if r.Chance(0.7) {
					ns := uint64(r.Intn(13))
					raised = raised || (ns > size && size != 0) || (ns == 0 && size != 0)
					lowered = lowered || (ns < size && ns != 0) || (size == 0 && ns != 0)
					size = ns
				}
				if r.Chance(0.5) {
					nf := freqs[r.Intn(len(freqs))]
					freqRaised = freqRaised || nf > freq
					freq = nf
				}
				t, err = mercure.NewBoltTransport(hx.Logger, p, "", size, freq)
				if err != nil {
					return err
				}
			}
		}
		_ = t.Close()
		_ = os.Remove(p)
		term := fmt.Sprintf("{| c10v_steps := [%s] |}", strings.Join(steps, "; "))
		out.Add(term, map[string]any{"publishes": n, "steps": desc}, raised || lowered || freqRaised,
			fmt.Sprintf("size-raised:%v", raised), fmt.Sprintf("size-lowered:%v", lowered), fmt.Sprintf("frequency-raised:%v", freqRaised))
	}
	return out.Flush()
}
