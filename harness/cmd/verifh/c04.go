package main

import (
	"fmt"
	"net/http"
	"net/http/httptest"
	"net/url"
	"time"

	"github.com/dunglas/mercure"
	"github.com/golang-jwt/jwt/v5"

	ce "verifh/coqemit"
	"verifh/hx"
)

func init() { drivers["C04"] = runC04 }

const subsBase = "/.well-known/mercure/subscriptions/"

// one credential per carrier, each with different rights: x in {h, q, c}
func c04Token(x string) (string, Claims) {
	c := Claims{Publish: []string{x}, Subscribe: []string{x, subsBase + x + "{?authorization}"}, HasPub: true, HasSub: true}
	return hx.HSToken(map[string]any{"publish": c.Publish, "subscribe": c.Subscribe}), c
}

type carrierState int

const (
	cAbsent carrierState = iota
	cValid
	cInvalid
	cMalformed
	cDuplicated
	cEmpty // present with an empty value: still a credential, and an invalid one
)

var c04Spell int

var carrierNames = []string{"absent", "valid", "invalid-signature", "malformed", "duplicated", "empty"}

func runC04(a args) error {
	out := hx.NewOut(a.out, "HttpCases", "c04_case", "c04_agree", "c04_ok")
	out.ShardSize = 100
	probes := []string{"h", "q", "c"}
	tok := map[string]string{}
	cl := map[string]Claims{}
	bad := map[string]string{}
	for _, x := range probes {
		tok[x], cl[x] = c04Token(x)
		bad[x] = hx.Token([]byte("another-key-another-key-another-key"), jwt.SigningMethodHS256, map[string]any{"publish": []string{x}, "subscribe": cl[x].Subscribe}, nil)
	}
	admin := hx.HSToken(map[string]any{"publish": []string{"*"}})
	allowedOrigin, otherOrigin := "https://allowed.example", "https://evil.example"

	type cfgT struct {
		anonymous  bool
		cookieName string
		origins    []string
	}
	runCase := func(cfg cfgT, ep string, st [3]carrierState, origin, referer string) error {
		opts := []mercure.Option{mercure.WithSubscriptions()}
		if cfg.anonymous {
			opts = append(opts, mercure.WithAnonymous())
		}
		if cfg.cookieName != "" {
			opts = append(opts, mercure.WithCookieName(cfg.cookieName))
		}
		if cfg.origins != nil {
			opts = append(opts, mercure.WithPublishOrigins(cfg.origins))
		}
		env := hx.NewEnv("local", opts...)
		defer env.Close()
		q := Req{Post: ep == "publish", CookieName: cfg.cookieName, Origin: origin, Referer: referer}
		e := NewEnv()
		e.Referer(referer)
		val := func(x string, s carrierState) []string {
			switch s {
			case cValid:
				e.Valid(tok[x], cl[x])
				return []string{tok[x]}
			case cInvalid:
				return []string{bad[x]}
			case cMalformed:
				return []string{"abc.def"}
			case cDuplicated:
				e.Valid(tok[x], cl[x])
				return []string{tok[x], tok[x]}
			case cEmpty:
				return []string{""}
			}
			return nil
		}
		if v := val("h", st[0]); v != nil {
			for i := range v {
				if st[0] != cEmpty {
					v[i] = "Bearer " + v[i]
				}
			}
			q.AuthHdr = v
		}
		if v := val("q", st[1]); v != nil {
			q.AuthQry = v
			c04Spell++
			q.QrySpell = c04Spell % 3
		}
		if v := val("c", st[2]); v != nil {
			q.Cookie = &v[0] // a duplicated cookie is the same cookie sent twice: the first one counts
		}
		var statuses []string
		var stDesc []int
		var delivered []string
		var delDesc []bool
		var coqProbes []string
		epTerm := ""
		switch ep {
		case "publish":
			epTerm = "EPublish"
			for _, x := range probes {
				r := q.Build(http.MethodPost, "/.well-known/mercure", nil, url.Values{"topic": {x}}.Encode(), "application/x-www-form-urlencoded")
				if st[2] == cDuplicated {
					r.AddCookie(&http.Cookie{Name: r.Cookies()[0].Name, Value: tok["c"]})
				}
				w := httptest.NewRecorder()
				env.Hub.ServeHTTP(w, r)
				statuses = append(statuses, fmt.Sprint(w.Code))
				stDesc = append(stDesc, w.Code)
				coqProbes = append(coqProbes, ce.Str(x))
			}
		case "subscriptions":
			epTerm = "ESubscriptions"
			for _, x := range probes {
				r := q.Build(http.MethodGet, subsBase+x, nil, "", "")
				w := httptest.NewRecorder()
				env.Hub.ServeHTTP(w, r)
				statuses = append(statuses, fmt.Sprint(w.Code))
				stDesc = append(stDesc, w.Code)
				// the URL the caller's selectors must match is the request URI, query string included
				coqProbes = append(coqProbes, ce.Str(r.URL.RequestURI()))
				e.Topics(r.URL.RequestURI())
			}
		case "subscribe":
			epTerm = "ESubscribe"
			r := q.Build(http.MethodGet, "/.well-known/mercure", url.Values{"topic": {"*"}}, "", "")
			w := hx.NewWriter()
			s := hx.SubscribeReq(env.Hub, r, w)
			if !s.Finished(20 * time.Millisecond) {
				w.WaitWrites(1, 5*time.Second)
				for _, x := range probes {
					hx.Post(env.Hub, url.Values{"topic": {x}, "private": {"on"}, "id": {"probe-" + x}}, http.Header{"Authorization": {"Bearer " + admin}})
				}
				hx.Post(env.Hub, url.Values{"topic": {"sentinel"}, "id": {"sentinel"}}, http.Header{"Authorization": {"Bearer " + admin}})
				deadline := time.Now().Add(5 * time.Second)
				for time.Now().Before(deadline) {
					ids := parseSSEIDs(w.Body())
					if len(ids) > 0 && ids[len(ids)-1] == "sentinel" {
						break
					}
					w.WaitWrites(w.NumWrites()+1, 50*time.Millisecond)
				}
				s.Close()
			}
			status := w.Status
			statuses = []string{fmt.Sprint(status)}
			stDesc = []int{status}
			got := map[string]bool{}
			for _, id := range parseSSEIDs(w.Body()) {
				got[id] = true
			}
			for _, x := range probes {
				delivered = append(delivered, ce.Bool(got["probe-"+x]))
				delDesc = append(delDesc, got["probe-"+x])
				coqProbes = append(coqProbes, ce.Str(x))
			}
		}
		e.Topics(probes...)
		for _, x := range probes {
			e.Topics(subsBase + x)
		}
		term := fmt.Sprintf("{| c4_env := %s; c4_cfg := %s; c4_req := %s; c4_ep := %s; c4_probes := %s; c4_status := %s; c4_delivered := %s |}",
			e.Coq(), coqCfg(cfg.anonymous, false, cfg.origins, true), q.Coq(), epTerm, ce.List(coqProbes), ce.List(statuses), ce.List(delivered))
		present := 0
		for _, s := range st {
			if s != cAbsent {
				present++
			}
		}
		out.Add(term, map[string]any{"endpoint": ep, "anonymous": cfg.anonymous, "cookie_name": cfg.cookieName, "publish_origins": cfg.origins,
			"header": carrierNames[st[0]], "query": carrierNames[st[1]], "cookie": carrierNames[st[2]], "origin": origin, "referer": referer,
			"statuses": stDesc, "delivered": delDesc}, present >= 2 || (q.Post && st[2] != cAbsent && st[0] == cAbsent && st[1] == cAbsent),
			"endpoint:"+ep, "header:"+carrierNames[st[0]], "query:"+carrierNames[st[1]], "cookie:"+carrierNames[st[2]])
		return nil
	}
	// the full product of carrier states on every endpoint
	for _, ep := range []string{"publish", "subscribe", "subscriptions"} {
		for _, anonymous := range []bool{false, true} {
			for _, cookieName := range []string{"", "customCookie"} {
				for h := cAbsent; h <= cEmpty; h++ {
					for q := cAbsent; q <= cEmpty; q++ {
						for c := cAbsent; c <= cEmpty; c++ {
							cfg := cfgT{anonymous, cookieName, []string{allowedOrigin}}
							if err := runCase(cfg, ep, [3]carrierState{h, q, c}, allowedOrigin, ""); err != nil {
								return err
							}
						}
					}
				}
			}
		}
	}
	// the cookie CSRF rule: Origin x Referer x configured origins, cookie alone on a POST
	origins := []string{"", allowedOrigin, otherOrigin, "null"}                                                                                              // "null": a present Origin that names nobody
	referers := []string{"", allowedOrigin + "/page?x=1", otherOrigin + "/page", "http://[::1", allowedOrigin + ":8443/page", "http://allowed.example/page"} // the allowed host on another port / scheme is another origin
	originCfgs := [][]string{nil, {allowedOrigin, "https://second.example"}, {"*"}, {"null", allowedOrigin}}
	for _, c := range []carrierState{cValid, cInvalid} {
		for _, o := range origins {
			for _, ref := range referers {
				for _, oc := range originCfgs {
					for _, cookieName := range []string{"", "customCookie"} {
						if err := runCase(cfgT{false, cookieName, oc}, "publish", [3]carrierState{cAbsent, cAbsent, c}, o, ref); err != nil {
							return err
						}
					}
				}
			}
		}
	}
	out.Extra["exhaustive"] = true
	return out.Flush()
}
