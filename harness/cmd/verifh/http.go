package main

import (
	"fmt"
	"net/http"
	"net/http/httptest"
	"net/url"
	"strings"

	ce "verifh/coqemit"
	"verifh/hx"
)

// Req is what authorize() can see in a request.
type Req struct {
	QrySpell   int // 0: authorization=v; 1: %61uthorization=v; 2: bare key when the value is empty (not part of the model: same request)
	Post       bool
	AuthHdr    []string // nil = header absent
	AuthQry    []string // nil = parameter absent
	Cookie     *string
	CookieName string
	Origin     string
	Referer    string
}

func (q Req) Coq() string {
	ck := "None"
	if q.Cookie != nil {
		ck = ce.Some(ce.Str(*q.Cookie))
	}
	return fmt.Sprintf("{| r_post := %s; r_auth_hdr := %s; r_auth_qry := %s; r_cookie := %s; r_origin := %s; r_referer := %s |}",
		ce.Bool(q.Post), ce.OptStrs(q.AuthHdr, q.AuthHdr != nil), ce.OptStrs(q.AuthQry, q.AuthQry != nil), ck, ce.Str(q.Origin), ce.Str(q.Referer))
}

// Build creates the http.Request for path (query values in extra) with the carriers of q.
func (q Req) Build(method, path string, extra url.Values, body string, ctype string) *http.Request {
	v := url.Values{}
	for k, vs := range extra {
		v[k] = vs
	}
	if q.AuthQry != nil {
		v["authorization"] = q.AuthQry
	}
	target := path
	if len(v) > 0 {
		qs := v.Encode()
		// other spellings of the same query string: the key percent-encoded; a key without "=" for an empty value
		switch {
		case q.AuthQry != nil && q.QrySpell == 1:
			qs = strings.ReplaceAll(qs, "authorization=", "%61uthorization=")
		case q.AuthQry != nil && q.QrySpell == 2 && len(q.AuthQry) == 1 && q.AuthQry[0] == "":
			qs = strings.Replace(qs, "authorization=", "authorization", 1)
		}
		target += "?" + qs
	}
	var r *http.Request
	if method == http.MethodPost {
		r = httptest.NewRequest(method, target, strings.NewReader(body))
		if ctype != "" {
			r.Header.Set("Content-Type", ctype)
		}
	} else {
		r = httptest.NewRequest(method, target, nil)
	}
	if q.AuthHdr != nil {
		r.Header["Authorization"] = q.AuthHdr
	}
	if q.Cookie != nil {
		name := q.CookieName
		if name == "" {
			name = "mercureAuthorization"
		}
		r.AddCookie(&http.Cookie{Name: name, Value: *q.Cookie})
	}
	if q.Origin != "" {
		r.Header.Set("Origin", q.Origin)
	}
	if q.Referer != "" {
		r.Header.Set("Referer", q.Referer)
	}
	return r
}

// Claims as the model sees them (nil slice = key absent / null).
type Claims struct {
	Publish   []string
	Subscribe []string
	HasPub    bool
	HasSub    bool
}

func (c Claims) Coq() string {
	return fmt.Sprintf("{| c_publish := %s; c_subscribe := %s |}", ce.OptStrs(c.Publish, c.HasPub), ce.OptStrs(c.Subscribe, c.HasSub))
}

// Env collects the oracle tables of one case.
type Env struct {
	tokens   map[string]Claims
	order    []string
	referers []string
	sels     []string
	topics   []string
}

func NewEnv() *Env { return &Env{tokens: map[string]Claims{}} }

func (e *Env) Valid(tok string, c Claims) {
	if _, ok := e.tokens[tok]; !ok {
		e.order = append(e.order, tok)
	}
	e.tokens[tok] = c
	e.sels = append(e.sels, c.Publish...)
	e.sels = append(e.sels, c.Subscribe...)
}

func (e *Env) Referer(r string) {
	if r != "" {
		e.referers = append(e.referers, r)
	}
}

func (e *Env) Topics(t ...string) { e.topics = append(e.topics, t...) }

func (e *Env) Coq() string {
	var toks []string
	for _, t := range e.order {
		toks = append(toks, ce.Pair(ce.Str(t), e.tokens[t].Coq()))
	}
	var refs []string
	seen := map[string]bool{}
	for _, r := range e.referers {
		if seen[r] {
			continue
		}
		seen[r] = true
		u, err := url.Parse(r)
		if err != nil {
			refs = append(refs, ce.Pair(ce.Str(r), "None"))
		} else {
			refs = append(refs, ce.Pair(ce.Str(r), ce.Some(ce.Str(fmt.Sprintf("%s://%s", u.Scheme, u.Host)))))
		}
	}
	return fmt.Sprintf("{| e_tbl := %s; e_tokens := %s; e_refs := %s |}", hx.TemplateTable(e.sels, e.topics), ce.List(toks), ce.List(refs))
}

func coqCfg(anonymous, compat7 bool, origins []string, keyed bool) string {
	return fmt.Sprintf("{| cfg_anonymous := %s; cfg_compat7 := %s; cfg_publish_origins := %s; cfg_subscriber_keyed := %s |}",
		ce.Bool(anonymous), ce.Bool(compat7), ce.Strs(origins), ce.Bool(keyed))
}

// parseSSEIDs extracts the "id: " values of the events in a stream body.
func parseSSEIDs(body string) []string {
	var ids []string
	for _, l := range strings.Split(body, "\n") {
		if strings.HasPrefix(l, "id: ") {
			ids = append(ids, l[4:])
		}
	}
	return ids
}
