package main

import (
	"fmt"
	"net/http"
	"net/url"
	"time"

	"github.com/dunglas/mercure"

	ce "verifh/coqemit"
	"verifh/hx"
)

func init() { drivers["C08"] = runC08 }

var c08Admin = hx.HSToken(map[string]any{"publish": []string{"*"}})

type c08Carrier struct {
	Hdr    *string
	Qry    *string
	Legacy []string // nil = absent
}

func c08One(out *hx.Out, kind string, compat bool, size uint64, ids []string, car c08Carrier, tags ...string) error {
	return c08OneR(out, kind, compat, size, ids, car, false, tags...)
}

// c08OneR: with restart, the hub is stopped and a new one opened on the same history file before the subscription.
func c08OneR(out *hx.Out, kind string, compat bool, size uint64, ids []string, car c08Carrier, restart bool, tags ...string) error {
	dir := hx.WorkDir()
	// half of the size-limited histories are never cleaned up (cleanup frequency 0): more than size updates stay retained
	freq := 1.0
	if size > 0 && len(ids)%2 == 0 {
		freq = 0
		tags = append(tags, "never-cleaned")
	}
	t, p := hx.NewTransport(kind, dir, size, freq)
	opts := []mercure.Option{mercure.WithAnonymous()}
	if compat {
		opts = append(opts, mercure.WithProtocolVersionCompatibility(7))
	}
	env := hx.NewEnvWith(kind, dir, p, t, opts...)
	defer func() { env.Close() }()
	auth := http.Header{"Authorization": {"Bearer " + c08Admin}}
	for _, id := range ids {
		if code, _ := hx.Post(env.Hub, url.Values{"topic": {"t"}, "id": {id}, "data": {"d"}}, auth); code != 200 {
			return fmt.Errorf("publish refused: %d", code)
		}
	}
	if restart && kind == "bolt" {
		if err := env.Hub.Stop(); err != nil {
			return err
		}
		t2, err := mercure.NewBoltTransport(hx.Logger, p, "", size, freq)
		if err != nil {
			return err
		}
		t = t2
		env = hx.NewEnvWith(kind, dir, p, t, opts...)
		tags = append(tags, "restarted")
	}
	var history []string
	if kind == "bolt" {
		// read from a copy of the file with bbolt directly: independent of the replay path under test
		var err error
		if history, err = hx.BoltIDsOfCopy(p); err != nil {
			return err
		}
	}
	q := url.Values{"topic": {"*"}}
	hdr := http.Header{}
	if car.Hdr != nil {
		hdr.Set("Last-Event-ID", *car.Hdr)
	}
	if car.Qry != nil {
		q.Set("lastEventID", *car.Qry)
	}
	if car.Legacy != nil {
		q["Last-Event-ID"] = car.Legacy
	}
	s := hx.Subscribe(env.Hub, "/.well-known/mercure?"+q.Encode(), hdr)
	if !s.W.WaitWrites(1, 5*time.Second) {
		return fmt.Errorf("subscriber did not start")
	}
	hx.Post(env.Hub, url.Values{"topic": {"t"}, "id": {"__sentinel"}}, auth)
	deadline := time.Now().Add(5 * time.Second)
	var got []string
	for time.Now().Before(deadline) {
		got = parseSSEIDs(s.W.Body())
		if len(got) > 0 && got[len(got)-1] == "__sentinel" {
			break
		}
		s.W.WaitWrites(s.W.NumWrites()+1, 50*time.Millisecond)
	}
	s.Close()
	if len(got) == 0 || got[len(got)-1] != "__sentinel" {
		return fmt.Errorf("sentinel not received")
	}
	replayed := got[:len(got)-1]
	resp := "None"
	var respDesc any
	if v, ok := s.W.Sent["Last-Event-Id"]; ok && len(v) > 0 {
		resp = ce.Some(ce.Str(v[0]))
		respDesc = v[0]
	}
	str := func(p *string) string {
		if p == nil {
			return ""
		}
		return *p
	}
	term := fmt.Sprintf("{| c8_compat7 := %s; c8_persistent := %s; c8_history := %s; c8_hdr := %s; c8_qry := %s; c8_legacy := %s; c8_resp := %s; c8_replayed := %s |}",
		ce.Bool(compat), ce.Bool(kind == "bolt"), ce.Strs(history), ce.Str(str(car.Hdr)), ce.Str(str(car.Qry)), ce.OptStrs(car.Legacy, car.Legacy != nil), resp, ce.Strs(replayed))
	requested := str(car.Hdr) != "" || str(car.Qry) != "" || (compat && len(car.Legacy) > 0 && car.Legacy[0] != "")
	out.Add(term, map[string]any{"transport": kind, "compat7": compat, "size": size, "published": ids, "history": history, "restart_before_subscribe": restart,
		"header": car.Hdr, "query": car.Qry, "legacy": car.Legacy, "response": respDesc, "replayed": replayed}, requested && kind == "bolt" && len(history) > 0,
		append(tags, "transport:"+kind, fmt.Sprintf("compat7:%v", compat), fmt.Sprintf("requested:%v", requested))...)
	return nil
}

func runC08(a args) error {
	r := hx.NewRng(a.seed)
	out := hx.NewOut(a.out, "LastEventID", "c08_case", "c08_agree", "c08_ok")
	out.ShardSize = 100
	sp := func(s string) *string { return &s }
	vals := []*string{nil, sp(""), sp("a"), sp("b")}
	// exhaustive carriers {absent, empty, X, Y}^3 x compat x transport on a fixed history
	for _, kind := range []string{"local", "bolt"} {
		for _, compat := range []bool{false, true} {
			for _, h := range vals {
				for _, q := range vals {
					for _, l := range vals {
						car := c08Carrier{Hdr: h, Qry: q}
						if l != nil {
							car.Legacy = []string{*l, "zz"}
						}
						if err := c08One(out, kind, compat, 0, []string{"b", "x", "a", "y"}, car, "exhaustive-carriers"); err != nil {
							return err
						}
					}
				}
			}
		}
	}
	// generated histories x requested ids
	alphabetPlain := []string{"a", "b", "c", "earliest", "d"}
	// ids that are suffixes, prefixes and repetitions of one another: an id is found by comparing whole ids
	alphabetNested := []string{"a", "xa", "ax", "aa", "b", "earliest"}
	for i := 0; i < a.n; i++ {
		alphabet := alphabetPlain
		if i%3 == 2 {
			alphabet = alphabetNested
		}
		kind := []string{"bolt", "bolt", "bolt", "local"}[r.Intn(4)]
		var ids []string
		for k := r.Intn(8); k > 0; k-- {
			ids = append(ids, r.Pick(alphabet)) // duplicates and the literal "earliest" included
		}
		size := uint64([]int{0, 0, 2, 3}[r.Intn(4)]) // retention truncates the history
		req := r.Pick(append(alphabet, "unknown", "earliest"))
		car := c08Carrier{}
		switch r.Intn(4) {
		case 0:
			car.Hdr = &req
		case 1:
			car.Qry = &req
		case 2:
			car.Legacy = []string{req}
		case 3:
			car.Hdr = &req
			o := r.Pick(alphabet)
			car.Qry = &o
		}
		if err := c08OneR(out, kind, r.Chance(0.5), size, ids, car, r.Chance(0.4), "generated", fmt.Sprintf("size:%d", size), fmt.Sprintf("published:%d", len(ids))); err != nil {
			return err
		}
	}
	return out.Flush()
}
