package main

import (
	"fmt"
	"net/http"
	"net/url"
	"strconv"
	"strings"
	"time"

	"github.com/dunglas/mercure"

	"verifh/hx"
)

func init() { drivers["DUPID"] = runDupID }

func dataLines(body string) []string {
	var l []string
	for _, ln := range strings.Split(body, "\n") {
		if strings.HasPrefix(ln, "data: ") {
			l = append(l, strings.TrimPrefix(ln, "data: "))
		}
	}
	return l
}

// runDupID: publishers may reuse ids; the updates are distinct all the same. A subscriber connected before the first
// publish, and (Bolt) one replaying the whole history afterwards, must see every payload once and in order.
func runDupID(a args) error {
	r := hx.NewRng(a.seed)
	out := hx.NewOut(a.out, "MassCases", "dup_case", "dup_ok", "dup_ok")
	out.ShardSize = 50
	tok := hx.HSToken(map[string]any{"publish": []string{"*"}})
	auth := http.Header{"Authorization": {"Bearer " + tok}}
	for ci := 0; ci < a.n; ci++ {
		kind := []string{"bolt", "local"}[ci%2]
		env := hx.NewEnv(kind, mercure.WithAnonymous())
		live := hx.Subscribe(env.Hub, "/.well-known/mercure?topic=t", nil)
		live.W.WaitWrites(1, 5*time.Second)
		n := 2 + r.Intn(8)
		pool := []string{"x", "y", "", "urn:uuid:00000000-0000-0000-0000-000000000001"}
		var published []string
		var ids []string
		last := ""
		for k := 0; k < n; k++ {
			id := r.Pick(pool)
			if k > 0 && r.Chance(0.5) {
				id = last // the same id as the previous update
			}
			last = id
			form := url.Values{"topic": {"t"}, "data": {strconv.Itoa(k + 1)}}
			if id != "" {
				form.Set("id", id)
			}
			code, _ := hx.Post(env.Hub, form, auth)
			if code != 200 {
				return fmt.Errorf("publish refused: %d", code)
			}
			published = append(published, strconv.Itoa(k+1))
			ids = append(ids, id)
		}
		deadline := time.Now().Add(3 * time.Second)
		for len(dataLines(live.W.Body())) < n && time.Now().Before(deadline) {
			live.W.WaitWrites(live.W.NumWrites()+1, 50*time.Millisecond)
		}
		time.Sleep(5 * time.Millisecond)
		liveData := dataLines(live.W.Body())
		replayT := "None"
		var replayData []string
		if kind == "bolt" {
			rh := http.Header{}
			rh.Set("Last-Event-ID", "earliest")
			rp := hx.Subscribe(env.Hub, "/.well-known/mercure?topic=t", rh)
			deadline := time.Now().Add(3 * time.Second)
			for len(dataLines(rp.W.Body())) < n && time.Now().Before(deadline) {
				rp.W.WaitWrites(rp.W.NumWrites()+1, 50*time.Millisecond)
			}
			time.Sleep(5 * time.Millisecond)
			replayData = dataLines(rp.W.Body())
			replayT = "(Some [" + strings.Join(replayData, ";") + "])"
			rp.Close()
		}
		live.Close()
		env.Close()
		term := fmt.Sprintf("{| dc_published := [%s]; dc_live := [%s]; dc_replayed := %s |}", strings.Join(published, ";"), strings.Join(liveData, ";"), replayT)
		dup := false
		for k := 1; k < len(ids); k++ {
			if ids[k] == ids[k-1] && ids[k] != "" {
				dup = true
			}
		}
		out.Add(term, map[string]any{"transport": kind, "ids": ids, "payloads": published, "live": liveData, "replayed": replayData}, dup, "transport:"+kind, fmt.Sprintf("consecutive-equal-ids:%v", dup))
	}
	return out.Flush()
}
