package main

import (
	"encoding/json"
	"fmt"
	"net/http"
	"net/http/httptest"
	"net/url"
	"os"
	"strconv"
	"strings"
	"time"

	"github.com/dunglas/mercure"
	"github.com/prometheus/client_golang/prometheus"

	ce "verifh/coqemit"
	"verifh/hx"
)

func init() { drivers["HUBSEQ"] = runHubSeq }

type hsSub struct {
	Topics []string
	Claim  []string // nil = anonymous
	Req    string   // "" none, "earliest", or an id
	// runtime
	stream         *hx.Stream
	started        bool
	left           bool
	stillConnected bool
	stalled        bool
	stalledAt      int // number of updates published when the client stopped reading
	accepted       bool
}

type hsUpd struct {
	ID      int
	Topics  []string
	Private bool
}

func litMatch(topic string, sels []string) bool {
	for _, s := range sels {
		if s == "*" || s == topic {
			return true
		}
	}
	return false
}

func hsMatches(s *hsSub, u hsUpd) bool {
	sub, can := false, !u.Private
	for _, t := range u.Topics {
		if litMatch(t, s.Topics) {
			sub = true
		}
		if litMatch(t, s.Claim) {
			can = true
		}
	}
	return sub && can
}

type hsHub struct {
	env *hx.Env
	reg *prometheus.Registry
}

func hsNewHub(kind, dir, dbpath string, size uint64, tracking bool) *hsHub {
	var t mercure.Transport
	var err error
	if kind == "bolt" {
		t, err = mercure.NewBoltTransport(hx.Logger, dbpath, "", size, 1)
		if err != nil {
			panic(err)
		}
	} else {
		t = mercure.NewLocalTransport()
	}
	reg := prometheus.NewRegistry()
	opts := []mercure.Option{mercure.WithAnonymous(), mercure.WithMetrics(mercure.NewPrometheusMetrics(reg))}
	if tracking {
		opts = append(opts, mercure.WithSubscriptions())
	}
	return &hsHub{env: hx.NewEnvWith(kind, "", dbpath, t, opts...), reg: reg}
}

func (h *hsHub) listed() int {
	ts, ok := h.env.Transport.(mercure.TransportSubscribers)
	if !ok {
		return -1
	}
	_, l, _ := ts.GetSubscribers()
	return len(l)
}

func (h *hsHub) metrics() (int, int, int) {
	mfs, _ := h.reg.Gather()
	g, st, ut := 0, 0, 0
	for _, mf := range mfs {
		for _, m := range mf.GetMetric() {
			switch mf.GetName() {
			case "mercure_subscribers_connected":
				g = int(m.GetGauge().GetValue())
			case "mercure_subscribers_total":
				st = int(m.GetCounter().GetValue())
			case "mercure_updates_total":
				ut = int(m.GetCounter().GetValue())
			}
		}
	}
	return g, st, ut
}

// safePost: PublishHandler panics on a transport error (net/http would abort the connection): reported as 500.
func safePost(hub *hsHub, form url.Values, hdr http.Header) (code int) {
	defer func() {
		if p := recover(); p != nil {
			code = 500
		}
	}()
	c, _ := hx.Post(hub.env.Hub, form, hdr)
	return c
}

func numericIDs(body string) []string {
	var out []string
	for _, id := range parseSSEIDs(body) {
		if _, err := strconv.Atoi(id); err == nil {
			out = append(out, id)
		}
	}
	return out
}

func waitStable(w *hx.Writer, max time.Duration) { waitQuiet(w, max, 5) }

// waitQuiet returns once nothing has been written for ticks x 2 ms (or after max)
func waitQuiet(w *hx.Writer, max time.Duration, ticks int) {
	deadline := time.Now().Add(max)
	last := w.NumWrites()
	quiet := 0
	for time.Now().Before(deadline) {
		time.Sleep(2 * time.Millisecond)
		n := w.NumWrites()
		if n == last {
			if quiet++; quiet >= ticks {
				return
			}
			continue
		}
		quiet = 0
		last = n
	}
}

func runHubSeq(a args) error {
	r := hx.NewRng(a.seed)
	out := hx.NewOut(a.out, "HubCases", "hub_case", "hub_agree", "hub_spec_ok")
	out.ShardSize = 25
	dir := hx.WorkDir()
	defer os.RemoveAll(dir)
	admin := hx.HSToken(map[string]any{"publish": []string{"*"}})
	for ci := 0; ci < a.n; ci++ {
		kind := []string{"bolt", "bolt", "local"}[r.Intn(3)]
		tracking := r.Chance(0.25) || ci%16 == 11
		size := uint64(0)
		if kind == "bolt" && r.Chance(0.3) && !tracking {
			size = uint64(2 + r.Intn(2))
		}
		dbpath := fmt.Sprintf("%s/hs-%d.db", dir, ci)
		hub := hsNewHub(kind, dir, dbpath, size, tracking)
		nsubs := 2 + r.Intn(3)
		subs := make([]*hsSub, nsubs)
		nextID := 0
		var published []hsUpd // in order
		for i := range subs {
			s := &hsSub{}
			pool := []string{"a", "b", "c"}
			if !tracking {
				pool = append(pool, "*")
			}
			s.Topics = []string{r.Pick(pool)}
			if !tracking && r.Chance(0.4) {
				s.Topics = append(s.Topics, r.Pick(pool))
			}
			switch r.Intn(3) {
			case 1:
				s.Claim = []string{r.Pick([]string{"a", "b"})}
			case 2:
				s.Claim = []string{"*"}
			}
			subs[i] = s
		}
		var ops []string
		var opsDesc []string
		epoch := 0
		pubsByEpoch := [][]hsUpd{{}}
		resultsByEpoch := [][]string{{}}
		var metricsTerms []string
		var metricsDesc [][3]int
		var listedTerms []string
		closed := false
		var announcedIdx []int // subscribers whose active=true event could be dispatched, in order
		nops := 6 + r.Intn(14)
		auth := http.Header{"Authorization": {"Bearer " + admin}}
		// a slow subscriber is cut off while another one keeps reading (every 16th case: with subscription events on)
		overflowPlan := (ci%8 == 3 && !tracking) || ci%16 == 11
		resumeAll := func() {
			for i, s := range subs {
				if s.stalled {
					s.stalled = false
					s.stream.W.Gate(false)
					ops = append(ops, fmt.Sprintf("HResume %d%%nat", i))
					opsDesc = append(opsDesc, fmt.Sprintf("resume %d", i))
					// the handler now writes what was buffered while the client did not read: wait until the newest update it was
					// sent has arrived or the hub has ended the stream (a loaded machine may pause the handler for a long time
					// between two writes, so "no write for a moment" alone is not a sign that it is done)
					want := -1
					if s.stalledAt <= len(published) {
						for _, u := range published[s.stalledAt:] {
							if hsMatches(s, u) {
								want = u.ID
							}
						}
					}
					if want >= 0 {
						deadline := time.Now().Add(10 * time.Second)
						for time.Now().Before(deadline) && !strings.Contains(s.stream.W.Body(), fmt.Sprintf("id: %d\n", want)) && !s.stream.Finished(0) {
							time.Sleep(500 * time.Microsecond)
						}
					}
					time.Sleep(3 * time.Millisecond)
					waitStable(s.stream.W, 500*time.Millisecond)
					s.stream.Finished(50 * time.Millisecond)
					g, st, ut := hub.metrics()
					metricsTerms = append(metricsTerms, fmt.Sprintf("((%d)%%Z, %d, %d)", g, st, ut))
					metricsDesc = append(metricsDesc, [3]int{g, st, ut})
					listedTerms = append(listedTerms, ce.Nat(hub.listed()))
				}
			}
		}
		for k := 0; k < nops; k++ {
			x := r.Intn(20)
			if overflowPlan {
				// subscribe everybody first, then stall, burst, resume
				switch {
				case k < nsubs:
					x = 9
				case k == nsubs:
					x = 21
				case k == nsubs+1:
					x = 22
				case k == nsubs+2:
					x = 23
				}
			} else if r.Intn(12) == 0 {
				x = 21 + r.Intn(3)
			}
			if x >= 17 && x <= 20 {
				resumeAll() // nobody is stalled across a close or a restart
			}
			switch {
			case x == 21: // a client stops reading
				var cand []int
				for i, s := range subs {
					if s.started && s.accepted && !s.left && !s.stalled && !s.stream.Finished(0) {
						cand = append(cand, i)
					}
				}
				if len(cand) == 0 {
					continue
				}
				i := cand[r.Intn(len(cand))]
				subs[i].stalled = true
				subs[i].stalledAt = len(published)
				subs[i].stream.W.Gate(true)
				ops = append(ops, fmt.Sprintf("HStall %d%%nat", i))
				opsDesc = append(opsDesc, fmt.Sprintf("stall %d", i))
			case x == 23: // it reads again
				before := len(ops)
				resumeAll()
				if len(ops) == before {
					continue
				}
				continue // resumeAll recorded its own metrics
			case x == 22: // a burst of publishes
				count := 2 + r.Intn(4)
				if overflowPlan {
					count = []int{1000, 1001, 1002, 1005}[r.Intn(4)]
				}
				topic := r.Pick([]string{"a", "b"})
				first := nextID + 1
				okAll := true
				for c := 0; c < count; c++ {
					nextID++
					u := hsUpd{ID: nextID, Topics: []string{topic}}
					code := safePost(hub, url.Values{"topic": u.Topics, "id": {fmt.Sprint(u.ID)}, "data": {"d"}}, auth)
					published = append(published, u)
					pubsByEpoch[epoch] = append(pubsByEpoch[epoch], u)
					resultsByEpoch[epoch] = append(resultsByEpoch[epoch], ce.Pair(fmt.Sprint(u.ID), ce.Bool(code == 200)))
					okAll = okAll && code == 200
				}
				last := hsUpd{ID: nextID, Topics: []string{topic}}
				for _, s := range subs {
					if s.started && s.accepted && !s.left && !s.stalled && !s.stream.Finished(0) && hsMatches(s, last) {
						deadline := time.Now().Add(10 * time.Second)
						for time.Now().Before(deadline) && !strings.Contains(s.stream.W.Body(), fmt.Sprintf("id: %d\n", last.ID)) && !s.stream.Finished(0) {
							time.Sleep(200 * time.Microsecond)
						}
					}
				}
				time.Sleep(2 * time.Millisecond)
				ops = append(ops, fmt.Sprintf("HBurst %d%%nat %d %d%%nat", epoch, first, count))
				opsDesc = append(opsDesc, fmt.Sprintf("burst of %d publishes %d.. topic=%s all ok=%v", count, first, topic, okAll))
			case x < 9: // publish
				nextID++
				u := hsUpd{ID: nextID, Topics: []string{r.Pick([]string{"a", "b"})}, Private: r.Chance(0.35)}
				if r.Chance(0.3) {
					u.Topics = append(u.Topics, r.Pick([]string{"a", "b", "c"}))
				}
				form := url.Values{"topic": u.Topics, "id": {fmt.Sprint(u.ID)}, "data": {"d"}}
				if u.Private {
					form.Set("private", r.Pick([]string{"on", "", "0", "false", "1"})) // present, whatever its value
				}
				code := func() (code int) {
					defer func() {
						if p := recover(); p != nil {
							code = 500 // PublishHandler panics on a transport error; net/http would abort the connection
						}
					}()
					c, _ := hx.Post(hub.env.Hub, form, auth)
					return c
				}()
				published = append(published, u)
				pubsByEpoch[epoch] = append(pubsByEpoch[epoch], u)
				resultsByEpoch[epoch] = append(resultsByEpoch[epoch], ce.Pair(fmt.Sprint(u.ID), ce.Bool(code == 200)))
				if code == 200 {
					for _, s := range subs {
						if s.started && s.accepted && !s.left && !s.stalled && !s.stream.Finished(0) && hsMatches(s, u) {
							deadline := time.Now().Add(3 * time.Second)
							for time.Now().Before(deadline) && !strings.Contains(s.stream.W.Body(), fmt.Sprintf("id: %d\n", u.ID)) && !s.stream.Finished(0) {
								time.Sleep(200 * time.Microsecond)
							}
						}
					}
				}
				ops = append(ops, fmt.Sprintf("HPub %d%%nat %d", epoch, u.ID))
				opsDesc = append(opsDesc, fmt.Sprintf("publish %d topics=%v private=%v -> %d", u.ID, u.Topics, u.Private, code))
			case x < 14: // subscribe
				var cand []int
				for i, s := range subs {
					if !s.started {
						cand = append(cand, i)
					}
				}
				if len(cand) == 0 {
					continue
				}
				i := cand[r.Intn(len(cand))]
				s := subs[i]
				switch r.Intn(4) {
				case 1:
					s.Req = "earliest"
				case 2:
					if len(published) > 0 {
						s.Req = fmt.Sprint(published[r.Intn(len(published))].ID)
					}
				case 3:
					s.Req = "999999"
				}
				q := url.Values{"topic": s.Topics}
				hdr := http.Header{}
				if s.Req != "" {
					hdr.Set("Last-Event-ID", s.Req)
				}
				if s.Claim != nil {
					hdr.Set("Authorization", "Bearer "+hx.HSToken(map[string]any{"subscribe": s.Claim}))
				}
				s.started = true
				if !closed {
					announcedIdx = append(announcedIdx, i)
				}
				s.stream = hx.Subscribe(hub.env.Hub, "/.well-known/mercure?"+q.Encode(), hdr)
				deadline := time.Now().Add(2 * time.Second)
				for time.Now().Before(deadline) && s.stream.W.NumWrites() == 0 && !s.stream.Finished(0) {
					time.Sleep(100 * time.Microsecond)
				}
				s.accepted = s.stream.W.Status == 200
				if s.accepted {
					if s.Req != "" { // a replay may follow: give a paused handler time to go on
						waitQuiet(s.stream.W, 3*time.Second, 15)
					} else {
						waitStable(s.stream.W, 200*time.Millisecond)
					}
				} else {
					s.stream.Finished(time.Second)
				}
				ops = append(ops, fmt.Sprintf("HSub %d%%nat", i))
				opsDesc = append(opsDesc, fmt.Sprintf("subscribe %d topics=%v claim=%v req=%q -> %d", i, s.Topics, s.Claim, s.Req, s.stream.W.Status))
			case x < 17: // leave
				var cand []int
				for i, s := range subs {
					if s.started && s.accepted && !s.left && !s.stalled && !s.stream.Finished(0) {
						cand = append(cand, i)
					}
				}
				if len(cand) == 0 {
					continue
				}
				i := cand[r.Intn(len(cand))]
				subs[i].left = true
				subs[i].stream.Close()
				ops = append(ops, fmt.Sprintf("HLeave %d%%nat", i))
				opsDesc = append(opsDesc, fmt.Sprintf("leave %d", i))
			case x < 18: // close
				if closed {
					continue
				}
				closed = true
				_ = hub.env.Hub.Stop()
				for _, s := range subs {
					if s.started && s.accepted && !s.left {
						s.stream.Finished(2 * time.Second)
					}
				}
				ops = append(ops, "HClose")
				opsDesc = append(opsDesc, "close")
			default: // restart (graceful stop, new process on the same file)
				if kind != "bolt" || k < 3 || epoch >= 2 {
					continue
				}
				if !closed {
					_ = hub.env.Hub.Stop()
					for _, s := range subs {
						if s.started && s.accepted && !s.left {
							s.stream.Finished(2 * time.Second)
						}
					}
					ops = append(ops, "HClose")
					g, st, ut := hub.metrics()
					metricsTerms = append(metricsTerms, fmt.Sprintf("((%d)%%Z, %d, %d)", g, st, ut))
					metricsDesc = append(metricsDesc, [3]int{g, st, ut})
					listedTerms = append(listedTerms, ce.Nat(hub.listed()))
				}
				hub = hsNewHub(kind, dir, dbpath, size, tracking)
				closed = false
				epoch++
				pubsByEpoch = append(pubsByEpoch, []hsUpd{})
				resultsByEpoch = append(resultsByEpoch, []string{})
				// the clients of the old process that never connected may still do so; the others saw their stream end
				ops = append(ops, "HRestart")
				opsDesc = append(opsDesc, "restart")
			}
			g, st, ut := hub.metrics()
			metricsTerms = append(metricsTerms, fmt.Sprintf("((%d)%%Z, %d, %d)", g, st, ut))
			metricsDesc = append(metricsDesc, [3]int{g, st, ut})
			listedTerms = append(listedTerms, ce.Nat(hub.listed()))
		}
		resumeAll()
		for si, s := range subs {
			if s.started && s.accepted && !s.left && !s.stream.Finished(0) {
				// still connected at the end: its client leaves, as a last operation of the case
				s.stream.Close()
				s.left = true
				s.stillConnected = true
				ops = append(ops, fmt.Sprintf("HLeave %d%%nat", si))
				opsDesc = append(opsDesc, fmt.Sprintf("leave %d", si))
				g, st, ut := hub.metrics()
				metricsTerms = append(metricsTerms, fmt.Sprintf("((%d)%%Z, %d, %d)", g, st, ut))
				metricsDesc = append(metricsDesc, [3]int{g, st, ut})
				listedTerms = append(listedTerms, ce.Nat(hub.listed()))
			}
		}
		history := "None"
		evNum := map[string]string{}
		var evTerms []string
		var histDesc []string
		if kind == "bolt" {
			if !closed {
				_ = hub.env.Hub.Stop()
			}
			stored, err := hx.BoltUpdates(dbpath)
			if err != nil {
				return err
			}
			var ids []string
			order := map[string]int{}
			// subscribers are identified in the events by their urn: the k-th new urn is the k-th subscriber announced
			var announced []int
			for _, o := range ops {
				var i int
				if n, _ := fmt.Sscanf(o, "HSub %d", &i); n == 1 {
					announced = append(announced, i)
				}
			}
			for _, u := range stored {
				if _, err := strconv.Atoi(u.ID); err == nil {
					ids = append(ids, u.ID)
					histDesc = append(histDesc, u.ID)
					continue
				}
				var doc struct {
					Subscriber string `json:"subscriber"`
					Active     bool   `json:"active"`
				}
				if json.Unmarshal([]byte(u.Data), &doc) == nil && doc.Subscriber != "" {
					if _, ok := order[doc.Subscriber]; !ok {
						if len(order) < len(announcedIdx) {
							order[doc.Subscriber] = announcedIdx[len(order)]
						} else {
							order[doc.Subscriber] = 1000 + len(order)
						}
					}
					evTerms = append(evTerms, fmt.Sprintf("(%s, %s)", ce.Nat(order[doc.Subscriber]), ce.Bool(doc.Active)))
					act := 0
					if doc.Active {
						act = 1
					}
					evNum[u.ID] = fmt.Sprint(1099511627776 + 2*order[doc.Subscriber] + act)
					histDesc = append(histDesc, fmt.Sprintf("event(%d,%v)", order[doc.Subscriber], doc.Active))
				}
			}
			_ = announced
			history = ce.Some("[" + strings.Join(ids, ";") + "]")
		}
		// observations
		var subTerms []string
		var subDesc []any
		var reqTerms []string
		for _, s := range subs {
			switch s.Req {
			case "":
				reqTerms = append(reqTerms, "NoReq")
			case "earliest":
				reqTerms = append(reqTerms, "Earliest")
			default:
				reqTerms = append(reqTerms, "ReqId "+s.Req)
			}
			if !s.started {
				subTerms = append(subTerms, "{| so_started := false; so_accepted := false; so_resp := None; so_received := []; so_ended := false |}")
				subDesc = append(subDesc, "not started")
				continue
			}
			ended := s.accepted && !s.left && s.stream.Finished(0)
			resp := "None"
			var respD any
			if v, ok := s.stream.W.Sent["Last-Event-Id"]; ok && len(v) > 0 && s.accepted {
				respD = v[0]
				if v[0] == "earliest" {
					resp = "(Some None)"
				} else if n, ok := evNum[v[0]]; ok {
					resp = "(Some (Some " + n + "))"
				} else if _, err := strconv.Atoi(v[0]); err == nil {
					resp = "(Some (Some " + v[0] + "))"
				} else {
					resp = "(Some (Some 0))"
				}
			}
			rec := numericIDs(s.stream.W.Body())
			subTerms = append(subTerms, fmt.Sprintf("{| so_started := true; so_accepted := %s; so_resp := %s; so_received := [%s]; so_ended := %s |}",
				ce.Bool(s.accepted), resp, strings.Join(rec, ";"), ce.Bool(ended)))
			subDesc = append(subDesc, map[string]any{"topics": s.Topics, "claim": s.Claim, "req": s.Req, "status": s.stream.W.Status, "resp": respD, "received": rec, "ended_by_hub": ended})
		}
		// the oracle table and the initial world
		var mtPairs []string
		for i, s := range subs {
			for _, u := range published {
				if hsMatches(s, u) {
					mtPairs = append(mtPairs, fmt.Sprintf("(%s, %d)", ce.Nat(i), u.ID))
				}
			}
		}
		var pubTerms, resTerms []string
		for e := range pubsByEpoch {
			ids := make([]string, len(pubsByEpoch[e]))
			for k, u := range pubsByEpoch[e] {
				ids[k] = fmt.Sprint(u.ID)
			}
			pubTerms = append(pubTerms, "["+strings.Join(ids, ";")+"]")
			resTerms = append(resTerms, ce.List(resultsByEpoch[e]))
		}
		term := fmt.Sprintf("{| hc_persistent := %s; hc_size := %d; hc_tracking := %s; hc_cap := 1000%%nat; hc_reqs := %s; hc_pubs := %s; hc_mt := %s; hc_ops := %s; hc_subs := %s; hc_results := %s; hc_history := %s; hc_events := %s; hc_metrics := %s; hc_listed := %s |}",
			ce.Bool(kind == "bolt"), size, ce.Bool(tracking), ce.List(reqTerms), ce.List(pubTerms), ce.List(mtPairs), ce.List(ops), ce.List(subTerms), ce.List(resTerms), history, ce.List(evTerms), ce.List(metricsTerms), ce.List(listedTerms))
		nontrivial := len(published) > 1 && len(mtPairs) > 0
		out.Add(term, map[string]any{"transport": kind, "size": size, "tracking": tracking, "ops": opsDesc, "subscribers": subDesc, "history": histDesc, "metrics": metricsDesc},
			nontrivial, "transport:"+kind, fmt.Sprintf("tracking:%v", tracking), fmt.Sprintf("epochs:%d", epoch+1), fmt.Sprintf("closed:%v", closed))
		_ = os.Remove(dbpath)
	}
	return out.Flush()
}

var _ = httptest.NewRecorder
