package main

import (
	"fmt"
	"net/http"
	"net/http/httptest"
	"net/url"
	"strings"
	"time"

	"github.com/dunglas/mercure"
	"github.com/golang-jwt/jwt/v5"

	ce "verifh/coqemit"
	"verifh/hx"
)

func init() { drivers["C02"] = runC02 }

type c02Claim struct {
	Name    string
	Mercure map[string]any // nil = no token at all
	Invalid bool
	SubKey  bool // signed with the subscriber key (not the publisher's), and used once on a subscriber endpoint before every POST
	C       Claims
}

// publisher and subscriber keys differ: a token of one role must never count for the other
const c02SubKey = "!ChangeThisSubscriberJWTKey-C02!"

const c02Allowed, c02Forbidden = "/books/1", "/secret"

func c02Claims() []c02Claim {
	mk := func(name string, pub any, c Claims) c02Claim {
		m := map[string]any{}
		if pub != "absent" {
			m["publish"] = pub
		}
		return c02Claim{Name: name, Mercure: m, C: c}
	}
	l := func(s ...string) Claims { return Claims{Publish: s, HasPub: true} }
	return []c02Claim{
		mk("absent", "absent", Claims{}),
		mk("null", nil, Claims{}),
		mk("empty", []string{}, l()),
		mk("literal-hit", []string{c02Allowed}, l(c02Allowed)),
		mk("literal-miss", []string{"/other"}, l("/other")),
		mk("template-hit", []string{"/books/{id}"}, l("/books/{id}")),
		// several selectors covering the same topic: each topic still has to be covered
		mk("literal-twice", []string{c02Allowed, c02Allowed}, l(c02Allowed, c02Allowed)),
		mk("template-and-literal", []string{"/books/{id}", c02Allowed}, l("/books/{id}", c02Allowed)),
		mk("star-first", []string{"*", "/other"}, l("*", "/other")),
		mk("star-middle", []string{"/other", "*", "/x"}, l("/other", "*", "/x")),
		mk("star-last", []string{"/other", "*"}, l("/other", "*")),
		{Name: "no-token"},
		{Name: "bad-signature", Mercure: map[string]any{"publish": []string{"*"}}, Invalid: true},
		{Name: "subscriber-key-token-just-used-to-subscribe", Mercure: map[string]any{"publish": []string{"*"}, "subscribe": []string{"*"}}, Invalid: true, SubKey: true},
	}
}

type c02Hub struct {
	env     *hx.Env
	witness *hx.Stream
	seen    int // events of the witness already accounted for
	stored  int
	n       int
}

func newC02Hub(kind string, compat bool) *c02Hub {
	opts := []mercure.Option{}
	if compat {
		opts = append(opts, mercure.WithProtocolVersionCompatibility(7))
	}
	opts = append(opts, mercure.WithSubscriberJWT([]byte(c02SubKey), "HS256"))
	env := hx.NewEnv(kind, opts...)
	tok := hx.Token([]byte(c02SubKey), jwt.SigningMethodHS256, map[string]any{"subscribe": []string{"*"}}, nil)
	w := hx.Subscribe(env.Hub, "/.well-known/mercure?topic=*", http.Header{"Authorization": {"Bearer " + tok}})
	w.W.WaitWrites(1, 5*time.Second)
	return &c02Hub{env: env, witness: w}
}

func (h *c02Hub) close() { h.witness.Close(); h.env.Close() }

var c02Admin = hx.HSToken(map[string]any{"publish": []string{"*"}})

// observe posts a sentinel and returns the ids the witness received before it, and (bolt) the ids newly stored.
func (h *c02Hub) observe() ([]string, []string, error) {
	h.n++
	sid := fmt.Sprintf("sentinel-%d", h.n)
	code, _ := hx.Post(h.env.Hub, url.Values{"topic": {"/sentinel"}, "id": {sid}}, http.Header{"Authorization": {"Bearer " + c02Admin}})
	if code != 200 {
		return nil, nil, fmt.Errorf("sentinel refused: %d", code)
	}
	deadline := time.Now().Add(5 * time.Second)
	var ids []string
	for {
		ids = parseSSEIDs(h.witness.W.Body())
		if len(ids) > 0 && ids[len(ids)-1] == sid {
			break
		}
		if time.Now().After(deadline) {
			return nil, nil, fmt.Errorf("sentinel not delivered")
		}
		h.witness.W.WaitWrites(h.witness.W.NumWrites()+1, 100*time.Millisecond)
	}
	delivered := append([]string{}, ids[h.seen:len(ids)-1]...)
	h.seen = len(ids)
	var stored []string
	if h.env.Kind == "bolt" {
		all := hx.Retained(h.env.Transport)
		stored = append([]string{}, all[h.stored:len(all)-1]...)
		h.stored = len(all)
	}
	return delivered, stored, nil
}

func runC02(a args) error {
	out := hx.NewOut(a.out, "HttpCases", "c02_case", "c02_agree", "c02_ok")
	out.ShardSize = 200
	badKeyTok := hx.Token([]byte("another-key-another-key-another-key"), jwt.SigningMethodHS256, map[string]any{"publish": []string{"*"}}, nil)
	bodies := []string{"ok", "no-topic", "bad-retry", "retry-overflow", "wrong-content-type", "unparsable"}
	var topicLists [][]string
	for n := 1; n <= 3; n++ {
		for m := 0; m < 1<<n; m++ {
			var l []string
			for i := 0; i < n; i++ {
				if m>>i&1 == 1 {
					l = append(l, c02Forbidden)
				} else {
					l = append(l, c02Allowed)
				}
			}
			topicLists = append(topicLists, l)
		}
	}
	idc := 0
	for _, kind := range []string{"local", "bolt"} {
		for _, compat := range []bool{false, true} {
			hub := newC02Hub(kind, compat)
			reqs := 0
			for _, cl := range c02Claims() {
				var tok string
				if cl.SubKey {
					tok = hx.Token([]byte(c02SubKey), jwt.SigningMethodHS256, cl.Mercure, nil)
				} else if cl.Invalid {
					tok = badKeyTok
				} else if cl.Mercure != nil {
					tok = hx.HSToken(cl.Mercure)
				}
				for _, topics := range topicLists {
					for _, private := range []bool{false, true} {
						for _, body := range bodies {
							// the full product is enumerated; body variants other than "ok" only with the first two topic lists
							if body != "ok" && len(topics) > 1 {
								continue
							}
							if reqs >= 60 && kind == "bolt" { // keep the replayed history short
								hub.close()
								hub = newC02Hub(kind, compat)
								reqs = 0
							}
							reqs++
							idc++
							form := url.Values{"data": {"d"}}
							switch body {
							case "no-topic":
							default:
								form["topic"] = topics
							}
							if private {
								form["private"] = []string{[]string{"on", "", "0"}[idc%3]}
							}
							explicitID := idc%2 == 0
							if explicitID {
								form.Set("id", fmt.Sprintf("id-%d", idc))
							}
							switch body {
							case "bad-retry":
								form.Set("retry", "12a")
							case "retry-overflow":
								form.Set("retry", "18446744073709551616")
							case "ok":
								if idc%5 == 0 {
									form.Set("retry", "18446744073709551615")
								}
							}
							raw := form.Encode()
							ctype := "application/x-www-form-urlencoded"
							if body == "wrong-content-type" {
								ctype = "text/plain"
							}
							if body == "unparsable" {
								raw = "topic=%zz&data=d"
							}
							q := Req{Post: true}
							if tok != "" {
								q.AuthHdr = []string{"Bearer " + tok}
							}
							r := q.Build(http.MethodPost, "/.well-known/mercure", nil, raw, ctype)
							// oracle for net/http's form decoding: the same request parsed apart from the hub
							r2 := q.Build(http.MethodPost, "/.well-known/mercure", nil, raw, ctype)
							formTerm := "None"
							if r2.ParseForm() == nil {
								formTerm = ce.Some(fmt.Sprintf("{| f_topics := %s; f_retry := %s; f_private := %s; f_data := %s; f_id := %s; f_type := %s |}",
									ce.Strs(r2.PostForm["topic"]), ce.Str(r2.PostForm.Get("retry")), ce.Bool(len(r2.PostForm["private"]) != 0),
									ce.Str(r2.PostForm.Get("data")), ce.Str(r2.PostForm.Get("id")), ce.Str(r2.PostForm.Get("type"))))
							}
							if cl.SubKey {
								// the token is genuine for the other role: it is accepted on a subscriber endpoint just before
								st := hx.Subscribe(hub.env.Hub, "/.well-known/mercure?topic=/elsewhere", http.Header{"Authorization": {"Bearer " + tok}})
								if !st.W.WaitWrites(1, 5*time.Second) || st.W.Status != 200 {
									return fmt.Errorf("the subscriber-key token was refused on the subscribe endpoint: %d", st.W.Status)
								}
								st.Close()
							}
							w := httptest.NewRecorder()
							hub.env.Hub.ServeHTTP(w, r)
							delivered, stored, err := hub.observe()
							if err != nil {
								return err
							}
							env := NewEnv()
							if tok != "" && !cl.Invalid {
								env.Valid(tok, cl.C)
							}
							env.Topics(topics...)
							storedTerm := "None"
							if kind == "bolt" {
								storedTerm = ce.Some(ce.Strs(stored))
							}
							respBody := w.Body.String()
							if w.Code != 200 {
								respBody = strings.TrimSpace(respBody)
							}
							term := fmt.Sprintf("{| c2_env := %s; c2_cfg := %s; c2_req := %s; c2_form := %s; c2_status := %d; c2_body := %s; c2_delivered := %s; c2_stored := %s |}",
								env.Coq(), coqCfg(false, compat, nil, true), q.Coq(), formTerm, w.Code, ce.Str(respBody), ce.Strs(delivered), storedTerm)
							nontrivial := body == "ok" && tok != "" && !cl.Invalid
							out.Add(term, map[string]any{"transport": kind, "compat7": compat, "claim": cl.Name, "topics": topics, "private": private, "body": body,
								"status": w.Code, "response": respBody, "delivered": delivered, "stored": stored}, nontrivial,
								"claim:"+cl.Name, "body:"+body, fmt.Sprintf("status:%d", w.Code), "transport:"+kind, fmt.Sprintf("compat7:%v", compat), fmt.Sprintf("private:%v", private))
						}
					}
				}
			}
			hub.close()
		}
	}
	out.Extra["exhaustive"] = true
	return out.Flush()
}
