package main

import (
	"crypto"
	"crypto/ecdsa"
	"crypto/ed25519"
	"crypto/elliptic"
	"crypto/hmac"
	"crypto/rand"
	"crypto/rsa"
	"crypto/sha256"
	"crypto/sha512"
	"crypto/x509"
	"encoding/base64"
	"encoding/json"
	"encoding/pem"
	"fmt"
	"hash"
	"math/big"
	"net/http"
	"net/http/httptest"
	"net/url"
	"strings"
	"time"

	"github.com/dunglas/mercure"
	"github.com/golang-jwt/jwt/v5"

	ce "verifh/coqemit"
	"verifh/hx"
)

func init() { drivers["C03"] = runC03 }

// a key of one algorithm family the hub accepts
type c03Key struct {
	alg     string
	signKey any    // what golang-jwt signs with (to build valid tokens)
	hubKey  []byte // what the hub is configured with (HMAC secret or PEM public key)
	verify  func(alg string, signingInput, sig []byte) bool
}

func hashFor(alg string) (crypto.Hash, func() hash.Hash) {
	switch alg[2:] {
	case "256":
		return crypto.SHA256, sha256.New
	case "384":
		return crypto.SHA384, sha512.New384
	}
	return crypto.SHA512, sha512.New
}

func pemPub(pub any) []byte {
	b, _ := x509.MarshalPKIXPublicKey(pub)
	return pem.EncodeToMemory(&pem.Block{Type: "PUBLIC KEY", Bytes: b})
}

func c03Keys() []c03Key { return c03KeysWith([]byte(hx.HSKey)) }

// a fresh key of every family (the HMAC secret is given)
func c03KeysWith(secret []byte) []c03Key {
	var ks []c03Key
	for _, a := range []string{"HS256", "HS384", "HS512"} {
		ks = append(ks, c03Key{alg: a, signKey: secret, hubKey: secret, verify: func(alg string, in, sig []byte) bool {
			_, h := hashFor(alg)
			m := hmac.New(h, secret)
			m.Write(in)
			return hmac.Equal(m.Sum(nil), sig)
		}})
	}
	rk, _ := rsa.GenerateKey(rand.Reader, 2048)
	for _, a := range []string{"RS256", "RS512"} {
		ks = append(ks, c03Key{alg: a, signKey: rk, hubKey: pemPub(&rk.PublicKey), verify: func(alg string, in, sig []byte) bool {
			ch, h := hashFor(alg)
			d := h()
			d.Write(in)
			return rsa.VerifyPKCS1v15(&rk.PublicKey, ch, d.Sum(nil), sig) == nil
		}})
	}
	for _, a := range []string{"ES256", "ES384"} {
		curve := elliptic.P256()
		size := 32
		if a == "ES384" {
			curve, size = elliptic.P384(), 48
		}
		ek, _ := ecdsa.GenerateKey(curve, rand.Reader)
		sz := size
		ks = append(ks, c03Key{alg: a, signKey: ek, hubKey: pemPub(&ek.PublicKey), verify: func(alg string, in, sig []byte) bool {
			if len(sig) != 2*sz {
				return false
			}
			_, h := hashFor(alg)
			d := h()
			d.Write(in)
			return ecdsa.Verify(&ek.PublicKey, d.Sum(nil), new(big.Int).SetBytes(sig[:sz]), new(big.Int).SetBytes(sig[sz:]))
		}})
	}
	pub, priv, _ := ed25519.GenerateKey(rand.Reader)
	ks = append(ks, c03Key{alg: "EdDSA", signKey: priv, hubKey: pemPub(pub), verify: func(alg string, in, sig []byte) bool {
		return ed25519.Verify(pub, in, sig)
	}})
	return ks
}

var c03Known = map[string]bool{"HS256": true, "HS384": true, "HS512": true, "RS256": true, "RS384": true, "RS512": true,
	"ES256": true, "ES384": true, "ES512": true, "PS256": true, "PS384": true, "PS512": true, "EdDSA": true, "none": true}

func b64(b []byte) string { return base64.RawURLEncoding.EncodeToString(b) }

type c03Mut struct {
	name string
	tok  string
}

// mutants of a valid token, and forgeries an attacker can build knowing only public material
func c03Mutants(r *hx.Rng, k c03Key, valid string, claims map[string]any, others []c03Key) []c03Mut {
	parts := strings.Split(valid, ".")
	h, p, s := parts[0], parts[1], parts[2]
	payload, _ := json.Marshal(claims)
	hdr := func(alg string) string { return b64([]byte(`{"alg":"` + alg + `","typ":"JWT"}`)) }
	ms := []c03Mut{
		{"valid", valid},
		{"alg-none-empty-signature", hdr("none") + "." + p + "."},
		{"alg-none-keep-signature", hdr("none") + "." + p + "." + s},
		{"alg-lowercase", hdr(strings.ToLower(k.alg)) + "." + p + "." + s},
		{"truncated-signature", h + "." + p + "." + s[:len(s)-2]},
		{"empty-signature", h + "." + p + "."},
		{"two-segments", h + "." + p},
		{"four-segments", valid + "." + s},
		{"double-separator", h + ".." + p + "." + s},
		{"padded-signature", h + "." + p + "." + s + "="},
		{"std-alphabet-signature", h + "." + p + "." + strings.NewReplacer("-", "+", "_", "/").Replace(s)},
		{"payload-reencoded-with-space", h + "." + b64(append([]byte(" "), payload...)) + "." + s},
		{"swapped-header-payload", p + "." + h + "." + s},
		// truncations down to nothing: a credential that is present is judged, however short
		{"truncated-to-nothing", ""},
		{"truncated-to-header", h},
		{"truncated-mid-payload", h + "." + p[:len(p)/2]},
	}
	// HMAC keyed with what the attacker knows: the hub's public PEM (asymmetric roles), or a guess
	for _, ha := range []string{"HS256", "HS512"} {
		secret := k.hubKey
		if strings.HasPrefix(k.alg, "HS") {
			secret = []byte("guessed-secret-guessed-secret-guessed")
		}
		t := jwt.NewWithClaims(jwt.GetSigningMethod(ha), jwt.MapClaims(claims))
		if st, err := t.SignedString(secret); err == nil {
			ms = append(ms, c03Mut{"hmac-" + ha + "-keyed-with-public-material", st})
		}
	}
	// a token correctly signed for another key / algorithm family
	for _, o := range others {
		if o.alg == k.alg {
			continue
		}
		t := jwt.NewWithClaims(jwt.GetSigningMethod(o.alg), jwt.MapClaims(claims))
		if st, err := t.SignedString(o.signKey); err == nil {
			ms = append(ms, c03Mut{"signed-with-" + o.alg + "-key", st})
		}
	}
	// bit flips in each segment
	flip := func(seg string) string {
		b := []byte(seg)
		i := r.Intn(len(b))
		alphabet := "ABCDEFGHIJKLMNOPQRSTUVWXYZabcdefghijklmnopqrstuvwxyz0123456789-_"
		for {
			c := alphabet[r.Intn(64)]
			if c != b[i] {
				b[i] = c
				break
			}
		}
		return string(b)
	}
	for i := 0; i < 3; i++ {
		ms = append(ms, c03Mut{"flip-header", flip(h) + "." + p + "." + s}, c03Mut{"flip-payload", h + "." + flip(p) + "." + s}, c03Mut{"flip-signature", h + "." + p + "." + flip(s)})
	}
	return ms
}

type c03Oracle struct {
	b64   map[string]*string
	alg   *string
	known bool
	sigOK bool
	cl    *struct {
		exp, nbf *int64
		pub, sub []string
		hasPub   bool
		hasSub   bool
	}
}

// c03ShapeOK: does the payload decode into the hub's claims structure (mercure: absent, null or an object whose publish /
// subscribe members are absent, null or lists of strings)
func c03ShapeOK(pl map[string]any) bool {
	m, present := pl["mercure"]
	if !present || m == nil {
		return true
	}
	mm, ok := m.(map[string]any)
	if !ok {
		return false
	}
	for _, k := range []string{"publish", "subscribe"} {
		v, p := mm[k]
		if !p || v == nil {
			continue
		}
		l, ok := v.([]any)
		if !ok {
			return false
		}
		for _, e := range l {
			if _, ok := e.(string); !ok && e != nil {
				return false
			}
		}
	}
	return true
}

func strictB64(s string) *string {
	b, err := base64.RawURLEncoding.Strict().DecodeString(s)
	if err != nil {
		// golang-jwt decodes with RawURLEncoding (non strict): trailing bits are tolerated
		b, err = base64.RawURLEncoding.DecodeString(s)
		if err != nil {
			return nil
		}
	}
	x := string(b)
	return &x
}

func runC03(a args) error {
	r := hx.NewRng(a.seed)
	out := hx.NewOut(a.out, "Jwt", "jwt_case", "jwt_agree", "jwt_ok")
	out.ShardSize = 40
	keys := c03Keys()
	keysB := c03KeysWith([]byte("another-secret-for-the-other-role-0123456789"))
	now := time.Now()
	perKey := (a.n + 1) / 2
	for kv := 0; kv < 2*len(keys); kv++ {
		ki := kv / 2
		k := keys[ki]
		// the hub: the subscriber's key is of another algorithm (even kv) or another key of the SAME algorithm (odd kv):
		// publisher and subscriber keys are not interchangeable either way
		other := keys[(ki+1)%len(keys)]
		if kv%2 == 1 {
			other = keysB[ki]
		}
		for _, anonymous := range []bool{false, true} {
			opts := []mercure.Option{mercure.WithLogger(hx.Logger), mercure.WithTransport(mercure.NewLocalTransport()), mercure.WithHeartbeat(0), mercure.WithWriteTimeout(0),
				mercure.WithPublisherJWT(k.hubKey, k.alg), mercure.WithSubscriberJWT(other.hubKey, other.alg), mercure.WithSubscriptions(), mercure.WithPublishOrigins([]string{"*"})}
			if anonymous {
				opts = append(opts, mercure.WithAnonymous())
			}
			hub, err := mercure.NewHub(opts...)
			if err != nil {
				return fmt.Errorf("%s: %w", k.alg, err)
			}
			for n := 0; n < perKey; n++ {
				claims := map[string]any{"mercure": map[string]any{"publish": []string{"*"}, "subscribe": []string{"*"}}}
				// one draw in five: a mercure claim of a shape the hub's claims structure cannot hold (the payload does not decode:
				// the token is invalid whatever its signature)
				shape := "object"
				if n >= 18 && r.Chance(0.2) {
					shapes := []struct {
						name string
						v    any
					}{{"empty-list", []any{}}, {"string", "admin"}, {"number", 7}, {"list-of-selectors", []string{"*"}}, {"true", true},
						{"publish-is-a-string", map[string]any{"publish": "*", "subscribe": []string{"*"}}},
						{"subscribe-is-an-object", map[string]any{"publish": []string{"*"}, "subscribe": map[string]any{}}},
						{"publish-holds-a-number", map[string]any{"publish": []any{1}, "subscribe": []string{"*"}}}}
					sh := shapes[r.Intn(len(shapes))]
					shape = sh.name
					claims["mercure"] = sh.v
				}
				offset := []int64{0, 0, 3600, -3600, 2, -2}[r.Intn(6)]
				kind := r.Intn(3)
				// the first 18 draws of every hub are systematic: a token correctly signed for the endpoint's role but expired
				// (resp. not yet valid), on every endpoint through every carrier
				systematic := n < 18
				if systematic {
					kind = n / 9
					offset = []int64{-3600, 3600}[kind]
				}
				if offset != 0 && kind == 0 {
					claims["exp"] = now.Unix() + offset
				} else if offset != 0 && kind == 1 {
					claims["nbf"] = now.Unix() + offset
				}
				// the token is issued for one role (publisher key k, subscriber key other) and sent to any endpoint:
				// publisher and subscriber keys are not interchangeable
				issuer := k
				if r.Chance(0.5) {
					issuer = other
				}
				if systematic {
					issuer = k
					if n%3 != 0 {
						issuer = other
					}
				}
				t := jwt.NewWithClaims(jwt.GetSigningMethod(issuer.alg), jwt.MapClaims(claims))
				valid, err := t.SignedString(issuer.signKey)
				if err != nil {
					return err
				}
				muts := c03Mutants(r, issuer, valid, claims, []c03Key{keys[(ki+2)%len(keys)], keys[(ki+3)%len(keys)]})
				// one mutant per token draw, plus the valid one now and then
				m := muts[r.Intn(len(muts))]
				if n%6 == 0 || (shape != "object" && r.Chance(0.5)) {
					m = muts[0]
				}
				endpoint := []string{"publish", "subscribe", "subscriptions"}[r.Intn(3)]
				if systematic {
					m = muts[0]
					endpoint = []string{"publish", "subscribe", "subscriptions"}[n%3]
				}
				role := k // the key and algorithm configured for the endpoint's role
				if endpoint != "publish" {
					role = other
				}
				// the carrier: Authorization header, authorization query parameter, or the cookie (with an Origin for the POST)
				carrier := []string{"header", "query", "cookie"}[r.Intn(3)]
				if systematic {
					carrier = []string{"header", "query", "cookie"}[(n/3)%3]
				}
				hdr := http.Header{}
				qs := ""
				switch carrier {
				case "header":
					hdr.Set("Authorization", "Bearer "+m.tok)
				case "query":
					qs = "authorization=" + url.QueryEscape(m.tok)
				case "cookie":
					hdr.Set("Cookie", "mercureAuthorization="+m.tok)
					hdr.Set("Origin", "https://example.com")
				}
				var status int
				reqAt := time.Now()
				switch endpoint {
				case "publish":
					rq := httptest.NewRequest(http.MethodPost, "/.well-known/mercure?"+qs, strings.NewReader(url.Values{"topic": {"t"}, "data": {"d"}}.Encode()))
					rq.Header = hdr
					rq.Header.Set("Content-Type", "application/x-www-form-urlencoded")
					w := httptest.NewRecorder()
					hub.ServeHTTP(w, rq)
					status = w.Code
				case "subscriptions":
					rq := httptest.NewRequest(http.MethodGet, "/.well-known/mercure/subscriptions?"+qs, nil)
					rq.Header = hdr
					w := httptest.NewRecorder()
					hub.ServeHTTP(w, rq)
					status = w.Code
				case "subscribe":
					target := "/.well-known/mercure?topic=t"
					if qs != "" {
						target += "&" + qs
					}
					st := hx.Subscribe(hub, target, hdr)
					deadline := time.Now().Add(2 * time.Second)
					for time.Now().Before(deadline) && st.W.NumWrites() == 0 && !st.Finished(0) {
						time.Sleep(50 * time.Microsecond)
					}
					status = st.W.Status
					st.Close()
				}
				// the independent verifier
				segs := strings.Split(m.tok, ".")
				var b64T []string
				seen := map[string]bool{}
				for _, sg := range segs {
					if seen[sg] {
						continue
					}
					seen[sg] = true
					d := strictB64(sg)
					b64T = append(b64T, ce.Pair(ce.Str(sg), ce.OptStr(d)))
				}
				algT, claimsT := "None", "None"
				known, sigOK := false, false
				if len(segs) == 3 {
					if hj := strictB64(segs[0]); hj != nil {
						var hd map[string]any
						if json.Unmarshal([]byte(*hj), &hd) == nil {
							if av, ok := hd["alg"].(string); ok {
								algT = ce.Some(ce.Str(av))
								known = c03Known[av]
								if sg := strictB64(segs[2]); sg != nil && av == role.alg {
									sigOK = role.verify(role.alg, []byte(segs[0]+"."+segs[1]), []byte(*sg))
								}
							}
						}
					}
					if pj := strictB64(segs[1]); pj != nil {
						var pl map[string]any
						if json.Unmarshal([]byte(*pj), &pl) == nil && c03ShapeOK(pl) {
							num := func(key string) string {
								if v, ok := pl[key].(float64); ok {
									return fmt.Sprintf("(Some (%d)%%Z)", int64(v))
								}
								return "None"
							}
							claimsT = ce.Some(fmt.Sprintf("{| jc_claims := {| c_publish := Some [[42]]; c_subscribe := Some [[42]] |}; jc_exp := %s; jc_nbf := %s |}", num("exp"), num("nbf")))
						}
					}
				}
				granted := status >= 200 && status < 300
				term := fmt.Sprintf("{| jw_cfg_alg := %s; jw_now := (%d)%%Z; jw_token := %s; jw_b64 := %s; jw_alg := %s; jw_claims := %s; jw_known := %s; jw_sig_ok := %s; jw_granted := %s |}",
					ce.Str(role.alg), reqAt.Unix(), ce.Str(m.tok), ce.List(b64T), algT, claimsT, ce.Bool(known), ce.Bool(sigOK), ce.Bool(granted))
				out.Add(term, map[string]any{"publisher_alg": k.alg, "subscriber_alg": other.alg, "token_issued_with": issuer.alg, "anonymous": anonymous, "mutation": m.name, "endpoint": endpoint, "carrier": carrier, "status": status, "exp_or_nbf_offset": offset, "mercure_claim_shape": shape,
					"independent_verifier": map[string]any{"signature_ok": sigOK, "alg_known": known}},
					m.name != "valid" || issuer.alg != role.alg || shape != "object", "role-alg:"+role.alg, "claim-shape:"+shape, fmt.Sprintf("issued-for-this-role:%v", issuer.alg == role.alg), "mutation:"+m.name, "endpoint:"+endpoint, "carrier:"+carrier, fmt.Sprintf("same-alg-other-key:%v", kv%2 == 1), fmt.Sprintf("status:%d", status), fmt.Sprintf("anonymous:%v", anonymous))
			}
			_ = hub.Stop()
		}
	}
	return out.Flush()
}
