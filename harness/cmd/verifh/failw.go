package main

import (
	"fmt"
	"net/http"
	"net/url"
	"os"
	"path/filepath"
	"strconv"
	"strings"
	"syscall"
	"time"

	"github.com/dunglas/mercure"

	"verifh/hx"
)

func init() { drivers["FAILW"] = runFailW }

// runFailW: a publish whose write transaction fails (the id makes the key larger than bbolt accepts). Whatever the hub
// answers, an update that was acknowledged (200 with the id) or handed to a subscriber must be in the history file -
// read here with bbolt from a copy of the file, as a process killed at that instant would find it.
func runFailW(a args) error {
	out := hx.NewOut(a.out, "MassCases", "fw_case", "fw_ok", "fw_ok")
	auth := http.Header{"Authorization": {"Bearer " + hx.HSToken(map[string]any{"publish": []string{"*"}})}}
	// a write transaction that fails at commit time: the database file's descriptor is replaced, behind bbolt's back, by a
	// read-only one, so that everything up to the commit succeeds and the commit's writes fail (an I/O error at that instant)
	for i := 0; i < (a.n+1)/2; i++ {
		env := hx.NewEnv("bolt", mercure.WithAnonymous())
		live := hx.Subscribe(env.Hub, "/.well-known/mercure?topic=t", nil)
		live.W.WaitWrites(1, 5*time.Second)
		if code, _ := hx.Post(env.Hub, url.Values{"topic": {"t"}, "id": {"first"}, "data": {"1"}}, auth); code != 200 {
			return fmt.Errorf("first publish refused: %d", code)
		}
		if err := breakWrites(env.DBPath); err != nil {
			return err
		}
		code, body := func() (c int, b string) {
			defer func() {
				if recover() != nil {
					c, b = 0, ""
				}
			}()
			return hx.Post(env.Hub, url.Values{"topic": {"t"}, "id": {"second"}, "data": {"2"}}, auth)
		}()
		lastAfter := "?"
		if ts, ok := env.Transport.(mercure.TransportSubscribers); ok {
			lastAfter, _, _ = ts.GetSubscribers()
		}
		live.W.WaitWrites(live.W.NumWrites()+1, 200*time.Millisecond)
		delivered := strings.Contains(live.W.Body(), "id: second\n")
		stored, err := hx.BoltIDsOfCopy(env.DBPath)
		if err != nil {
			return err
		}
		has := func(id string) bool {
			for _, s := range stored {
				if s == id {
					return true
				}
			}
			return false
		}
		acked := code == 200 && strings.TrimSpace(body) == "second"
		live.Close()
		env.Close()
		term := fmt.Sprintf("{| fw_status := %d; fw_acked := %v; fw_delivered := %v; fw_stored := %v; fw_others_stored := %v; fw_last_is_previous := %v |}", code, acked, delivered, has("second"), has("first"), lastAfter == "first")
		out.Add(term, map[string]any{"fault": "commit fails (descriptor made read-only)", "status": code, "acknowledged": acked, "delivered_live": delivered, "stored": has("second"), "stored_ids_count": len(stored), "last_event_id_is_previous": lastAfter == "first"}, true, fmt.Sprintf("status:%d", code), "fault:commit")
	}
	for i := 0; i < a.n; i++ {
		size := []int{32761, 40000, 70000, 33000}[i%4]
		env := hx.NewEnv("bolt", mercure.WithAnonymous())
		live := hx.Subscribe(env.Hub, "/.well-known/mercure?topic=t", nil)
		live.W.WaitWrites(1, 5*time.Second)
		if code, _ := hx.Post(env.Hub, url.Values{"topic": {"t"}, "id": {"first"}, "data": {"1"}}, auth); code != 200 {
			return fmt.Errorf("first publish refused: %d", code)
		}
		big := strings.Repeat("k", size)
		// the handler panics on a transport error; net/http recovers it and aborts the response (no status is sent): 0 here
		code, body := func() (c int, b string) {
			defer func() {
				if recover() != nil {
					c, b = 0, ""
				}
			}()
			return hx.Post(env.Hub, url.Values{"topic": {"t"}, "id": {big}, "data": {"2"}}, auth)
		}()
		// the hub's last event id right after the refusal: the id of the last stored update
		lastAfter := "?"
		if ts, ok := env.Transport.(mercure.TransportSubscribers); ok {
			lastAfter, _, _ = ts.GetSubscribers()
		}
		if c, _ := hx.Post(env.Hub, url.Values{"topic": {"t"}, "id": {"last"}, "data": {"3"}}, auth); c != 200 {
			return fmt.Errorf("last publish refused: %d", c)
		}
		deadline := time.Now().Add(5 * time.Second)
		for !strings.Contains(live.W.Body(), "id: last\n") {
			if time.Now().After(deadline) {
				return fmt.Errorf("sentinel not delivered")
			}
			live.W.WaitWrites(live.W.NumWrites()+1, 100*time.Millisecond)
		}
		delivered := strings.Contains(live.W.Body(), "id: "+big+"\n")
		stored, err := hx.BoltIDsOfCopy(env.DBPath)
		if err != nil {
			return err
		}
		has := func(id string) bool {
			for _, s := range stored {
				if s == id {
					return true
				}
			}
			return false
		}
		acked := code == 200 && strings.TrimSpace(body) == big
		live.Close()
		env.Close()
		term := fmt.Sprintf("{| fw_status := %d; fw_acked := %v; fw_delivered := %v; fw_stored := %v; fw_others_stored := %v; fw_last_is_previous := %v |}", code, acked, delivered, has(big), has("first") && has("last"), lastAfter == "first")
		out.Add(term, map[string]any{"id_bytes": size, "status": code, "acknowledged": acked, "delivered_live": delivered, "stored": has(big), "stored_ids_count": len(stored), "last_event_id_after_the_refusal_bytes": len(lastAfter), "last_event_id_is_previous": lastAfter == "first"}, true, fmt.Sprintf("status:%d", code), fmt.Sprintf("id-bytes:%d", size))
	}
	// a write transaction that fails during retention cleanup: the oldest key of the bucket is one bbolt refuses to delete
	// (a nested bucket, sequence number 0), so the transaction that stores the third update and trims the history fails as a
	// whole and is rolled back - the update of that very transaction included
	for i := 0; i < (a.n+3)/4; i++ {
		dir := hx.WorkDir()
		path := filepath.Join(dir, "trim.db")
		if err := hx.BoltNestedBucketAtZero(path); err != nil {
			return err
		}
		t, err := mercure.NewBoltTransport(hx.Logger, path, "", 2, 1)
		if err != nil {
			return err
		}
		env := hx.NewEnvWith("bolt", dir, path, t, mercure.WithAnonymous())
		live := hx.Subscribe(env.Hub, "/.well-known/mercure?topic=t", nil)
		live.W.WaitWrites(1, 5*time.Second)
		for _, id := range []string{"first", "previous"} {
			if code, _ := hx.Post(env.Hub, url.Values{"topic": {"t"}, "id": {id}, "data": {"1"}}, auth); code != 200 {
				return fmt.Errorf("publish %s refused: %d", id, code)
			}
		}
		nPub := 1 + i%3 // the failing publish, then possibly more (each of them trims again, and fails again)
		for j := 0; j < nPub; j++ {
			id := fmt.Sprintf("second%d", j)
			code, body := func() (c int, b string) {
				defer func() {
					if recover() != nil {
						c, b = 0, ""
					}
				}()
				return hx.Post(env.Hub, url.Values{"topic": {"t"}, "id": {id}, "data": {"2"}}, auth)
			}()
			lastAfter := "?"
			if ts, ok := env.Transport.(mercure.TransportSubscribers); ok {
				lastAfter, _, _ = ts.GetSubscribers()
			}
			live.W.WaitWrites(live.W.NumWrites()+1, 200*time.Millisecond)
			delivered := strings.Contains(live.W.Body(), "id: "+id+"\n")
			stored, err := hx.BoltIDsOfCopy(env.DBPath)
			if err != nil {
				return err
			}
			has := func(id string) bool {
				for _, s := range stored {
					if s == id {
						return true
					}
				}
				return false
			}
			acked := code == 200 && strings.TrimSpace(body) == id
			prev := "previous"
			if j > 0 && has(fmt.Sprintf("second%d", j-1)) {
				prev = fmt.Sprintf("second%d", j-1)
			}
			term := fmt.Sprintf("{| fw_status := %d; fw_acked := %v; fw_delivered := %v; fw_stored := %v; fw_others_stored := %v; fw_last_is_previous := %v |}", code, acked, delivered, has(id), has("previous"), lastAfter == prev)
			out.Add(term, map[string]any{"fault": "history trimming fails (the oldest key is a nested bucket)", "publish_after_the_window_filled": j, "status": code, "acknowledged": acked, "delivered_live": delivered, "stored": has(id), "stored_ids_count": len(stored), "last_event_id_is_previous": lastAfter == prev}, true, fmt.Sprintf("status:%d", code), "fault:trim")
		}
		live.Close()
		env.Close()
	}
	return out.Flush()
}

// breakWrites replaces every descriptor this process holds on path by a read-only descriptor on /dev/null (dup2 keeps the
// number occupied, so that no file opened later can receive bbolt's writes).
func breakWrites(path string) error {
	null, err := syscall.Open("/dev/null", syscall.O_RDONLY, 0)
	if err != nil {
		return err
	}
	defer syscall.Close(null)
	ents, err := os.ReadDir("/proc/self/fd")
	if err != nil {
		return err
	}
	n := 0
	for _, e := range ents {
		if l, err := os.Readlink("/proc/self/fd/" + e.Name()); err == nil && l == path {
			fd, _ := strconv.Atoi(e.Name())
			if err := syscall.Dup2(null, fd); err != nil {
				return err
			}
			n++
		}
	}
	if n == 0 {
		return fmt.Errorf("no descriptor on %s", path)
	}
	return nil
}

// breakWritesTemporarily is breakWrites with a way back: the returned function puts the original descriptors back.
func breakWritesTemporarily(path string) (func(), error) {
	null, err := syscall.Open("/dev/null", syscall.O_RDONLY, 0)
	if err != nil {
		return nil, err
	}
	defer syscall.Close(null)
	ents, err := os.ReadDir("/proc/self/fd")
	if err != nil {
		return nil, err
	}
	type pair struct{ fd, saved int }
	var fds []int // collected first: the duplicates made below would otherwise be listed (and broken) too
	for _, e := range ents {
		if l, err := os.Readlink("/proc/self/fd/" + e.Name()); err == nil && l == path {
			fd, _ := strconv.Atoi(e.Name())
			fds = append(fds, fd)
		}
	}
	var ps []pair
	for _, fd := range fds {
		saved, err := syscall.Dup(fd)
		if err != nil {
			return nil, err
		}
		if err := syscall.Dup2(null, fd); err != nil {
			return nil, err
		}
		ps = append(ps, pair{fd, saved})
	}
	if len(ps) == 0 {
		return nil, fmt.Errorf("no descriptor on %s", path)
	}
	return func() {
		for _, p := range ps {
			_ = syscall.Dup2(p.saved, p.fd)
			_ = syscall.Close(p.saved)
		}
	}, nil
}
