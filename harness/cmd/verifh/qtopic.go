package main

import (
	"fmt"
	"net/http"
	"net/http/httptest"
	"net/url"
	"strings"
	"time"

	"verifh/hx"
)

func init() { drivers["QTOPIC"] = runQTopic }

// runQTopic: publish requests whose URL carries update fields in its query string (topic, data, id, type, private). A
// publish request is a form-encoded body: only the body's fields are authorised, and only they may end up in the update.
// Two witnesses: one subscribed to everything, one subscribed only to a topic the publisher's claim does not cover.
func runQTopic(a args) error {
	out := hx.NewOut(a.out, "MassCases", "qt_case", "qt_ok", "qt_ok")
	out.ShardSize = 100
	const allowed, secret = "https://example.com/books/1", "https://example.com/secret/42"
	pubTok := hx.HSToken(map[string]any{"publish": []string{allowed}})
	subTok := hx.HSToken(map[string]any{"subscribe": []string{"*"}})
	subHdr := http.Header{"Authorization": {"Bearer " + subTok}}
	ci := -1
	for mask := 0; mask < 32; mask++ {
		for _, bodyTopic := range []bool{true, false} {
			for _, private := range []bool{false, true} {
				for _, kind := range []string{"local", "bolt"} {
					ci++
					env := hx.NewEnv(kind)
					all := hx.Subscribe(env.Hub, "/.well-known/mercure?topic=*", subHdr)
					sec := hx.Subscribe(env.Hub, "/.well-known/mercure?topic="+url.QueryEscape(secret), subHdr)
					all.W.WaitWrites(1, 5*time.Second)
					sec.W.WaitWrites(1, 5*time.Second)
					// the query string: every subset of the update fields
					q := url.Values{}
					var inQuery []string
					for bit, f := range []string{"topic", "data", "id", "type", "private"} {
						if mask>>bit&1 == 1 {
							inQuery = append(inQuery, f)
							switch f {
							case "topic":
								q.Add("topic", secret)
							case "data":
								q.Set("data", "from-the-query")
							case "id":
								q.Set("id", "query-id")
							case "type":
								q.Set("type", "query-type")
							case "private":
								q.Set("private", "on")
							}
						}
					}
					form := url.Values{"data": {"from-the-body"}, "id": {fmt.Sprintf("body-id-%d", ci)}}
					if bodyTopic {
						form.Set("topic", allowed)
					}
					if private {
						form.Set("private", "on")
					}
					target := "/.well-known/mercure"
					if len(q) > 0 {
						target += "?" + q.Encode()
					}
					rq := httptest.NewRequest(http.MethodPost, target, strings.NewReader(form.Encode()))
					rq.Header.Set("Content-Type", "application/x-www-form-urlencoded")
					rq.Header.Set("Authorization", "Bearer "+pubTok)
					w := httptest.NewRecorder()
					env.Hub.ServeHTTP(w, rq)
					// a sentinel on both witnesses' topics closes the observation window
					admin := http.Header{"Authorization": {"Bearer " + c02Admin}}
					if code, _ := hx.Post(env.Hub, url.Values{"topic": {allowed, secret}, "id": {"sentinel"}}, admin); code != 200 {
						return fmt.Errorf("sentinel refused: %d", code)
					}
					for _, s := range []*hx.Stream{all, sec} {
						deadline := time.Now().Add(5 * time.Second)
						for !strings.Contains(s.W.Body(), "id: sentinel\n") {
							if time.Now().After(deadline) {
								return fmt.Errorf("sentinel not delivered")
							}
							s.W.WaitWrites(s.W.NumWrites()+1, 100*time.Millisecond)
						}
					}
					// events before the sentinel, as (id code, data code, type code): 1 = the body's value, 2 = the query's, 0 = anything else
					codes := func(body string) []string {
						var l []string
						for _, ev := range strings.Split(body, "\n\n") {
							if !strings.Contains(ev, "id: ") || strings.Contains(ev, "id: sentinel") {
								continue
							}
							id, data, typ := 0, 0, 1
							for _, ln := range strings.Split(ev, "\n") {
								switch {
								case ln == "id: "+form.Get("id"):
									id = 1
								case ln == "id: query-id":
									id = 2
								case ln == "data: from-the-body":
									data = 1
								case ln == "data: from-the-query":
									data = 2
								case strings.HasPrefix(ln, "event: query-type"):
									typ = 2
								case strings.HasPrefix(ln, "event: "):
									typ = 0
								}
							}
							l = append(l, fmt.Sprintf("(%d, %d, %d)", id, data, typ))
						}
						return l
					}
					allEv, secEv := codes(all.W.Body()), codes(sec.W.Body())
					all.Close()
					sec.Close()
					env.Close()
					term := fmt.Sprintf("{| qt_status := %d; qt_body_topic := %v; qt_all := [%s]; qt_secret := [%s] |}", w.Code, bodyTopic, strings.Join(allEv, "; "), strings.Join(secEv, "; "))
					hasTopic := false
					for _, f := range inQuery {
						hasTopic = hasTopic || f == "topic"
					}
					out.Add(term, map[string]any{"transport": kind, "fields_in_query": inQuery, "topic_in_body": bodyTopic, "status": w.Code, "events_on_star": allEv, "events_on_secret": secEv},
						hasTopic, "transport:"+kind, fmt.Sprintf("topic-in-query:%v", hasTopic), fmt.Sprintf("topic-in-body:%v", bodyTopic), fmt.Sprintf("status:%d", w.Code))
				}
			}
		}
	}
	out.Extra["exhaustive"] = true
	return out.Flush()
}
